(* FsProofs.v — crash safety of syscall programs over the model of Model/Fs.v.

   Main results (all for ARBITRARY programs p, images and starting states):
     crash_outcomes_complete / _sound : the enumerator is exactly `crash`
     well_ordered_sound  : a program accepted by the checker is crash safe at
                           every instant, and durable once completed
     fail_sound          : a failure injected at any checked call leaves a
                           well-formed state (old, or new only after the rename)
     history_sound       : any history of successful and failed commits *)
From Coq Require Import List Arith Lia Bool.
From Lungo.Model Require Import Base Fs.
Import ListNotations.
Open Scope list_scope.

(* ------------------------------------------------------------------ *)
(* Lists.                                                              *)

Lemma upd_length : forall A (l : list A) i x, List.length (upd l i x) = List.length l.
Proof. induction l; destruct i; simpl; intros; auto. Qed.

Lemma nth_error_upd_same : forall A (l : list A) i x,
  i < List.length l -> nth_error (upd l i x) i = Some x.
Proof.
  induction l; destruct i; simpl; intros; try lia; auto.
  apply IHl. lia.
Qed.

Lemma nth_error_upd_other : forall A (l : list A) i j x,
  i <> j -> nth_error (upd l i x) j = nth_error l j.
Proof.
  induction l; destruct i; destruct j; simpl; intros; auto; try lia.
Qed.

Lemma nth_error_lt : forall A (l : list A) i x, nth_error l i = Some x -> i < List.length l.
Proof. intros. apply nth_error_Some. congruence. Qed.

Lemma nth_error_app_old : forall A (l m : list A) i x,
  nth_error l i = Some x -> nth_error (l ++ m) i = Some x.
Proof. intros. rewrite nth_error_app1; auto. eapply nth_error_lt; eauto. Qed.

Lemma nth_error_app_new : forall A (l : list A) x, nth_error (l ++ [x]) (List.length l) = Some x.
Proof. intros. rewrite nth_error_app2 by lia. rewrite Nat.sub_diag. reflexivity. Qed.

Lemma Forall2_nth_error : forall A B (R : A -> B -> Prop) l l' i x,
  Forall2 R l l' -> nth_error l i = Some x -> exists y, nth_error l' i = Some y /\ R x y.
Proof.
  induction l; intros l' i x H Hn; inversion H; subst.
  - destruct i; discriminate.
  - destruct i; simpl in *.
    + inversion Hn; subst. eauto.
    + eauto.
Qed.

Lemma list_nat_eqb_eq : forall a b, list_nat_eqb a b = true <-> a = b.
Proof.
  induction a; destruct b; simpl; split; intros; try discriminate; auto.
  - apply andb_true_iff in H. destruct H as [H1 H2]. apply Nat.eqb_eq in H1. apply IHa in H2. congruence.
  - inversion H; subst. apply andb_true_iff. split. apply Nat.eqb_refl. apply IHa. auto.
Qed.

Lemma cont_eqb_eq : forall a b, cont_eqb a b = true <-> a = b.
Proof.
  destruct a, b; simpl; split; intros; try discriminate; auto.
  - apply list_nat_eqb_eq in H. congruence.
  - inversion H. apply list_nat_eqb_eq. auto.
Qed.

Lemma lres_eqb_eq : forall a b, lres_eqb a b = true <-> a = b.
Proof.
  destruct a, b; simpl; split; intros; try discriminate; auto.
  - apply list_nat_eqb_eq in H. congruence.
  - inversion H. apply list_nat_eqb_eq. auto.
Qed.

Lemma in_prefixes : forall A (l pre : list A), In pre (prefixes l) <-> exists suf, l = pre ++ suf.
Proof.
  induction l; simpl; intros.
  - split.
    + intros [H | []]. subst. exists []. reflexivity.
    + intros [suf H]. destruct pre; [auto | discriminate].
  - split.
    + intros [H | H].
      * subst. eexists. reflexivity.
      * apply in_map_iff in H. destruct H as [q [Hq Hin]]. subst.
        apply IHl in Hin. destruct Hin as [suf Hs]. exists suf. simpl. congruence.
    + intros [suf H]. destruct pre.
      * auto.
      * right. simpl in H. inversion H; subst. apply in_map. apply IHl. eauto.
Qed.

Lemma in_choices : forall A (l : list (list A)) x,
  In x (choices l) <-> Forall2 (fun c y => In y c) l x.
Proof.
  induction l; simpl; intros.
  - split.
    + intros [H | []]. subst. constructor.
    + intros H. inversion H. auto.
  - split.
    + intros H. apply in_flat_map in H. destruct H as [y [Hy H]].
      apply in_map_iff in H. destruct H as [r [Hr Hin]]. subst.
      constructor; auto. apply IHl. auto.
    + intros H. inversion H; subst. apply in_flat_map. exists y. split; auto.
      apply in_map. apply IHl. auto.
Qed.

(* ------------------------------------------------------------------ *)
(* The crash relation and its enumerator.                              *)

Definition crash_file (f f' : file) : Prop :=
  (vol f = dur f /\ f' = f) \/
  (vol f <> dur f /\ exists c, f' = mkfile c c /\
     (c = dur f \/ c = Garbage \/
      exists l pre suf, vol f = Bytes l /\ l = pre ++ suf /\ c = Bytes pre)).

Definition crash (s s' : fs) : Prop :=
  Forall2 crash_file (inodes s) (inodes s') /\
  exists k, k <= List.length (pend s) /\ ddur s' = dstate s k /\
            pend s' = [] /\ fd s' = None /\ dfd s' = false.

Lemma in_file_outcomes : forall f f', In f' (file_outcomes f) <-> crash_file f f'.
Proof.
  intros. unfold file_outcomes, crash_file.
  destruct (cont_eqb (vol f) (dur f)) eqn:E.
  - apply cont_eqb_eq in E. simpl. split.
    + intros [H | []]. left. auto.
    + intros [[_ H] | [H _]]; [left; auto | contradiction].
  - assert (N : vol f <> dur f). { intro H. apply cont_eqb_eq in H. congruence. }
    split.
    + intros H. right. split; auto. apply in_map_iff in H. destruct H as [c [Hc Hin]].
      exists c. split; auto. simpl in Hin. destruct Hin as [H | [H | H]]; auto.
      right. right. unfold cont_prefixes in H. destruct (vol f) eqn:V; [| destruct H].
      apply in_map_iff in H. destruct H as [pre [Hp Hin]]. apply in_prefixes in Hin.
      destruct Hin as [suf Hs]. exists l, pre, suf. auto.
    + intros [[H _] | [_ [c [Hc H]]]]; [contradiction |]. subst f'.
      apply in_map_iff. exists c. split; auto. simpl.
      destruct H as [H | [H | [l [pre [suf [V [Hl Hc]]]]]]]; auto.
      right. right. rewrite V. simpl. subst c. apply in_map. apply in_prefixes. eauto.
Qed.

Lemma Forall2_impl' : forall A B (R R' : A -> B -> Prop) l l',
  (forall a b, R a b -> R' a b) -> Forall2 R l l' -> Forall2 R' l l'.
Proof. induction 2; constructor; auto. Qed.

Lemma Forall2_map_l : forall A B C (f : A -> B) (R : B -> C -> Prop) l l',
  Forall2 R (map f l) l' <-> Forall2 (fun x y => R (f x) y) l l'.
Proof.
  induction l; simpl; intros; split; intros H; inversion H; subst; constructor; auto; apply IHl; auto.
Qed.

Theorem crash_outcomes_complete : forall s s', crash s s' -> In s' (crash_outcomes s).
Proof.
  intros s s' [Hf [k [Hk [Hd [Hp [Hfd Hdfd]]]]]].
  unfold crash_outcomes. apply in_flat_map. exists (inodes s'). split.
  - apply in_choices. apply Forall2_map_l.
    eapply Forall2_impl'; [| exact Hf]. intros a b H. apply in_file_outcomes. exact H.
  - apply in_map_iff. exists k. split.
    + destruct s'; simpl in *. subst. reflexivity.
    + apply in_seq. lia.
Qed.

Theorem crash_outcomes_sound : forall s s', In s' (crash_outcomes s) -> crash s s'.
Proof.
  intros s s' H. unfold crash_outcomes in H. apply in_flat_map in H.
  destruct H as [ins [Hins H]]. apply in_map_iff in H. destruct H as [k [Hk Hin]].
  apply in_seq in Hin. subst s'. split; simpl.
  - apply in_choices in Hins. apply Forall2_map_l in Hins.
    eapply Forall2_impl'; [| exact Hins]. intros a b H. apply in_file_outcomes. exact H.
  - exists k. repeat split; auto. lia.
Qed.

(* ------------------------------------------------------------------ *)
(* Directory states.                                                   *)

Lemma dapply_all_app : forall a b d, dapply_all (a ++ b) d = dapply_all b (dapply_all a d).
Proof. intros. unfold dapply_all. apply fold_left_app. Qed.

Lemma dstate_full : forall s k, List.length (pend s) <= k -> dstate s k = dvol s.
Proof. intros. unfold dstate, dvol. rewrite firstn_all2; auto. Qed.

Lemma dstate_snoc_le : forall i d p o f b k, k <= List.length p ->
  dstate (mkfs i d (p ++ [o]) f b) k = dstate (mkfs i d p f b) k.
Proof. intros. unfold dstate. simpl. rewrite firstn_app. replace (k - List.length p) with 0 by lia. simpl. rewrite app_nil_r. reflexivity. Qed.

Lemma dvol_snoc : forall i d p o f b,
  dvol (mkfs i d (p ++ [o]) f b) = dapply (dvol (mkfs i d p f b)) o.
Proof. intros. unfold dvol. simpl. rewrite dapply_all_app. reflexivity. Qed.

(* a durable directory state resolves to a load result, whatever the crash
   does to the file data: the inode it names is fully synced *)
Definition resolves (ins : list file) (d : dir) (st : lres) : Prop :=
  (e_path d = None /\ st = Absent) \/
  (exists i l, e_path d = Some i /\
               nth_error ins i = Some (mkfile (Bytes l) (Bytes l)) /\ st = Loaded l).

Lemma resolves_load_dir : forall s d st, resolves (inodes s) d st -> load_dir s d = st.
Proof.
  intros s d st [[H1 H2] | [i [l [H1 [H2 H3]]]]]; unfold load_dir; rewrite H1; subst; auto.
  rewrite H2. reflexivity.
Qed.

Lemma resolves_ext : forall ins ins' d st,
  resolves ins d st ->
  (forall i f, e_path d = Some i -> nth_error ins i = Some f -> nth_error ins' i = Some f) ->
  resolves ins' d st.
Proof.
  intros ins ins' d st [[H1 H2] | [i [l [H1 [H2 H3]]]]] E; [left; auto | right].
  exists i, l. repeat split; auto.
Qed.

Lemma resolves_same_path : forall ins d d' st,
  resolves ins d st -> e_path d' = e_path d -> resolves ins d' st.
Proof. intros ins d d' st H E. unfold resolves in *. rewrite E. exact H. Qed.

Lemma resolves_crash : forall s s' k st,
  crash s s' -> ddur s' = dstate s k -> resolves (inodes s) (dstate s k) st -> load s' = st.
Proof.
  intros s s' k st [Hf [k' [_ [_ [Hp _]]]]] Hd R.
  unfold load, dvol. rewrite Hp. simpl. rewrite Hd.
  destruct R as [[H1 H2] | [i [l [H1 [H2 H3]]]]]; unfold load_dir; rewrite H1; subst; auto.
  destruct (Forall2_nth_error _ _ _ _ _ _ _ Hf H2) as [f' [Hn Hc]].
  rewrite Hn. destruct Hc as [[_ E] | [N _]]; [subst; reflexivity | simpl in N; congruence].
Qed.

(* ------------------------------------------------------------------ *)
(* The invariant that links the abstract state of the checker to the
   concrete file system.                                               *)

Section Invariant.
Variable P : lres -> Prop.     (* load results that were possible durably before this commit *)
Variable cur : lres.           (* the visible (volatile) load result before this commit *)
Variable img : list nat.       (* the image being committed *)

Definition allowed (pa : apath) (st : lres) : Prop :=
  match pa with
  | POld => P st
  | PNewPending => P st \/ st = Loaded img
  | PNewDurable => st = Loaded img
  end.

Definition visible (pa : apath) : lres :=
  match pa with POld => cur | _ => Loaded img end.
Arguments allowed : simpl never.
Arguments visible : simpl never.

Definition tfile (w : wstate) (ins : list file) (t : ino) : Prop :=
  match w with
  | WEmpty => nth_error ins t = Some (mkfile (Bytes []) (Bytes []))
  | WPartial => exists f, nth_error ins t = Some f
  | WDirty => exists d, nth_error ins t = Some (mkfile (Bytes img) d)
  | WSynced => nth_error ins t = Some (mkfile (Bytes img) (Bytes img))
  end.

Definition tmp_here (w : wstate) (s : fs) (t : ino) : Prop :=
  e_tmp (dvol s) = Some t /\ tfile w (inodes s) t /\ forall k, e_path (dstate s k) <> Some t.

Definition tmp_inv (x : atmp) (s : fs) : Prop :=
  match x with
  | TUnknown => fd s = None
  | TAbsent => fd s = None /\ e_tmp (dvol s) = None
  | TOpen w => exists t, fd s = Some t /\ tmp_here w s t
  | TClosed w => exists t, fd s = None /\ tmp_here w s t
  end.

Record inv (a : astate) (s : fs) : Prop := mkinv {
  inv_dirs : forall k, exists st, resolves (inodes s) (dstate s k) st /\ allowed (a_path a) st;
  inv_vis : resolves (inodes s) (dvol s) (visible (a_path a));
  inv_dfd : dfd s = a_dir a;
  inv_tmp : tmp_inv (a_tmp a) s
}.

(* a quiescent well-formed state between commits *)
Definition wf (s : fs) : Prop :=
  (forall k, exists st, resolves (inodes s) (dstate s k) st /\ P st) /\
  resolves (inodes s) (dvol s) cur /\ fd s = None /\ dfd s = false.

Lemma wf_inv : forall s, wf s -> inv a0 s.
Proof. intros s [H1 [H2 [H3 H4]]]. constructor; simpl; auto. Qed.

Lemma tfile_lt : forall w ins t, tfile w ins t -> t < List.length ins.
Proof.
  intros w ins t H. destruct w; simpl in H.
  - eapply nth_error_lt; eauto.
  - destruct H as [x H]. eapply nth_error_lt; eauto.
  - destruct H as [x H]. eapply nth_error_lt; eauto.
  - eapply nth_error_lt; eauto.
Qed.

Lemma resolves_upd : forall ins d st t x,
  resolves ins d st -> e_path d <> Some t -> resolves (upd ins t x) d st.
Proof.
  intros. eapply resolves_ext; eauto. intros i f E Hn.
  rewrite nth_error_upd_other; auto. congruence.
Qed.

Lemma resolves_app : forall ins d st x, resolves ins d st -> resolves (ins ++ [x]) d st.
Proof. intros. eapply resolves_ext; eauto. intros. apply nth_error_app_old. auto. Qed.

(* ---- the individual calls ---- *)

(* appending a directory operation that does not touch the entry of path *)
Lemma dirs_snoc_tmp : forall ins d p f b o pa,
  (forall x, e_path (dapply x o) = e_path x) ->
  (forall k, exists st, resolves ins (dstate (mkfs ins d p f b) k) st /\ allowed pa st) ->
  forall k, exists st, resolves ins (dstate (mkfs ins d (p ++ [o]) f b) k) st /\ allowed pa st.
Proof.
  intros ins d p f b o pa Ho H k.
  destruct (le_lt_dec k (List.length p)) as [L | L].
  - rewrite dstate_snoc_le by auto. apply H.
  - rewrite dstate_full by (simpl; rewrite app_length; simpl; lia).
    rewrite dvol_snoc. destruct (H (List.length p)) as [st [R A]].
    rewrite dstate_full in R by (simpl; lia).
    exists st. split; auto. eapply resolves_same_path; eauto.
Qed.

Lemma path_snoc_tmp : forall ins d p f b o t,
  (forall x, e_path (dapply x o) = e_path x) ->
  (forall k, e_path (dstate (mkfs ins d p f b) k) <> Some t) ->
  forall k, e_path (dstate (mkfs ins d (p ++ [o]) f b) k) <> Some t.
Proof.
  intros ins d p f b o t Ho H k.
  destruct (le_lt_dec k (List.length p)) as [L | L].
  - rewrite dstate_snoc_le by auto. apply H.
  - rewrite dstate_full by (simpl; rewrite app_length; simpl; lia).
    rewrite dvol_snoc, Ho. specialize (H (List.length p)).
    rewrite dstate_full in H by (simpl; lia). exact H.
Qed.

Lemma unlink_tmp_path : forall x, e_path (dapply x (DUnlink NTmp)) = e_path x.
Proof. reflexivity. Qed.
Lemma link_tmp_path : forall t x, e_path (dapply x (DLink NTmp t)) = e_path x.
Proof. reflexivity. Qed.

Lemma inv_unlink_tmp : forall a s, inv a s -> fd s = None ->
  inv (mkast TAbsent (a_path a) (a_dir a)) (add_pend s (DUnlink NTmp)).
Proof.
  intros a [ins d p f b] [H1 H2 H3 H4] Hf. simpl in *. unfold add_pend. simpl.
  constructor; simpl; auto.
  - apply dirs_snoc_tmp; auto.
  - rewrite dvol_snoc. eapply resolves_same_path; eauto.
  - split; auto. rewrite dvol_snoc. reflexivity.
Qed.

Lemma inv_remove_tmp : forall a s m, inv a s ->
  (a_tmp a = TUnknown /\ m <> Check) \/ (exists w, a_tmp a = TClosed w) ->
  exists s', step s img (SRemove NTmp, m) = XOk s' /\ inv (mkast TAbsent (a_path a) (a_dir a)) s'.
Proof.
  intros a s m I H. unfold step. simpl.
  assert (Hf : fd s = None).
  { destruct I as [_ _ _ T]. destruct H as [[E _] | [w E]]; rewrite E in T; simpl in T; auto.
    destruct T as [t [T _]]. auto. }
  destruct (e_tmp (dvol s)) eqn:E.
  - eexists. split; [reflexivity |]. apply inv_unlink_tmp; auto.
  - destruct H as [[Ea Hm] | [w Ea]].
    + exists s. split. { destruct m; auto; contradiction. }
      destruct I as [H1 H2 H3 H4]. constructor; simpl; auto.
    + destruct I as [_ _ _ T]. rewrite Ea in T. simpl in T. destruct T as [t [_ [T _]]]. congruence.
Qed.

Lemma inv_open_excl : forall a s m, inv a s -> a_tmp a = TAbsent -> a_path a = POld ->
  exists s', step s img (SOpenExcl NTmp, m) = XOk s' /\ inv (mkast (TOpen WEmpty) POld (a_dir a)) s'.
Proof.
  intros a [ins d p f b] m [H1 H2 H3 H4] Et Ep. rewrite Et in H4. rewrite Ep in *. simpl in *.
  destruct H4 as [Hf He]. subst f. unfold step. simpl. rewrite He. unfold create_on. simpl.
  eexists. split; [reflexivity |].
  constructor; simpl; auto.
  - apply dirs_snoc_tmp; [apply link_tmp_path |]. intros k. destruct (H1 k) as [st [R A]].
    exists st. split; auto. apply resolves_app. exact R.
  - rewrite dvol_snoc. eapply resolves_same_path; [apply resolves_app; exact H2 | reflexivity].
  - exists (List.length ins). split; auto. split; [| split].
    + rewrite dvol_snoc. reflexivity.
    + simpl. apply nth_error_app_new.
    + apply path_snoc_tmp; [apply link_tmp_path |]. intros k E.
      unfold dstate in E. simpl in E.
      destruct (H1 k) as [st [[[N _] | [i [l [Ei [Hn _]]]]] _]];
        unfold dstate in *; simpl in *; [congruence |].
      rewrite E in Ei. inversion Ei; subst. apply nth_error_lt in Hn. lia.
Qed.

(* changing only the data of the temporary's inode *)
Lemma inv_upd_tmp : forall a ins d p f b t x w w',
  inv a (mkfs ins d p f b) -> a_tmp a = TOpen w ->
  f = Some t -> tmp_here w (mkfs ins d p f b) t ->
  tfile w' (upd ins t x) t ->
  inv (mkast (TOpen w') (a_path a) (a_dir a)) (mkfs (upd ins t x) d p f b).
Proof.
  intros a ins d p f b t x w w' [H1 H2 H3 H4] Et Ef [T1 [T2 T3]] Hw. simpl in *.
  constructor; simpl; auto.
  - intros k. destruct (H1 k) as [st [R A]]. exists st. split; auto.
    apply resolves_upd; [exact R | exact (T3 k)].
  - apply resolves_upd; [exact H2 |]. specialize (T3 (List.length p)).
    rewrite dstate_full in T3 by (simpl; lia). exact T3.
  - exists t. split; auto. split; [exact T1 | split; [exact Hw | exact T3]].
Qed.

Lemma tmp_open_unique : forall a s w, inv a s -> a_tmp a = TOpen w ->
  exists t, fd s = Some t /\ tmp_here w s t.
Proof. intros a s w [_ _ _ T] E. rewrite E in T. exact T. Qed.

Lemma inv_write_prefix : forall a s pre, inv a s -> a_tmp a = TOpen WEmpty ->
  exists s', write_fd s pre = XOk s' /\
    inv (mkast (TOpen WPartial) (a_path a) (a_dir a)) s' /\
    (pre = img -> inv (mkast (TOpen WDirty) (a_path a) (a_dir a)) s').
Proof.
  intros a s pre I Et. destruct (tmp_open_unique _ _ _ I Et) as [t [Hf T]].
  destruct s as [ins d p f b]. simpl in *. subst f.
  pose proof T as [T1 [T2 T3]]. simpl in T2.
  unfold write_fd. simpl. rewrite T2. simpl. eexists. split; [reflexivity |].
  pose proof (nth_error_lt _ _ _ _ T2) as L.
  split; [| intros E; subst pre]; unfold set_inodes; simpl;
    eapply inv_upd_tmp; eauto; simpl; rewrite nth_error_upd_same by auto; eauto.
Qed.

Lemma inv_fsync : forall a s w m, inv a s -> a_tmp a = TOpen w ->
  exists s', step s img (SFsync, m) = XOk s' /\
    inv (mkast (TOpen (match w with WDirty => WSynced | x => x end)) (a_path a) (a_dir a)) s'.
Proof.
  intros a s w m I Et. destruct (tmp_open_unique _ _ _ I Et) as [t [Hf T]].
  destruct s as [ins d p f b]. simpl in *. subst f.
  pose proof T as [T1 [T2 T3]]. simpl in T2.
  pose proof (tfile_lt _ _ _ T2) as L.
  destruct (nth_error ins t) as [fl |] eqn:En; [| apply nth_error_None in En; lia].
  unfold step. simpl. rewrite En. eexists. split; [reflexivity |].
  unfold set_inodes; simpl. eapply inv_upd_tmp; eauto.
  destruct w; simpl in *; rewrite nth_error_upd_same by auto.
  - rewrite En in T2. inversion T2; subst. reflexivity.
  - eauto.
  - destruct T2 as [d0 T2]. rewrite En in T2. inversion T2; subst. reflexivity.
  - rewrite En in T2. inversion T2; subst. reflexivity.
Qed.

(* changing only descriptors *)
Lemma tmp_here_fd : forall w ins d p f b f' b' t,
  tmp_here w (mkfs ins d p f b) t -> tmp_here w (mkfs ins d p f' b') t.
Proof. intros. exact H. Qed.

Lemma inv_close : forall a s w, inv a s -> a_tmp a = TOpen w ->
  inv (mkast (TClosed w) (a_path a) (a_dir a)) (set_fd s None).
Proof.
  intros a s w I Et. destruct (tmp_open_unique _ _ _ I Et) as [t [Hf T]].
  destruct s as [ins d p f b]. destruct I as [H1 H2 H3 H4]. simpl in *.
  constructor; simpl; auto. exists t. split; auto.
Qed.

Lemma inv_set_dfd : forall a s b', inv a s ->
  inv (mkast (a_tmp a) (a_path a) b') (set_dfd s b').
Proof.
  intros a [ins d p f b] b' [H1 H2 H3 H4]. simpl in *.
  constructor; simpl; auto.
Qed.

Lemma rename_path : forall x t, e_tmp x = Some t -> e_path (dapply x (DRename NTmp NPath)) = Some t.
Proof. intros x t E. simpl. rewrite E. reflexivity. Qed.
Lemma rename_tmp : forall x t, e_tmp x = Some t -> e_tmp (dapply x (DRename NTmp NPath)) = None.
Proof. intros x t E. simpl. rewrite E. reflexivity. Qed.

Lemma inv_rename : forall a s m, inv a s -> a_tmp a = TClosed WSynced -> a_path a = POld ->
  exists s', step s img (SRename NTmp NPath, m) = XOk s' /\ inv (mkast TAbsent PNewPending (a_dir a)) s'.
Proof.
  intros a [ins d p f b] m [H1 H2 H3 H4] Et Ep. rewrite Et in H4. rewrite Ep in *. simpl in *.
  destruct H4 as [t [Hf [T1 [T2 T3]]]]. subst f. simpl in *.
  unfold step. simpl. rewrite T1. eexists. split; [reflexivity |]. unfold add_pend. simpl.
  assert (R : resolves ins (dapply (dvol (mkfs ins d p None b)) (DRename NTmp NPath)) (Loaded img)).
  { right. exists t, img. split; [apply rename_path; auto | auto]. }
  constructor; simpl; auto.
  - intros k. destruct (le_lt_dec k (List.length p)) as [L | L].
    + rewrite dstate_snoc_le by auto. destruct (H1 k) as [st [R' A]]. exists st.
      split; [exact R' | left; exact A].
    + rewrite dstate_full by (simpl; rewrite app_length; simpl; lia).
      rewrite dvol_snoc. exists (Loaded img). split; [exact R | right; reflexivity].
  - rewrite dvol_snoc. exact R.
  - split; auto. rewrite dvol_snoc. eapply rename_tmp; eauto.
Qed.

Lemma inv_fsyncdir : forall a s, inv a s -> 
  inv (mkast (a_tmp a) (match a_path a with PNewPending => PNewDurable | x => x end) true)
      (mkfs (inodes s) (dvol s) [] (fd s) true).
Proof.
  intros a [ins d p f b] [H1 H2 H3 H4]. simpl in *.
  assert (D : forall k, dstate (mkfs ins (dvol (mkfs ins d p f b)) [] f true) k = dvol (mkfs ins d p f b)).
  { intros k. unfold dstate. simpl. rewrite firstn_nil. reflexivity. }
  assert (V : dvol (mkfs ins (dvol (mkfs ins d p f b)) [] f true) = dvol (mkfs ins d p f b)) by reflexivity.
  constructor; simpl.
  - intros k. rewrite D. destruct (a_path a) eqn:Ep; simpl in *.
    + destruct (H1 (List.length p)) as [st [R A]]. rewrite dstate_full in R by (simpl; lia). eauto.
    + exists (Loaded img). split; [exact H2 | reflexivity].
    + exists (Loaded img). split; [exact H2 | reflexivity].
  - rewrite V. destruct (a_path a); simpl in *; auto.
  - reflexivity.
  - destruct (a_tmp a); simpl in *; auto.
    + destruct H4 as [t [Hf [T1 [T2 T3]]]]. exists t. split; auto. split; [exact T1 | split; [exact T2 |]].
      intros k. rewrite D. specialize (T3 (List.length p)). rewrite dstate_full in T3 by (simpl; lia). exact T3.
    + destruct H4 as [t [Hf [T1 [T2 T3]]]]. exists t. split; auto. split; [exact T1 | split; [exact T2 |]].
      intros k. rewrite D. specialize (T3 (List.length p)). rewrite dstate_full in T3 by (simpl; lia). exact T3.
Qed.

(* ---- one statement ---- *)

Lemma step_ok : forall s o m s', exec s img o = XOk s' -> step s img (o, m) = XOk s'.
Proof. intros. unfold step. simpl. rewrite H. reflexivity. Qed.

Lemma astep_ok_sound : forall a s o m a', inv a s -> astep_ok a o = Some a' ->
  (needs_tolerance a o = true -> m <> Check) ->
  exists s', step s img (o, m) = XOk s' /\ inv a' s'.
Proof.
  intros a s o m a' I H NT.
  destruct o as [n | n | n | | | | x y | | | |]; simpl in H.
  - (* SRemove *)
    destruct n; [discriminate |].
    destruct (a_tmp a) eqn:Et; try discriminate; inversion H; subst.
    + apply inv_remove_tmp; auto. left. split; auto. apply NT. unfold needs_tolerance. rewrite Et. reflexivity.
    + apply inv_remove_tmp; auto. right. eauto.
  - (* SOpenExcl *)
    destruct n; [discriminate |].
    destruct (a_tmp a) eqn:Et; try discriminate.
    destruct (a_path a) eqn:Ep; try discriminate. inversion H; subst.
    apply inv_open_excl; auto.
  - discriminate.
  - (* SWriteAll *)
    destruct (a_tmp a) eqn:Et; try discriminate. destruct w; try discriminate. inversion H; subst.
    destruct (inv_write_prefix _ _ img I Et) as [s' [W [_ D]]].
    exists s'. split; [apply step_ok; exact W | apply D; reflexivity].
  - (* SFsync *)
    destruct (a_tmp a) eqn:Et; try discriminate.
    destruct (inv_fsync _ _ _ m I Et) as [s' [W D]].
    exists s'. split; [exact W |].
    destruct w; inversion H as [E]; clear H; try exact D;
      rewrite <- E; destruct a as [t pa ad]; simpl in *; subst t; exact D.
  - (* SClose *)
    destruct (a_tmp a) eqn:Et; try discriminate. inversion H; subst.
    destruct (tmp_open_unique _ _ _ I Et) as [t [Hf _]].
    exists (set_fd s None). split; [apply step_ok; simpl; rewrite Hf; reflexivity | apply inv_close; auto].
  - (* SRename *)
    destruct x; [discriminate |]. destruct y; [| discriminate].
    destruct (a_tmp a) eqn:Et; try discriminate. destruct w; try discriminate.
    destruct (a_path a) eqn:Ep; try discriminate. inversion H; subst.
    apply inv_rename; auto.
  - (* SOpenDir *)
    destruct (a_dir a) eqn:Ed; [destruct (a_tmp a); discriminate |].
    assert (a' = mkast (a_tmp a) (a_path a) true) by (destruct (a_tmp a); inversion H; reflexivity). subst a'.
    exists (set_dfd s true). split; [| apply inv_set_dfd; auto].
    apply step_ok. simpl. rewrite (inv_dfd _ _ I), Ed. reflexivity.
  - (* SFsyncDir *)
    destruct (a_dir a) eqn:Ed; [| destruct (a_tmp a); discriminate].
    assert (a' = mkast (a_tmp a) (match a_path a with PNewPending => PNewDurable | x => x end) true)
      by (destruct (a_tmp a); inversion H; reflexivity). subst a'.
    exists (mkfs (inodes s) (dvol s) [] (fd s) true). split; [| apply inv_fsyncdir; auto].
    apply step_ok. simpl. rewrite (inv_dfd _ _ I), Ed. reflexivity.
  - (* SCloseDir *)
    destruct (a_dir a) eqn:Ed; [| destruct (a_tmp a); discriminate].
    assert (a' = mkast (a_tmp a) (a_path a) false) by (destruct (a_tmp a); inversion H; reflexivity). subst a'.
    exists (set_dfd s false). split; [| apply inv_set_dfd; auto].
    apply step_ok. simpl. rewrite (inv_dfd _ _ I), Ed. reflexivity.
  - destruct (a_tmp a); discriminate.
Qed.

Lemma astep_err_sound : forall a s o e, inv a s -> astep_err a o = Some e ->
  exec s img o = XErr e.
Proof.
  intros a s o e I H. pose proof (inv_tmp _ _ I) as T. pose proof (inv_dfd _ _ I) as D.
  destruct o as [n | n | n | | | | x y | | | |]; simpl in H; try (destruct (a_tmp a); discriminate).
  - destruct n; [destruct (a_tmp a); discriminate |].
    destruct (a_tmp a) eqn:Et; try discriminate. inversion H; subst. simpl in T. destruct T as [_ T].
    simpl. rewrite T. reflexivity.
  - destruct (a_tmp a) eqn:Et; try discriminate; inversion H; subst; simpl in T; simpl.
    + rewrite T. reflexivity.
    + destruct T as [T _]. rewrite T. reflexivity.
    + destruct T as [t [T _]]. rewrite T. reflexivity.
  - destruct (a_dir a) eqn:Ed; [destruct (a_tmp a); discriminate |].
    assert (e = EBADF) by (destruct (a_tmp a); inversion H; reflexivity). subst e.
    simpl. rewrite D. reflexivity.
Qed.

Lemma astep_sound : forall a s o a', inv a s -> astep a o = Some a' ->
  exists s', step s img o = XOk s' /\ inv a' s'.
Proof.
  intros a s [o m] a' I H. unfold astep in H. simpl in H.
  destruct (needs_tolerance a o && match m with Check => true | _ => false end) eqn:NT; [discriminate |].
  destruct (astep_ok a o) eqn:OK.
  - inversion H; subst. eapply astep_ok_sound; eauto.
    intros N E. subst m. rewrite N in NT. discriminate.
  - destruct (astep_err a o) as [e |] eqn:ER; [| discriminate].
    pose proof (astep_err_sound _ _ _ _ I ER) as X.
    exists s. unfold step. simpl. rewrite X.
    destruct m.
    + destruct e; discriminate.
    + destruct e; try discriminate. inversion H; subst. auto.
    + destruct e; inversion H; subst; auto.
Qed.

Lemma arun_sound : forall t a s a', inv a s -> arun t a = Some a' ->
  exists s', runops t s img = XOk s' /\ inv a' s'.
Proof.
  induction t as [| o t IH]; simpl; intros a s a' I H.
  - inversion H; subst. eauto.
  - destruct (astep a o) as [a1 |] eqn:E; [| discriminate].
    destruct (astep_sound _ _ _ _ I E) as [s1 [S1 I1]]. rewrite S1. eapply IH; eauto.
Qed.

Lemma arun_app : forall t1 t2 a, arun (t1 ++ t2) a =
  match arun t1 a with Some a1 => arun t2 a1 | None => None end.
Proof.
  induction t1; simpl; intros; auto. destruct (astep a0 a); auto.
Qed.

Lemma runops_app : forall t1 t2 s, runops (t1 ++ t2) s img =
  match runops t1 s img with XOk s1 => runops t2 s1 img | XErr e => XErr e end.
Proof.
  induction t1; simpl; intros; auto. destruct (step s img a); auto.
Qed.

Lemma arun_firstn : forall t a a' k, arun t a = Some a' -> exists ak, arun (firstn k t) a = Some ak.
Proof.
  intros t a a' k H. rewrite <- (firstn_skipn k t) in H. rewrite arun_app in H.
  destruct (arun (firstn k t) a); [eauto | discriminate].
Qed.

(* ---- the path component only moves forward ---- *)

Definition is_rename (o : sysop) : bool :=
  match o with SRename NTmp NPath => true | _ => false end.

Lemma astep_renamed : forall a o a', astep a o = Some a' ->
  renamed a' = renamed a || is_rename (fst o).
Proof.
  intros a [o m] a' H. unfold astep in H. simpl in *.
  destruct (needs_tolerance a o && match m with Check => true | _ => false end); [discriminate |].
  destruct (astep_ok a o) eqn:OK.
  - inversion H; subst. clear H. unfold renamed. destruct a as [t pa ad].
    destruct o as [n | n | n | | | | x y | | | |]; simpl in *;
      try destruct n; try destruct x; try destruct y;
      destruct t as [| | w | w]; try destruct w; destruct pa; destruct ad;
      simpl in *; try discriminate; inversion OK; subst; reflexivity.
  - destruct (astep_err a o) as [e |] eqn:ER; [| discriminate].
    assert (a' = a) by (destruct m; destruct e; try discriminate; inversion H; reflexivity). subst a'.
    destruct o as [n | n | n | | | | x y | | | |]; simpl in *; try (destruct (a_tmp a); discriminate);
      try (rewrite orb_false_r; reflexivity).
Qed.

(* ---- crash safety of every state that satisfies the invariant ---- *)

Lemma inv_crash : forall a s s', inv a s -> crash s s' ->
  allowed (a_path a) (load s').
Proof.
  intros a s s' I C. pose proof C as [_ [k [_ [Hd _]]]].
  destruct (inv_dirs _ _ I k) as [st [R A]].
  rewrite (resolves_crash _ _ _ _ C Hd R). exact A.
Qed.

Lemma inv_load : forall a s, inv a s -> load s = visible (a_path a).
Proof. intros a s I. unfold load. apply resolves_load_dir. apply (inv_vis _ _ I). Qed.

Lemma resolves_fun : forall ins d st st', resolves ins d st -> resolves ins d st' -> st = st'.
Proof.
  intros ins d st st' [[A B] | [i [l [A [B C]]]]] [[A' B'] | [i' [l' [A' [B' C']]]]]; subst; congruence.
Qed.

(* the instants inside a WriteAll *)
Lemma inv_mid : forall a s o a' m, inv a s -> astep_ok a o = Some a' -> In m (mid_states s img o) ->
  exists am, inv am m /\ a_path am = a_path a.
Proof.
  intros a s o a' m I H Hin. destruct o; simpl in Hin; try contradiction.
  simpl in H. destruct (a_tmp a) eqn:Et; try discriminate. destruct w; try discriminate.
  unfold oks in Hin. apply in_flat_map in Hin. destruct Hin as [r [Hr Hm]].
  apply in_map_iff in Hr. destruct Hr as [pre [Hp _]].
  destruct (inv_write_prefix _ _ pre I Et) as [s' [W [Ip _]]].
  rewrite W in Hp. subst r. simpl in Hm. destruct Hm as [Hm | []]. subst m.
  eexists. split; [exact Ip | reflexivity].
Qed.

(* states left by a failing call *)
Lemma afail_sound : forall a s o m a' s2, inv a s -> astep a (o, m) = Some a' -> m <> IgnoreAll ->
  In s2 (fail_states s img o) -> exists af, In af (afail a o) /\ inv af s2.
Proof.
  intros a s o m a' s2 I H Hm Hin.
  assert (Base : forall o', afail a o' = [a] -> fail_states s img o' = [s] -> In s2 (fail_states s img o') ->
                 exists af, In af (afail a o') /\ inv af s2).
  { intros o' E1 E2 Hi. rewrite E2 in Hi. destruct Hi as [Hi | []]. subst s2. exists a. rewrite E1. simpl. auto. }
  unfold astep in H. simpl in H.
  destruct (needs_tolerance a o && match m with Check => true | _ => false end); [discriminate |].
  destruct o as [n | n | n | | | | x y | | | |];
    try (apply Base; auto; simpl; destruct (a_tmp a); reflexivity).
  - (* SWriteAll *)
    simpl in H. destruct (a_tmp a) eqn:Et; try (destruct m; discriminate).
    destruct w; try (destruct m; discriminate).
    simpl in Hin. destruct Hin as [Hin | Hin].
    + subst s2. exists a. simpl. rewrite Et. simpl. auto.
    + unfold oks in Hin. apply in_flat_map in Hin. destruct Hin as [r [Hr Hs]].
      apply in_map_iff in Hr. destruct Hr as [pre [Hp _]].
      destruct (inv_write_prefix _ _ pre I Et) as [s' [W [Ip _]]].
      rewrite W in Hp. subst r. simpl in Hs. destruct Hs as [Hs | []]. subst s2.
      eexists. split; [| exact Ip]. simpl. rewrite Et. simpl. auto.
  - (* SClose *)
    simpl in H. destruct (a_tmp a) eqn:Et.
    + destruct m; try discriminate. contradiction.
    + destruct m; try discriminate. contradiction.
    + simpl in Hin. destruct Hin as [Hin | [Hin | []]]; subst s2.
      * exists a. simpl. rewrite Et. simpl. auto.
      * eexists. split; [| eapply inv_close; eauto]. simpl. rewrite Et. simpl. auto.
    + destruct m; try discriminate. contradiction.
Qed.

Definition has_rename (t : list op) : bool := existsb (fun o => is_rename (fst o)) t.

Lemma arun_renamed : forall t a a', arun t a = Some a' -> renamed a' = renamed a || has_rename t.
Proof.
  induction t as [| o t IH]; simpl; intros a a' H.
  - inversion H; subst. rewrite orb_false_r. reflexivity.
  - destruct (astep a o) as [a1 |] eqn:E; [| discriminate].
    rewrite (IH _ _ H), (astep_renamed _ _ _ E), orb_assoc. reflexivity.
Qed.

Lemma afail_path : forall a o af, In af (afail a o) -> a_path af = a_path a.
Proof.
  intros a o af H. destruct o; simpl in H; destruct (a_tmp a) as [| | w | w]; try destruct w;
    simpl in H; repeat (destruct H as [H | H]; [subst; reflexivity |]); contradiction.
Qed.

Lemma allowed_weak : forall pa st, allowed pa st -> P st \/ st = Loaded img.
Proof. intros pa st H. destruct pa; unfold allowed in H; auto. Qed.

Lemma astep_write_ok : forall a m a', astep a (SWriteAll, m) = Some a' -> astep_ok a SWriteAll = Some a'.
Proof.
  intros a m a' H. unfold astep in H. cbn [fst snd needs_tolerance andb] in H.
  destruct (astep_ok a SWriteAll) eqn:OK; [exact H |].
  simpl in H. destruct (a_tmp a); discriminate.
Qed.

(* ---- every instant of a run accepted by the abstract interpreter ---- *)
Lemma instants_safe : forall t s a_end, inv a0 s -> arun t a0 = Some a_end ->
  forall k, exists sk ak, runops (firstn k t) s img = XOk sk /\ inv ak sk /\
    (forall s', crash sk s' -> P (load s') \/ load s' = Loaded img) /\
    (forall o, nth_error t k = Some o -> forall m, In m (mid_states sk img (fst o)) ->
       forall s', crash m s' -> P (load s') \/ load s' = Loaded img).
Proof.
  intros t s a_end I H k.
  destruct (arun_firstn _ _ _ k H) as [ak Hk].
  destruct (arun_sound _ _ _ _ I Hk) as [sk [Rk Ik]].
  exists sk, ak. split; auto. split; auto. split.
  - intros s' C. eapply allowed_weak. eapply inv_crash; eauto.
  - intros o Hn m Hm s' C.
    destruct o as [o md]. simpl in Hm. destruct o; simpl in Hm; try contradiction.
    assert (S1 : exists a1, astep ak (SWriteAll, md) = Some a1).
    { rewrite <- (firstn_skipn k t) in H. rewrite arun_app, Hk in H.
      assert (Hs : exists r, skipn k t = (SWriteAll, md) :: r).
      { clear - Hn. revert k Hn. induction t; destruct k; simpl; intros; try discriminate.
        - inversion Hn; subst. eauto.
        - eauto. }
      destruct Hs as [r Hs]. rewrite Hs in H. simpl in H.
      destruct (astep ak (SWriteAll, md)); [eauto | discriminate]. }
    destruct S1 as [a1 S1]. apply astep_write_ok in S1.
    destruct (inv_mid _ _ SWriteAll _ m Ik S1) as [am [Im Ep]]; [exact Hm |].
    eapply allowed_weak. eapply inv_crash; eauto.
Qed.

(* ---- failure injection ---- *)
Lemma split_at_S : forall x r j, split_at (x :: r) (S j) =
  match split_at r j with Some (pre, o) => Some (x :: pre, o) | None => None end.
Proof. intros. destruct x as [o m | b]; [destruct m |]; reflexivity. Qed.

Lemma fail_ok_gen : forall rest pre a s1, fail_ok pre rest a = true -> inv a s1 ->
  forall k pre' o, split_at rest k = Some (pre', o) ->
  exists s2 a2, runops (body_ops pre') s1 img = XOk s2 /\ inv a2 s2 /\
    forall s3, In s3 (fail_states s2 img o) ->
    exists s4 a4, runops (deferred (pre ++ pre')) s3 img = XOk s4 /\ inv a4 s4 /\ aquiet a4 = true /\
      renamed a4 = renamed a || has_rename (body_ops pre') || has_rename (deferred (pre ++ pre')).
Proof.
  induction rest as [| st rest IH]; intros pre a s1 F I k pre' o S.
  - destruct k; discriminate.
  - destruct st as [o1 m1 | b].
    + simpl in F. apply andb_true_iff in F. destruct F as [F1 F2].
      destruct (astep a (o1, m1)) as [a' |] eqn:E; [| discriminate].
      destruct k as [| j].
      * assert (Hm : m1 <> IgnoreAll /\ pre' = [] /\ o = o1).
        { simpl in S. destruct m1; inversion S; subst; repeat split; congruence. }
        destruct Hm as [Hm [Hp Ho]]. subst pre' o. simpl.
        exists s1, a. split; auto. split; auto. intros s3 H3.
        destruct (afail_sound _ _ _ _ _ _ I E Hm H3) as [af [Hin If]].
        assert (Q : match arun (deferred pre) af with Some a' => aquiet a' | None => false end = true).
        { destruct m1; try congruence; eapply (proj1 (forallb_forall _ _) F1); exact Hin. }
        rewrite app_nil_r.
        destruct (arun (deferred pre) af) as [a4 |] eqn:R4; [| discriminate].
        destruct (arun_sound _ _ _ _ If R4) as [s4 [X4 I4]].
        exists s4, a4. split; [exact X4 | split; [exact I4 | split; [exact Q |]]].
        rewrite (arun_renamed _ _ _ R4). unfold renamed. rewrite (afail_path _ _ _ Hin).
        rewrite orb_false_r. reflexivity.
      * rewrite split_at_S in S. destruct (split_at rest j) as [[pre'' o''] |] eqn:S'; [| discriminate].
        inversion S; subst. clear S.
        destruct (astep_sound _ _ _ _ I E) as [s1' [X1 I1]].
        destruct (IH _ _ _ F2 I1 _ _ _ S') as [s2 [a2 [R2 [I2 K]]]].
        exists s2, a2. simpl. rewrite X1. split; auto. split; auto.
        intros s3 H3. destruct (K s3 H3) as [s4 [a4 [R4 [I4 [Q4 N4]]]]].
        exists s4, a4. rewrite <- app_assoc in R4, N4. simpl in R4, N4.
        split; [exact R4 | split; [exact I4 | split; [exact Q4 |]]].
        rewrite N4, (astep_renamed _ _ _ E). simpl.
        rewrite !orb_assoc. reflexivity.
    + simpl in F. destruct k as [| j]; [discriminate |].
      rewrite split_at_S in S. destruct (split_at rest j) as [[pre'' o''] |] eqn:S'; [| discriminate].
      inversion S; subst. clear S.
      destruct (IH _ _ _ F I _ _ _ S') as [s2 [a2 [R2 [I2 K]]]].
      exists s2, a2. simpl. split; auto. split; auto.
      intros s3 H3. destruct (K s3 H3) as [s4 [a4 [R4 [I4 [Q4 N4]]]]].
      exists s4, a4. rewrite <- app_assoc in R4, N4. simpl in R4, N4.
      split; [exact R4 | split; [exact I4 | split; [exact Q4 | exact N4]]].
Qed.

Lemma inv_quiet : forall a s, inv a s -> aquiet a = true -> fd s = None /\ dfd s = false.
Proof.
  intros a s I Q. unfold aquiet in Q. pose proof (inv_tmp _ _ I) as T. pose proof (inv_dfd _ _ I) as D.
  destruct (a_tmp a); simpl in T; try discriminate.
  - apply negb_true_iff in Q. split; congruence.
  - apply negb_true_iff in Q. destruct T. split; congruence.
  - apply negb_true_iff in Q. destruct T as [t [T _]]. split; congruence.
Qed.

End Invariant.

(* ------------------------------------------------------------------ *)
(* The theorems.                                                       *)

Lemma wf_weaken : forall (P Q : lres -> Prop) cur s,
  wf P cur s -> (forall st, P st -> Q st) -> wf Q cur s.
Proof.
  intros P Q cur s [H1 H2] HQ. split; auto.
  intros k. destruct (H1 k) as [st [R A]]. eauto.
Qed.

Lemma wf_load : forall P cur s, wf P cur s -> load s = cur.
Proof. intros P cur s [_ [H _]]. unfold load. apply resolves_load_dir. exact H. Qed.

Lemma wf_crash : forall P cur s s', wf P cur s -> crash s s' -> P (load s').
Proof.
  intros P cur s s' W C. apply (inv_crash P cur [] a0 s s'); auto. apply wf_inv. exact W.
Qed.

Lemma inv_quiet_wf : forall P cur img a s, inv P cur img a s -> aquiet a = true ->
  wf (allowed P img (a_path a)) (visible cur img (a_path a)) s.
Proof.
  intros P cur img a s I Q. destruct (inv_quiet _ _ _ _ _ I Q) as [F D].
  split; [apply (inv_dirs _ _ _ _ _ I) | split; [apply (inv_vis _ _ _ _ _ I) | auto]].
Qed.

Lemma well_ordered_parts : forall p, well_ordered p = true ->
  exists a, arun (success_trace p) a0 = Some a /\ aquiet a = true /\ a_path a = PNewDurable /\
            fail_ok [] p a0 = true.
Proof.
  intros p H. unfold well_ordered in H. apply andb_true_iff in H. destruct H as [H F].
  destruct (arun (success_trace p) a0) as [a |]; [| discriminate].
  apply andb_true_iff in H. destruct H as [H _]. apply andb_true_iff in H. destruct H as [Q D].
  exists a. repeat split; auto. destruct (a_path a); try discriminate. reflexivity.
Qed.

(* General form: P is the set of load results that were possible durably
   before the commit, cur the visible one. *)
Theorem well_ordered_sound_gen : forall p, well_ordered p = true ->
  forall P cur s img, wf P cur s ->
  (forall k, exists sk, runops (firstn k (success_trace p)) s img = XOk sk /\
     (forall s', crash sk s' -> P (load s') \/ load s' = Loaded img) /\
     (forall o, nth_error (success_trace p) k = Some o ->
        forall m, In m (mid_states sk img (fst o)) ->
        forall s', crash m s' -> P (load s') \/ load s' = Loaded img)) /\
  exists s_end, runops (success_trace p) s img = XOk s_end /\ load s_end = Loaded img /\
     (forall s', crash s_end s' -> load s' = Loaded img) /\
     wf (eq (Loaded img)) (Loaded img) s_end.
Proof.
  intros p H P cur s img W.
  destruct (well_ordered_parts _ H) as [a [R [Q [D _]]]].
  pose proof (wf_inv _ _ img _ W) as I. split.
  - intros k. destruct (instants_safe P cur img _ _ _ I R k) as [sk [ak [X [_ [C M]]]]].
    exists sk. auto.
  - destruct (arun_sound P cur img _ _ _ _ I R) as [se [X Ie]].
    exists se. split; auto. pose proof (inv_quiet_wf _ _ _ _ _ Ie Q) as We. rewrite D in We.
    split; [| split].
    + apply (wf_load _ _ _ We).
    + intros s' C. apply (wf_crash _ _ _ _ We C).
    + eapply wf_weaken; [exact We |]. intros st E. symmetry. exact E.
Qed.

(* The statement of DESIGN.md 7.5: crash at any call boundary k of the run. *)
Theorem well_ordered_sound : forall p, well_ordered p = true ->
  forall s old img, wf (eq old) old s ->
  forall k, k <= List.length (success_trace p) ->
  exists sk, runops (firstn k (success_trace p)) s img = XOk sk /\
    forall s', crash sk s' ->
      (load s' = old \/ load s' = Loaded img) /\
      (k = List.length (success_trace p) -> load s' = Loaded img).
Proof.
  intros p H s old img W k Hk.
  destruct (well_ordered_sound_gen p H _ _ s img W) as [A [se [X [_ [C _]]]]].
  destruct (A k) as [sk [Xk [Ck _]]]. exists sk. split; auto.
  intros s' Cs. split.
  - destruct (Ck s' Cs) as [E | E]; auto.
  - intros E. subst k. rewrite firstn_all in Xk. rewrite X in Xk. inversion Xk; subst. auto.
Qed.

(* ... and at any instant inside the (multi-write) WriteAll call *)
Theorem well_ordered_sound_midwrite : forall p, well_ordered p = true ->
  forall s old img, wf (eq old) old s ->
  forall k o sk, nth_error (success_trace p) k = Some o ->
  runops (firstn k (success_trace p)) s img = XOk sk ->
  forall m, In m (mid_states sk img (fst o)) ->
  forall s', crash m s' -> load s' = old \/ load s' = Loaded img.
Proof.
  intros p H s old img W k o sk Hn X m Hm s' C.
  destruct (well_ordered_sound_gen p H _ _ s img W) as [A _].
  destruct (A k) as [sk' [Xk [_ M]]]. rewrite X in Xk. inversion Xk; subst.
  destruct (M o Hn m Hm s' C) as [E | E]; auto.
Qed.

(* was the rename among the calls made before statement k failed? *)
Definition rename_before (p : list stmt) (k : nat) : bool :=
  match split_at p k with
  | Some (pre, _) => has_rename (body_ops pre) || has_rename (deferred pre)
  | None => false
  end.

Theorem fail_sound : forall p, well_ordered p = true ->
  forall P cur s img, wf P cur s ->
  forall k r, In r (fail_outcomes p k s img) ->
  exists s', r = XOk s' /\
    (if rename_before p k
     then wf (fun st => P st \/ st = Loaded img) (Loaded img) s'
     else wf P cur s') /\
    (* later commits work *)
    forall img2, exists s2, runops (success_trace p) s' img2 = XOk s2 /\
                            wf (eq (Loaded img2)) (Loaded img2) s2.
Proof.
  intros p H P cur s img W k r Hin.
  destruct (well_ordered_parts _ H) as [a [_ [_ [_ F]]]].
  pose proof (wf_inv _ _ img _ W) as I.
  unfold fail_outcomes in Hin. unfold rename_before.
  destruct (split_at p k) as [[pre o] |] eqn:S; [| destruct Hin].
  destruct (fail_ok_gen P cur img _ _ _ _ F I _ _ _ S) as [s2 [a2 [R2 [I2 K]]]].
  rewrite R2 in Hin. apply in_map_iff in Hin. destruct Hin as [s3 [Hr H3]].
  destruct (K s3 H3) as [s4 [a4 [R4 [I4 [Q4 N4]]]]]. simpl in R4, N4.
  exists s4. split; [congruence |].
  pose proof (inv_quiet_wf _ _ _ _ _ I4 Q4) as W4.
  assert (W' : if has_rename (body_ops pre) || has_rename (deferred pre)
               then wf (fun st => P st \/ st = Loaded img) (Loaded img) s4 else wf P cur s4).
  { rewrite <- N4. unfold renamed. destruct (a_path a4); simpl in W4; simpl;
      first [exact W4 | eapply wf_weaken; [exact W4 |]; unfold allowed; intros st; tauto]. }
  split; [exact W' |].
  intros img2.
  destruct (has_rename (body_ops pre) || has_rename (deferred pre)).
  - destruct (well_ordered_sound_gen p H _ _ s4 img2 W') as [_ [se [X [_ [_ We]]]]]. eauto.
  - destruct (well_ordered_sound_gen p H _ _ s4 img2 W') as [_ [se [X [_ [_ We]]]]]. eauto.
Qed.

(* ---- histories of commits ---- *)
Inductive event : Type :=
| ECommit (img : list nat)             (* a commit that succeeds *)
| EFail (k : nat) (img : list nat).    (* a commit whose statement k fails *)

Inductive hstep (p : list stmt) : fs -> event -> fs -> Prop :=
| hs_commit : forall s img s', runops (success_trace p) s img = XOk s' -> hstep p s (ECommit img) s'
| hs_fail : forall s k img s', In (XOk s') (fail_outcomes p k s img) -> hstep p s (EFail k img) s'.

Inductive hrun (p : list stmt) : fs -> list event -> fs -> Prop :=
| hr_nil : forall s, hrun p s [] s
| hr_cons : forall s e s1 es s2, hstep p s e s1 -> hrun p s1 es s2 -> hrun p s (e :: es) s2.

(* specification: (visible image, images that may be the durable one) *)
Definition spec_step (p : list stmt) (v : lres * list lres) (e : event) : lres * list lres :=
  match e with
  | ECommit img => (Loaded img, [Loaded img])
  | EFail k img => if rename_before p k then (Loaded img, Loaded img :: snd v) else v
  end.

Definition spec (p : list stmt) (v : lres * list lres) (es : list event) : lres * list lres :=
  fold_left (spec_step p) es v.

Lemma history_gen : forall p, well_ordered p = true -> forall es v s0 s,
  wf (fun st => In st (snd v)) (fst v) s0 -> hrun p s0 es s ->
  wf (fun st => In st (snd (spec p v es))) (fst (spec p v es)) s.
Proof.
  intros p H. induction es as [| e es IH]; intros v s0 s W R.
  - inversion R; subst. exact W.
  - inversion R as [| sa ea s1 esa sb Hs Hr]; subst. simpl.
    apply (IH (spec_step p v e) s1); [| exact Hr].
    inversion Hs as [sa img s1' X1 | sa k img s1' Hi]; subst.
    + destruct (well_ordered_sound_gen p H _ _ s0 img W) as [_ [se [X [_ [_ We]]]]].
      rewrite X in X1. inversion X1; subst.
      simpl. eapply wf_weaken; [exact We |]. intros st E. subst. simpl. auto.
    + destruct (fail_sound p H _ _ s0 img W _ _ Hi) as [s' [E [W' _]]].
      inversion E; subst. simpl. destruct (rename_before p k); simpl.
      * eapply wf_weaken; [exact W' |]. intros st [A | A]; auto.
      * exact W'.
Qed.

Theorem history_sound : forall p, well_ordered p = true ->
  forall old s0 es s, wf (eq old) old s0 -> hrun p s0 es s ->
  let v := spec p (old, [old]) es in
  load s = fst v /\
  (forall s', crash s s' -> In (load s') (snd v)) /\
  (* the next commit runs, is crash safe at every call boundary, and ends durable *)
  (forall img, exists s2, runops (success_trace p) s img = XOk s2 /\
       wf (eq (Loaded img)) (Loaded img) s2) /\
  (forall k img r, In r (fail_outcomes p k s img) -> exists s2, r = XOk s2).
Proof.
  intros p H old s0 es s W R v.
  assert (W0 : wf (fun st => In st (snd (old, [old]))) (fst (old, [old])) s0).
  { eapply wf_weaken; [exact W |]. intros st E. subst. simpl. auto. }
  pose proof (history_gen p H es _ _ _ W0 R) as Ws. fold v in Ws.
  split; [apply (wf_load _ _ _ Ws) |]. split; [intros s' C; apply (wf_crash _ _ _ _ Ws C) |]. split.
  - intros img. destruct (well_ordered_sound_gen p H _ _ s img Ws) as [_ [se [X [_ [_ We]]]]]. eauto.
  - intros k img r Hin. destruct (fail_sound p H _ _ s img Ws _ _ Hin) as [s2 [E _]]. eauto.
Qed.
