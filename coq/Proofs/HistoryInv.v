(* HistoryInv.v — the catalog invariant of CatInv.v holds after EVERY history
   of driver calls (Model/Driver.v): for the committed catalog and for the
   catalog of every open session transaction, by induction over the call
   list.  Every call constructor is covered: writes (implicit or routed to a
   session transaction), failed calls, index management, drops, session
   start / commit / abort / end, the oplog trim and TTL expiry. *)
From Coq Require Import List ZArith Lia Bool.
From Lungo.Model Require Import Driver.
From Lungo.Proofs Require Import CollInv TxnProofs OplogProofs DriverProofs CatInv.
Import ListNotations.
Open Scope Z_scope.
Open Scope list_scope.

Section HistoryInv.
  Set Default Proof Using "Type".
  Variable matchf : doc -> doc -> res bool.
  Variable applyf : doc -> doc -> doc -> bool -> list doc -> Z -> res (doc * list (string * value)).
  Variable extractf : doc -> res doc.
  Variable projectf : doc -> doc -> res doc.
  Variable now : Z.

  Local Notation step := (Driver.step matchf applyf extractf projectf now).
  Local Notation run := (Driver.run matchf applyf extractf projectf now).
  Local Notation cat_inv := (CatInv.cat_inv matchf).

  (* the invariant of the driver state: the committed catalog and the catalog
     of every open session transaction are good for the current generator *)
  Definition ds_inv (ds : dstate) : Prop :=
    cat_inv (ds_cat ds) (g_did (ds_gen ds)) /\
    forall sid s tc, In (sid, s) (ds_sessions ds) -> s_txn s = Some tc ->
                     cat_inv tc (g_did (ds_gen ds)).

  Lemma sess_set_in l sid s k s' :
    In (k, s') (sess_set l sid s) -> (k = sid /\ s' = s) \/ In (k, s') l.
  Proof.
    induction l as [|[k0 x] t IH]; simpl.
    - intros [H|[]]. inversion H. left. auto.
    - destruct (k0 =? sid); simpl.
      + intros [H|H]; [inversion H; left; auto|right; right; exact H].
      + intros [H|H]; [right; left; exact H|].
        destruct (IH H) as [H1|H1]; [left; exact H1|right; right; exact H1].
  Qed.

  Lemma sess_get_in l sid s : sess_get l sid = Some s -> In (sid, s) l.
  Proof.
    induction l as [|[k x] t IH]; simpl; [discriminate|].
    destruct (k =? sid) eqn:E.
    - apply Z.eqb_eq in E. subst. intro H. inversion H. left. reflexivity.
    - intro H. right. apply IH. exact H.
  Qed.

  (* the transaction a call is routed to is good *)
  Lemma routed_inv ds sid tc :
    ds_inv ds -> routed ds sid = Some tc -> cat_inv tc (g_did (ds_gen ds)).
  Proof.
    intros [_ Hs]. unfold routed. destruct (sid <=? 0); [discriminate|].
    destruct (sess_get (ds_sessions ds) sid) as [s|] eqn:E; [|discriminate].
    intro H. apply sess_get_in in E. eapply Hs; eauto.
  Qed.

  (* changing one session and/or growing the generator *)
  Lemma ds_inv_set ds c' g' sid s :
    ds_inv ds -> cat_inv c' (g_did g') -> g_did (ds_gen ds) <= g_did g' ->
    (forall tc, s_txn s = Some tc -> cat_inv tc (g_did g')) ->
    ds_inv (mkD c' g' (sess_set (ds_sessions ds) sid s)).
  Proof.
    intros [_ Hs] Hc L Hn. split; cbn [ds_cat ds_gen ds_sessions]; [exact Hc|].
    intros k s' tc Hin Ht. destruct (sess_set_in _ _ _ _ _ Hin) as [[_ ->]|Hin'].
    - apply Hn. exact Ht.
    - eapply cat_inv_mono; [eapply Hs; eauto|exact L].
  Qed.

  Lemma ds_inv_keep ds c' g' :
    ds_inv ds -> cat_inv c' (g_did g') -> g_did (ds_gen ds) <= g_did g' ->
    ds_inv (mkD c' g' (ds_sessions ds)).
  Proof.
    intros [_ Hs] Hc L. split; cbn [ds_cat ds_gen ds_sessions]; [exact Hc|].
    intros k s' tc Hin Ht. eapply cat_inv_mono; [eapply Hs; eauto|exact L].
  Qed.

  (* ---------------------------------------------------------------- *)
  (* useTransaction *)

  (* a transaction callback that preserves the catalog invariant and only
     moves the identity generator forward *)
  Definition fn_ok {A} (fn : catalog -> gen -> catalog * gen * (A + ekind)) (g : gen) : Prop :=
    forall c c' g' r, cat_inv c (g_did g) -> fn c g = (c', g', r) ->
                      cat_inv c' (g_did g') /\ g_did g <= g_did g'.

  Lemma use_write_inv {A} ds sid (fn : catalog -> gen -> catalog * gen * (A + ekind)) :
    ds_inv ds -> fn_ok fn (ds_gen ds) -> ds_inv (fst (use_write ds sid fn)).
  Proof.
    intros Hd F. unfold use_write. destruct (routed ds sid) as [tc|] eqn:R.
    - pose proof (routed_inv ds sid tc Hd R) as Ht.
      destruct (fn tc (ds_gen ds)) as [[tc' g'] r] eqn:E. cbn [fst].
      destruct (F _ _ _ _ Ht E) as [A1 L].
      apply ds_inv_set; auto.
      + eapply cat_inv_mono; [apply Hd|exact L].
      + cbn [s_txn]. intros tc0 H. inversion H; subst. exact A1.
    - destruct (token_held ds); [exact Hd|].
      destruct (fn (ds_cat ds) (ds_gen ds)) as [[c' g'] r] eqn:E.
      destruct (F _ _ _ _ (proj1 Hd) E) as [A1 L].
      destruct r; cbn [fst]; apply ds_inv_keep; auto.
      eapply cat_inv_mono; [apply Hd|exact L].
  Qed.

  Lemma use_direct_inv {A} ds sid (fn : catalog -> gen -> catalog * gen * (A + ekind)) :
    ds_inv ds -> fn_ok fn (ds_gen ds) -> ds_inv (fst (use_direct ds sid fn)).
  Proof.
    intros Hd F. unfold use_direct. destruct (routed ds sid) as [tc|]; [exact Hd|].
    destruct (token_held ds); [exact Hd|].
    destruct (fn (ds_cat ds) (ds_gen ds)) as [[c' g'] r] eqn:E.
    destruct (F _ _ _ _ (proj1 Hd) E) as [A1 L].
    destruct r; cbn [fst]; apply ds_inv_keep; auto.
    eapply cat_inv_mono; [apply Hd|exact L].
  Qed.

  Lemma fst_let {A B C} (x : A * B) (f : B -> C) : fst (let '(a, b) := x in (a, f b)) = fst x.
  Proof. destruct x. reflexivity. Qed.

  Lemma project_in_txn_same proj after cp c g r c' g' r' :
    project_in_txn projectf proj after cp (c, g, r) = (c', g', r') -> (c' = c \/ c' = cp) /\ g' = g.
  Proof.
    unfold project_in_txn. destruct r as [tr|e].
    - destruct (reply_doc projectf proj (pick_doc tr after)); intro H; inversion H; auto.
    - intro H; inversion H; auto.
  Qed.

  Lemma fn_ok_project proj after (fn : catalog -> gen -> catalog * gen * (tresult + ekind)) g :
    fn_ok fn g -> fn_ok (fun cat g0 => project_in_txn projectf proj after cat (fn cat g0)) g.
  Proof.
    intros F c c' g' r Hc. cbv beta.
    destruct (fn c g) as [[c1 g1] r1] eqn:E. intro H.
    apply project_in_txn_same in H. destruct H as [[->| ->] ->].
    - eapply F; eauto.
    - destruct (F _ _ _ _ Hc E) as [_ L]. split; [|exact L].
      eapply cat_inv_mono; [exact Hc|exact L].
  Qed.

  (* callbacks that do not touch the generator *)
  Lemma fn_ok_nogen {A} (f : catalog -> catalog * (A + ekind)) g :
    (forall c c' r, cat_inv c (g_did g) -> f c = (c', r) -> cat_inv c' (g_did g)) ->
    fn_ok (fun cat g0 => let '(c', r) := f cat in (c', g0, r)) g.
  Proof.
    intros F c c' g' r Hc. cbv beta. destruct (f c) as [c1 r1] eqn:E.
    intro H; inversion H; subst. split; [eapply F; eauto|lia].
  Qed.

  (* ---------------------------------------------------------------- *)
  (* every call preserves the invariant *)

  Theorem step_inv ds c : ds_inv ds -> ds_inv (fst (step ds c)).
  Proof.
    intro Hd. destruct c; cbn [Driver.step]; try exact Hd.
    - (* insertOne *)
      rewrite fst_let. apply use_write_inv; auto.
      intros c c' g' r Hc. apply txn_insert_inv. exact Hc.
    - (* insertMany *)
      rewrite fst_let. apply use_write_inv; auto.
      intros c c' g' r Hc. apply txn_insert_inv. exact Hc.
    - (* update *)
      rewrite fst_let. apply use_write_inv; auto.
      intros c c' g' r Hc. apply txn_update_inv. exact Hc.
    - (* replace *)
      destruct (first_key_dollar repl); [exact Hd|].
      rewrite fst_let. apply use_write_inv; auto.
      intros c c' g' r Hc. apply txn_replace_inv. exact Hc.
    - (* delete *)
      rewrite fst_let. apply use_write_inv; auto.
      intros c c' g' r Hc. apply txn_delete_inv. exact Hc.
    - (* findOneAndUpdate *)
      rewrite fst_let. apply use_write_inv; auto.
      apply (fn_ok_project proj after
               (fun cat g => txn_update matchf applyf extractf cat g h q sort u 0 1 upsert afs now)).
      intros c c' g' r Hc. apply txn_update_inv. exact Hc.
    - (* findOneAndReplace *)
      destruct (first_key_dollar repl); [exact Hd|].
      rewrite fst_let. apply use_write_inv; auto.
      apply (fn_ok_project proj after
               (fun cat g => txn_replace matchf applyf extractf cat g h q sort repl upsert now)).
      intros c c' g' r Hc. apply txn_replace_inv. exact Hc.
    - (* findOneAndDelete *)
      rewrite fst_let. apply use_write_inv; auto.
      apply (fn_ok_project proj false (fun cat g => txn_delete matchf cat g h q sort 0 1)).
      intros c c' g' r Hc. apply txn_delete_inv. exact Hc.
    - (* bulk *)
      destruct (existsb _ ops); [exact Hd|].
      rewrite fst_let. apply use_write_inv; auto.
      intros c c' g' r Hc. apply txn_bulk_inv. exact Hc.
    - (* createIndex *)
      rewrite fst_let. apply use_direct_inv; auto.
      apply (fn_ok_nogen (fun cat => txn_create_index matchf cat h name
                                       (mkConfig key unique partial (expiry_ns expire_s)))).
      intros c c' r Hc. apply txn_create_index_inv. exact Hc.
    - (* dropIndex *)
      rewrite fst_let. apply use_direct_inv; auto.
      apply (fn_ok_nogen (fun cat => txn_drop_index cat h name)).
      intros c c' r Hc. apply txn_drop_index_inv. exact Hc.
    - (* dropAllIndexes *)
      rewrite fst_let. apply use_direct_inv; auto.
      apply (fn_ok_nogen (fun cat => txn_drop_index cat h "")).
      intros c c' r Hc. apply txn_drop_index_inv. exact Hc.
    - (* dropCollection *)
      rewrite fst_let. apply use_direct_inv; auto.
      intros c c' g' r Hc. apply txn_drop_inv. exact Hc.
    - (* dropDatabase *)
      rewrite fst_let. apply use_direct_inv; auto.
      intros c c' g' r Hc. apply txn_drop_inv. exact Hc.
    - (* start: the transaction starts from the committed catalog *)
      assert (S : ds_inv (mkD (ds_cat ds) (ds_gen ds)
                    (sess_set (ds_sessions ds) sid (mkSess (Some (ds_cat ds)) false)))).
      { apply ds_inv_set; auto; [apply Hd|lia|].
        cbn [s_txn]. intros tc H. inversion H; subst. apply Hd. }
      destruct (sess_get (ds_sessions ds) sid) as [[[t|] [|]]|]; try exact Hd;
        destruct (token_held ds); cbn [fst]; auto.
    - (* commit: the transaction's catalog becomes the committed one *)
      destruct (sess_get (ds_sessions ds) sid) as [[[tc|] [|]]|] eqn:E; try exact Hd.
      cbn [fst]. apply sess_get_in in E. apply ds_inv_set; auto.
      + destruct Hd as [_ Hs]. eapply Hs; eauto.
      + lia.
      + cbn [s_txn]. intros tc0 H. discriminate.
    - (* abort *)
      destruct (sess_get (ds_sessions ds) sid) as [[t [|]]|]; try exact Hd; cbn [fst];
        (apply ds_inv_set; auto; [apply Hd|lia|cbn [s_txn]; intros tc0 H; discriminate]).
    - (* end session *)
      cbn [fst]. apply ds_inv_set; auto; [apply Hd|lia|cbn [s_txn]; intros tc0 H; discriminate].
    - (* trim *)
      destruct (token_held ds); [exact Hd|].
      destruct (0 <? _); [|exact Hd]. cbn [fst].
      apply ds_inv_keep; auto; [|lia].
      apply (trim_inv matchf (ds_cat ds)). apply Hd.
    - (* expire *)
      destruct (token_held ds); [exact Hd|].
      destruct (txn_expire matchf (ds_cat ds) (ds_gen ds) now_ms) as [[c' g'] r] eqn:E.
      destruct (txn_expire_inv matchf _ _ _ _ _ _ (proj1 Hd) E) as [A1 L].
      destruct r; cbn [fst]; apply ds_inv_keep; auto.
      eapply cat_inv_mono; [apply Hd|exact L].
  Qed.

  Theorem d_init_inv : ds_inv d_init.
  Proof.
    split; cbn [d_init ds_cat ds_gen ds_sessions].
    - apply new_catalog_inv.
    - intros sid s tc [].
  Qed.

  Lemma run_inv_from calls : forall ds, ds_inv ds -> ds_inv (fst (run ds calls)).
  Proof.
    induction calls as [|c t IH]; intros ds Hd; cbn [Driver.run]; [exact Hd|].
    pose proof (step_inv ds c Hd) as H1.
    destruct (step ds c) as [ds1 r]. cbn [fst] in H1.
    specialize (IH ds1 H1). destruct (run ds1 t) as [ds2 rs]. exact IH.
  Qed.

  (* the invariant holds after every history *)
  Theorem run_inv calls : ds_inv (fst (run d_init calls)).
  Proof. apply run_inv_from. apply d_init_inv. Qed.

  (* ---------------------------------------------------------------- *)
  (* what the invariant says about each namespace of a reachable state *)

  (* the catalogs an observer can look at: the committed one and the one of
     every open session transaction *)
  Definition visible_cat (ds : dstate) (c : catalog) : Prop :=
    c = ds_cat ds \/ exists sid s, In (sid, s) (ds_sessions ds) /\ s_txn s = Some c.

  Lemma visible_inv ds c : ds_inv ds -> visible_cat ds c -> cat_inv c (g_did (ds_gen ds)).
  Proof.
    intros [H1 H2] [->|[sid [s [Hin Ht]]]]; [exact H1|]. eapply H2; eauto.
  Qed.

  Theorem reachable_cat_inv calls c :
    visible_cat (fst (run d_init calls)) c ->
    cat_inv c (g_did (ds_gen (fst (run d_init calls)))).
  Proof. apply visible_inv. apply run_inv. Qed.

  (* every user namespace of every visible catalog of every reachable state *)
  Theorem reachable_user_ok calls c h nc :
    visible_cat (fst (run d_init calls)) c ->
    In (h, nc) (cat_ns c) -> h <> oplog_handle ->
    CollInv.coll_inv matchf nc /\ has_id_index nc.
  Proof.
    intros V Hin N. destruct (reachable_cat_inv calls c V) as [H1 _].
    destruct (H1 _ _ Hin) as [_ H]. destruct (H N) as [A [B _]]. auto.
  Qed.

End HistoryInv.

Print Assumptions step_inv.
Print Assumptions run_inv.
Print Assumptions reachable_user_ok.
