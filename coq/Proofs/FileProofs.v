(* FileProofs.v — FileStore.Store followed by FileStore.Load (Model/File.v:
   BuildFile, bson.Marshal of the File structs, the byte-level codec,
   bson.Unmarshal, BuildCatalog) returns the catalog that was stored, for every
   storable catalog whose database names contain no dot; and a catalog with a
   dotted database name that does NOT come back. *)
From Coq Require Import List ZArith Lia ZifyBool ZifyNat Bool String Ascii.
From Lungo.Model Require Import File.
From Lungo.Proofs Require Import CodecProofs.
Import ListNotations.
Open Scope string_scope.
Open Scope Z_scope.

(* ---------------------------------------------------------------- *)
(* Marshal / Unmarshal of the structs *)

Lemma opt_mapM_map {A B} (f : A -> B) (g : B -> option A) (l : list A) :
  (forall x, g (f x) = Some x) -> opt_mapM g (map f l) = Some l.
Proof.
  intro H. induction l as [|x l IH]; [reflexivity|].
  cbn [map opt_mapM]. rewrite H, IH. reflexivity.
Qed.

Lemma value_to_ix_inv ix : value_to_ix (ix_to_value ix) = Some ix.
Proof. destruct ix as [k u [p|] e]; reflexivity. Qed.

Lemma value_to_named_ix_inv ni : value_to_named_ix (named_ix_to_value ni) = Some ni.
Proof.
  destruct ni as [n ix]. unfold value_to_named_ix, named_ix_to_value. cbn [fst snd].
  rewrite value_to_ix_inv. reflexivity.
Qed.

Lemma value_to_ns_inv ns : value_to_ns (ns_to_value ns) = Some ns.
Proof.
  destruct ns as [[ds|] [ixs|]]; unfold ns_to_value, value_to_ns; cbn [fn_docs fn_indexes].
  - change (field "documents" [("documents", VArr (map VDoc ds)); ("indexes", VDoc (map named_ix_to_value ixs))])
      with (Some (VArr (map VDoc ds))).
    change (field "indexes" [("documents", VArr (map VDoc ds)); ("indexes", VDoc (map named_ix_to_value ixs))])
      with (Some (VDoc (map named_ix_to_value ixs))).
    cbv iota beta.
    rewrite (opt_mapM_map VDoc value_to_docv) by reflexivity.
    rewrite (opt_mapM_map named_ix_to_value value_to_named_ix) by apply value_to_named_ix_inv.
    reflexivity.
  - change (field "documents" [("documents", VArr (map VDoc ds)); ("indexes", VNull)])
      with (Some (VArr (map VDoc ds))).
    cbv iota beta.
    rewrite (opt_mapM_map VDoc value_to_docv) by reflexivity.
    reflexivity.
  - change (field "indexes" [("documents", VNull); ("indexes", VDoc (map named_ix_to_value ixs))])
      with (Some (VDoc (map named_ix_to_value ixs))).
    change (field "documents" [("documents", VNull); ("indexes", VDoc (map named_ix_to_value ixs))])
      with (Some VNull).
    cbv iota beta.
    rewrite (opt_mapM_map named_ix_to_value value_to_named_ix) by apply value_to_named_ix_inv.
    reflexivity.
  - reflexivity.
Qed.

Lemma value_to_named_ns_inv kn : value_to_named_ns (named_ns_to_value kn) = Some kn.
Proof.
  destruct kn as [k ns]. unfold value_to_named_ns, named_ns_to_value. cbn [fst snd].
  rewrite value_to_ns_inv. reflexivity.
Qed.

Lemma value_to_file_inv f : value_to_file (file_to_value f) = Some f.
Proof.
  unfold file_to_value, file_to_doc, value_to_file.
  change (field "namespaces" [("namespaces", VDoc (map named_ns_to_value f))])
    with (Some (VDoc (map named_ns_to_value f))).
  cbv iota beta.
  apply opt_mapM_map. apply value_to_named_ns_inv.
Qed.

(* ---------------------------------------------------------------- *)
(* the image of a storable catalog is a storable document *)

Lemma forallb_map {A B} (f : A -> B) (p : B -> bool) l :
  forallb p (map f l) = forallb (fun x => p (f x)) l.
Proof. induction l as [|x l IH]; [reflexivity|]. cbn [map forallb]. rewrite IH. reflexivity. Qed.

Lemma forallb_ext_in {A} (p q : A -> bool) l :
  (forall x, In x l -> p x = true -> q x = true) -> forallb p l = true -> forallb q l = true.
Proof.
  intros H Hp. apply forallb_forall. intros x Hx. apply H; [exact Hx|].
  rewrite forallb_forall in Hp. apply Hp. exact Hx.
Qed.

Lemma no_nul_append a b : no_nul a = true -> no_nul b = true -> no_nul (a ++ b) = true.
Proof.
  intros Ha Hb. induction a as [|c a IH]; [exact Hb|].
  cbn [no_nul] in Ha. apply andb_prop in Ha. destruct Ha as [Hc Ha].
  cbn [append no_nul]. rewrite Hc, IH by exact Ha. reflexivity.
Qed.

Lemma ix_value_ok ni : ix_ok ni = true ->
  no_nul (fst (named_ix_to_value ni)) && codec_ok (snd (named_ix_to_value ni)) = true.
Proof.
  destruct ni as [n [k u p e]]. unfold ix_ok, named_ix_to_value, ix_to_value, int64_ok.
  cbn [fst snd ix_key ix_unique ix_partial ix_expiry]. intro H.
  apply andb_prop in H. destruct H as [H He].
  apply andb_prop in H. destruct H as [H Hp].
  apply andb_prop in H. destruct H as [Hn Hk].
  rewrite Hn. cbn [andb].
  rewrite codec_ok_doc. cbn [forallb fst snd].
  rewrite Hk.
  change (no_nul "key") with true. change (no_nul "unique") with true.
  change (no_nul "partial") with true. change (no_nul "expiry") with true.
  change (codec_ok (VBool u)) with true. change (codec_ok (VInt64 e)) with ((- two63 <=? e) && (e <? two63)).
  rewrite He. destruct p as [p|]; cbn [opt_doc_value andb]; [rewrite Hp; reflexivity | reflexivity].
Qed.

Lemma docs_value_ok ds :
  forallb (fun d => codec_ok (VDoc d)) ds = true -> codec_ok (VArr (map VDoc ds)) = true.
Proof. intro H. rewrite codec_ok_arr, forallb_map. exact H. Qed.

Lemma ns_value_ok nilp hc : ns_ok hc = true ->
  no_nul (fst (named_ns_to_value (build_ns nilp hc)))
  && codec_ok (snd (named_ns_to_value (build_ns nilp hc))) = true.
Proof.
  destruct hc as [[db cl] [ds ixs]]. unfold ns_ok, named_ns_to_value, build_ns, ns_to_value, handle_key.
  cbn [fst snd c_docs c_indexes fn_docs fn_indexes]. intro H.
  apply andb_prop in H. destruct H as [H Hix].
  apply andb_prop in H. destruct H as [H Hds].
  apply andb_prop in H. destruct H as [Hdb Hcl].
  rewrite no_nul_append; [| exact Hdb | apply no_nul_append; [reflexivity | exact Hcl]].
  cbn [andb]. rewrite codec_ok_doc. cbn [forallb fst snd].
  change (no_nul "documents") with true. change (no_nul "indexes") with true. cbn [andb].
  rewrite codec_ok_doc, forallb_map.
  rewrite (forallb_ext_in ix_ok _ ixs (fun ni _ => ix_value_ok ni) Hix).
  rewrite andb_true_r.
  destruct (nilp (db ++ "." ++ cl) && is_nil ds); [reflexivity | apply docs_value_ok; exact Hds].
Qed.

Lemma file_value_ok nilp c : catalog_ok c = true ->
  codec_ok (VDoc (file_to_doc (build_file_g nilp c))) = true.
Proof.
  unfold catalog_ok, file_to_doc, build_file_g. intro H.
  rewrite codec_ok_doc. cbn [forallb fst snd]. change (no_nul "namespaces") with true.
  rewrite codec_ok_doc, !forallb_map.
  rewrite (forallb_ext_in ns_ok _ c (fun hc _ => ns_value_ok nilp hc) H). reflexivity.
Qed.

(* ---------------------------------------------------------------- *)
(* BuildCatalog after BuildFile *)

Lemma split_join a b : no_dot a = true -> split_first_dot (a ++ "." ++ b) = Some (a, b).
Proof.
  intro H. induction a as [|c a IH].
  - reflexivity.
  - cbn [no_dot] in H. apply andb_prop in H. destruct H as [Hc Ha].
    apply negb_true_iff in Hc.
    change (String c a ++ "." ++ b) with (String c (a ++ "." ++ b)).
    cbn [split_first_dot]. rewrite Hc. rewrite (IH Ha). reflexivity.
Qed.

Lemma load_build_ns build_ok nilp hc :
  no_dot (fst (fst hc)) = true ->
  forallb (fun ni => build_ok (snd ni) (c_docs (snd hc))) (c_indexes (snd hc)) = true ->
  load_ns build_ok (build_ns nilp hc) = Some hc.
Proof.
  destruct hc as [[db cl] [ds ixs]]. cbn [fst snd c_docs c_indexes]. intros Hdot Hb.
  unfold load_ns, build_ns, handle_key. cbn [fst snd fn_docs fn_indexes c_docs c_indexes].
  rewrite split_join by exact Hdot.
  assert ((match (if nilp (db ++ "." ++ cl) && is_nil ds then None else Some ds) with
           | Some l => l | None => [] end) = ds) as E.
  { destruct (nilp (db ++ "." ++ cl)); cbn [andb]; [|reflexivity].
    destruct ds; reflexivity. }
  rewrite E, Hb. reflexivity.
Qed.

Lemma load_build_all build_ok nilp c :
  handles_ok c = true -> indexes_build build_ok c = true ->
  opt_mapM (load_ns build_ok) (build_file_g nilp c) = Some c.
Proof.
  unfold handles_ok, indexes_build, build_file_g.
  induction c as [|hc c IH]; intros Hh Hb; [reflexivity|].
  cbn [forallb] in Hh, Hb.
  apply andb_prop in Hh. destruct Hh as [Hh1 Hh2].
  apply andb_prop in Hb. destruct Hb as [Hb1 Hb2].
  cbn [map opt_mapM]. rewrite load_build_ns by assumption. rewrite IH by assumption. reflexivity.
Qed.

Lemma build_catalog_build_file build_ok nilp c :
  has_oplog c = true -> handles_ok c = true -> indexes_build build_ok c = true ->
  build_catalog_g build_ok (build_file_g nilp c) = Some c.
Proof.
  intros Ho Hh Hb. unfold build_catalog_g. rewrite load_build_all by assumption.
  unfold has_oplog in Ho. rewrite Ho. reflexivity.
Qed.

(* ---------------------------------------------------------------- *)
(* the theorem *)

(* a storable catalog (as every catalog reachable through the API is): names
   without NUL, storable documents and index definitions, the change log
   namespace present, and an image below 2^31 bytes *)
Definition wf_catalog (nilp : string -> bool) (c : catalog) : Prop :=
  catalog_ok c = true /\ has_oplog c = true /\
  Z.of_nat (List.length (store_bytes nilp c)) < two31.

Theorem reload_identity_g : forall build_ok nilp c,
  wf_catalog nilp c -> indexes_build build_ok c = true -> handles_ok c = true ->
  reload_g build_ok nilp c = Some c.
Proof.
  intros build_ok nilp c [Hok [Hop Hlen]] Hb Hh.
  unfold reload_g, load_bytes, store_bytes in *.
  rewrite decode_encode by (split; [apply file_value_ok; exact Hok | exact Hlen]).
  change (VDoc (file_to_doc (build_file_g nilp c))) with (file_to_value (build_file_g nilp c)).
  rewrite value_to_file_inv.
  apply build_catalog_build_file; assumption.
Qed.

Theorem reload_identity : forall c,
  wf_catalog (fun _ => false) c -> indexes_build create_ok c = true -> handles_ok c = true ->
  reload c = Some c.
Proof. intros c. apply reload_identity_g. Qed.

(* what "Some c" means, spelled out: every namespace comes back under its
   handle with the same documents in the same order and the same index
   definitions; in particular the change log *)
Fixpoint lookup (h : handle) (c : catalog) : option coll :=
  match c with
  | [] => None
  | (h', cl) :: t => if handle_eqb h h' then Some cl else lookup h t
  end.

Corollary reload_same_namespaces : forall build_ok nilp c c',
  wf_catalog nilp c -> indexes_build build_ok c = true -> handles_ok c = true ->
  reload_g build_ok nilp c = Some c' ->
  forall h, lookup h c' = lookup h c.
Proof.
  intros build_ok nilp c c' W B H R h.
  rewrite (reload_identity_g build_ok nilp c W B H) in R. injection R as <-. reflexivity.
Qed.

(* ---------------------------------------------------------------- *)
(* the hypothesis handles_ok is needed: a real defect of lungo *)

Definition dotted_catalog : catalog :=
  [(("a.b", "c"), {| c_docs := [[("_id", VInt32 1)]]; c_indexes := [("_id_", {| ix_key := [("_id", VInt32 1)]; ix_unique := true; ix_partial := None; ix_expiry := 0 |})] |});
   (oplog_handle, empty_coll)].

Definition dotted_reloaded : catalog :=
  [(("a", "b.c"), {| c_docs := [[("_id", VInt32 1)]]; c_indexes := [("_id_", {| ix_key := [("_id", VInt32 1)]; ix_unique := true; ix_partial := None; ix_expiry := 0 |})] |});
   (oplog_handle, empty_coll)].

Lemma dotted_wf : wf_catalog (fun _ => false) dotted_catalog /\ indexes_build create_ok dotted_catalog = true.
Proof.
  split; [split; [|split]|]; try (vm_compute; reflexivity).
Qed.

Theorem reload_identity_refuted : exists c,
  wf_catalog (fun _ => false) c /\ indexes_build create_ok c = true /\
  handles_ok c = false /\
  exists c', reload c = Some c' /\ c' <> c /\ lookup ("a.b", "c") c' = None.
Proof.
  exists dotted_catalog. destruct dotted_wf as [W B].
  split; [exact W|]. split; [exact B|]. split; [reflexivity|].
  exists dotted_reloaded. split; [vm_compute; reflexivity|]. split; [discriminate | reflexivity].
Qed.

(* ---------------------------------------------------------------- *)
(* the two normalisations of the Go codec that wf_doc excludes are needed *)

Definition four_zero_bytes : string :=
  String zero_byte (String zero_byte (String zero_byte (String zero_byte ""))).

Theorem decode_encode_needs_wf :
  (* an empty binary of subtype 2 comes back as four zero bytes *)
  decode_bytes (encode_doc [("a", VBin 2 "")]) = Some [("a", VBin 2 four_zero_bytes)]
  (* regular-expression options come back sorted *)
  /\ decode_bytes (encode_doc [("a", VRegex "p" "xi")]) = Some [("a", VRegex "p" "ix")].
Proof. split; vm_compute; reflexivity. Qed.

(* non-vacuity: a catalog with every index option meets the hypotheses *)
Definition sample_catalog : catalog :=
  [(("db", "c.d"),
    {| c_docs := [[("_id", VInt32 1); ("a", VArr [VDouble 9221120237041090560; VNull; VDoc []]); ("t", VDate 1700000000000)];
                  [("_id", VString "x"); ("b", VBin 2 "ab"); ("r", VRegex "^a" "im"); ("d", VDecimal 3476778912330022912 1)]];
       c_indexes := [("_id_", {| ix_key := [("_id", VInt32 1)]; ix_unique := true; ix_partial := None; ix_expiry := 0 |});
                     ("t_1", {| ix_key := [("t", VInt32 1)]; ix_unique := false; ix_partial := Some [("a", VDoc [("$gt", VInt32 1)])]; ix_expiry := 1 |});
                     ("custom", {| ix_key := [("a", VInt64 1); ("b", VDouble 13830554455654793216)]; ix_unique := true; ix_partial := None; ix_expiry := 0 |})] |});
   (oplog_handle,
    {| c_docs := [[("_id", VDoc [("ts", VTs 1700000000 1)]); ("operationType", VString "insert")]]; c_indexes := [] |});
   (("e", "empty"), empty_coll)].

Example reload_identity_example :
  wf_catalog (fun k => String.eqb k "e.empty") sample_catalog /\
  indexes_build create_ok sample_catalog = true /\ handles_ok sample_catalog = true /\
  reload_g create_ok (fun k => String.eqb k "e.empty") sample_catalog = Some sample_catalog.
Proof.
  split; [split; [|split]|split; [|split]]; vm_compute; reflexivity.
Qed.
