(* EngineTime.v — time stamps of commits, calls and snapshots (real-time
   order, reads see a commit prefix). *)
From Coq Require Import List Arith Lia Bool.
From Lungo.Model Require Import Base Engine.
From Lungo.Proofs Require Import EngineProofs.
Import ListNotations.
Local Open Scope list_scope.

Definition log_ext (g g' : globals) : Prop :=
  now g' = now g /\ version g <= version g' /\
  (log g' = log g \/ exists e, log g' = e :: log g /\ c_base e = version g /\ c_time e = now g).

Lemma tstep_log_ext : forall c t bgs g th a g' th',
  tstep c t bgs g th a = Some (g', th') -> inv_base g t th -> log_ext g g'.
Proof.
  intros c t bgs g th a g' th' H IB. unfold log_ext, inv_base in *.
  destruct th as [p prog cur canc bg inv pub rd res str]. simpl in IB.
  destruct a; [destruct p|destruct p|destruct p|destruct p]; step_cases H; simp;
    try solve [repeat split; auto].
  destruct (IB _ eq_refl) as (tx & N & A & B).
  repeat split; auto. right. eexists; split; [reflexivity|]. simpl. unfold txn_base. rewrite N. auto.
Qed.

Lemma times_ok_lt : forall l b e, times_ok l b -> In e l -> c_time e < b.
Proof.
  induction l; simpl; intros b e H I; [contradiction|]. destruct H as [A B].
  destruct I as [->|I]; auto. specialize (IHl _ _ B I). lia.
Qed.

Lemma times_ok_mono : forall l b b', times_ok l b -> b <= b' -> times_ok l b'.
Proof. destruct l; simpl; intros; auto. destruct H; split; auto; lia. Qed.

Lemma times_ok_ext : forall g g', log_ext g g' -> times_ok (log g) (now g) -> times_ok (log g') (S (now g')).
Proof.
  intros g g' (N & V & [L|(e & L & B & T)]) H; rewrite L, N.
  - eapply times_ok_mono; eauto.
  - simpl. split; [lia|]. rewrite T. auto.
Qed.

Lemma pub_ok_ext : forall g g' lo hi hi' p,
  log_ext g g' -> pub_ok g lo hi p -> hi <= hi' -> pub_ok g' lo hi' p.
Proof.
  intros g g' lo hi hi' p (N & V & L) H LE x PX. destruct (H _ PX) as (e & I & C & A & B).
  exists e. repeat split; auto; try lia.
  destruct L as [L|(e' & L & _)]; rewrite L; simpl; auto.
Qed.

Lemma read_ok_ext : forall g g' lo hi hi' r,
  log_ext g g' -> read_ok g lo hi r -> hi <= now g -> hi <= hi' -> read_ok g' lo hi' r.
Proof.
  intros g g' lo hi hi' r (N & V & L) H HN LE v tm RX. destruct (H _ _ RX) as (A & B & C & D).
  repeat split; try lia.
  - destruct L as [L|(e' & L & EB & ET)]; rewrite L in H0; simpl in H0.
    + apply D; auto.
    + destruct H0 as [<-|I]; [lia|apply D; auto].
  - destruct L as [L|(e' & L & EB & ET)]; rewrite L in H0; simpl in H0.
    + apply D; auto.
    + destruct H0 as [<-|I]; [lia|apply D; auto].
Qed.

Lemma cat_at_current : forall l cat ver, log_ok l cat ver -> cat_at l ver = cat.
Proof.
  destruct l; simpl; intros cat ver H.
  - destruct H; subst; auto.
  - destruct H as (A & B & _). subst. rewrite Nat.eqb_refl. auto.
Qed.

Lemma cat_at_ext : forall g g' v, log_ext g g' -> v <= version g -> cat_at (log g') v = cat_at (log g) v.
Proof.
  intros g g' v (N & V & [L|(e & L & B & T)]) LE; rewrite L; auto.
  cbn [cat_at]. rewrite B. destruct (Nat.eqb_spec (S (version g)) v); [lia|auto].
Qed.

(* how one step changes the transaction table, the call records and the thread's own time fields *)
Lemma tstep_txns_ext : forall c t bgs g th a g' th',
  tstep c t bgs g th a = Some (g', th') ->
  forall x tx', nth_error (txns g') x = Some tx' ->
  (exists tx, nth_error (txns g) x = Some tx /\ t_base_ver tx' = t_base_ver tx /\ t_base_cat tx' = t_base_cat tx) \/
  (t_base_ver tx' = version g /\ t_base_cat tx' = catalog g).
Proof.
  intros c t bgs g th a g' th' H.
  destruct th as [p prog cur canc bg inv pub rd res str].
  destruct a; [destruct p|destruct p|destruct p|destruct p]; step_cases H; simp; intros y ty HY.
  all: try solve [left; eexists; split; [eassumption|split; reflexivity]].
  all: try (rewrite nth_upd_match in HY; revert HY; eqb_cases; intros HY;
            [destruct (nth_error (txns g) y) eqn:NY; simpl in HY; inversion HY; subst;
             left; eexists; split; [reflexivity|split; reflexivity]
            |left; eexists; split; [eassumption|split; reflexivity]]).
  all: try (rewrite nth_error_app_new in HY; revert HY;
            destruct (Nat.ltb_spec y (List.length (txns g))); [|destruct (Nat.eqb_spec y (List.length (txns g)))];
            intros HY; try discriminate;
            [left; eexists; split; [eassumption|split; reflexivity]|inversion HY; subst; right; simpl; auto]).
Qed.

Lemma pub_ok_none : forall g lo hi, pub_ok g lo hi None.
Proof. intros g lo hi x H. discriminate. Qed.
Lemma read_ok_none : forall g lo hi, read_ok g lo hi None.
Proof. intros g lo hi v tm H. discriminate. Qed.

Lemma pub_ok_ext' : forall g g' n lo hi hi' p,
  log_ext g g' -> pub_ok g lo hi p -> hi <= hi' -> pub_ok (g_set_now g' n) lo hi' p.
Proof. intros. change (pub_ok g' lo hi' p) with (pub_ok (g_set_now g' n) lo hi' p) || idtac.
  pose proof (pub_ok_ext _ _ _ _ _ _ H H0 H1) as Q. exact Q. Qed.
Lemma read_ok_ext' : forall g g' n lo hi hi' r,
  log_ext g g' -> read_ok g lo hi r -> hi <= now g -> hi <= hi' -> read_ok (g_set_now g' n) lo hi' r.
Proof. intros. pose proof (read_ok_ext _ _ _ _ _ _ H H0 H1 H2) as Q. exact Q. Qed.

Lemma tstep_time_th : forall c t bgs g th a g' th',
  tstep c t bgs g th a = Some (g', th') ->
  inv_time g t th -> inv_base g t th ->
  log_ok (log g) (catalog g) (version g) -> times_ok (log g) (now g) ->
  inv_time (g_set_now g' (S (now g'))) t th' /\
  (forall k, In k (calls g') -> In k (calls g) \/ call_ok (g_set_now g' (S (now g'))) k).
Proof.
  intros c t bgs g th a g' th' H (I1 & I2 & I3 & I4) IB LO TO.
  pose proof (tstep_log_ext _ _ _ _ _ _ _ _ H IB) as LX.
  unfold inv_time, call_ok in *.
  destruct th as [p prog cur canc bg inv pub rd res str]. simpl in I1, I2, I3, I4, IB.
  destruct a; [destruct p|destruct p|destruct p|destruct p]; step_cases H; simp.
  all: try (destruct (I4 eq_refl) as [PN RN]; subst pub rd; clear I4).
  all: assert (NOW := proj1 LX); simpl in NOW.
  all: split; [split; [|split; [|split]]|].
  all: try solve [simpl; lia].
  all: try solve [apply pub_ok_none]. all: try solve [apply read_ok_none].
  all: try solve [intros; discriminate]. all: try solve [intros; split; reflexivity].
  all: try solve [intros kk IK; left; exact IK].
  all: try solve [eapply pub_ok_ext'; eauto; simpl; lia].
  all: try solve [eapply read_ok_ext'; eauto; simpl; lia].
  all: try solve [intros kk [<-|IK]; [right; cbn [k_inv k_ret k_pub k_read]; split; [lia|split; [lia|split]];
         first [apply pub_ok_none | apply read_ok_none
               | eapply pub_ok_ext'; eauto; simpl; lia | eapply read_ok_ext'; eauto; simpl; lia]
       | left; exact IK]].
  - intros v tm HV. inversion HV; subst. split; [exact I1|split; [lia|split; [simpl; lia|]]].
    intros e IE. simpl in IE. split; intros _; [eapply times_ok_lt; eauto | eapply log_ok_base_lt; eauto].
  - intros y HY. inversion HY; subst. eexists. split; [simpl; left; reflexivity|].
    simpl. split; [reflexivity|split; [exact I1|lia]].
Qed.

Lemma log_ext_refl : forall g, log_ext g g.
Proof. intros. repeat split; auto. Qed.

Lemma call_ok_ext : forall g g' n k, log_ext g g' -> now g < n -> call_ok g k -> call_ok (g_set_now g' n) k.
Proof.
  intros g g' n k LX LT (A & B & C & D). unfold call_ok. simpl. split; [auto|split; [lia|split]].
  - eapply pub_ok_ext'; eauto.
  - eapply read_ok_ext'; eauto. lia.
Qed.

Lemma inv_time_ext : forall g g' t th, log_ext g g' -> inv_time g t th -> inv_time (g_set_now g' (S (now g'))) t th.
Proof.
  intros g g' t th LX (A & B & C & D). pose proof (proj1 LX) as N. unfold inv_time. simpl.
  split; [lia|split; [|split; [|exact D]]].
  - eapply pub_ok_ext'; eauto. lia.
  - eapply read_ok_ext'; eauto. lia.
Qed.

Lemma inv_time_g_ext_same : forall g g',
  log g' = log g -> calls g' = calls g -> txns g' = txns g -> version g' = version g -> now g' = now g ->
  inv_time_g g -> inv_time_g (g_set_now g' (S (now g'))).
Proof.
  intros g g' L C T V N (A & B & D).
  assert (LX : log_ext g g') by (repeat split; auto; lia).
  unfold inv_time_g. simpl. rewrite C, T, V. split; [|split].
  - eapply times_ok_ext; eauto.
  - intros k IK. eapply call_ok_ext; eauto. lia.
  - intros x tx NX. destruct (D _ _ NX). rewrite L. auto.
Qed.

Theorem time_invariant : forall c s, reachable c s -> inv_time_g (st_g s) /\ all_threads inv_time s.
Proof.
  induction 1.
  - split.
    + split; [exact I|split]; simpl; intros; try contradiction. destruct x; discriminate.
    + intros t th N. apply init_thread_nth in N. destruct N as (P & _ & _ & R & PB & _ & _ & _ & IV).
      unfold inv_time. rewrite R, PB, IV. simpl.
      split; [lia|split; [apply pub_ok_none|split; [apply read_ok_none|auto]]].
  - destruct IHreachable as [IG IT].
    destruct (base_invariant _ _ H) as [[_ LO] IB].
    apply step_inv in H0. destruct H0 as [H0|[H0|[H0|H0]]].
    + destruct H0 as (t & a & th & g' & th' & -> & N & T & ->).
      destruct IG as (TO & CO & TX).
      destruct (tstep_time_th _ _ _ _ _ _ _ _ T (IT _ _ N) (IB _ _ N) LO TO) as [TH CA].
      pose proof (tstep_log_ext _ _ _ _ _ _ _ _ T (IB _ _ N)) as LX.
      split.
      * split; [|split].
        -- exact (times_ok_ext _ _ LX TO).
        -- intros k IK. simpl in IK. destruct (CA _ IK) as [IK'|OK]; auto.
           eapply call_ok_ext; eauto. rewrite (proj1 LX). lia.
        -- intros x tx' NX. simpl in NX.
           destruct LX as (LN & LV & LL). simpl.
           destruct (tstep_txns_ext _ _ _ _ _ _ _ _ T _ _ NX) as [(tx & NO & BV & BC)|[BV BC]].
           ++ destruct (TX _ _ NO) as [LE CA']. rewrite BV, BC. split; [lia|].
              rewrite <- CA'. apply cat_at_ext; auto. repeat split; auto.
           ++ rewrite BV, BC. split; [lia|].
              rewrite (cat_at_ext (st_g s) g'); auto; [|repeat split; auto].
              apply cat_at_current; auto.
      * intros u thu NU. simpl in NU. rewrite (nth_error_upd _ _ _ _ _ _ N) in NU.
        destruct (Nat.eqb t u) eqn:Q.
        -- apply Nat.eqb_eq in Q. subst. inversion NU; subst. exact TH.
        -- simpl. eapply inv_time_ext; eauto.
    + destruct H0 as (t & th & -> & N & ->). split.
      * apply (inv_time_g_ext_same (st_g s) (st_g s)); auto.
      * intros u thu NU. simpl in NU. rewrite (nth_error_upd _ _ _ _ _ _ N) in NU.
        destruct (Nat.eqb t u) eqn:Q.
        -- apply Nat.eqb_eq in Q. subst. inversion NU; subst.
           pose proof (inv_time_ext _ _ _ _ (log_ext_refl (st_g s)) (IT _ _ N)) as X. exact X.
        -- apply (inv_time_ext _ _ _ _ (log_ext_refl (st_g s)) (IT _ _ NU)).
    + destruct H0 as [-> ->]. split.
      * apply (inv_time_g_ext_same (st_g s) (g_set_store_fail (st_g s) true)); auto.
      * intros u thu NU. simpl in NU.
        pose proof (inv_time_ext _ _ _ _ (log_ext_refl (st_g s)) (IT _ _ NU)) as X. exact X.
    + destruct H0 as [-> ->]. split.
      * apply (inv_time_g_ext_same (st_g s) (g_set_store_panic (st_g s) true)); auto.
      * intros u thu NU. simpl in NU.
        pose proof (inv_time_ext _ _ _ _ (log_ext_refl (st_g s)) (IT _ _ NU)) as X. exact X.
Qed.

(* ------------------------------------------------------------------ *)
(* The statements of C04.                                              *)

Lemma times_ok_order : forall l b e1 e2,
  times_ok l b -> In e1 l -> In e2 l -> c_time e1 < c_time e2 ->
  exists l1 l2 l3, l = l1 ++ e2 :: l2 ++ e1 :: l3.
Proof.
  induction l; intros b e1 e2 T I1 I2 LT; [contradiction|]. simpl in *. destruct T as [A B].
  destruct I2 as [->|I2].
  - destruct I1 as [->|I1]; [lia|].
    apply in_split in I1. destruct I1 as (l2 & l3 & ->). exists [], l2, l3. reflexivity.
  - destruct I1 as [->|I1].
    + pose proof (times_ok_lt _ _ _ B I2). lia.
    + destruct (IHl _ _ _ B I1 I2 LT) as (l1 & l2 & l3 & ->). exists (a :: l1), l2, l3. reflexivity.
Qed.

(* a call that returned before another was issued is earlier in the change log *)
Theorem real_time_commits : forall c s k1 k2 x1 x2,
  reachable c s -> In k1 (calls (st_g s)) -> In k2 (calls (st_g s)) ->
  k_pub k1 = Some x1 -> k_pub k2 = Some x2 -> k_ret k1 < k_inv k2 ->
  exists e1 e2 l1 l2 l3, log (st_g s) = l1 ++ e2 :: l2 ++ e1 :: l3 /\ c_txn e1 = x1 /\ c_txn e2 = x2.
Proof.
  intros c s k1 k2 x1 x2 R I1 I2 P1 P2 LT.
  destruct (time_invariant _ _ R) as [(TO & CO & _) _].
  destruct (CO _ I1) as (_ & _ & PO1 & _). destruct (CO _ I2) as (_ & _ & PO2 & _).
  destruct (PO1 _ P1) as (e1 & IE1 & C1 & A1 & B1). destruct (PO2 _ P2) as (e2 & IE2 & C2 & A2 & B2).
  assert (c_time e1 < c_time e2) by lia.
  destruct (times_ok_order _ _ _ _ TO IE1 IE2 H) as (l1 & l2 & l3 & EQ).
  exists e1, e2, l1, l2, l3. auto.
Qed.

(* a snapshot taken by a call issued after a commit returned contains that commit *)
Theorem real_time_read_after_commit : forall c s k1 k2 x1 v tm,
  reachable c s -> In k1 (calls (st_g s)) -> In k2 (calls (st_g s)) ->
  k_pub k1 = Some x1 -> k_read k2 = Some (v, tm) -> k_ret k1 < k_inv k2 ->
  exists e1, In e1 (log (st_g s)) /\ c_txn e1 = x1 /\ c_base e1 < v.
Proof.
  intros c s k1 k2 x1 v tm R I1 I2 P1 P2 LT.
  destruct (time_invariant _ _ R) as [(TO & CO & _) _].
  destruct (CO _ I1) as (_ & _ & PO1 & _). destruct (CO _ I2) as (_ & _ & _ & RO2).
  destruct (PO1 _ P1) as (e1 & IE1 & C1 & A1 & B1). destruct (RO2 _ _ P2) as (A2 & B2 & _ & D2).
  exists e1. repeat split; auto. apply D2; auto. lia.
Qed.

(* a snapshot taken by a call that returned before a commit was issued does not contain it *)
Theorem real_time_commit_after_read : forall c s k1 k2 x2 v tm,
  reachable c s -> In k1 (calls (st_g s)) -> In k2 (calls (st_g s)) ->
  k_read k1 = Some (v, tm) -> k_pub k2 = Some x2 -> k_ret k1 < k_inv k2 ->
  exists e2, In e2 (log (st_g s)) /\ c_txn e2 = x2 /\ v <= c_base e2.
Proof.
  intros c s k1 k2 x2 v tm R I1 I2 P1 P2 LT.
  destruct (time_invariant _ _ R) as [(TO & CO & _) _].
  destruct (CO _ I1) as (_ & _ & _ & RO1). destruct (CO _ I2) as (_ & _ & PO2 & _).
  destruct (PO2 _ P2) as (e2 & IE2 & C2 & A2 & B2). destruct (RO1 _ _ P1) as (A1 & B1 & _ & D1).
  exists e2. repeat split; auto.
  destruct (Nat.lt_ge_cases (c_base e2) v) as [L|G]; auto. apply D1 in L; auto. lia.
Qed.

Lemma cat_at_prefix : forall l cat ver v,
  log_ok l cat ver -> v <= ver -> cat_at l v = result_of (skipn (ver - v) l).
Proof.
  induction l; intros cat ver v H LE.
  - simpl in *. destruct H; subst. destruct (0 - v); reflexivity.
  - simpl in H. destruct H as (A & B & prev & C & D). subst ver. cbn [cat_at].
    destruct (Nat.eqb_spec (S (c_base a)) v).
    + subst v. rewrite Nat.sub_diag. reflexivity.
    + assert (v <= c_base a) by lia. replace (S (c_base a) - v) with (S (c_base a - v)) by lia.
      simpl. eapply IHl; eauto.
Qed.

(* every transaction (snapshot or writer) starts from the state after a
   committed prefix of the change log *)
Theorem snapshots_are_prefixes : forall c s x tx,
  reachable c s -> nth_error (txns (st_g s)) x = Some tx ->
  t_base_ver tx <= List.length (log (st_g s)) /\
  t_base_cat tx = result_of (skipn (List.length (log (st_g s)) - t_base_ver tx) (log (st_g s))).
Proof.
  intros c s x tx R N.
  destruct (time_invariant _ _ R) as [(_ & _ & TX) _].
  pose proof (log_serial _ _ R) as LO. destruct (log_ok_head _ _ _ LO) as [_ LEN].
  destruct (TX _ _ N) as [LE CA]. rewrite <- LEN. split; auto.
  rewrite <- CA. eapply cat_at_prefix; eauto.
Qed.

(* ... and for a finished read that prefix was the committed state at an
   instant tm between the call's invocation and its return *)
Theorem read_prefix_was_current : forall c s k v tm,
  reachable c s -> In k (calls (st_g s)) -> k_read k = Some (v, tm) ->
  k_inv k <= tm /\ tm < k_ret k /\
  forall e, In e (log (st_g s)) -> (c_base e < v <-> c_time e < tm).
Proof.
  intros c s k v tm R I P. destruct (time_invariant _ _ R) as [(_ & CO & _) _].
  destruct (CO _ I) as (_ & _ & _ & RO). destruct (RO _ _ P) as (A & B & _ & D). auto.
Qed.

(* the log is serial: the k-th commit started from the (k-1)-th result and
   the final contents are the committed operations in log order *)
Theorem commits_serial_thm : forall c s,
  reachable c s ->
  catalog (st_g s) = result_of (log (st_g s)) /\
  version (st_g s) = List.length (log (st_g s)) /\
  catalog (st_g s) = flat_map c_ops (rev (log (st_g s))) /\
  forall l1 e l2, log (st_g s) = l1 ++ e :: l2 ->
    c_base e = List.length l2 /\ c_result e = result_of l2 ++ c_ops e.
Proof.
  intros c s R. pose proof (log_serial _ _ R) as LO.
  destruct (log_ok_head _ _ _ LO). split; [auto|split; [auto|split]].
  - eapply log_ok_flat; eauto.
  - intros. eapply log_ok_split; eauto.
Qed.
