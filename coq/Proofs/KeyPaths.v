(* KeyPaths.v — bsonkit Get/Put/Unset (Model/Access.v) on KEY PATHS: dotted
   paths all of whose segments are non-empty and are not numbers
   (strconv.Atoi fails), i.e. paths that descend through embedded documents
   only.  On such paths the three access functions coincide with the simple
   structural functions dget / dset / ddel below; an array (or any
   non-document) met on the way makes the path Missing: Get returns Missing,
   Put fails, Unset does nothing. *)
From Coq Require Import List ZArith Lia String Ascii Bool.
From Lungo.Model Require Import Access.
Import ListNotations.
Open Scope string_scope.

(* ---------------------------------------------------------------- *)
(* key segments and key paths *)

Definition key_segb (s : string) : bool :=
  negb (String.eqb s "") && match atoi s with None => true | Some _ => false end.

Definition kpathb (p : path) : bool := forallb key_segb p.

(* a Go path string that is a key path *)
Definition kpath_str (s : string) : bool := kpathb (split_path s).

Lemma atoi_unfold c t :
  atoi (String c t) =
  if Ascii.eqb c "+" then atoi_digits t
  else if Ascii.eqb c "-" then option_map Z.opp (atoi_digits t)
  else atoi_digits (String c t).
Proof. destruct c as [[] [] [] [] [] [] [] []]; reflexivity. Qed.

Lemma atoi_none_parse_index s : atoi s = None -> parse_index s = None.
Proof.
  unfold parse_index. destruct s as [|c t]; [reflexivity|].
  rewrite atoi_unfold.
  destruct (Ascii.eqb c "+") eqn:E1.
  { apply Ascii.eqb_eq in E1. subst c. reflexivity. }
  destruct (Ascii.eqb c "-") eqn:E2.
  { apply Ascii.eqb_eq in E2. subst c. reflexivity. }
  auto.
Qed.

Lemma key_seg_nonempty s : key_segb s = true -> s <> "".
Proof.
  unfold key_segb. intros H E. subst s. discriminate.
Qed.

Lemma key_seg_atoi s : key_segb s = true -> atoi s = None.
Proof.
  unfold key_segb. intro H. apply andb_prop in H. destruct H as [_ H].
  destruct (atoi s); [discriminate|reflexivity].
Qed.

Lemma empty_path_cons k rest : k <> "" -> empty_path (k :: rest) = false.
Proof. intro H. destruct k; [contradiction|reflexivity]. Qed.

(* ---------------------------------------------------------------- *)
(* the structural functions *)

Fixpoint replace_first (d : list (string * value)) (k : string) (x : value) : list (string * value) :=
  match d with
  | [] => []
  | (k', y) :: t => if String.eqb k' k then (k', x) :: t else (k', y) :: replace_first t k x
  end.

Fixpoint remove_first (d : list (string * value)) (k : string) : list (string * value) :=
  match d with
  | [] => []
  | (k', y) :: t => if String.eqb k' k then t else (k', y) :: remove_first t k
  end.

(* the value at a key path; VMissing when absent *)
Fixpoint dget (v : value) (p : path) : value :=
  match p with
  | [] => v
  | k :: rest =>
      match v with
      | VDoc d => match lookup d k with Some x => dget x rest | None => VMissing end
      | _ => VMissing
      end
  end.

(* the chain of fresh embedded documents k1: {k2: ... nv} *)
Fixpoint mk_path (p : path) (nv : value) : value :=
  match p with
  | [] => nv
  | k :: rest => VDoc [(k, mk_path rest nv)]
  end.

(* store nv at a key path, creating embedded documents, appending new
   fields; None when something that is not a document is in the way *)
Fixpoint dset (v : value) (p : path) (nv : value) : option value :=
  match p with
  | [] => Some nv
  | k :: rest =>
      match v with
      | VDoc d =>
          match lookup d k with
          | Some x =>
              match dset x rest nv with
              | Some x' => Some (VDoc (replace_first d k x'))
              | None => None
              end
          | None => Some (VDoc (d ++ [(k, mk_path rest nv)]))
          end
      | VMissing => Some (VDoc [(k, mk_path rest nv)])
      | _ => None
      end
  end.

(* remove the field at a key path; unchanged when absent *)
Fixpoint ddel (v : value) (p : path) : value :=
  match p with
  | [] => v
  | [k] => match v with VDoc d => VDoc (remove_first d k) | _ => v end
  | k :: rest =>
      match v with
      | VDoc d =>
          match lookup d k with
          | Some x => VDoc (replace_first d k (ddel x rest))
          | None => v
          end
      | _ => v
      end
  end.

(* ---------------------------------------------------------------- *)
(* unfolding the nested fixpoints of Access.get / Access.put *)

Lemma get_nil v c m : get v [] c m = (v, false).
Proof. destruct v; reflexivity. Qed.

Lemma get_doc_cons d k rest c m :
  k <> "" ->
  get (VDoc d) (k :: rest) c m =
  match lookup d k with Some x => get x rest c m | None => (VMissing, false) end.
Proof.
  intro Hk. cbn [get]. rewrite (empty_path_cons k rest Hk).
  induction d as [|[k' x] d IH]; [reflexivity|].
  cbn [lookup]. destruct (String.eqb k' k); [reflexivity|exact IH].
Qed.

Lemma get_arr_key a k rest m :
  k <> "" -> parse_index k = None ->
  get (VArr a) (k :: rest) false m = (VMissing, false).
Proof.
  intros Hk Hp. cbn [get]. rewrite (empty_path_cons k rest Hk), Hp. reflexivity.
Qed.

Lemma get_scalar v k rest c m :
  (forall d, v <> VDoc d) -> (forall a, v <> VArr a) ->
  get v (k :: rest) c m = (VMissing, false).
Proof.
  intros Hd Ha. destruct v; cbn [get]; try (destruct (empty_path (k :: rest)); reflexivity).
  - exfalso; eapply Hd; reflexivity.
  - exfalso; eapply Ha; reflexivity.
Qed.

Lemma get_kpath v p :
  kpathb p = true -> get v p false false = (dget v p, false).
Proof.
  revert v. induction p as [|k rest IH]; intros v Hp.
  - apply get_nil.
  - cbn [kpathb forallb] in Hp. apply andb_prop in Hp. destruct Hp as [Hk Hrest].
    pose proof (key_seg_nonempty k Hk) as Hne.
    destruct v; cbn [dget];
      try (apply get_scalar; intros; discriminate).
    + rewrite get_doc_cons by exact Hne.
      destruct (lookup d k); [apply IH; exact Hrest|reflexivity].
    + apply get_arr_key; [exact Hne|].
      apply atoi_none_parse_index, key_seg_atoi, Hk.
Qed.

Lemma Get_kpath d ps : kpath_str ps = true -> Get d ps = dget (VDoc d) (split_path ps).
Proof.
  intro H. unfold Get, get_path. rewrite get_kpath by exact H. reflexivity.
Qed.

(* put_new on key paths *)
Lemma put_new_kpath p nv : kpathb p = true -> put_new p nv = Some (mk_path p nv).
Proof.
  induction p as [|k rest IH]; intro Hp; [reflexivity|].
  cbn [kpathb forallb] in Hp. apply andb_prop in Hp. destruct Hp as [Hk Hrest].
  cbn [put_new mk_path]. rewrite (empty_path_cons k rest (key_seg_nonempty k Hk)).
  rewrite (IH Hrest). reflexivity.
Qed.

(* the document case of put, with the inner loop replaced by lookup *)
Lemma put_doc_cons d k rest nv pre :
  k <> "" ->
  put (VDoc d) (k :: rest) nv pre =
  match lookup d k with
  | Some x =>
      match put x rest nv pre with
      | None => None
      | Some (old, x') =>
          Some (old, VDoc (if is_missing x' then remove_first d k else replace_first d k x'))
      end
  | None =>
      if is_missing nv then None
      else match put_new rest nv with
           | None => None
           | Some inner =>
               Some (VMissing, VDoc (if pre then (k, inner) :: d else (d ++ [(k, inner)])%list))
           end
  end.
Proof.
  intro Hk. cbn [put]. rewrite (empty_path_cons k rest Hk).
  match goal with
  | |- match ?F d with _ => _ end = _ => set (upd := F)
  end.
  assert (Hupd : upd d =
                 match lookup d k with
                 | Some x =>
                     match put x rest nv pre with
                     | None => Some None
                     | Some (old, x') =>
                         Some (Some (old, if is_missing x' then remove_first d k else replace_first d k x'))
                     end
                 | None => None
                 end).
  { subst upd. induction d as [|[k' x] d IH]; [reflexivity|].
    cbn [lookup remove_first replace_first]. destruct (String.eqb k' k).
    - destruct (put x rest nv pre) as [[old x']|]; [|reflexivity].
      destruct (is_missing x'); reflexivity.
    - rewrite IH. destruct (lookup d k) as [y|]; [|reflexivity].
      destruct (put y rest nv pre) as [[old y']|]; [|reflexivity].
      destruct (is_missing y'); reflexivity. }
  rewrite Hupd. clear Hupd. subst upd.
  destruct (lookup d k) as [x|].
  - destruct (put x rest nv pre) as [[old x']|]; reflexivity.
  - destruct (is_missing nv); [reflexivity|].
    destruct (put_new rest nv); [destruct pre|]; reflexivity.
Qed.

Lemma put_nil v nv pre : put v [] nv pre = Some (v, nv).
Proof. destruct v; reflexivity. Qed.

Lemma put_arr_key a k rest nv pre :
  k <> "" -> atoi k = None -> put (VArr a) (k :: rest) nv pre = None.
Proof.
  intros Hk Ha. cbn [put]. rewrite (empty_path_cons k rest Hk), Ha. reflexivity.
Qed.

(* put of a present value on a key path = dset *)
Lemma put_kpath_set v p nv :
  kpathb p = true -> is_missing nv = false ->
  option_map snd (put v p nv false) = dset v p nv.
Proof.
  revert v. induction p as [|k rest IH]; intros v Hp Hnv.
  - rewrite put_nil. reflexivity.
  - cbn [kpathb forallb] in Hp. apply andb_prop in Hp. destruct Hp as [Hk Hrest].
    pose proof (key_seg_nonempty k Hk) as Hne.
    destruct v; cbn [dset];
      try (cbn [put]; rewrite (empty_path_cons k rest Hne); reflexivity).
    + (* VMissing *)
      cbn [put]. rewrite (empty_path_cons k rest Hne), Hnv.
      rewrite (put_new_kpath rest nv Hrest). reflexivity.
    + (* VDoc *)
      rewrite put_doc_cons by exact Hne.
      destruct (lookup d k) as [x|].
      * specialize (IH x Hrest Hnv).
        destruct (put x rest nv false) as [[old x']|]; cbn [option_map snd] in *.
        -- rewrite <- IH. cbn [option_map snd].
           assert (Hx' : is_missing x' = false).
           { (* what set receives is nv or a container *)
             clear - IH Hnv. destruct rest as [|k2 r2].
             - cbn [dset] in IH. inversion IH. subst. exact Hnv.
             - destruct x; cbn [dset] in IH; try discriminate.
               + inversion IH. reflexivity.
               + destruct (lookup d k2).
                 * destruct (dset v r2 nv); inversion IH; reflexivity.
                 * inversion IH; reflexivity. }
           rewrite Hx'. reflexivity.
        -- rewrite <- IH. reflexivity.
      * rewrite Hnv, (put_new_kpath rest nv Hrest). reflexivity.
    + (* VArr *)
      rewrite put_arr_key; [reflexivity|exact Hne|apply key_seg_atoi, Hk].
Qed.

(* Put on a key path *)
Lemma Put_kpath d ps nv :
  kpath_str ps = true -> is_missing nv = false ->
  match dset (VDoc d) (split_path ps) nv with
  | Some (VDoc d') => exists old, Put d ps nv false = Ok (old, d')
  | Some _ => True
  | None => Put d ps nv false = Err
  end.
Proof.
  intros Hp Hnv. unfold Put, put_path. rewrite Hnv.
  pose proof (put_kpath_set (VDoc d) (split_path ps) nv Hp Hnv) as H.
  destruct (put (VDoc d) (split_path ps) nv false) as [[old v']|]; cbn [option_map snd] in H.
  - rewrite <- H. destruct v'; try exact I. exists old. reflexivity.
  - rewrite <- H. reflexivity.
Qed.

(* the result of dset on a document with a non-empty path is a document *)
Lemma dset_doc d k rest nv v' :
  dset (VDoc d) (k :: rest) nv = Some v' -> exists d', v' = VDoc d'.
Proof.
  cbn [dset]. destruct (lookup d k) as [x|].
  - destruct (dset x rest nv); intro H; inversion H; eauto.
  - intro H; inversion H; eauto.
Qed.

(* unset on a key path = ddel *)
Lemma ddel_cons2 d k k2 r2 :
  ddel (VDoc d) (k :: k2 :: r2) =
  match lookup d k with
  | Some x => VDoc (replace_first d k (ddel x (k2 :: r2)))
  | None => VDoc d
  end.
Proof. reflexivity. Qed.

Lemma ddel_last d k : ddel (VDoc d) [k] = VDoc (remove_first d k).
Proof. reflexivity. Qed.

Lemma put_kpath_del v p :
  kpathb p = true -> p <> [] ->
  match put v p VMissing false with
  | Some (_, v') => v' = ddel v p
  | None => ddel v p = v
  end.
Proof.
  revert v. induction p as [|k rest IH]; intros v Hp Hne0; [congruence|].
  cbn [kpathb forallb] in Hp. apply andb_prop in Hp. destruct Hp as [Hk Hrest].
  pose proof (key_seg_nonempty k Hk) as Hne.
  destruct v;
    try (cbn [put]; rewrite (empty_path_cons k rest Hne); destruct rest; reflexivity).
  - (* VDoc *)
    rewrite put_doc_cons by exact Hne.
    destruct rest as [|k2 r2].
    + (* last segment *)
      cbn [ddel]. destruct (lookup d k) as [x|] eqn:El.
      * rewrite put_nil. reflexivity.
      * cbn [is_missing]. clear - El. f_equal.
        induction d as [|[k' y] d IH]; [reflexivity|].
        cbn [lookup] in El. cbn [remove_first]. destruct (String.eqb k' k); [discriminate|].
        rewrite IH by exact El. reflexivity.
    + rewrite ddel_cons2. destruct (lookup d k) as [x|] eqn:El.
      * assert (Hr : k2 :: r2 <> []) by discriminate.
        specialize (IH x Hrest Hr).
        destruct (put x (k2 :: r2) VMissing false) as [[old x']|] eqn:Eput.
        -- subst x'.
           assert (Hm : is_missing (ddel x (k2 :: r2)) = false).
           { destruct x; try (destruct r2; reflexivity).
             - (* VMissing: put fails *)
               exfalso. cbn [put] in Eput.
               cbn [kpathb forallb] in Hrest. apply andb_prop in Hrest.
               rewrite (empty_path_cons k2 r2 (key_seg_nonempty k2 (proj1 Hrest))) in Eput.
               discriminate.
             - destruct r2; [reflexivity|]. rewrite ddel_cons2.
               match goal with |- context [lookup ?dd k2] => destruct (lookup dd k2) end; reflexivity. }
           rewrite Hm. reflexivity.
        -- rewrite IH. clear - El. f_equal.
           induction d as [|[k' y] d IH]; [reflexivity|].
           cbn [lookup] in El. cbn [replace_first]. destruct (String.eqb k' k).
           ++ inversion El. reflexivity.
           ++ rewrite IH by exact El. reflexivity.
      * reflexivity.
  - (* VArr *)
    rewrite put_arr_key; [|exact Hne|apply key_seg_atoi, Hk].
    destruct rest; reflexivity.
Qed.

Lemma ddel_doc d p : p <> [] -> exists d', ddel (VDoc d) p = VDoc d'.
Proof.
  destruct p as [|k rest]; [congruence|]. intros _.
  cbn [ddel]. destruct rest.
  - eauto.
  - destruct (lookup d k); eauto.
Qed.

Lemma split_go_nonempty s cur : split_go s cur <> [].
Proof.
  revert cur. induction s as [|c t IH]; intro cur; cbn [split_go].
  - discriminate.
  - destruct (Ascii.eqb c "."); [discriminate|apply IH].
Qed.

Lemma split_path_nonempty s : split_path s <> [].
Proof. apply split_go_nonempty. Qed.

(* Unset on a key path *)
Lemma Unset_kpath d ps :
  kpath_str ps = true -> VDoc (snd (Unset d ps)) = ddel (VDoc d) (split_path ps).
Proof.
  intro Hp. unfold Unset, unset_path.
  pose proof (put_kpath_del (VDoc d) (split_path ps) Hp (split_path_nonempty ps)) as H.
  destruct (ddel_doc d (split_path ps) (split_path_nonempty ps)) as [d' Hd'].
  destruct (put (VDoc d) (split_path ps) VMissing false) as [[old v']|].
  - subst v'. rewrite Hd'. reflexivity.
  - cbn [snd]. symmetry. exact H.
Qed.
