(* NoPanicApply.v — C20 for bsonkit.Add / Mul / Mod and mongokit.Apply: for
   ALL documents, update documents (any operator, any argument), array filters,
   upsert flags and clocks the model returns a result or an error — no panic
   site is reachable and the fuel the model computes for the positional-
   operator expansion (the number of '$' in the path, plus one) and for the
   Decimal128 conversion always suffices. *)
From Coq Require Import List ZArith Lia Bool String Ascii.
From Lungo.Model Require Import Match Apply.
From Lungo.Proofs Require Import NoPanicBase NoPanicMatch NoPanicOps NoPanicArith ChangesFaithful.
Import ListNotations.
Open Scope string_scope.
Open Scope Z_scope.

(* ------------------------------------------------------------------ *)
(* arithmetic *)

Lemma dec_result_total d : total (dec_result d).
Proof.
  unfold dec_result. pose proof (d128_of_bigint_total (fst d) (snd d)) as H.
  destruct (d128_of_bigint (fst d) (snd d)) as [[h l]| | | |]; cbn in *; tauto.
Qed.

Lemma dec_binop_safe conv op a b : (forall d, total (conv d)) -> safe (dec_binop conv op a b).
Proof.
  intro Hc. unfold dec_binop.
  destruct (dec_operand a) as [[x|]|]; destruct (dec_operand b) as [[y|]|]; try exact I.
  apply total_safe. apply Hc.
Qed.

(* bsonkit.Add / Mul / Mod: any two values *)
Theorem Add_safe a b : safe (Add a b).
Proof.
  unfold Add. destruct (non_finite a b false); [exact I|].
  unfold add_finite. destruct a; destruct b; try exact I; apply dec_binop_safe; apply dec_result_total.
Qed.

Theorem Mul_safe a b : safe (Mul a b).
Proof.
  unfold Mul. destruct (non_finite a b true); [exact I|].
  unfold mul_finite. destruct a; destruct b; try exact I; apply dec_binop_safe; apply dec_result_total.
Qed.

Theorem Mod_safe a b : safe (Mod a b).
Proof.
  unfold Mod. destruct (zero_divisor b); [exact I|].
  destruct a; destruct b; try exact I; apply dec_binop_safe; apply dec_to_d128_total.
Qed.

(* ------------------------------------------------------------------ *)
(* '$' counting: the fuel of resolve *)

Lemma count_dollar_app a b : count_dollar (a ++ b) = (count_dollar a + count_dollar b)%nat.
Proof.
  induction a as [|c a IH]; [reflexivity|]. cbn [append count_dollar].
  destruct (Ascii.eqb c "$"); rewrite IH; reflexivity.
Qed.

Lemma count_dollar_digits s : all_digits s = true -> count_dollar s = O.
Proof.
  induction s as [|c s IH]; [reflexivity|]. cbn [all_digits count_dollar]. intro H.
  apply andb_prop in H. destruct H as [Hc Hs].
  destruct (Ascii.eqb c "$") eqn:E; [|exact (IH Hs)].
  apply Ascii.eqb_eq in E. subst c. discriminate Hc.
Qed.

Lemma count_dollar_string_rev_app s acc :
  count_dollar (string_rev_app s acc) = (count_dollar s + count_dollar acc)%nat.
Proof.
  revert acc. induction s as [|c s IH]; intro acc; [reflexivity|].
  cbn [string_rev_app]. rewrite IH. cbn [count_dollar]. destruct (Ascii.eqb c "$"); lia.
Qed.

Lemma count_dollar_drop_last s : (count_dollar (drop_last s) <= count_dollar s)%nat.
Proof.
  induction s as [|c s IH]; [apply le_n|]. cbn [drop_last]. destruct s as [|c' s'].
  - cbn [count_dollar]. destruct (Ascii.eqb c "$"); lia.
  - cbn [count_dollar] in *. destruct (Ascii.eqb c "$"); lia.
Qed.

Lemma count_dollar_reduce s t : reduce_path s = Some t -> (count_dollar t <= count_dollar s)%nat.
Proof.
  induction s as [|c s IH]; [discriminate|]. cbn [reduce_path count_dollar].
  destruct (Ascii.eqb c ".") eqn:E.
  - intro H. inversion H. subst. destruct (Ascii.eqb c "$"); lia.
  - intro H. specialize (IH H). destruct (Ascii.eqb c "$"); lia.
Qed.

(* split_dollar: the text before the '$' and the text from it on *)
Lemma split_dollar_go_count s : forall acc start before rest,
  split_dollar_go s acc start = Some (before, rest) ->
  (count_dollar before + count_dollar rest = count_dollar acc + count_dollar s)%nat /\
  exists r, rest = String "$" r.
Proof.
  induction s as [|c s IH]; intros acc start before rest; [discriminate|].
  cbn [split_dollar_go]. destruct (start && Ascii.eqb c "$") eqn:E.
  - intro H. inversion H. subst. apply andb_prop in E. destruct E as [_ E].
    apply Ascii.eqb_eq in E. subst c. split; [|eauto].
    unfold string_rev. rewrite count_dollar_string_rev_app. cbn [count_dollar]. lia.
  - intro H. destruct (IH _ _ _ _ H) as [Hc Hr]. split; [|exact Hr].
    rewrite Hc. cbn [count_dollar]. destruct (Ascii.eqb c "$"); lia.
Qed.

Lemma reduce_dollar r : reduce_path (String "$" r) = reduce_path r.
Proof. reflexivity. Qed.
Lemma count_dollar_dollar r : count_dollar (String "$" r) = S (count_dollar r).
Proof. reflexivity. Qed.
Lemma count_dollar_dot t : count_dollar (String "." t) = count_dollar t.
Proof. reflexivity. Qed.

Lemma indexed_sub_path_count ps before rest i :
  split_dollar ps = Some (before, rest) -> 0 <= i ->
  (count_dollar (indexed_sub_path (drop_last before) i (reduce_path rest)) < count_dollar ps)%nat.
Proof.
  intros H Hi. unfold split_dollar in H.
  destruct (split_dollar_go_count _ _ _ _ _ H) as [Hc [r Hr]].
  change (count_dollar "") with O in Hc.
  unfold indexed_sub_path. rewrite !count_dollar_app.
  change (count_dollar ".") with O.
  rewrite (count_dollar_digits _ (proj1 (show_Z_all_digits i Hi))).
  pose proof (count_dollar_drop_last before) as Hd.
  assert (Ht : (count_dollar match reduce_path rest with Some t => "." ++ t | None => "" end
                < count_dollar rest)%nat).
  { subst rest. rewrite reduce_dollar, count_dollar_dollar.
    destruct (reduce_path r) as [t|] eqn:Er.
    - change ("." ++ t) with (String "." t). rewrite count_dollar_dot.
      pose proof (count_dollar_reduce _ _ Er). lia.
    - change (count_dollar "") with O. lia. }
  lia.
Qed.

(* ------------------------------------------------------------------ *)
(* the update operators *)

Lemma record_safe ch ps v : safe (record ch ps v).
Proof. unfold record. destruct (existsb _ ch); exact I. Qed.

Lemma put_record_safe s ps v : safe (put_record s ps v).
Proof.
  unfold put_record. apply bind_safe_all; [apply Put_safe|]. intros [o d'].
  apply bind_safe_all; [apply record_safe|]. intro ch'. exact I.
Qed.

Lemma int_modifier_safe v : safe (int_modifier v).
Proof. unfold int_modifier. destruct v; try exact I. destruct (int_of_double bits); exact I. Qed.

Lemma sort_direct_safe arr dir : safe (sort_direct arr dir).
Proof. unfold sort_direct. destruct (dir =? 1); [exact I|]. destruct (dir =? -1); exact I. Qed.

Lemma sort_columns_safe spec : safe (sort_columns spec).
Proof.
  induction spec as [|[k v] t IH]; cbn [sort_columns]; [exact I|].
  apply bind_safe_all; [apply int_modifier_safe|]. intro dir.
  destruct ((dir =? 1) || (dir =? -1)); [|exact I].
  apply bind_safe_all; [exact IH|]. intro cols. exact I.
Qed.

Lemma push_sort_safe arr spec : safe (push_sort arr spec).
Proof.
  unfold push_sort. destruct spec; try exact I; try apply sort_direct_safe.
  - destruct (int_of_double bits); [apply sort_direct_safe|exact I].
  - apply bind_safe_all; [apply sort_columns_safe|]. intro cols. destruct (all_docs arr); exact I.
Qed.

Lemma push_slice_safe arr s : safe (push_slice arr s).
Proof.
  unfold push_slice. destruct (s =? 0); [exact I|]. destruct (0 <? s).
  - destruct (s <? len arr); exact I.
  - destruct (- len arr <? s); exact I.
Qed.

Lemma push_modifiers_safe spec : forall m, safe (push_modifiers spec m).
Proof.
  induction spec as [|[k v] t IH]; intro m; cbn [push_modifiers]; [exact I|].
  destruct (String.eqb k "$each"); [destruct v; try exact I; apply IH|].
  destruct (String.eqb k "$position"); [apply IH|].
  destruct (String.eqb k "$sort"); [apply IH|].
  destruct (String.eqb k "$slice"); [apply IH|exact I].
Qed.

Lemma record_each_safe vals : forall ch ps start, safe (record_each ch ps start vals).
Proof.
  induction vals as [|v t IH]; intros ch ps start; cbn [record_each]; [exact I|].
  apply bind_safe_all; [apply record_safe|]. intro ch'. apply IH.
Qed.

Lemma add_to_set_values_safe spec : forall vals, safe (add_to_set_values spec vals).
Proof.
  induction spec as [|[k v] t IH]; intro vals; cbn [add_to_set_values]; [exact I|].
  destruct (String.eqb k "$each"); [|exact I]. destruct v; try exact I. apply IH.
Qed.

Section ApplySafe.
  Variable matchf : doc -> doc -> res bool.
  Hypothesis matchf_safe : forall d q, safe (matchf d q).
  Variable upsert : bool.
  Variable now : Z.
  Variable filters : list doc.

  Definition op_safe (op : opfun) : Prop := forall s ps v, safe (op s ps v).

  Ltac sf :=
    repeat (first
      [ exact I
      | apply Put_safe | apply record_safe | apply put_record_safe | apply matchf_safe
      | apply int_modifier_safe | apply push_sort_safe | apply push_slice_safe
      | apply record_each_safe | apply add_to_set_values_safe
      | match goal with
        | |- safe (bind _ _) => apply bind_safe_all; [|intro]
        | |- safe (let '(_, _) := ?x in _) => destruct x
        | |- safe (if ?c then _ else _) => destruct c
        | |- safe (match ?x with _ => _ end) => destruct x
        end ]).

  Lemma apply_set_safe : op_safe apply_set.
  Proof. intros s ps v. apply put_record_safe. Qed.

  Lemma apply_set_on_insert_safe : op_safe (apply_set_on_insert upsert).
  Proof. intros s ps v. unfold apply_set_on_insert. sf. Qed.

  Lemma apply_unset_safe : op_safe apply_unset.
  Proof. intros s ps v. unfold apply_unset. sf. Qed.

  Lemma apply_rename_safe : op_safe apply_rename.
  Proof. intros s ps v. unfold apply_rename. destruct v; try exact I. sf. Qed.

  Lemma apply_arith_safe f : (forall a b, safe (f a b)) -> op_safe (apply_arith f).
  Proof.
    intros Hf s ps v. unfold apply_arith. apply bind_safe_all; [apply Hf|]. intro r. sf.
  Qed.

  Lemma apply_minmax_safe rp : op_safe (apply_minmax rp).
  Proof. intros s ps v. unfold apply_minmax. sf. Qed.

  Lemma apply_current_date_safe : op_safe (apply_current_date now).
  Proof.
    intros s ps v. unfold apply_current_date. destruct v; try exact I.
    - destruct d as [|[k ty] [|x t]]; try exact I. sf.
    - sf.
  Qed.

  Lemma apply_push_safe : op_safe apply_push.
  Proof.
    intros s ps v. unfold apply_push.
    apply bind_safe_all.
    { destruct v; try exact I. destruct (has_key "$each" d); [apply push_modifiers_safe|exact I]. }
    intro m. apply bind_safe_all; [destruct (Get (fst s) ps); exact I|]. intro arr.
    apply bind_safe_all; [destruct (pm_position m); sf|]. intro at_.
    apply bind_safe_all; [destruct (pm_sort m); sf|]. intro arr2.
    apply bind_safe_all; [destruct (pm_slice m); sf|]. intro arr3.
    apply bind_safe_all; [apply Put_safe|]. intros [o d'].
    destruct (is_missing (Get (fst s) ps)); [sf|].
    destruct (pm_values m); destruct (pm_position m); destruct (pm_sort m); destruct (pm_slice m); sf.
  Qed.

  Lemma apply_pop_safe : op_safe apply_pop.
  Proof.
    intros s ps v. unfold apply_pop. apply bind_safe_all; [sf|]. intro last.
    destruct (Get (fst s) ps); try exact I. destruct a; [exact I|]. sf.
  Qed.

  Lemma pull_matches_safe x c : safe (pull_matches matchf x c).
  Proof. unfold pull_matches. destruct c; try exact I. sf. Qed.

  Lemma pull_filter_safe arr c : safe (pull_filter matchf arr c).
  Proof.
    induction arr as [|x t IH]; cbn [pull_filter]; [exact I|].
    apply bind_safe_all; [apply pull_matches_safe|]. intro m.
    apply bind_safe_all; [exact IH|]. intros [kept removed]. destruct m; exact I.
  Qed.

  Lemma store_if_removed_safe s ps kept removed : safe (store_if_removed s ps kept removed).
  Proof. unfold store_if_removed. sf. Qed.

  Lemma apply_pull_safe : op_safe (apply_pull matchf).
  Proof.
    intros s ps v. unfold apply_pull. destruct (Get (fst s) ps); try exact I.
    apply bind_safe_all; [apply pull_filter_safe|]. intros [kept removed]. apply store_if_removed_safe.
  Qed.

  Lemma apply_pull_all_safe : op_safe apply_pull_all.
  Proof.
    intros s ps v. unfold apply_pull_all. destruct v; try exact I.
    destruct (Get (fst s) ps); try exact I. apply store_if_removed_safe.
  Qed.

  Lemma apply_add_to_set_safe : op_safe apply_add_to_set.
  Proof.
    intros s ps v. unfold apply_add_to_set.
    apply bind_safe_all; [destruct v; try exact I; sf|]. intro vals.
    apply bind_safe_all; [destruct (Get (fst s) ps); exact I|]. intro arr.
    destruct (add_to_set arr vals false). sf.
  Qed.

  Lemma apply_bit_safe : op_safe apply_bit.
  Proof.
    intros s ps v. unfold apply_bit. destruct v; try exact I.
    destruct d as [|[opk operand] [|x t]]; try exact I.
    apply bind_safe_all; [destruct operand; exact I|]. intros [opv op64].
    apply bind_safe_all; [destruct (Get (fst s) ps); exact I|]. intros [cur f64].
    apply bind_safe_all; [sf|]. intro r. sf.
  Qed.

  (* every registered update operator *)
  Lemma update_ops_safe k name op :
    assoc k (update_ops matchf upsert now) = Some (name, op) -> op_safe op.
  Proof.
    unfold update_ops. cbn [assoc].
    repeat match goal with
           | |- (if ?c then _ else _) = _ -> _ => destruct c; [intro H; inversion H; subst|]
           end; try discriminate.
    - apply apply_set_safe.
    - apply apply_set_on_insert_safe.
    - apply apply_unset_safe.
    - apply apply_rename_safe.
    - apply apply_arith_safe. apply Add_safe.
    - apply apply_arith_safe. apply Mul_safe.
    - apply apply_minmax_safe.
    - apply apply_minmax_safe.
    - apply apply_current_date_safe.
    - apply apply_push_safe.
    - apply apply_pop_safe.
    - apply apply_pull_safe.
    - apply apply_pull_all_safe.
    - apply apply_add_to_set_safe.
    - apply apply_bit_safe.
  Qed.

  (* ---------------------------------------------------------------- *)
  (* resolve: the fuel S (count_dollar path) suffices *)

  Lemma item_matches_safe id item fs : safe (item_matches matchf id item fs).
  Proof.
    induction fs as [|f t IH]; cbn [item_matches]; [exact I|].
    apply bind_safe_all; [apply matchf_safe|]. intros [|]; [exact I|exact IH].
  Qed.

  Lemma resolve_safe fuel : forall (f : st -> string -> res st) ps s,
    (forall s p, safe (f s p)) -> (count_dollar ps < fuel)%nat ->
    safe (resolve matchf filters fuel f ps s).
  Proof.
    induction fuel as [|fuel' IH]; intros f ps s Hf Hc; [lia|].
    cbn [resolve]. destruct (split_dollar ps) as [[before rest]|] eqn:Es; [|apply Hf].
    destruct before as [|b0 bt] eqn:Eb; [exact I|]. rewrite <- Eb in *. clear Eb b0 bt.
    assert (Hsub : forall i s', 0 <= i ->
              safe (resolve matchf filters fuel' f
                      (indexed_sub_path (drop_last before) i (reduce_path rest)) s')).
    { intros i s' Hi. apply IH; [exact Hf|].
      pose proof (indexed_sub_path_count ps before rest i Es Hi). lia. }
    destruct (Get (fst s) (drop_last before)); try exact I.
    destruct (String.eqb (path_segment rest) "$"); [exact I|].
    destruct (negb (has_prefix (path_segment rest) "$[" && has_suffix (path_segment rest) "]")); [exact I|].
    destruct (String.eqb (substring 2 (String.length (path_segment rest) - 3) (path_segment rest)) "").
    - match goal with |- safe (?F a 0 s) =>
        cut (forall l i s0, 0 <= i -> safe (F l i s0)); [intro G; apply G; lia|] end.
      induction l as [|x t IHa]; intros i s0 Hi; [exact I|].
      apply bind_safe_all; [apply Hsub; exact Hi|]. intro s'. apply IHa. lia.
    - destruct (negb (filter_binds filters _)); [exact I|].
      match goal with |- safe (?F a 0 s) =>
        cut (forall l i s0, 0 <= i -> safe (F l i s0)); [intro G; apply G; lia|] end.
      induction l as [|x t IHa]; intros i s0 Hi; [exact I|].
      apply bind_safe_all; [apply item_matches_safe|]. intros [|].
      + apply bind_safe_all; [apply Hsub; exact Hi|]. intro s'. apply IHa. lia.
      + apply IHa. lia.
  Qed.

  Lemma apply_pairs_safe op pairs : op_safe op -> forall s,
    safe (apply_pairs matchf filters op pairs s).
  Proof.
    intro Hop. induction pairs as [|[k v] t IH]; intro s; cbn [apply_pairs]; [exact I|].
    apply bind_safe_all; [|intro s'; apply IH].
    apply resolve_safe; [intros s0 p; apply Hop|lia].
  Qed.

  Lemma apply_ops_safe u : forall s, safe (apply_ops matchf upsert now filters u s).
  Proof.
    induction u as [|[k v] t IH]; intro s; cbn [apply_ops]; [exact I|].
    destruct (starts_dollar k); [|exact I].
    destruct (assoc k (update_ops matchf upsert now)) as [[name op]|] eqn:Ea; [|exact I].
    destruct v; try exact I.
    apply bind_safe_all; [|intro s'; apply IH].
    apply apply_pairs_safe. exact (update_ops_safe _ _ _ Ea).
  Qed.
End ApplySafe.

(* mongokit.Apply with any matcher that never panics *)
Theorem apply_with_safe matchf :
  (forall d q, safe (matchf d q)) ->
  forall d q u upsert filters now, safe (apply_with matchf d q u upsert filters now).
Proof.
  intros Hm d q u upsert filters now. unfold apply_with. destruct u as [|e t]; [exact I|].
  destruct (conflicting_path (e :: t)); [exact I|].
  apply bind_safe_all; [apply apply_ops_safe; exact Hm|]. intros [d' ch]. exact I.
Qed.

(* mongokit.Apply: every document, query, update, upsert flag, array filter list, clock *)
Theorem Apply_safe d q u upsert filters now : safe (Apply d q u upsert filters now).
Proof. apply apply_with_safe. intros; apply Match_safe. Qed.
