(* MatchRefPath.v — lungo's collecting path access (bsonkit.All, Model/Access.v)
   against the reference path lookup (Spec/RefMatch.rlookup). *)
From Coq Require Import List ZArith Bool String Lia.
From Lungo.Model Require Import Match.
From Lungo.Spec Require Import RefMatch.
From Lungo.Proofs Require Import OrderLaws CompareOrder MatchLaws.
Import ListNotations.
Open Scope string_scope.
Open Scope list_scope.

(* ---------------------------------------------------------------- *)
(* equations for get *)

Fixpoint gfind (d : list (string * value)) (s : string) (r : path) (c k : bool) : value * bool :=
  match d with
  | [] => (VMissing, false)
  | (k0, x) :: t => if String.eqb k0 s then get x r c k else gfind t s r c k
  end.

Fixpoint gnth (l : list value) (i : Z) (r : path) (c k : bool) : option (value * bool) :=
  match l with
  | [] => None
  | x :: t => if (i =? 0)%Z then Some (get x r c k) else gnth t (i - 1)%Z r c k
  end.

Definition gstep (x : value) (p : path) (c k : bool) (rest : list value) : list value :=
  let '(val, nested) := get x p c k in
  if is_missing val then (if k then rest else val :: rest)
  else match val with
       | VArr inner => if nested && k then inner ++ rest else val :: rest
       | _ => val :: rest
       end.

Fixpoint gcoll (l : list value) (p : path) (c k : bool) : list value :=
  match l with
  | [] => []
  | x :: t => gstep x p c k (gcoll t p c k)
  end.

Local Opaque empty_path.

Lemma get_nil v c k : get v [] c k = (v, false).
Proof. destruct v; reflexivity. Qed.

Lemma get_doc d s r c k :
  get (VDoc d) (s :: r) c k =
  if empty_path (s :: r) then (VMissing, false) else gfind d s r c k.
Proof.
  simpl get. destruct (empty_path (s :: r)); [reflexivity|].
  induction d as [|[k0 x] t IH]; [reflexivity|].
  simpl. destruct (String.eqb k0 s); [reflexivity|]. exact IH.
Qed.

Lemma get_arr a s r c k :
  get (VArr a) (s :: r) c k =
  if empty_path (s :: r) then (VMissing, false) else
  match (match parse_index s with Some i => gnth a i r c k | None => None end) with
  | Some res => res
  | None => if c then (VArr (gcoll a (s :: r) c k), true) else (VMissing, false)
  end.
Proof.
  simpl get. destruct (empty_path (s :: r)); [reflexivity|].
  assert (Hn : forall l i,
    (fix nth (l : list value) (i : Z) {struct l} : option (value * bool) :=
       match l with
       | [] => None
       | x :: t => if (i =? 0)%Z then Some (get x r c k) else nth t (i - 1)%Z
       end) l i = gnth l i r c k).
  { induction l as [|x t IH]; intro i; [reflexivity|]. simpl.
    destruct (i =? 0)%Z; [reflexivity|]. apply IH. }
  assert (Hc : forall l,
    (fix coll (l : list value) : list value :=
       match l with
       | [] => []
       | x :: t =>
           let '(val, nested) := get x (s :: r) c k in
           if is_missing val
           then if k then coll t else val :: coll t
           else
             match val with
             | VArr inner => if nested && k then inner ++ coll t else val :: coll t
             | _ => val :: coll t
             end
       end) l = gcoll l (s :: r) c k).
  { induction l as [|x t IH]; [reflexivity|].
    simpl gcoll. unfold gstep. rewrite <- IH. reflexivity. }
  destruct (parse_index s) as [i|].
  - rewrite Hn. destruct (gnth a i r c k); [reflexivity|]. rewrite Hc. reflexivity.
  - rewrite Hc. reflexivity.
Qed.

Lemma get_scalar v s r c k :
  (forall d, v <> VDoc d) -> (forall a, v <> VArr a) -> get v (s :: r) c k = (VMissing, false).
Proof.
  intros Hd Ha. destruct v; simpl; try (destruct (empty_path (s :: r)); reflexivity).
  - exfalso. eapply Hd. reflexivity.
  - exfalso. eapply Ha. reflexivity.
Qed.

(* ---------------------------------------------------------------- *)
(* equations for rlookup and fans_out *)

Fixpoint rfind (d : list (string * value)) (s : string) (r : path) : list value :=
  match d with
  | [] => [VMissing]
  | (k0, x) :: t => if String.eqb k0 s then rlookup x r else rfind t s r
  end.

Fixpoint rnth (l : list value) (i : Z) (r : path) : list value :=
  match l with
  | [] => []
  | x :: t => if (i =? 0)%Z then rlookup x r else rnth t (i - 1)%Z r
  end.

Fixpoint rtrav (l : list value) (p : path) : list value :=
  match l with
  | [] => []
  | e :: t => (match e with VDoc _ => rlookup e p | _ => [] end) ++ rtrav t p
  end.

Lemma rlookup_nil v : rlookup v [] = [v].
Proof. destruct v; reflexivity. Qed.

Lemma rlookup_doc d s r : rlookup (VDoc d) (s :: r) = rfind d s r.
Proof.
  simpl rlookup. induction d as [|[k0 x] t IH]; [reflexivity|].
  simpl. destruct (String.eqb k0 s); [reflexivity|]. exact IH.
Qed.

Lemma rlookup_arr a s r :
  rlookup (VArr a) (s :: r) =
  (match parse_index s with Some i => rnth a i r | None => [] end) ++ rtrav a (s :: r).
Proof.
  simpl rlookup. f_equal.
  - destruct (parse_index s) as [i|]; [|reflexivity].
    generalize i. induction a as [|x t IH]; intro j; [reflexivity|]. simpl.
    destruct (j =? 0)%Z; [reflexivity|]. apply IH.
  - induction a as [|x t IH]; [reflexivity|]. simpl rtrav. rewrite <- IH. reflexivity.
Qed.

Lemma rlookup_scalar v s r :
  (forall d, v <> VDoc d) -> (forall a, v <> VArr a) -> rlookup v (s :: r) = [VMissing].
Proof.
  intros Hd Ha. destruct v; try reflexivity.
  - exfalso. eapply Hd. reflexivity.
  - exfalso. eapply Ha. reflexivity.
Qed.

Fixpoint ffind (d : list (string * value)) (s : string) (r : path) : bool :=
  match d with
  | [] => false
  | (k0, x) :: t => if String.eqb k0 s then fans_out x r else ffind t s r
  end.

Fixpoint fnth (a l : list value) (i : Z) (r : path) : bool :=
  match l with
  | [] => true
  | x :: t => if (i =? 0)%Z then has_doc_element a || fans_out x r else fnth a t (i - 1)%Z r
  end.

Lemma fans_out_nil v : fans_out v [] = false.
Proof. destruct v; reflexivity. Qed.

Lemma fans_out_doc d s r : fans_out (VDoc d) (s :: r) = ffind d s r.
Proof.
  simpl fans_out. induction d as [|[k0 x] t IH]; [reflexivity|].
  simpl. destruct (String.eqb k0 s); [reflexivity|]. exact IH.
Qed.

Lemma fans_out_arr a s r :
  fans_out (VArr a) (s :: r) =
  match parse_index s with Some i => fnth a a i r | None => true end.
Proof.
  simpl fans_out. destruct (parse_index s) as [i|]; [|reflexivity].
  assert (H : forall l j,
    (fix nth (l : list value) (i : Z) {struct l} : bool :=
       match l with
       | [] => true
       | x :: t => if (i =? 0)%Z then has_doc_element a || fans_out x r else nth t (i - 1)%Z
       end) l j = fnth a l j r).
  { induction l as [|x t IH]; intro j; [reflexivity|]. simpl.
    destruct (j =? 0)%Z; [reflexivity|]. apply IH. }
  apply H.
Qed.

Lemma fans_out_scalar v p :
  (forall d, v <> VDoc d) -> (forall a, v <> VArr a) -> fans_out v p = false.
Proof.
  intros Hd Ha. destruct p; [apply fans_out_nil|]. destruct v; try reflexivity.
  - exfalso. eapply Hd. reflexivity.
  - exfalso. eapply Ha. reflexivity.
Qed.

Local Transparent empty_path.

Lemma good_not_empty s r : good_path (s :: r) = true -> empty_path (s :: r) = false.
Proof.
  simpl. intro H. apply andb_prop in H. destruct H as [H _].
  destruct s; [discriminate|]. reflexivity.
Qed.

Lemma good_tail s r : good_path (s :: r) = true -> good_path r = true.
Proof. simpl. intro H. apply andb_prop in H. tauto. Qed.

Lemma d1_doc d : d1 (VDoc d) = true -> Forall (fun kv => d1 (snd kv) = true) d.
Proof.
  simpl. induction d as [|[k x] t IH]; intro H; constructor.
  - apply andb_prop in H. tauto.
  - apply IH. apply andb_prop in H. tauto.
Qed.

Lemma d3_doc d : d3 (VDoc d) = true -> Forall (fun kv => d3 (snd kv) = true) d.
Proof.
  simpl. induction d as [|[k x] t IH]; intro H; constructor.
  - apply andb_prop in H. tauto.
  - apply IH. apply andb_prop in H. tauto.
Qed.

Lemma d1_arr a : d1 (VArr a) = true ->
  Forall (fun x => (forall l, x <> VArr l) /\ d1 x = true) a.
Proof.
  simpl. induction a as [|x t IH]; intro H; constructor.
  - apply andb_prop in H. destruct H as [H _]. apply andb_prop in H. destruct H as [H1 H2].
    split; [|exact H2]. intros l E. subst. discriminate.
  - apply IH. apply andb_prop in H. tauto.
Qed.

Lemma d3_arr a : d3 (VArr a) = true ->
  Forall (fun x => (forall e, x = VDoc e -> forallb (fun kv => negb (numeric_key (fst kv))) e = true)
                   /\ d3 x = true) a.
Proof.
  simpl. induction a as [|x t IH]; intro H; constructor.
  - apply andb_prop in H. destruct H as [H _]. apply andb_prop in H. destruct H as [H1 H2].
    split; [|exact H2]. intros e E. subst. exact H1.
  - apply IH. apply andb_prop in H. tauto.
Qed.

(* ---------------------------------------------------------------- *)
(* Lemma A: a path that does not fan out reaches exactly one candidate, the
   same one for lungo and for the reference *)

Lemma no_fan_single : forall v p k,
  good_path p = true -> fans_out v p = false ->
  exists x, get v p true k = (x, false) /\ rlookup v p = [x].
Proof.
  induction v as [v IHv] using value_ind'. intros p k Hg Hf.
  destruct p as [|s r].
  { exists v. rewrite get_nil, rlookup_nil. auto. }
  pose proof (good_not_empty s r Hg) as He.
  pose proof (good_tail s r Hg) as Hr.
  destruct v; try (exists VMissing; split; [rewrite get_scalar by discriminate | rewrite rlookup_scalar by discriminate]; reflexivity).
  - (* document *)
    rewrite get_doc, He, rlookup_doc. rewrite fans_out_doc in Hf.
    simpl in IHv. induction d as [|[k0 x] t IHd].
    + exists VMissing. auto.
    + simpl in *. inversion IHv as [|? ? Hx Ht]; subst.
      destruct (String.eqb k0 s).
      * apply Hx; assumption.
      * apply IHd; assumption.
  - (* array *)
    rewrite get_arr, He, rlookup_arr. rewrite fans_out_arr in Hf.
    destruct (parse_index s) as [i|]; [|discriminate].
    simpl in IHv.
    assert (Hgen : forall (l : list value) (j : Z),
              Forall (fun x : value => forall (p0 : path) (k0 : bool), good_path p0 = true -> fans_out x p0 = false ->
                        exists y : value, get x p0 true k0 = (y, false) /\ rlookup x p0 = [y]) l ->
              fnth a l j r = false ->
              has_doc_element a = false /\
              exists y, gnth l j r true k = Some (y, false) /\ rnth l j r = [y]).
    { induction l as [|x t IHl]; intros j HF Hn; [discriminate|].
      simpl in *. inversion HF as [|? ? Hx Ht]; subst.
      destruct (j =? 0)%Z.
      - apply orb_false_elim in Hn. destruct Hn as [Hd Hx'].
        split; [exact Hd|]. destruct (Hx r k Hr Hx') as [y [G R]].
        exists y. rewrite G. auto.
      - apply IHl; assumption. }
    destruct (Hgen a i IHv Hf) as [Hnd [y [G R]]].
    exists y. rewrite G, R. split; [reflexivity|].
    assert (Ht : forall l, existsb (fun e => match e with VDoc _ => true | _ => false end) l = false ->
                 rtrav l (s :: r) = []).
    { induction l as [|e t IHl]; [reflexivity|]. simpl. intro H.
      apply orb_false_elim in H. destruct H as [H1 H2].
      rewrite (IHl H2). destruct e; try reflexivity. discriminate. }
    unfold has_doc_element in Hnd. rewrite (Ht a Hnd). reflexivity.
Qed.

(* ---------------------------------------------------------------- *)
(* Lemma B: under D1 and D3 lungo's collected leaves are the reference
   candidates, up to Missing entries *)

Definition nm (x : value) : bool := negb (is_missing x).

Definition leaves (val : value) (n : bool) : list value :=
  if n then match val with VArr l => l | _ => [] end else [val].

(* a document without the (numeric) key s contributes one Missing candidate *)
Lemma rfind_absent e s r :
  numeric_key s = true ->
  forallb (fun kv => negb (numeric_key (fst kv))) e = true ->
  rfind e s r = [VMissing].
Proof.
  intros Hs. induction e as [|[k0 x] t IH]; intro H; [reflexivity|].
  simpl in *. apply andb_prop in H. destruct H as [H1 H2].
  destruct (String.eqb k0 s) eqn:E.
  - apply String.eqb_eq in E. subst. rewrite Hs in H1. discriminate.
  - apply IH. exact H2.
Qed.

Lemma filter_nm_missing : filter nm [VMissing] = [].
Proof. reflexivity. Qed.

Definition pathB (v : value) : Prop :=
  forall p, d1 v = true -> d3 v = true -> good_path p = true ->
  (snd (get v p true true) = true ->
     exists l, fst (get v p true true) = VArr l /\ Forall (fun x => nm x = true) l) /\
  filter nm (leaves (fst (get v p true true)) (snd (get v p true true))) = filter nm (rlookup v p).

Lemma gnth_rnth_none l : forall j r, gnth l j r true true = None -> rnth l j r = [].
Proof.
  induction l as [|x t IH]; intros j r H; [reflexivity|]. simpl in *.
  destruct (j =? 0)%Z; [discriminate|]. apply IH. exact H.
Qed.

Lemma collected_leaves : forall v, pathB v.
Proof.
  induction v as [v IHv] using value_ind'. intros p H1 H3 Hg.
  destruct p as [|s r].
  { rewrite get_nil, rlookup_nil. simpl. split; [discriminate|reflexivity]. }
  pose proof (good_not_empty s r Hg) as He.
  pose proof (good_tail s r Hg) as Hr.
  destruct v; try (rewrite get_scalar by discriminate; rewrite rlookup_scalar by discriminate;
                   simpl; split; [discriminate|reflexivity]).
  - (* document *)
    rewrite get_doc, He, rlookup_doc.
    apply d1_doc in H1. apply d3_doc in H3. simpl in IHv.
    induction d as [|[k0 x] t IHd].
    + simpl. split; [discriminate|reflexivity].
    + simpl gfind. simpl rfind.
      inversion IHv as [|? ? Hx Ht]; subst.
      inversion H1 as [|? ? H1x H1t]; subst.
      inversion H3 as [|? ? H3x H3t]; subst.
      destruct (String.eqb k0 s).
      * apply Hx; assumption.
      * apply IHd; assumption.
  - (* array *)
    rewrite get_arr, He, rlookup_arr.
    apply d1_arr in H1. apply d3_arr in H3. simpl in IHv.
    (* the traversal part of the reference, under an index segment, is all Missing *)
    assert (Htrav_idx : forall i, parse_index s = Some i ->
              forall l, Forall (fun x => (forall e, x = VDoc e ->
                                  forallb (fun kv => negb (numeric_key (fst kv))) e = true) /\ d3 x = true) l ->
              filter nm (rtrav l (s :: r)) = []).
    { intros i Hi. induction l as [|x t IHl]; intro HF; [reflexivity|].
      inversion HF as [|? ? [Hx _] Ht]; subst. simpl rtrav. rewrite filter_app, (IHl Ht), app_nil_r.
      destruct x; try reflexivity.
      rewrite rlookup_doc, rfind_absent; [reflexivity| |apply Hx; reflexivity].
      unfold numeric_key. rewrite Hi. reflexivity. }
    (* the collecting branch *)
    assert (Hcoll : forall l,
              Forall pathB l ->
              Forall (fun x => (forall l0, x <> VArr l0) /\ d1 x = true) l ->
              Forall (fun x => (forall e, x = VDoc e ->
                                  forallb (fun kv => negb (numeric_key (fst kv))) e = true) /\ d3 x = true) l ->
              Forall (fun x => nm x = true) (gcoll l (s :: r) true true) /\
              filter nm (gcoll l (s :: r) true true) = filter nm (rtrav l (s :: r))).
    { induction l as [|x t IHl]; intros HP HD1 HD3; [split; [constructor|reflexivity]|].
      inversion HP as [|? ? Px Pt]; subst.
      inversion HD1 as [|? ? [Ax D1x] D1t]; subst.
      inversion HD3 as [|? ? [_ D3x] D3t]; subst.
      destruct (IHl Pt D1t D3t) as [Fr Er].
      simpl gcoll. simpl rtrav. rewrite filter_app, <- Er.
      destruct x as [| | ? | ? | ? | ? ? | ? | dd | aa | ? ? | ? | ? | ? | ? ? | ? ?];
        try (unfold gstep; rewrite get_scalar by discriminate; simpl; split; [assumption|reflexivity]).
      + (* a document element *)
        destruct (Px (s :: r) D1x D3x Hg) as [Pn Pe].
        unfold gstep. destruct (get (VDoc dd) (s :: r) true true) as [val n] eqn:G.
        simpl fst in *. simpl snd in *. rewrite <- Pe.
        destruct n.
        * destruct (Pn eq_refl) as [l0 [-> Fl0]]. simpl.
          split; [apply Forall_app; split; assumption|]. rewrite filter_app. reflexivity.
        * simpl leaves. destruct (is_missing val) eqn:M.
          -- destruct val; try discriminate. simpl. split; [assumption|reflexivity].
          -- assert (Hnm : nm val = true) by (unfold nm; rewrite M; reflexivity).
             assert (Hres : Forall (fun x => nm x = true) (val :: gcoll t (s :: r) true true) /\
                            filter nm (val :: gcoll t (s :: r) true true)
                            = filter nm [val] ++ filter nm (gcoll t (s :: r) true true)).
             { split; [constructor; assumption|]. simpl. rewrite Hnm. reflexivity. }
             destruct val; exact Hres.
      + (* an array directly inside an array: excluded by D1 *)
        exfalso. eapply Ax. reflexivity. }
    destruct (parse_index s) as [i|] eqn:Hi.
    + destruct (gnth a i r true true) as [res|] eqn:G.
      * (* the index branch *)
        rewrite filter_app, (Htrav_idx i eq_refl a H3), app_nil_r.
        clear Hcoll Htrav_idx.
        revert i G Hi. induction a as [|x t IHa]; intros i G Hi; [discriminate|].
        simpl in G. simpl rnth.
        inversion IHv as [|? ? Px Pt]; subst.
        inversion H1 as [|? ? [_ D1x] D1t]; subst.
        inversion H3 as [|? ? [_ D3x] D3t]; subst.
        destruct (i =? 0)%Z.
        -- injection G as <-. apply Px; assumption.
        -- (* the index value is irrelevant to the remaining list *)
           assert (Hgen : forall l j res0,
                     Forall pathB l ->
                     Forall (fun x => (forall l0, x <> VArr l0) /\ d1 x = true) l ->
                     Forall (fun x => (forall e, x = VDoc e ->
                                  forallb (fun kv => negb (numeric_key (fst kv))) e = true) /\ d3 x = true) l ->
                     gnth l j r true true = Some res0 ->
                     (snd res0 = true -> exists l1, fst res0 = VArr l1 /\ Forall (fun x => nm x = true) l1) /\
                     filter nm (leaves (fst res0) (snd res0)) = filter nm (rnth l j r)).
           { clear - Hr. induction l as [|y l IHl]; intros j res0 HP HD1 HD3 G; [discriminate|].
             simpl in G. simpl rnth.
             inversion HP as [|? ? Py Pl]; subst.
             inversion HD1 as [|? ? [_ D1y] D1l]; subst.
             inversion HD3 as [|? ? [_ D3y] D3l]; subst.
             destruct (j =? 0)%Z.
             - injection G as <-. apply Py; assumption.
             - eapply IHl; eassumption. }
           exact (Hgen t (i - 1)%Z res Pt D1t D3t G).
      * (* index out of range: collect *)
        rewrite (gnth_rnth_none a i r G). simpl app.
        destruct (Hcoll a IHv H1 H3) as [Fc Ec]. simpl fst. simpl snd. simpl leaves.
        split; [intros _; eexists; split; [reflexivity|exact Fc]|exact Ec].
    + (* not an index: collect *)
      simpl app.
      destruct (Hcoll a IHv H1 H3) as [Fc Ec]. simpl fst. simpl snd. simpl leaves.
      split; [intros _; eexists; split; [reflexivity|exact Fc]|exact Ec].
Qed.

(* a non-collected result is a sub-value of the document (or Missing): D1 is inherited *)
Lemma get_single_d1 : forall v p k x,
  d1 v = true -> get v p true k = (x, false) -> d1 x = true.
Proof.
  induction v as [v IHv] using value_ind'. intros p k x H1 G.
  destruct p as [|s r].
  { rewrite get_nil in G. injection G as <-. exact H1. }
  destruct v; try (rewrite get_scalar in G by discriminate; injection G as <-; reflexivity).
  - rewrite get_doc in G. destruct (empty_path (s :: r)); [injection G as <-; reflexivity|].
    apply d1_doc in H1. simpl in IHv.
    induction d as [|[k0 y] t IHd]; [injection G as <-; reflexivity|].
    simpl in G. inversion IHv as [|? ? Hy Ht]; subst. inversion H1 as [|? ? H1y H1t]; subst.
    destruct (String.eqb k0 s).
    + eapply Hy; eassumption.
    + apply IHd; assumption.
  - rewrite get_arr in G. destruct (empty_path (s :: r)); [injection G as <-; reflexivity|].
    apply d1_arr in H1. simpl in IHv.
    destruct (parse_index s) as [i|]; [|discriminate].
    destruct (gnth a i r true k) as [res|] eqn:Gn; [|discriminate]. subst res.
    revert i Gn. induction a as [|y t IHa]; intros i Gn; [discriminate|].
    simpl in Gn. inversion IHv as [|? ? Hy Ht]; subst. inversion H1 as [|? ? [_ H1y] H1t]; subst.
    destruct (i =? 0)%Z.
    + injection Gn as Gn. eapply Hy; eassumption.
    + eapply IHa; eassumption.
Qed.

Lemma get_single_d3 : forall v p k x,
  d3 v = true -> get v p true k = (x, false) -> d3 x = true.
Proof.
  induction v as [v IHv] using value_ind'. intros p k x H3 G.
  destruct p as [|s r].
  { rewrite get_nil in G. injection G as <-. exact H3. }
  destruct v; try (rewrite get_scalar in G by discriminate; injection G as <-; reflexivity).
  - rewrite get_doc in G. destruct (empty_path (s :: r)); [injection G as <-; reflexivity|].
    apply d3_doc in H3. simpl in IHv.
    induction d as [|[k0 y] t IHd]; [injection G as <-; reflexivity|].
    simpl in G. inversion IHv as [|? ? Hy Ht]; subst. inversion H3 as [|? ? H3y H3t]; subst.
    destruct (String.eqb k0 s).
    + eapply Hy; eassumption.
    + apply IHd; assumption.
  - rewrite get_arr in G. destruct (empty_path (s :: r)); [injection G as <-; reflexivity|].
    apply d3_arr in H3. simpl in IHv.
    destruct (parse_index s) as [i|]; [|discriminate].
    destruct (gnth a i r true k) as [res|] eqn:Gn; [|discriminate]. subst res.
    revert i Gn. induction a as [|y t IHa]; intros i Gn; [discriminate|].
    simpl in Gn. inversion IHv as [|? ? Hy Ht]; subst. inversion H3 as [|? ? [_ H3y] H3t]; subst.
    destruct (i =? 0)%Z.
    + injection Gn as Gn. eapply Hy; eassumption.
    + eapply IHa; eassumption.
Qed.
