(* C14 — Projections return exactly the requested part of each document,
   unchanged.  Statements about the executable model of mongokit.Project
   (Model/Project.v), for EVERY query matcher `matchf` ($elemMatch calls it);
   `Project = project_with Match` (Model/Match.v) is the instance that is
   compared with /repo.  Only `exact`, with
   Print Assumptions; non-vacuity Examples at the end.

   Domain of the path-level statements.  Projection keys are KEY PATHS
   (kpath_str): dotted paths whose segments are non-empty and not numbers,
   i.e. paths descending through embedded documents.  An array met on such a
   path makes it Missing (lungo does not project into the elements of an
   array of sub-documents): nothing is included, excluded or sliced below it.
   `plain_projection`: every entry is a condition (no operator document) on a
   key path.  Documents: no repeated field names (nodup_keys) where stated.
   Map order: the merge overlays ($slice / $elemMatch results) are applied in
   order of first appearance; the statements about them are for projections
   with a single operator entry, where the Go map order cannot matter. *)
From Coq Require Import List ZArith String.
From Lungo.Model Require Import Access Project.
From Lungo.Gen Require Import ProjectOps.
From Lungo.Model Require Match.
From Lungo.Proofs Require Import KeyPaths KeyPathLaws SliceWindow ProjectProofs GenProject ProjectMatch.
Import ListNotations.
Open Scope string_scope.
Open Scope list_scope.

(* mixing inclusion and exclusion is an error (hiding _id is not an exclusion) *)
Theorem C14_mix_is_error : forall matchf d pr k1 v1 k2 v2,
  In (k1, v1) pr -> is_inclusion_value v1 = true ->
  In (k2, v2) pr -> is_exclusion_value v2 = true -> k2 <> "_id" ->
  forall r, project_with matchf d pr <> Ok r.
Proof. exact mix_is_error. Qed.
Print Assumptions C14_mix_is_error.

(* ... $elemMatch counts as an inclusion *)
Theorem C14_mix_is_error_elem_match : forall matchf d pr k1 q k2 v2,
  In (k1, VDoc [("$elemMatch", VDoc q)]) pr ->
  In (k2, v2) pr -> is_exclusion_value v2 = true -> k2 <> "_id" ->
  forall r, project_with matchf d pr <> Ok r.
Proof. exact mix_is_error_elem_match. Qed.
Print Assumptions C14_mix_is_error_elem_match.

(* inclusion: only _id and the roots of the included paths; every included
   path holds the stored value; _id present unless hidden; field order = _id,
   then the included roots that exist, in the order of the projection *)
Theorem C14_inclusion_spec : forall matchf d pr r,
  plain_projection pr -> included_keys pr <> [] -> project_with matchf d pr = Ok r ->
  (forall k, In k (map fst r) -> k = "_id" \/ exists p, In p (included_keys pr) /\ root p = k) /\
  (forall p, In p (included_keys pr) -> (hides_id pr = true -> root p <> "_id") -> Get r p = Get d p) /\
  (hides_id pr = false -> Get r "_id" = Get d "_id" /\ is_missing (Get d "_id") = false) /\
  (hides_id pr = true -> lookup r "_id" = None) /\
  map fst r = (if hides_id pr then remove_str "_id" else fun l => l)
                (add_keys ["_id"] (map root (filter (present d) (included_keys pr)))).
Proof. exact inclusion_spec. Qed.
Print Assumptions C14_inclusion_spec.

(* every value in the result of a condition-only projection (inclusion or
   exclusion) is the stored value at that path: sub-document relation ... *)
Theorem C14_projected_values_are_stored : forall matchf d pr r,
  plain_projection pr -> nodup_keys (VDoc d) = true -> project_with matchf d pr = Ok r ->
  sub (VDoc r) (VDoc d).
Proof. exact projected_values_are_stored. Qed.
Print Assumptions C14_projected_values_are_stored.

(* ... and in terms of reads *)
Theorem C14_projected_reads_are_stored : forall matchf d pr r q,
  plain_projection pr -> nodup_keys (VDoc d) = true -> project_with matchf d pr = Ok r ->
  kpath_str q = true -> is_missing (Get r q) = false ->
  sub (Get r q) (Get d q) /\ ((forall f, Get r q <> VDoc f) -> Get r q = Get d q).
Proof. exact projected_reads_are_stored. Qed.
Print Assumptions C14_projected_reads_are_stored.

(* exclusion: excluded paths absent; unrelated paths hold the stored value;
   the result is the document with fields deleted, order preserved *)
Theorem C14_exclusion_spec : forall matchf d pr r,
  plain_projection pr -> included_keys pr = [] -> nodup_keys (VDoc d) = true ->
  project_with matchf d pr = Ok r ->
  (forall p, In p (excluded_keys pr) -> Get r p = VMissing) /\
  (hides_id pr = true -> lookup r "_id" = None) /\
  (forall q, kpath_str q = true ->
             (forall p, In p (excluded_keys pr) -> unrelated (split_path p) (split_path q)) ->
             (hides_id pr = true -> root q <> "_id") ->
             Get r q = Get d q) /\
  pruned (VDoc r) (VDoc d).
Proof. exact exclusion_spec. Qed.
Print Assumptions C14_exclusion_spec.

Theorem C14_exclusion_order : forall matchf d pr r,
  plain_projection pr -> included_keys pr = [] -> nodup_keys (VDoc d) = true ->
  project_with matchf d pr = Ok r -> subseq (map fst r) (map fst d).
Proof. exact exclusion_order. Qed.
Print Assumptions C14_exclusion_order.

Theorem C14_exclusion_total : forall matchf d pr,
  plain_projection pr -> included_keys pr = [] ->
  (forall e, In e pr -> is_exclusion_value (snd e) = true /\ is_operator_key (fst e) = false) ->
  exists r, project_with matchf d pr = Ok r.
Proof. exact exclusion_total. Qed.
Print Assumptions C14_exclusion_total.

(* $slice: n  — first n (n >= 0) or last -n (n < 0) elements; n is what
   projectSliceInt makes of the argument (int64 and double clamped to
   +-MaxInt32, doubles truncated); the other entries may be any conditions *)
Theorem C14_slice_spec_n : forall matchf d pre post p x n a r,
  forallb plain_entry pre = true -> forallb plain_entry post = true ->
  kpath_str p = true -> root p <> "_id" ->
  wf x = true -> project_slice_int x = Some n ->
  Get d p = VArr a -> (len a < two63)%Z ->
  project_with matchf d (pre ++ (p, VDoc [("$slice", x)]) :: post) = Ok r ->
  Get r p = VArr (window_n n a).
Proof. exact slice_spec_n. Qed.
Print Assumptions C14_slice_spec_n.

(* $slice: [skip, limit] — limit elements from position skip (from the end
   when negative, clamped to the array) *)
Theorem C14_slice_spec_skip_limit : forall matchf d pre post p xs xl s l a r,
  forallb plain_entry pre = true -> forallb plain_entry post = true ->
  kpath_str p = true -> root p <> "_id" ->
  wf xs = true -> wf xl = true ->
  project_slice_int xs = Some s -> project_slice_int xl = Some l ->
  Get d p = VArr a -> (len a < two63)%Z ->
  project_with matchf d (pre ++ (p, VDoc [("$slice", VArr [xs; xl])]) :: post) = Ok r ->
  (0 <= l)%Z /\ Get r p = VArr (window_skip_limit s l a).
Proof. exact slice_spec_skip_limit. Qed.
Print Assumptions C14_slice_spec_skip_limit.

(* $slice never panics and is always modelled: for EVERY argument value the
   operator reports an error or succeeds (used by C20) *)
Theorem C14_slice_total : forall st d o p v,
  wf v = true ->
  (forall a, Get d p = VArr a -> (len a < two63 - two31)%Z) ->
  project_slice st d o p v = Err \/ exists st', project_slice st d o p v = Ok st'.
Proof. exact slice_total. Qed.
Print Assumptions C14_slice_total.

(* ... and neither does Project as a whole, given a matcher that does not *)
Theorem C14_project_never_panics : forall matchf,
  (forall x y, matchf x y <> Panic) ->
  forall d, (forall p a, Get d p = VArr a -> (len a < two63 - two31)%Z) ->
  forall pr, wf (VDoc pr) = true -> project_with matchf d pr <> Panic.
Proof. exact project_never_panics. Qed.
Print Assumptions C14_project_never_panics.

(* $elemMatch: the first element for which the condition holds ... *)
Theorem C14_elem_match_spec_found : forall matchf d pre post p q a pa item pb r,
  forallb plain_entry pre = true -> forallb plain_entry post = true ->
  kpath_str p = true -> root p <> "_id" ->
  Get d p = VArr a -> a = (pa ++ item :: pb)%list ->
  Forall (fun x => elem_matches matchf x q = Ok false) pa ->
  elem_matches matchf item q = Ok true ->
  project_with matchf d (pre ++ (p, VDoc [("$elemMatch", VDoc q)]) :: post) = Ok r ->
  Get r p = VArr [item].
Proof. exact elem_match_spec_found. Qed.
Print Assumptions C14_elem_match_spec_found.

(* ... absent when none does *)
Theorem C14_elem_match_spec_none : forall matchf d pre post p q a r,
  forallb plain_entry pre = true -> forallb plain_entry post = true ->
  all_kpaths (map fst (pre ++ post)) -> kpath_str p = true -> root p <> "_id" ->
  (forall e, In e (pre ++ post) -> unrelated (split_path (fst e)) (split_path p)) ->
  Get d p = VArr a ->
  Forall (fun x => elem_matches matchf x q = Ok false) a ->
  project_with matchf d (pre ++ (p, VDoc [("$elemMatch", VDoc q)]) :: post) = Ok r ->
  Get r p = VMissing.
Proof. exact elem_match_spec_none. Qed.
Print Assumptions C14_elem_match_spec_none.

(* projecting never alters the source document (project_src: result and
   source after the call; every stored value is a private copy since /repo
   878ebea — the refutation that stood here before is the history lemma
   write_through_before_878ebea in Proofs/ProjectProofs.v) ... *)
Theorem C14_project_pure : forall matchf d pr r s,
  project_src_with matchf d pr = Ok (r, s) -> s = d.
Proof. exact project_pure. Qed.
Print Assumptions C14_project_pure.

(* ... nor later results *)
Theorem C14_project_later_results : forall matchf d pr r s,
  project_src_with matchf d pr = Ok (r, s) -> project_with matchf s pr = Ok r.
Proof. exact project_later_results. Qed.
Print Assumptions C14_project_later_results.

(* the result component of project_src is the value model *)
Theorem C14_project_src_result : forall matchf d pr r s,
  project_src_with matchf d pr = Ok (r, s) -> project_with matchf d pr = Ok r.
Proof. exact project_src_result. Qed.
Print Assumptions C14_project_src_result.

(* the matcher instance: Match {item: e} (elem_query q) is Match.v's model of
   the call projectElemMatch makes, Process(ctx, {item: e}, q, "item", false) *)
Theorem C14_elem_match_call : forall item q,
  elem_matches Match.Match item q = Match.process_nr Match.eval_op q [("item", item)] "item".
Proof. exact elem_matches_process_nr. Qed.
Print Assumptions C14_elem_match_call.

(* the model's operator table and Process calls are those of /repo's project.go *)
Theorem C14_source_operator_table : gen_projection_operators = model_operator_table.
Proof. exact gen_projection_operators_ok. Qed.
Print Assumptions C14_source_operator_table.

Theorem C14_source_process_calls :
  gen_project_process_calls =
  [ ("Project", ["Context{Expression:ProjectionExpressionOperators,Value:&state}"; "doc"; "*projection"; """"""; "true"])
  ; ("projectElemMatch", ["queryCtx"; "&virtual"; "query"; """item"""; "false"]) ].
Proof. exact gen_project_process_calls_ok. Qed.
Print Assumptions C14_source_process_calls.

(* ------------------------------------------------------------------ *)
(* Non-vacuity: concrete documents and projections meeting the hypotheses. *)

Definition ex_doc : doc :=
  [("_id", VInt32 7);
   ("a", VDoc [("b", VArr [VInt32 1; VInt32 2; VInt32 3]); ("c", VInt32 5)]);
   ("z", VArr [VDoc [("q", VInt32 1)]; VDoc [("q", VInt32 2)]]);
   ("w", VString "x")].

Lemma kpaths_of (l : list string) : forallb kpath_str l = true -> all_kpaths l.
Proof.
  intros H p Hp. rewrite forallb_forall in H. exact (H p Hp).
Qed.

(* inclusion with _id hidden, numbers of three types and a bool as conditions *)
Example C14_inclusion_example :
  let pr := [("a.c", VDouble 4607182418800017408); ("_id", VInt64 0); ("w", VBool true); ("z.q", VInt32 1)] in
  plain_projection pr /\ included_keys pr <> [] /\ hides_id pr = true /\
  Project ex_doc pr = Ok [("a", VDoc [("c", VInt32 5)]); ("w", VString "x")].
Proof.
  cbv zeta. split; [split; [reflexivity|apply kpaths_of; reflexivity]|].
  split; [vm_compute; discriminate|]. split; vm_compute; reflexivity.
Qed.

Example C14_exclusion_example :
  let pr := [("a.b", VInt32 0); ("w", VBool false); ("_id", VDouble 0)] in
  plain_projection pr /\ included_keys pr = [] /\ nodup_keys (VDoc ex_doc) = true /\
  (forall e, In e pr -> is_exclusion_value (snd e) = true /\ is_operator_key (fst e) = false) /\
  Project ex_doc pr =
  Ok [("a", VDoc [("c", VInt32 5)]); ("z", VArr [VDoc [("q", VInt32 1)]; VDoc [("q", VInt32 2)]])].
Proof.
  cbv zeta. split; [split; [reflexivity|apply kpaths_of; reflexivity]|].
  split; [reflexivity|]. split; [reflexivity|]. split; [|vm_compute; reflexivity].
  intros e [<-|[<-|[<-|[]]]]; split; reflexivity.
Qed.

Example C14_mix_example :
  Project ex_doc [("a", VInt32 1); ("w", VInt32 0)] = Err /\
  (* the _id exception *)
  Project ex_doc [("_id", VInt32 0); ("w", VInt32 1)] = Ok [("w", VString "x")] /\
  (* but _id: 1 with an exclusion is a mix *)
  Project ex_doc [("_id", VInt32 1); ("w", VInt32 0)] = Err.
Proof. vm_compute. repeat split. Qed.

Example C14_slice_example :
  let a := [VInt32 1; VInt32 2; VInt32 3] in
  Get ex_doc "a.b" = VArr a /\ kpath_str "a.b" = true /\
  Project ex_doc [("w", VInt32 0); ("a.b", VDoc [("$slice", VInt32 (-2))])] =
    Ok [("_id", VInt32 7); ("a", VDoc [("b", VArr [VInt32 2; VInt32 3]); ("c", VInt32 5)]);
        ("z", VArr [VDoc [("q", VInt32 1)]; VDoc [("q", VInt32 2)]])] /\
  window_n (-2) a = [VInt32 2; VInt32 3] /\
  Project ex_doc [("a.b", VDoc [("$slice", VArr [VInt32 (-2); VInt64 1])]); ("w", VInt32 1)] =
    Ok [("_id", VInt32 7); ("w", VString "x"); ("a", VDoc [("b", VArr [VInt32 2])])] /\
  window_skip_limit (-2) 1 a = [VInt32 2].
Proof. vm_compute. repeat split. Qed.

(* arguments that used to panic are ordinary now: MinInt64, [1, MaxInt64],
   +Inf; NaN is an error *)
Example C14_slice_clamp_example :
  project_slice_int (VInt64 (-9223372036854775808)) = Some (-2147483647)%Z /\
  project_slice_int (VDouble 9218868437227405312) = Some 2147483647%Z /\
  project_slice_int (VDouble 9221120237041090560) = None /\
  Project ex_doc [("a.b", VDoc [("$slice", VInt64 (-9223372036854775808))])] = Ok ex_doc /\
  Project ex_doc [("w", VInt32 0); ("a.b", VDoc [("$slice", VArr [VInt32 1; VInt64 9223372036854775807])])] =
    Ok [("_id", VInt32 7); ("a", VDoc [("b", VArr [VInt32 2; VInt32 3]); ("c", VInt32 5)]);
        ("z", VArr [VDoc [("q", VInt32 1)]; VDoc [("q", VInt32 2)]])] /\
  Project ex_doc [("a.b", VDoc [("$slice", VDouble 9221120237041090560)])] = Err.
Proof. vm_compute. repeat split. Qed.

(* $elemMatch with the real matcher *)
Example C14_elem_match_example :
  Project ex_doc [("z", VDoc [("$elemMatch", VDoc [("q", VDoc [("$gte", VInt32 2)])])])] =
    Ok [("_id", VInt32 7); ("z", VArr [VDoc [("q", VInt32 2)]])] /\
  elem_matches Match.Match (VDoc [("q", VInt32 1)]) [("q", VDoc [("$gte", VInt32 2)])] = Ok false /\
  elem_matches Match.Match (VDoc [("q", VInt32 2)]) [("q", VDoc [("$gte", VInt32 2)])] = Ok true /\
  Project ex_doc [("z", VDoc [("$elemMatch", VDoc [("q", VInt32 9)])])] = Ok [("_id", VInt32 7)] /\
  (* the operator form: the element itself *)
  Project ex_doc [("a.b", VDoc [("$elemMatch", VDoc [("$gt", VInt32 1)])])] =
    Ok [("_id", VInt32 7); ("a", VDoc [("b", VArr [VInt32 2])])].
Proof. vm_compute. repeat split. Qed.

(* the former colliding-paths witness: the source stays as it is *)
Example C14_pure_example :
  project_src wt_doc wt_projection =
    Ok ([("_id", VInt32 7); ("a", VDoc [("b", VArr [VInt32 1]); ("c", VInt32 5)])], wt_doc).
Proof. vm_compute. reflexivity. Qed.
