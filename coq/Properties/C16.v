(* C16 — the engine never wedges; shutdown completes.  Theorems about the
   transition system of Model/Engine.v (any number of threads, sessions and
   steps, any programs, any faults), closed by `exact`.  Progress is proved as
   enabledness; real-time bounds (the one-minute Acquire timeout, tickers) and
   fairness of the Go scheduler are outside the model. *)
From Coq Require Import List Arith Bool.
From Lungo.Model Require Import Base Engine.
From Lungo.Proofs Require Import EngineProofs EngineSession EngineLive EngineExamples.
Import ListNotations.

(* exactly one of {semaphore, e.txn, one thread in transit} has the token:
   free <-> nobody is in a writer section; at most one is *)
Theorem C16_token_conservation : forall c s,
  reachable c s ->
  (token_free (st_g s) = true <->
     etxn (st_g s) = None /\ forall t th, nth_error (st_threads s) t = Some th -> transit (th_pc th) = false) /\
  b2n (is_some (etxn (st_g s))) + count thr_transit (st_threads s) <= 1 /\
  (forall t u th thu, nth_error (st_threads s) t = Some th -> nth_error (st_threads s) u = Some thu ->
     transit (th_pc th) = true -> transit (th_pc thu) = true -> t = u).
Proof. exact token_conservation_thm. Qed.
Print Assumptions C16_token_conservation.

(* Release never panics ("semaphore full" unreachable) and is only ever
   executed by the owner of the token *)
Theorem C16_release_once : forall c s,
  reachable c s ->
  sem_panic (st_g s) = false /\
  forall t a s', step c s (LThread t a) = Some s' ->
    token_free (st_g s) = false -> token_free (st_g s') = true ->
    exists th, nth_error (st_threads s) t = Some th /\
      (transit (th_pc th) = true \/ (exists x k, th_pc th = PAbortL x k /\ etxn (st_g s) = Some x)).
Proof. exact release_once_thm. Qed.
Print Assumptions C16_release_once.

(* at most one write transaction is open at a time *)
Theorem C16_single_writer : forall c s x y,
  reachable c s -> txn_status (st_g s) x = Some TOpen -> txn_status (st_g s) y = Some TOpen -> x = y.
Proof. exact single_writer_txn. Qed.
Print Assumptions C16_single_writer.

(* a transaction is open exactly while it is installed in e.txn *)
Theorem C16_open_iff_installed : forall c s, reachable c s -> txn_ok (st_g s).
Proof. exact txn_invariant. Qed.
Print Assumptions C16_open_iff_installed.

(* every write transaction finished or abandoned -> the writer slot is free *)
Theorem C16_no_wedge : forall c s,
  reachable c s ->
  (forall t th, nth_error (st_threads s) t = Some th -> idle_pc (th_pc th) = true) ->
  (forall x, txn_status (st_g s) x <> Some TOpen) ->
  token_free (st_g s) = true /\ etxn (st_g s) = None.
Proof. exact no_wedge_thm. Qed.
Print Assumptions C16_no_wedge.

(* Commit / Abort finish the transaction they are given, whatever else happens *)
Theorem C16_commit_abort_finish : forall c t bgs g th g' th' x k,
  tstep c t bgs g th ATau = Some (g', th') ->
  (th_pc th = PAbortL x k \/ th_pc th = PCommitL x k) ->
  alive g = true -> txn_ok g -> txn_status g' x <> Some TOpen.
Proof. exact tstep_finishes. Qed.
Print Assumptions C16_commit_abort_finish.

Theorem C16_finished_stays_finished : forall c s l s' x,
  reachable c s -> step c s l = Some s' ->
  x < List.length (txns (st_g s)) -> txn_status (st_g s) x <> Some TOpen ->
  txn_status (st_g s') x <> Some TOpen.
Proof. exact finished_stable. Qed.
Print Assumptions C16_finished_stays_finished.

(* ... so a subsequent write proceeds immediately *)
Theorem C16_next_write_proceeds : forall c s t th k,
  reachable c s -> nth_error (st_threads s) t = Some th -> th_pc th = PBeginAcq k ->
  token_free (st_g s) = true ->
  exists s1, step c s (LThread t AAcqOk) = Some s1 /\
    exists th1, nth_error (st_threads s1) t = Some th1 /\ th_pc th1 = PBeginWoke true k /\
    (alive (st_g s1) = true -> emutex (st_g s1) = None ->
     exists s2 th2 x, step c s1 (LThread t ATau) = Some s2 /\ nth_error (st_threads s2) t = Some th2 /\
       th_pc th2 = PBeginInst x k /\ etxn (st_g s2) = Some x).
Proof. exact next_write_proceeds. Qed.
Print Assumptions C16_next_write_proceeds.

(* mutex ownership recorded in the state = program counters in critical sections *)
Theorem C16_engine_mutex_owner : forall c s, reachable c s -> all_threads inv_emutex s.
Proof. exact emutex_owner. Qed.
Print Assumptions C16_engine_mutex_owner.

Theorem C16_session_mutex_owner : forall c s, reachable c s -> all_threads inv_smutex s.
Proof. exact smutex_owner. Qed.
Print Assumptions C16_session_mutex_owner.

(* sessions: two concurrent starts never both succeed; an ended session never
   holds a transaction (one that arrives late is aborted) *)
Theorem C16_session_state_machine : forall c st s,
  reachable c st ->
  count (thr_in_window s) (st_threads st) <= 1 /\
  (forall t u th thu, nth_error (st_threads st) t = Some th -> nth_error (st_threads st) u = Some thu ->
     in_window s (th_pc th) = true -> in_window s (th_pc thu) = true -> t = u) /\
  (1 <= count (thr_in_window s) (st_threads st) -> sess_txn (st_g st) s = None) /\
  (sess_ended (st_g st) s = true -> sess_txn (st_g st) s = None).
Proof. exact session_state_machine_thm. Qed.
Print Assumptions C16_session_state_machine.

(* shutdown: closed stays closed, every call returns the closed error within
   a bounded number of own steps, blocked acquirers are enabled, the expiry
   goroutine exits *)
Theorem C16_closed_stays_closed : forall c s l s',
  step c s l = Some s' -> alive (st_g s) = false -> alive (st_g s') = false.
Proof. exact closed_stays_closed. Qed.
Print Assumptions C16_closed_stays_closed.

Theorem C16_closed_is_prompt : forall c t bgs g th,
  alive g = false ->
  (forall l cs n k, th_pc th = PBegin0 l cs n k -> emutex g = None ->
     exists g' th', tstep c t bgs g th ATau = Some (g', th') /\ th_pc th' = PRetE RClosed None k) /\
  (forall ok k, th_pc th = PBeginWoke ok k -> emutex g = None ->
     exists g' th', tstep c t bgs g th ATau = Some (g', th') /\ th_pc th' = PRetE RClosed None k) /\
  (forall k, th_pc th = PBeginAcq k ->
     exists g' th', tstep c t bgs g th AAcqCancel = Some (g', th') /\ th_pc th' = PBeginWoke false k) /\
  (forall x k, th_pc th = PCommitL x k ->
     exists g' th', tstep c t bgs g th ATau = Some (g', th') /\ th_pc th' = PRetE RClosed None k) /\
  (forall x k, th_pc th = PCommit0 x k -> emutex g = None ->
     exists g' th', tstep c t bgs g th ATau = Some (g', th') /\ th_pc th' = PCommitL x k) /\
  (th_pc th = PWatch0 -> emutex g = None ->
     exists g' th', tstep c t bgs g th ATau = Some (g', th') /\ th_pc th' = PRetE RClosed None KTop) /\
  (forall x k, th_pc th = PAbortL x k ->
     exists g' th', tstep c t bgs g th ATau = Some (g', th') /\ th_pc th' = PRetE ROk None k /\
       etxn g' = etxn g /\ token_free g' = token_free g) /\
  (th_pc th = PClose0 -> emutex g = None ->
     exists g' th', tstep c t bgs g th ATau = Some (g', th') /\ th_pc th' = PRetE ROk None KTop) /\
  (forall r x, th_pc th = PRetE r x KTop ->
     exists g' th', tstep c t bgs g th ATau = Some (g', th') /\ th_pc th' = PIdle /\
       th_results th' = r :: th_results th /\ emutex g' = None) /\
  (th_pc th = PIdle -> th_prog th = [] -> th_bg th = true ->
     exists g' th', tstep c t bgs g th ATau = Some (g', th') /\ th_pc th' = PExited).
Proof. exact closed_is_prompt_thm. Qed.
Print Assumptions C16_closed_is_prompt.

(* no deadlock among the modelled mutexes when Begin reads the session before
   locking: every mutex holder can step, or waits only for Engine.mutex whose
   holder can step *)
Theorem C16_mutex_progress : forall s,
  reachable cfg_fixed s ->
  (forall u, emutex (st_g s) = Some u -> can_step cfg_fixed s u) /\
  (forall x u, smutex (st_g s) x = Some u ->
     can_step cfg_fixed s u \/ (exists v, emutex (st_g s) = Some v /\ v <> u /\ can_step cfg_fixed s v)).
Proof. exact mutex_progress_thm. Qed.
Print Assumptions C16_mutex_progress.

(* the Begin that calls sess.Transaction() under Engine.mutex deadlocks: a
   reachable state from which two goroutines never move again *)
Theorem C16_deadlock_refuted :
  exists s, reachable cfg_inverted s /\ deadlocked s /\
    forall ls s', run_labels cfg_inverted s ls = Some s' ->
      deadlocked s' /\ (forall t a, ~ In (LThread t a) ls).
Proof. exact deadlock_refuted_thm. Qed.
Print Assumptions C16_deadlock_refuted.

(* non-vacuity *)
Example C16_open_writer_example :
  exists s, run_labels cfg_fixed open_writer_init open_writer_labels = Some s /\ reachable cfg_fixed s /\ open_writer_props s.
Proof. exact open_writer. Qed.
Example C16_panic_callback_example :
  exists s, run_labels cfg_fixed panic_callback_releases_init panic_callback_releases_labels = Some s /\
    reachable cfg_fixed s /\ panic_callback_releases_props s.
Proof. exact panic_callback_releases. Qed.
Example C16_store_error_example :
  exists s, run_labels cfg_fixed store_error_releases_init store_error_releases_labels = Some s /\
    reachable cfg_fixed s /\ store_error_releases_props s.
Proof. exact store_error_releases. Qed.
Example C16_close_example :
  exists s, run_labels cfg_fixed close_unblocks_waiter_init close_unblocks_waiter_labels = Some s /\
    reachable cfg_fixed s /\ close_unblocks_waiter_props s.
Proof. exact close_unblocks_waiter. Qed.
Example C16_two_starts_example :
  exists s, run_labels cfg_fixed second_start_refused_init second_start_refused_labels = Some s /\
    reachable cfg_fixed s /\ second_start_refused_props s.
Proof. exact second_start_refused. Qed.
