(* C13 — Sort, skip, limit and distinct return the right documents in the right
   order.  Only statements closed by `exact`, with Print Assumptions, and
   non-vacuity Examples.  All statements are for arbitrary lists, documents
   and sort specifications, and parametric in the matcher `matchf`. *)
From Coq Require Import List ZArith String Permutation Sorted.
From Lungo.Model Require Import Lists Collection MiniOps.
From Lungo.Proofs Require Import OrderLaws CompareOrder SortProofs.
Import ListNotations.
Open Scope Z_scope.
Open Scope list_scope.

(* ------------------------------------------------------------------ *)
(* the ordering of a sort specification *)

(* `order _ _ cols` is a total preorder on documents: reflexive,
   antisymmetric (swapping flips the sign), transitive, and documents that tie
   are interchangeable in every comparison (OrderLaws.total_laws) *)
Theorem C13_order_total_preorder : forall cols, total_laws (fun a b => order a b cols).
Proof. exact order_total. Qed.
Print Assumptions C13_order_total_preorder.

(* per field: an array is ranked by its smallest element (ascending) or its
   largest (descending) under BSON order; anything else by itself *)
Theorem C13_sort_key : forall v reverse,
  match v with
  | VArr (x :: t) =>
      In (sort_key v reverse) (x :: t) /\
      forall y, In y (x :: t) ->
                if reverse then compare y (sort_key v reverse) <> Gt
                else compare (sort_key v reverse) y <> Gt
  | _ => sort_key v reverse = v
  end.
Proof. exact sort_key_spec. Qed.
Print Assumptions C13_sort_key.

(* per field: BSON order of the keys, reversed for -1; later columns break ties *)
Theorem C13_order_columns : forall l r c t,
  order l r (c :: t) =
  match (let x := compare (sort_key (Get l (fst c)) (snd c)) (sort_key (Get r (fst c)) (snd c)) in
         if snd c then CompOpp x else x) with
  | Eq => order l r t
  | x => x
  end.
Proof. exact order_cons. Qed.
Print Assumptions C13_order_columns.

(* missing as null *)
Theorem C13_missing_as_null : forall v,
  compare VMissing v = compare VNull v /\ compare v VMissing = compare v VNull.
Proof. exact missing_as_null. Qed.
Print Assumptions C13_missing_as_null.

(* ------------------------------------------------------------------ *)
(* stable sorting under any total preorder *)

Theorem C13_sort_permutation : forall (A : Type) (cmp : A -> A -> comparison) l,
  Permutation l (stable_sort cmp l).
Proof. exact @stable_sort_perm. Qed.
Print Assumptions C13_sort_permutation.

(* every earlier result is not greater than every later one *)
Theorem C13_sort_sorted : forall (A : Type) (cmp : A -> A -> comparison),
  total_laws cmp ->
  forall l, StronglySorted (fun a b => cmp a b <> Gt) (stable_sort cmp l).
Proof. exact @stable_sort_sorted. Qed.
Print Assumptions C13_sort_sorted.

(* consecutive results never decrease *)
Theorem C13_sort_adjacent : forall (A : Type) (cmp : A -> A -> comparison),
  total_laws cmp ->
  forall l, Sorted (fun a b => cmp a b <> Gt) (stable_sort cmp l).
Proof. exact @stable_sort_adjacent. Qed.
Print Assumptions C13_sort_adjacent.

(* ties keep their original order: for every x, the elements that tie with x
   form the same sequence before and after sorting *)
Theorem C13_sort_stable : forall (A : Type) (cmp : A -> A -> comparison),
  total_laws cmp ->
  forall l x,
    filter (fun y => match cmp x y with Eq => true | _ => false end) (stable_sort cmp l) =
    filter (fun y => match cmp x y with Eq => true | _ => false end) l.
Proof. exact @stable_sort_stable. Qed.
Print Assumptions C13_sort_stable.

(* positional reading: a before b and a ties with b => a before b afterwards *)
Theorem C13_sort_keeps_tie_order : forall (A : Type) (cmp : A -> A -> comparison),
  total_laws cmp ->
  forall l a b,
    (exists l1 l2 l3, l = l1 ++ a :: l2 ++ b :: l3) -> cmp a b = Eq ->
    exists m1 m2 m3, stable_sort cmp l = m1 ++ a :: m2 ++ b :: m3.
Proof. exact @stable_sort_keeps_order. Qed.
Print Assumptions C13_sort_keeps_tie_order.

(* ANY sorted and stable permutation of l is stable_sort's result: the
   statements above determine the result, whatever algorithm produces it *)
Theorem C13_sort_unique : forall (A : Type) (cmp : A -> A -> comparison),
  total_laws cmp ->
  forall l l',
    Permutation l l' ->
    StronglySorted (fun a b => cmp a b <> Gt) l' ->
    (forall x, filter (fun y => match cmp x y with Eq => true | _ => false end) l' =
               filter (fun y => match cmp x y with Eq => true | _ => false end) l) ->
    l' = stable_sort cmp l.
Proof. exact @stable_sort_unique. Qed.
Print Assumptions C13_sort_unique.

Theorem C13_filter_commutes_with_sort : forall (A : Type) (cmp : A -> A -> comparison),
  total_laws cmp ->
  forall (f : A -> bool) l, filter f (stable_sort cmp l) = stable_sort cmp (filter f l).
Proof. exact @filter_stable_sort. Qed.
Print Assumptions C13_filter_commutes_with_sort.

(* ------------------------------------------------------------------ *)
(* the filter pass with its early exit (bsonkit.Select / mongokit.Filter) *)

Theorem C13_select_spec : forall (A : Type) (sel : A -> res bool) l limit,
  (forall x, In x l -> exists b, sel x = Ok b) ->
  select sel l limit =
  Ok (if 0 <? limit
      then firstn (Z.to_nat limit) (filter (fun x => match sel x with Ok true => true | _ => false end) l)
      else filter (fun x => match sel x with Ok true => true | _ => false end) l).
Proof. exact @select_spec. Qed.
Print Assumptions C13_select_spec.

(* the first matcher error in list order is returned iff it occurs before the
   limit is reached *)
Theorem C13_select_error : forall (A : Type) (sel : A -> res bool) l1 x l2 limit,
  (forall y, In y l1 -> exists b, sel y = Ok b) -> (forall b, sel x <> Ok b) ->
  select sel (l1 ++ x :: l2) limit =
  if (0 <? limit) &&
     (limit <=? len (filter (fun x => match sel x with Ok true => true | _ => false end) l1))
  then Ok (firstn (Z.to_nat limit)
                  (filter (fun x => match sel x with Ok true => true | _ => false end) l1))
  else bind (sel x) (fun _ => Ok []).
Proof. exact @select_error. Qed.
Print Assumptions C13_select_error.

(* ------------------------------------------------------------------ *)
(* Find *)

(* window k n l = (if 0 <? n then firstn n else id) (drop k l) *)
Theorem C13_window_def : forall (A : Type) skip limit (l : list A),
  window skip limit l =
  (if 0 <? limit then firstn (Z.to_nat limit) else (fun x => x)) (skipn (Z.to_nat skip) l).
Proof. exact @window_skipn. Qed.
Print Assumptions C13_window_def.

Theorem C13_find_spec : forall (matchf : doc -> doc -> res bool) l q s cols skip limit,
  (forall sd, In sd l -> exists b, matchf (snd sd) q = Ok b) ->
  columns s = Ok cols -> 0 <= skip ->
  find_list matchf l q (Some s) skip limit =
  Ok (window skip limit
        (stable_sort (fun a b : sdoc => order (snd a) (snd b) cols)
           (filter (fun sd => match matchf (snd sd) q with Ok true => true | _ => false end) l))).
Proof. exact find_spec. Qed.
Print Assumptions C13_find_spec.

Theorem C13_find_no_sort : forall (matchf : doc -> doc -> res bool) l q skip limit,
  (forall sd, In sd l -> exists b, matchf (snd sd) q = Ok b) -> 0 <= skip ->
  find_list matchf l q None skip limit =
  Ok (window skip limit
        (filter (fun sd => match matchf (snd sd) q with Ok true => true | _ => false end) l)).
Proof. exact find_no_sort. Qed.
Print Assumptions C13_find_no_sort.

Theorem C13_find_bad_sort : forall (matchf : doc -> doc -> res bool) l q c t skip limit,
  columns (c :: t) = Err -> find_list matchf l q (Some (c :: t)) skip limit = Err.
Proof. exact find_bad_sort. Qed.
Print Assumptions C13_find_bad_sort.

(* the property in one statement: one full ordering of the matches
   (permutation, never decreasing, ties in insertion order), of which every
   skip/limit pair returns precisely the corresponding window *)
Theorem C13_find_sorted_window : forall (matchf : doc -> doc -> res bool) l q s cols,
  (forall sd, In sd l -> exists b, matchf (snd sd) q = Ok b) ->
  columns s = Ok cols ->
  exists full,
    Permutation (filter (fun sd => match matchf (snd sd) q with Ok true => true | _ => false end) l) full /\
    StronglySorted (fun a b : sdoc => order (snd a) (snd b) cols <> Gt) full /\
    (forall x : sdoc,
        filter (fun y : sdoc => match order (snd x) (snd y) cols with Eq => true | _ => false end) full =
        filter (fun y : sdoc => match order (snd x) (snd y) cols with Eq => true | _ => false end)
               (filter (fun sd => match matchf (snd sd) q with Ok true => true | _ => false end) l)) /\
    forall skip limit, 0 <= skip ->
      find_list matchf l q (Some s) skip limit = Ok (window skip limit full).
Proof. exact find_sorted_window. Qed.
Print Assumptions C13_find_sorted_window.

(* ------------------------------------------------------------------ *)
(* sorted one-document writes act on the first element of the full ordering *)

Theorem C13_find_one_is_first : forall (matchf : doc -> doc -> res bool) l q sort full,
  (forall sd, In sd l -> exists b, matchf (snd sd) q = Ok b) ->
  find_list matchf l q sort 0 0 = Ok full ->
  find_list matchf l q sort 0 1 = Ok (firstn 1 full).
Proof. exact find_one_is_first. Qed.
Print Assumptions C13_find_one_is_first.

Theorem C13_replace_hits_first : forall (matchf : doc -> doc -> res bool) c fresh q repl sort full c' r,
  (forall sd, In sd (c_docs c) -> exists b, matchf (snd sd) q = Ok b) ->
  find_list matchf (c_docs c) q sort 0 0 = Ok full ->
  coll_replace matchf c fresh q repl sort = (c', inl r) ->
  r_matched r = firstn 1 full /\
  match full with
  | [] => c' = c
  | first :: _ => exists new, c_docs c' = set_replace (c_docs c) (fst first) new
  end.
Proof. exact replace_hits_first. Qed.
Print Assumptions C13_replace_hits_first.

Theorem C13_update_one_hits_first :
  forall (matchf : doc -> doc -> res bool)
         (applyf : doc -> doc -> doc -> bool -> list doc -> Z -> res (doc * list (string * value)))
         c fresh q u sort afs now full c' r,
  (forall sd, In sd (c_docs c) -> exists b, matchf (snd sd) q = Ok b) ->
  find_list matchf (c_docs c) q sort 0 0 = Ok full ->
  coll_update matchf applyf c fresh q u sort 0 1 afs now = (c', inl r) ->
  r_matched r = firstn 1 full /\
  match full with
  | [] => c' = c
  | first :: _ => exists new, c_docs c' = set_replace (c_docs c) (fst first) new
  end.
Proof. exact update_one_hits_first. Qed.
Print Assumptions C13_update_one_hits_first.

Theorem C13_delete_one_hits_first : forall (matchf : doc -> doc -> res bool) c q sort full c' r,
  (forall sd, In sd (c_docs c) -> exists b, matchf (snd sd) q = Ok b) ->
  find_list matchf (c_docs c) q sort 0 0 = Ok full ->
  coll_delete matchf c q sort 0 1 = (c', inl r) ->
  r_matched r = firstn 1 full /\
  c_docs c' = match full with
              | [] => c_docs c
              | first :: _ => set_remove (c_docs c) (fst first)
              end.
Proof. exact delete_one_hits_first. Qed.
Print Assumptions C13_delete_one_hits_first.

(* ------------------------------------------------------------------ *)
(* Distinct *)

(* per document: the value at the path (embedded arrays traversed), missing
   dropped, array values contribute their elements individually *)
Theorem C13_collect_spec : forall d p,
  collect [d] p true true true =
  let v := fst (All d p true true) in
  if is_missing v then []
  else match v with VArr a => a | _ => [v] end.
Proof. exact collect_spec. Qed.
Print Assumptions C13_collect_spec.

(* strictly ascending in BSON order: each value exactly once *)
Theorem C13_distinct_strictly_ascending : forall ds p,
  StronglySorted (fun a b => compare a b = Lt) (distinct ds p).
Proof. exact distinct_sorted_nodup. Qed.
Print Assumptions C13_distinct_strictly_ascending.

Theorem C13_distinct_adjacent : forall ds p,
  Sorted (fun a b => compare a b = Lt) (distinct ds p).
Proof. exact distinct_adjacent_lt. Qed.
Print Assumptions C13_distinct_adjacent.

(* exactly the values occurring: v is BSON-equal to a returned value iff it is
   BSON-equal to a value some document has at the path *)
Theorem C13_distinct_exact : forall ds p v,
  (exists x, In x (distinct ds p) /\ compare v x = Eq) <->
  exists d, In d ds /\ exists x, In x (collect [d] p true true true) /\ compare v x = Eq.
Proof. exact distinct_exact. Qed.
Print Assumptions C13_distinct_exact.

(* and every returned value is itself one of the collected values *)
Theorem C13_distinct_members : forall ds p x,
  In x (distinct ds p) -> exists d, In d ds /\ In x (collect [d] p true true true).
Proof. exact distinct_members. Qed.
Print Assumptions C13_distinct_members.

(* ------------------------------------------------------------------ *)
(* non-vacuity: a concrete collection, the stand-in equality matcher, a
   two-column specification with an array-valued field, a missing field,
   cross-type ties *)

Definition ex_docs : list sdoc :=
  [ (0, [("k", VInt32 1); ("a", VInt32 2)])
  ; (1, [("k", VInt32 1); ("a", VArr [VInt32 5; VInt32 1])])      (* min 1, max 5 *)
  ; (2, [("k", VInt32 7); ("a", VInt32 0)])                      (* does not match *)
  ; (3, [("k", VInt64 1)])                                       (* a missing: as null *)
  ; (4, [("k", VInt32 1); ("a", VDouble 4607182418800017408)])   (* 1.0: ties with doc 1 ascending *)
  ; (5, [("k", VInt32 1); ("a", VInt64 2); ("b", VInt32 9)]) ].  (* ties with doc 0 *)

Definition ex_query : doc := [("k", VInt32 1)].

Example C13_ex_filter_total :
  forall sd, In sd ex_docs -> exists b, mini_match (snd sd) ex_query = Ok b.
Proof.
  intros sd H. repeat (destruct H as [<-|H]; [eexists; vm_compute; reflexivity|]). destruct H.
Qed.

Example C13_ex_columns : columns [("a", VInt32 1)] = Ok [("a", false)] /\
                         columns [("a", VDouble 13830554455654793216); ("b", VInt64 1)] = Ok [("a", true); ("b", false)] /\
                         columns [("a", VInt32 0)] = Err /\ columns [("a", VString "x")] = Err.
Proof. vm_compute. repeat split. Qed.

(* ascending: missing (null) first, then 1 = 1.0 (array by its minimum; tie in
   insertion order), then 2 = 2 (tie in insertion order) *)
Example C13_ex_find_asc :
  map fst (match find_list mini_match ex_docs ex_query (Some [("a", VInt32 1)]) 0 0 with Ok l => l | _ => [] end)
  = [3; 1; 4; 0; 5].
Proof. vm_compute. reflexivity. Qed.

(* descending: the array now ranks by its maximum 5 *)
Example C13_ex_find_desc :
  map fst (match find_list mini_match ex_docs ex_query (Some [("a", VInt32 (-1))]) 0 0 with Ok l => l | _ => [] end)
  = [1; 0; 5; 4; 3].
Proof. vm_compute. reflexivity. Qed.

Example C13_ex_find_window :
  map fst (match find_list mini_match ex_docs ex_query (Some [("a", VInt32 1)]) 1 2 with Ok l => l | _ => [] end)
  = [1; 4].
Proof. vm_compute. reflexivity. Qed.

(* the hypotheses of C13_find_spec / C13_find_sorted_window hold here *)
Example C13_ex_find_spec_applies :
  find_list mini_match ex_docs ex_query (Some [("a", VInt32 1)]) 1 2 =
  Ok (window 1 2
        (stable_sort (fun a b : sdoc => order (snd a) (snd b) [("a", false)])
           (filter (fun sd => match mini_match (snd sd) ex_query with Ok true => true | _ => false end) ex_docs))).
Proof.
  apply C13_find_spec; [exact C13_ex_filter_total | reflexivity | discriminate].
Qed.

(* the error case of select: the failing document is reached before / after the limit *)
Definition ex_sel (z : Z) : res bool := if z =? 0 then Err else Ok (0 <? z).
Example C13_ex_select_error :
  select ex_sel [1; -1; 2; 0; 3] 3 = Err /\ select ex_sel [1; -1; 2; 0; 3] 2 = Ok [1; 2] /\
  select ex_sel [1; -1; 2; 0; 3] 0 = Err.
Proof. vm_compute. repeat split. Qed.

(* one-document delete with a sort removes the first of the full ordering *)
Example C13_ex_delete_one :
  match coll_delete mini_match (mkColl ex_docs []) ex_query (Some [("a", VInt32 (-1))]) 0 1 with
  | (c', inl r) => map fst (r_matched r) = [1] /\ map fst (c_docs c') = [0; 2; 3; 4; 5]
  | _ => False
  end.
Proof. vm_compute. split; reflexivity. Qed.

(* distinct: array elements individually, 1 / 1.0 / 1 (int64) once, ascending *)
Example C13_ex_distinct :
  distinct (map snd ex_docs) "a" = [VInt32 0; VInt32 1; VInt32 2; VInt32 5] /\
  distinct (map snd ex_docs) "k" = [VInt32 1; VInt32 7].
Proof. vm_compute. split; reflexivity. Qed.
