(* C05 — Committed data survives crashes: the store file is always old or
   new, never torn.  Only statements closed by `exact`, with Print Assumptions.

   Model and its crash relation: Model/Fs.v (header comment states it
   precisely).  `wf P cur s`: s is a quiescent state in which the store file
   visibly loads as `cur` and every crash outcome loads as something in P
   (P = eq old: durably old).  `success_trace p`: the system calls of a run of
   program p in which every call succeeds, deferred calls included. *)
From Coq Require Import List String Bool.
From Lungo.Model Require Import Base Fs FsRun Commit.
From Lungo.Gen Require Import Atomic.
From Lungo.Gen Require Commit.
From Lungo.Proofs Require Import FsProofs CommitProofs GenAtomic.
Import ListNotations.

(* ---- the crash enumerator is exactly the crash relation ---- *)
Theorem C05_crash_enumerator_complete : forall s s', crash s s' -> In s' (crash_outcomes s).
Proof. exact crash_outcomes_complete. Qed.
Print Assumptions C05_crash_enumerator_complete.

Theorem C05_crash_enumerator_sound : forall s s', In s' (crash_outcomes s) -> crash s s'.
Proof. exact crash_outcomes_sound. Qed.
Print Assumptions C05_crash_enumerator_sound.

(* ---- for ALL programs accepted by the checker: a crash at any call boundary
   k loads as old or new; after the last call only as new ---- *)
Theorem C05_well_ordered_sound : forall p, well_ordered p = true ->
  forall s old img, wf (eq old) old s ->
  forall k, k <= List.length (success_trace p) ->
  exists sk, runops (firstn k (success_trace p)) s img = XOk sk /\
    forall s', crash sk s' ->
      (load s' = old \/ load s' = Loaded img) /\
      (k = List.length (success_trace p) -> load s' = Loaded img).
Proof. exact well_ordered_sound. Qed.
Print Assumptions C05_well_ordered_sound.

(* ... and at any instant between the write(2) calls of the image *)
Theorem C05_well_ordered_sound_midwrite : forall p, well_ordered p = true ->
  forall s old img, wf (eq old) old s ->
  forall k o sk, nth_error (success_trace p) k = Some o ->
  runops (firstn k (success_trace p)) s img = XOk sk ->
  forall m, In m (mid_states sk img (fst o)) ->
  forall s', crash m s' -> load s' = old \/ load s' = Loaded img.
Proof. exact well_ordered_sound_midwrite. Qed.
Print Assumptions C05_well_ordered_sound_midwrite.

(* the completed commit is visible, durable, and leaves a well-formed state *)
Theorem C05_commit_durable : forall p, well_ordered p = true ->
  forall P cur s img, wf P cur s ->
  (forall k, exists sk, runops (firstn k (success_trace p)) s img = XOk sk /\
     (forall s', crash sk s' -> P (load s') \/ load s' = Loaded img) /\
     (forall o, nth_error (success_trace p) k = Some o ->
        forall m, In m (mid_states sk img (fst o)) ->
        forall s', crash m s' -> P (load s') \/ load s' = Loaded img)) /\
  exists s_end, runops (success_trace p) s img = XOk s_end /\ load s_end = Loaded img /\
     (forall s', crash s_end s' -> load s' = Loaded img) /\
     wf (eq (Loaded img)) (Loaded img) s_end.
Proof. exact well_ordered_sound_gen. Qed.
Print Assumptions C05_commit_durable.

(* ---- a failure injected at any checked call: the run ends (deferred clean-up
   executed) in a well-formed state; it shows the new image only if the rename
   was among the calls made; later commits work ---- *)
Theorem C05_fail_sound : forall p, well_ordered p = true ->
  forall P cur s img, wf P cur s ->
  forall k r, In r (fail_outcomes p k s img) ->
  exists s', r = XOk s' /\
    (if rename_before p k
     then wf (fun st => P st \/ st = Loaded img) (Loaded img) s'
     else wf P cur s') /\
    forall img2, exists s2, runops (success_trace p) s' img2 = XOk s2 /\
                            wf (eq (Loaded img2)) (Loaded img2) s2.
Proof. exact fail_sound. Qed.
Print Assumptions C05_fail_sound.

(* ---- any history of successful and failed commits ---- *)
Theorem C05_history_sound : forall p, well_ordered p = true ->
  forall old s0 es s, wf (eq old) old s0 -> hrun p s0 es s ->
  let v := spec p (old, [old]) es in
  load s = fst v /\
  (forall s', crash s s' -> In (load s') (snd v)) /\
  (forall img, exists s2, runops (success_trace p) s img = XOk s2 /\
       wf (eq (Loaded img)) (Loaded img) s2) /\
  (forall k img r, In r (fail_outcomes p k s img) -> exists s2, r = XOk s2).
Proof. exact history_sound. Qed.
Print Assumptions C05_history_sound.

(* ---- the obligation on the CURRENT source of dbkit/atomic.go (G4) ---- *)
Theorem C05_source_atomic_write_file : well_ordered atomic_program = true.
Proof. exact atomic_ok. Qed.
Print Assumptions C05_source_atomic_write_file.

(* ---- Engine.Commit ---- *)
Theorem C05_commit_ok_sound : forall l, commit_ok l = true ->
  forall e0 i, locked e0 = false ->
  post e0 i (fst (commit l i e0)) (snd (commit l i e0)).
Proof. exact commit_ok_sound. Qed.
Print Assumptions C05_commit_ok_sound.

Theorem C05_commit_store_before_publish : forall l, commit_ok l = true -> forall e0 i,
  locked e0 = false -> alive e0 = true -> etxn e0 = Some (c_txn i) -> c_dirty i = true ->
  let e' := snd (commit l i e0) in
  exists tail, elog e' = (elog e0 ++ EvStore (c_cat i) (committed e0) :: tail)%list /\
    (In (EvPublish (c_cat i)) tail <-> c_store_ok i = true) /\
    (committed e' = if c_store_ok i then c_cat i else committed e0).
Proof. exact commit_store_before_publish. Qed.
Print Assumptions C05_commit_store_before_publish.

Theorem C05_commit_store_failure : forall l, commit_ok l = true -> forall e0 i,
  locked e0 = false -> alive e0 = true -> etxn e0 = Some (c_txn i) ->
  c_dirty i = true -> c_store_ok i = false ->
  let r := fst (commit l i e0) in
  let e' := snd (commit l i e0) in
  r = RStoreErr /\ committed e' = committed e0 /\ etxn e' = None /\ token e' = false /\
  locked e' = false /\
  forall i2, c_dirty i2 = true -> c_store_ok i2 = true ->
    exists e1, begin_txn e' (c_txn i2) = Some e1 /\
      fst (commit l i2 e1) = RNil /\ committed (snd (commit l i2 e1)) = c_cat i2 /\
      token (snd (commit l i2 e1)) = false.
Proof. exact commit_store_failure. Qed.
Print Assumptions C05_commit_store_failure.

(* the obligation on the CURRENT source of engine.go:Commit (G5) *)
Theorem C05_source_commit : commit_ok commit_program = true.
Proof. exact commit_program_ok. Qed.
Print Assumptions C05_source_commit.

(* ---- non-vacuity ---- *)
(* the hypotheses are met: the canonical starting states are well-formed ... *)
Example C05_wf_example :
  wf (eq (Loaded [1; 2])) (Loaded [1; 2]) (init_fs (Some [1; 2]) 0) /\
  wf (eq (Loaded [1; 2])) (Loaded [1; 2]) (init_fs (Some [1; 2]) 1) /\
  wf (eq (Loaded [1; 2])) (Loaded [1; 2]) (init_fs (Some [1; 2]) 2) /\
  wf (eq Absent) Absent (init_fs None 0).
Proof. exact wf_examples. Qed.

(* ... the checker accepts the protocol and rejects each of the mutants of
   DESIGN.md 7.5; the enumerator finds the crash instant in the rejected ones *)
Example C05_mutants_rejected :
  well_ordered good = true /\
  well_ordered sync_after_rename = false /\
  well_ordered no_dir_fsync = false /\
  well_ordered write_in_place = false /\
  well_ordered no_stale_removal = false /\
  well_ordered no_cleanup = false.
Proof. exact mutants_rejected. Qed.

Example C05_mutants_counterexamples :
  explore_from good 0 = (0, 11) /\ explore_from good 1 = (0, 11) /\ explore_from good 2 = (0, 11) /\
  explore_from sync_after_rename 0 = (1, 4) /\
  explore_from write_in_place 0 = (1, 1) /\
  explore_from no_stale_removal 1 = (2, 1) /\
  (match explore (success_trace no_dir_fsync) (init_fs (Some [1; 2]) 0) (Loaded [1; 2]) [3; 4; 5] 0 with
   | VSafe s _ => final_durable s | _ => true end) = false.
Proof. exact mutants_counterexamples. Qed.

Example C05_commit_mutants_rejected :
  commit_ok commit_good = true /\ commit_ok publish_before_store = false /\
  commit_ok no_return_on_error = false /\ commit_ok no_release = false /\ commit_ok no_unset = false.
Proof. exact commit_mutants_rejected. Qed.

Example C05_commit_mutants_counterexamples :
  committed (snd (commit commit_good i_fail e_ready)) = 100 /\
  token (snd (commit commit_good i_fail e_ready)) = false /\
  committed (snd (commit publish_before_store i_fail e_ready)) = 101 /\
  committed (snd (commit no_return_on_error i_fail e_ready)) = 101 /\
  token (snd (commit no_release i_fail e_ready)) = true /\
  etxn (snd (commit no_unset i_fail e_ready)) = Some 7.
Proof. exact commit_mutants_counterexamples. Qed.
