(* C03 — Transactions are all-or-nothing and readers see immutable snapshots.
   Visibility theorems over Driver.step (any operator semantics).  In the
   value model a catalog a reader holds is a value and cannot change; that
   real memory is not shared is carried by the correspondence (snapshot
   re-dumps, see DESIGN.md 7.3). *)
From Coq Require Import List ZArith.
From Lungo.Model Require Import Driver.
From Lungo.Proofs Require Import DriverProofs.
Import ListNotations.

(* a read depends only on the view of its session context ... *)
Theorem C03_read_depends_on_view :
  forall matchf applyf extractf projectf now ds1 ds2 c,
    is_read c -> view ds1 (sid_of c) = view ds2 (sid_of c) ->
    snd (step matchf applyf extractf projectf now ds1 c) = snd (step matchf applyf extractf projectf now ds2 c).
Proof. exact read_depends_on_view. Qed.
Print Assumptions C03_read_depends_on_view.

(* ... which is the committed catalog for every client without an open
   transaction, and the session's own transaction otherwise (it sees its own
   earlier writes) *)
Theorem C03_other_clients_see_committed :
  forall ds sid, routed ds sid = None -> view ds sid = ds_cat ds.
Proof. exact view_unrouted. Qed.
Print Assumptions C03_other_clients_see_committed.

Theorem C03_session_sees_own_transaction :
  forall ds sid tc, routed ds sid = Some tc -> view ds sid = tc.
Proof. exact view_routed. Qed.
Print Assumptions C03_session_sees_own_transaction.

Theorem C03_reads_are_pure :
  forall matchf applyf extractf projectf now ds c,
    is_read c -> fst (step matchf applyf extractf projectf now ds c) = ds.
Proof. exact reads_are_pure. Qed.
Print Assumptions C03_reads_are_pure.

(* nothing a session does inside its transaction reaches the committed
   catalog before it commits *)
Theorem C03_transaction_writes_invisible_until_commit :
  forall matchf applyf extractf projectf now ds c ds' r,
    routed ds (sid_of c) <> None -> (forall s, c <> CCommit s) ->
    step matchf applyf extractf projectf now ds c = (ds', r) -> ds_cat ds' = ds_cat ds.
Proof. exact routed_call_invisible. Qed.
Print Assumptions C03_transaction_writes_invisible_until_commit.

(* commit publishes the transaction's catalog — all its writes together *)
Theorem C03_commit_publishes_all_at_once :
  forall matchf applyf extractf projectf now ds sid ds',
    step matchf applyf extractf projectf now ds (CCommit sid) = (ds', ROk) ->
    exists tc, sess_get (ds_sessions ds) sid = Some (mkSess (Some tc) false) /\
               ds_cat ds' = tc /\ sess_get (ds_sessions ds') sid = Some (mkSess None false).
Proof. exact commit_publishes. Qed.
Print Assumptions C03_commit_publishes_all_at_once.

(* abort and end-session publish nothing *)
Theorem C03_abort_publishes_nothing :
  forall matchf applyf extractf projectf now ds sid ds' r,
    step matchf applyf extractf projectf now ds (CAbort sid) = (ds', r) ->
    ds_cat ds' = ds_cat ds /\ (r = ROk -> routed ds' sid = None).
Proof. exact abort_discards. Qed.
Print Assumptions C03_abort_publishes_nothing.

Theorem C03_end_session_publishes_nothing :
  forall matchf applyf extractf projectf now ds sid ds' r,
    step matchf applyf extractf projectf now ds (CEnd sid) = (ds', r) ->
    ds_cat ds' = ds_cat ds /\ routed ds' sid = None.
Proof. exact end_discards. Qed.
Print Assumptions C03_end_session_publishes_nothing.

(* a write inside the transaction is applied to the transaction's own catalog *)
Theorem C03_session_write_accumulates :
  forall matchf applyf extractf projectf now ds sid tc h d ds' r,
    routed ds sid = Some tc ->
    step matchf applyf extractf projectf now ds (CInsertOne sid h d) = (ds', r) ->
    exists tc' g' x, txn_insert matchf tc (ds_gen ds) h [d] true = (tc', g', x) /\
                     view ds' sid = tc' /\ ds_cat ds' = ds_cat ds /\
                     (forall sid', sid' <> sid -> routed ds' sid' = routed ds sid').
Proof. exact session_write_accumulates. Qed.
Print Assumptions C03_session_write_accumulates.
