(* C03 — Transactions are all-or-nothing and readers see immutable snapshots.
   Visibility theorems over Driver.step (any operator semantics).  In the
   value model a catalog a reader holds is a value and cannot change; that
   real memory is not shared is carried by the correspondence (snapshot
   re-dumps, see DESIGN.md 7.3). *)
From Coq Require Import List ZArith.
From Lungo.Model Require Import Driver.
From Lungo.Proofs Require Import DriverProofs.
Import ListNotations.

(* a read depends only on the view of its session context ... *)
Theorem C03_read_depends_on_view :
  forall matchf applyf extractf projectf now ds1 ds2 c,
    is_read c -> view ds1 (sid_of c) = view ds2 (sid_of c) ->
    snd (step matchf applyf extractf projectf now ds1 c) = snd (step matchf applyf extractf projectf now ds2 c).
Proof. exact read_depends_on_view. Qed.
Print Assumptions C03_read_depends_on_view.

(* ... which is the committed catalog for every client without an open
   transaction, and the session's own transaction otherwise (it sees its own
   earlier writes) *)
Theorem C03_other_clients_see_committed :
  forall ds sid, routed ds sid = None -> view ds sid = ds_cat ds.
Proof. exact view_unrouted. Qed.
Print Assumptions C03_other_clients_see_committed.

Theorem C03_session_sees_own_transaction :
  forall ds sid tc, routed ds sid = Some tc -> view ds sid = tc.
Proof. exact view_routed. Qed.
Print Assumptions C03_session_sees_own_transaction.

Theorem C03_reads_are_pure :
  forall matchf applyf extractf projectf now ds c,
    is_read c -> fst (step matchf applyf extractf projectf now ds c) = ds.
Proof. exact reads_are_pure. Qed.
Print Assumptions C03_reads_are_pure.

(* nothing a session does inside its transaction reaches the committed
   catalog before it commits *)
Theorem C03_transaction_writes_invisible_until_commit :
  forall matchf applyf extractf projectf now ds c ds' r,
    routed ds (sid_of c) <> None -> (forall s, c <> CCommit s) ->
    step matchf applyf extractf projectf now ds c = (ds', r) -> ds_cat ds' = ds_cat ds.
Proof. exact routed_call_invisible. Qed.
Print Assumptions C03_transaction_writes_invisible_until_commit.

(* commit publishes the transaction's catalog — all its writes together *)
Theorem C03_commit_publishes_all_at_once :
  forall matchf applyf extractf projectf now ds sid ds',
    step matchf applyf extractf projectf now ds (CCommit sid) = (ds', ROk) ->
    exists tc, sess_get (ds_sessions ds) sid = Some (mkSess (Some tc) false) /\
               ds_cat ds' = tc /\ sess_get (ds_sessions ds') sid = Some (mkSess None false).
Proof. exact commit_publishes. Qed.
Print Assumptions C03_commit_publishes_all_at_once.

(* abort and end-session publish nothing *)
Theorem C03_abort_publishes_nothing :
  forall matchf applyf extractf projectf now ds sid ds' r,
    step matchf applyf extractf projectf now ds (CAbort sid) = (ds', r) ->
    ds_cat ds' = ds_cat ds /\ (r = ROk -> routed ds' sid = None).
Proof. exact abort_discards. Qed.
Print Assumptions C03_abort_publishes_nothing.

Theorem C03_end_session_publishes_nothing :
  forall matchf applyf extractf projectf now ds sid ds' r,
    step matchf applyf extractf projectf now ds (CEnd sid) = (ds', r) ->
    ds_cat ds' = ds_cat ds /\ routed ds' sid = None.
Proof. exact end_discards. Qed.
Print Assumptions C03_end_session_publishes_nothing.

(* a write inside the transaction is applied to the transaction's own catalog *)
Theorem C03_session_write_accumulates :
  forall matchf applyf extractf projectf now ds sid tc h d ds' r,
    routed ds sid = Some tc ->
    step matchf applyf extractf projectf now ds (CInsertOne sid h d) = (ds', r) ->
    exists tc' g' x, txn_insert matchf tc (ds_gen ds) h [d] true = (tc', g', x) /\
                     view ds' sid = tc' /\ ds_cat ds' = ds_cat ds /\
                     (forall sid', sid' <> sid -> routed ds' sid' = routed ds sid').
Proof. exact session_write_accumulates. Qed.
Print Assumptions C03_session_write_accumulates.

(* ---------------- listings (Model/DriverExt.v) ----------------
   ListCollections / ListCollectionNames and ListDatabases / ListDatabaseNames
   are reads of the session's view: pure, and a function of that view alone
   (a session with an open transaction sees the collections it created, other
   clients do not until the commit). *)
From Lungo.Model Require Import DriverExt.
From Lungo.Proofs Require Import DriverExtProofs.

Theorem C03_listings_are_pure :
  forall matchf applyf extractf projectf now ds x,
    x_is_listing x = true -> fst (xstep matchf applyf extractf projectf now ds x) = ds.
Proof. exact listing_pure. Qed.
Print Assumptions C03_listings_are_pure.

Theorem C03_list_collections_depends_on_view :
  forall matchf applyf extractf projectf now ds1 ds2 sid db q,
    view ds1 sid = view ds2 sid ->
    snd (xstep matchf applyf extractf projectf now ds1 (XListColls sid db q)) =
    snd (xstep matchf applyf extractf projectf now ds2 (XListColls sid db q)).
Proof. exact list_collections_depends_on_view. Qed.
Print Assumptions C03_list_collections_depends_on_view.

Theorem C03_list_databases_depends_on_view :
  forall matchf applyf extractf projectf now ds1 ds2 sid q,
    view ds1 sid = view ds2 sid ->
    snd (xstep matchf applyf extractf projectf now ds1 (XListDbs sid q)) =
    snd (xstep matchf applyf extractf projectf now ds2 (XListDbs sid q)).
Proof. exact list_databases_depends_on_view. Qed.
Print Assumptions C03_list_databases_depends_on_view.

(* CreateCollection never joins a session transaction: it is refused there *)
Theorem C03_create_collection_in_session_rejected :
  forall matchf applyf extractf projectf now ds sid h tc,
    routed ds sid = Some tc ->
    xstep matchf applyf extractf projectf now ds (XCreateColl sid h) = (ds, XR (RErr EErr)).
Proof. exact create_coll_in_session_rejected. Qed.
Print Assumptions C03_create_collection_in_session_rejected.
