(* C19 — TTL expiry deletes exactly the expired documents and nothing else.

   "An expiry pass removes a document if and only if its collection has a TTL
   index on a field whose value in that document is a date (or an array
   containing a date) older than the index's expiry interval; documents with
   newer dates, non-date values or no such field, and all collections without
   TTL index, are untouched.  Each removal is logged as a delete event, and a
   pass that removes nothing changes nothing."

   The pass is `txn_expire Match` (Model/Txn.v, mirror of Transaction.Expire)
   with the concrete query model `Match` (Model/Match.v).  `expired now n d`
   is the rule stated without the query machinery (Proofs/ExpireProofs.v):
   n has a TTL index on a field f with expiry e and d holds, at f or as an
   element of the array at f, a date u < now - e.

   Hypotheses of the catalog-level theorems:
     cat_wf        one entry per handle (the Go catalog is a map)
     cat_colls_ok  every namespace satisfies the collection invariant coll_inv
     oplog_no_ttl  local.oplog has no TTL index (it has no index at all)
   All three follow from the catalog invariant CatInv.cat_inv, which holds of
   every catalog visible in every reachable state (Proofs/HistoryInv.v): the
   C19_reachable_* theorems have no hypothesis beyond reachability.
   That the field of a TTL index is never an operator name follows from
   coll_inv (CreateIndex rejects `$`-prefixed key segments since 8b15f6d; it
   did not before — the former finding C19:dollar-field-ttl-index-blocks-expiry). *)
From Coq Require Import List ZArith String.
From Lungo.Model Require Import Txn Match Driver.
From Lungo.Proofs Require Import MatchLaws SortProofs IndexInv CollInv HistoryInv ExpireProofs ExpireExamples ExpireHistory.
Import ListNotations.
Open Scope Z_scope.

(* ---- the query ---------------------------------------------------------- *)

(* {$or: [{f1: {$lt: Date t1}}, ...]} never errs and matches iff for some
   condition a candidate of its field (the value, or an element when it is an
   array) is a DATE older than its cut-off: numbers, strings, null,
   timestamps, missing fields never match *)
Theorem C19_ttl_query_exact :
  forall d (l : list (string * Z)),
    l <> [] -> Forall (fun fc => is_op (fst fc) = false) l ->
    exists b, Match d [("$or", VArr (map (fun fc => VDoc (ttl_cond fc)) l))] = Ok b /\
      (b = true <->
       exists f t, In (f, t) l /\
         exists c, In c (candidates d f) /\ exists u, c = VDate u /\ u < t).
Proof. exact ttl_query_exact. Qed.
Print Assumptions C19_ttl_query_exact.

Theorem C19_ttl_query_only_dates :
  forall d (l : list (string * Z)),
    l <> [] -> Forall (fun fc => is_op (fst fc) = false) l ->
    (forall f t, In (f, t) l -> forall c, In c (candidates d f) -> forall u, c <> VDate u) ->
    Match d [("$or", VArr (map (fun fc => VDoc (ttl_cond fc)) l))] = Ok false.
Proof. exact ttl_query_only_dates. Qed.
Print Assumptions C19_ttl_query_only_dates.

(* the conditions expire_loop builds are these conditions, one per TTL index,
   and the query decides `expired` on every document without error *)
Theorem C19_expire_query_decides :
  forall now n d, has_ttl n -> ttl_fields_ok n ->
    Match d (expire_query now n) = Ok (expiredb now n d).
Proof. exact expire_query_decides. Qed.
Print Assumptions C19_expire_query_decides.

Theorem C19_expiredb_is_expired :
  forall now n d, expiredb now n d = true <-> expired now n d.
Proof. exact expiredb_iff. Qed.
Print Assumptions C19_expiredb_is_expired.

(* under the collection invariant the field of a TTL index is not an operator
   name, so the query above is a disjunction of field conditions *)
Theorem C19_coll_inv_ttl_fields_ok :
  forall n, coll_inv Match n -> ttl_fields_ok n.
Proof. exact coll_inv_ttl_fields_ok. Qed.
Print Assumptions C19_coll_inv_ttl_fields_ok.

Theorem C19_expire_query_decides_inv :
  forall now n d, coll_inv Match n -> has_ttl n ->
    Match d (expire_query now n) = Ok (expiredb now n d).
Proof. exact expire_query_decides_inv. Qed.
Print Assumptions C19_expire_query_decides_inv.

(* a TTL index has exactly one key field *)
Theorem C19_ttl_index_single_field :
  forall n f e, coll_inv Match n -> ttl_index n f e ->
    exists name ix v, In (name, ix) (c_indexes n) /\ cf_key (ix_config ix) = [(f, v)] /\
                      cf_expiry (ix_config ix) = e.
Proof. exact ttl_index_single_field. Qed.
Print Assumptions C19_ttl_index_single_field.

(* ---- one namespace ------------------------------------------------------ *)

Theorem C19_expire_removes_exactly :
  forall now n,
    coll_inv Match n -> has_ttl n ->
    exists n', coll_delete Match n (expire_query now n) None 0 0
               = (n', inl (mkResult (removed now n) [] None [])) /\
               expire_ns now n n'.
Proof. exact expire_removes_exactly. Qed.
Print Assumptions C19_expire_removes_exactly.

Theorem C19_expire_keeps_iff :
  forall now n n' r,
    coll_inv Match n -> has_ttl n ->
    coll_delete Match n (expire_query now n) None 0 0 = (n', inl r) ->
    (forall sd, In sd (c_docs n') <-> In sd (c_docs n) /\ ~ expired now n (snd sd)) /\
    (forall sd, In sd (r_matched r) <-> In sd (c_docs n) /\ expired now n (snd sd)) /\
    map snd (c_docs n') = map snd (remaining now n) /\
    r_matched r = removed now n.
Proof. exact expire_keeps_iff. Qed.
Print Assumptions C19_expire_keeps_iff.

Theorem C19_expire_logs_deletes :
  forall now w h,
    coll_inv Match (w_ns w) -> has_ttl (w_ns w) ->
    let n := w_ns w in
    let m := len (removed now n) in
    exists n',
      t_delete Match w h (expire_query now n) None 0 0 =
        (mkW n'
             (mkColl (c_docs (w_oplog w) ++ delete_events (w_clock w) (g_did (w_gen w)) h (removed now n))
                     (c_indexes (w_oplog w)))
             (w_clock w + m)
             (mkGen (g_did (w_gen w) + m) (g_oid (w_gen w))),
         inl (mkT (removed now n) [] None None)) /\
      expire_ns now n n'.
Proof. exact expire_logs_deletes. Qed.
Print Assumptions C19_expire_logs_deletes.

Theorem C19_delete_events_shape :
  forall l k id h,
    Forall2 (fun (sd ev : sdoc) =>
               Get (snd ev) "operationType" = VString "delete" /\
               Get (snd ev) "documentKey" = VDoc [("_id", Get (snd sd) "_id")] /\
               Get (snd ev) "ns" = VDoc (ns_doc h) /\
               Get (snd ev) "fullDocument" = VMissing)
            l (delete_events k id h l).
Proof. exact delete_events_shape. Qed.
Print Assumptions C19_delete_events_shape.

(* ---- the whole catalog -------------------------------------------------- *)

Theorem C19_txn_expire_exact :
  forall now c g,
    cat_wf c -> cat_colls_ok c -> oplog_no_ttl c ->
    exists c' g', txn_expire Match c g now = (c', g', inl tt) /\ expire_post now c g c' g'.
Proof. exact txn_expire_exact. Qed.
Print Assumptions C19_txn_expire_exact.

Theorem C19_txn_expire_docs :
  forall now c g c' g' r,
    cat_wf c -> cat_colls_ok c -> oplog_no_ttl c ->
    txn_expire Match c g now = (c', g', r) ->
    r = inl tt /\
    forall h n, h <> oplog_handle -> ns_get (cat_ns c) h = Some n ->
      exists n', ns_get (cat_ns c') h = Some n' /\
        map snd (c_docs n') = map snd (remaining now n) /\
        forall sd, In sd (c_docs n') <-> In sd (c_docs n) /\ ~ expired now n (snd sd).
Proof. exact txn_expire_docs. Qed.
Print Assumptions C19_txn_expire_docs.

Theorem C19_events_of_shape :
  forall l k id,
    Forall2 (fun (hs : handle * sdoc) (ev : sdoc) =>
               Get (snd ev) "operationType" = VString "delete" /\
               Get (snd ev) "documentKey" = VDoc [("_id", Get (snd (snd hs)) "_id")] /\
               Get (snd ev) "ns" = VDoc (ns_doc (fst hs)) /\
               Get (snd ev) "fullDocument" = VMissing)
            l (events_of k id l).
Proof. exact events_of_shape. Qed.
Print Assumptions C19_events_of_shape.

Theorem C19_non_ttl_untouched :
  forall now c g c' g' r,
    cat_wf c -> cat_colls_ok c -> oplog_no_ttl c ->
    txn_expire Match c g now = (c', g', r) ->
    forall h n, h <> oplog_handle -> ns_get (cat_ns c) h = Some n -> ~ has_ttl n ->
      ns_get (cat_ns c') h = Some n.
Proof. exact non_ttl_untouched. Qed.
Print Assumptions C19_non_ttl_untouched.

Theorem C19_unexpired_ns_untouched :
  forall now c g c' g' r,
    cat_wf c -> cat_colls_ok c -> oplog_no_ttl c ->
    txn_expire Match c g now = (c', g', r) ->
    forall h n, h <> oplog_handle -> ns_get (cat_ns c) h = Some n ->
      (forall sd, In sd (c_docs n) -> ~ expired now n (snd sd)) ->
      ns_get (cat_ns c') h = Some n.
Proof. exact unexpired_ns_untouched. Qed.
Print Assumptions C19_unexpired_ns_untouched.

Theorem C19_expire_noop_unchanged :
  forall now c g,
    cat_wf c -> cat_colls_ok c -> oplog_no_ttl c ->
    (forall h n, ns_get (cat_ns c) h = Some n ->
       forall sd, In sd (c_docs n) -> ~ expired now n (snd sd)) ->
    txn_expire Match c g now = (c, g, inl tt).
Proof. exact expire_noop_unchanged. Qed.
Print Assumptions C19_expire_noop_unchanged.

Theorem C19_expire_changed_removed :
  forall now c g c' g' r,
    cat_wf c -> cat_colls_ok c -> oplog_no_ttl c ->
    txn_expire Match c g now = (c', g', r) -> c' <> c ->
    exists h n sd, ns_get (cat_ns c) h = Some n /\ In sd (c_docs n) /\ expired now n (snd sd).
Proof. exact expire_changed_removed. Qed.
Print Assumptions C19_expire_changed_removed.

(* a failing pass returns catalog and generators as they were, for any matcher *)
Theorem C19_expire_error_unchanged :
  forall matchf c g now c' g' e,
    txn_expire matchf c g now = (c', g', inr e) -> c' = c /\ g' = g.
Proof. exact expire_error_unchanged. Qed.
Print Assumptions C19_expire_error_unchanged.

(* ---- expireAfterSeconds ------------------------------------------------- *)

Theorem C19_expire_zero_seconds : expiry_ns (Some 0) = 1.
Proof. exact expire_zero_seconds. Qed.
Print Assumptions C19_expire_zero_seconds.

Theorem C19_expire_zero_cutoff :
  forall now f v u p cols es,
    ttl_spec now (mkIndex (mkConfig [(f, v)] u p (expiry_ns (Some 0))) cols es) = Some (f, now).
Proof. exact expire_zero_cutoff. Qed.
Print Assumptions C19_expire_zero_cutoff.

Theorem C19_expire_seconds_cutoff :
  forall now s f v u p cols es,
    0 < s ->
    ttl_spec now (mkIndex (mkConfig [(f, v)] u p (expiry_ns (Some s))) cols es)
    = Some (f, now - s * 1000).
Proof. exact expire_seconds_cutoff. Qed.
Print Assumptions C19_expire_seconds_cutoff.

(* ---- over histories ----------------------------------------------------- *)

(* the hypotheses follow from the catalog invariant ... *)
Theorem C19_cat_inv_expire_hyps :
  forall c n, CatInv.cat_inv Match c n -> cat_wf c /\ cat_colls_ok c /\ oplog_no_ttl c.
Proof. exact cat_inv_expire_hyps. Qed.
Print Assumptions C19_cat_inv_expire_hyps.

(* ... which holds of the committed catalog and of the catalog of every open
   session transaction in every state reachable by any history of driver
   calls, for any update / extract / projection semantics: there a TTL pass
   always succeeds and leaves exactly what expire_post describes *)
Theorem C19_reachable_expire_exact :
  forall applyf extractf projectf now calls c g now_ms,
    visible_cat (fst (run Match applyf extractf projectf now d_init calls)) c ->
    exists c' g', txn_expire Match c g now_ms = (c', g', inl tt) /\ expire_post now_ms c g c' g'.
Proof. exact reachable_expire_exact. Qed.
Print Assumptions C19_reachable_expire_exact.

Theorem C19_reachable_expire_noop :
  forall applyf extractf projectf now calls c g now_ms,
    visible_cat (fst (run Match applyf extractf projectf now d_init calls)) c ->
    (forall h n, ns_get (cat_ns c) h = Some n ->
       forall sd, In sd (c_docs n) -> ~ expired now_ms n (snd sd)) ->
    txn_expire Match c g now_ms = (c, g, inl tt).
Proof. exact reachable_expire_noop. Qed.
Print Assumptions C19_reachable_expire_noop.

Theorem C19_reachable_non_ttl_untouched :
  forall applyf extractf projectf now calls c g now_ms c' g' r,
    visible_cat (fst (run Match applyf extractf projectf now d_init calls)) c ->
    txn_expire Match c g now_ms = (c', g', r) ->
    forall h n, h <> oplog_handle -> ns_get (cat_ns c) h = Some n -> ~ has_ttl n ->
      ns_get (cat_ns c') h = Some n.
Proof. exact reachable_non_ttl_untouched. Qed.
Print Assumptions C19_reachable_non_ttl_untouched.

(* the driver call (Begin(lock) / Expire / Commit on the committed catalog) *)
Theorem C19_reachable_expire_step :
  forall applyf extractf projectf now calls now_ms,
    let ds := fst (run Match applyf extractf projectf now d_init calls) in
    token_held ds = false ->
    exists c' g',
      step Match applyf extractf projectf now ds (CExpire now_ms)
        = (mkD c' g' (ds_sessions ds), ROk) /\
      expire_post now_ms (ds_cat ds) (ds_gen ds) c' g'.
Proof. exact reachable_expire_step. Qed.
Print Assumptions C19_reachable_expire_step.

(* ---- non-vacuity (vm_compute, Proofs/ExpireExamples.v) ------------------ *)

(* the hypotheses hold of a catalog built by the operations: db.c with a TTL
   index {a: 1} of 3600 s next to the non-TTL index {k: 1}, db.d with the
   non-TTL index {a: 1} *)
Example C19_ex_hypotheses : cat_wf cat0 /\ cat_colls_ok cat0 /\ oplog_no_ttl cat0.
Proof. exact ex_hypotheses. Qed.

(* documents: an old date, a new date, a number that looks like a date, a
   string, null, a missing field, an array containing an old date, an empty
   array, a timestamp, a date exactly at the cut-off, a doubly nested array, a
   sub-document; the pass removes exactly documents 1 and 7, leaves db.d the
   identical collection, and appends two delete events *)
Example C19_ex_pass :
  let '(c', g', r) := txn_expire Match cat0 g0 now0 in
  r = inl tt /\
  ids_in c' hc = [VInt32 2; VInt32 3; VInt32 4; VInt32 5; VInt32 6; VInt32 8; VInt32 9; VInt32 10;
                  VInt32 11; VInt32 12] /\
  ns_get (cat_ns c') hd = Some cD /\
  map fst (cat_ns c') = [oplog_handle; hc; hd] /\
  events_in c' =
    [(VString "delete", VDoc [("coll", VString "c"); ("db", VString "db")], VDoc [("_id", VInt32 1)], VTs 0 8);
     (VString "delete", VDoc [("coll", VString "c"); ("db", VString "db")], VDoc [("_id", VInt32 7)], VTs 0 9)] /\
  cat_clock c' = 9 /\ g' = mkGen 102 5.
Proof. exact ex_pass. Qed.

Example C19_ex_rule :
  map id_of (removed now0 cC) = [VInt32 1; VInt32 7] /\
  map id_of (remaining now0 cC) =
    [VInt32 2; VInt32 3; VInt32 4; VInt32 5; VInt32 6; VInt32 8; VInt32 9; VInt32 10; VInt32 11; VInt32 12] /\
  removed now0 cD = [].
Proof. exact ex_rule. Qed.

(* the comparison is strict: when the cut-off equals the oldest date nothing
   expires and the very same catalog is returned; one millisecond later the
   two documents go *)
Example C19_ex_noop : txn_expire Match cat0 g0 93600000 = (cat0, g0, inl tt).
Proof. exact ex_noop. Qed.

Example C19_ex_noop_hypothesis :
  forall h n, ns_get (cat_ns cat0) h = Some n ->
    forall sd, In sd (c_docs n) -> ~ expired 93600000 n (snd sd).
Proof. exact ex_noop_hypothesis. Qed.

Example C19_ex_one_ms_later :
  let '(c', _, _) := txn_expire Match cat0 g0 93600001 in len (ids_in c' hc) = 10.
Proof. exact ex_one_ms_later. Qed.

(* two TTL indexes on one collection: {b: -1} with expireAfterSeconds 0
   (cut-off = now, strict) and the dotted path {"s.t": 1} with 60 s, reached
   through a sub-document and through an array of sub-documents *)
Example C19_ex_zero_seconds_and_paths :
  ttl_specs now0 cE = [("b", 100000000); ("s.t", 99940000)] /\
  let '(c', g', r) := txn_expire Match cat1 g0 now0 in
  r = inl tt /\ ids_in c' he = [VInt32 2; VInt32 5; VInt32 6] /\
  map (fun e => snd (fst e)) (events_in c') =
    [VDoc [("_id", VInt32 1)]; VDoc [("_id", VInt32 3)]; VDoc [("_id", VInt32 4)]].
Proof. exact ex_zero_seconds_and_paths. Qed.

(* an index key with a `$`-prefixed field name (also in an inner segment) is
   refused, so no collection built by the operations has one *)
Example C19_ex_dollar_index_refused :
  snd (coll_create_index Match (new_collection true) "" cf_ttl_dollar) = inr EErr /\
  snd (coll_create_index Match (new_collection true) "" cf_ttl_inner_dollar) = inr EErr /\
  build_coll [cf_ttl_dollar] [[("_id", VInt32 1)]] = None.
Proof. exact ex_dollar_index_refused. Qed.
