(* C01 — CRUD through the driver-compatible API matches a plain sequential
   reference model.

   Implementation model: Model/Driver.v (`step`, `run`): Transform-level
   normalisation, useTransaction routing, the transaction clone / run /
   assign structure, collections with document identities and index ENTRY
   sets, the oplog.  Reference model: Spec/SpecDb.v (`s_step`): per
   collection a list of documents in insertion order plus index DEFINITIONS;
   uniqueness decided by scanning the documents; no identities, no index
   entries, no oplog, no sessions.

   Every statement holds for ANY operator semantics: the matcher, the update
   applier, the query extractor, the projection and the clock are universally
   quantified (they are C10 / C11 / C14's business).

   Scope (`no_session_call`): calls issued without a session context, of the
   kinds the reference model has (insert-one/many, find, find-one, count,
   distinct, update-one/many, replace, delete-one/many, find-one-and-update /
   -replace / -delete, bulk-write, create-index, drop-index,
   drop-all-indexes, list-indexes, drop-collection, drop-database).  Two
   side conditions: reads and list-indexes do not target the system
   collection local.oplog, which the reference model does not have (see
   C01_oplog_read_outside below: there the two models differ, by design of
   the reference); bulk-write items are the ones the driver API builds (no
   sort, no skip — `driver_op`; see C01_bulk_sort_outside). *)
From Coq Require Import List ZArith String.
From Lungo.Model Require Import Driver MiniOps RunSpec.
From Lungo.Spec Require Import SpecDb.
From Lungo.Proofs Require Import CollInv RefineColl RefineTxn RefineStep.
Import ListNotations.
Open Scope Z_scope.

(* ------------------------------------------------------------------ *)
(* the property *)

(* for every sequence of calls issued one after another, each call returns
   the counts, ids, documents and error-or-success the reference model
   returns, and the contents of every collection (documents in natural order,
   index definitions in creation order; `abs` forgets identities, index
   entries, the oplog, sessions) equal the model's at the end *)
Theorem C01_refines :
  forall matchf applyf extractf projectf now calls,
    Forall no_session_call calls ->
    let '(ds, rs) := run matchf applyf extractf projectf now d_init calls in
    let '(s, rs') := s_run matchf applyf extractf projectf now s_init calls in
    rs = rs' /\ abs ds = s.
Proof. exact refines. Qed.
Print Assumptions C01_refines.

(* ... and after every call: the same for every prefix of the history *)
Theorem C01_refines_after_every_call :
  forall matchf applyf extractf projectf now calls k,
    Forall no_session_call calls ->
    let '(ds, rs) := run matchf applyf extractf projectf now d_init (firstn k calls) in
    let '(s, rs') := s_run matchf applyf extractf projectf now s_init (firstn k calls) in
    rs = rs' /\ abs ds = s.
Proof. exact refines_prefix. Qed.
Print Assumptions C01_refines_after_every_call.

(* one call: from related states, equal replies and related states.
   R ds s := abs ds = s /\ every user namespace satisfies the collection
   invariant (index coherence + uniqueness), has its _id index, uses only
   identities below the generator; no session holds an open transaction *)
Theorem C01_step_refines :
  forall matchf applyf extractf projectf now ds s c,
    R matchf ds s -> no_session_call c ->
    let '(ds', r1) := step matchf applyf extractf projectf now ds c in
    let '(s', r2) := s_step matchf applyf extractf projectf now s c in
    r1 = r2 /\ R matchf ds' s'.
Proof. exact step_refines. Qed.
Print Assumptions C01_step_refines.

Theorem C01_init_related : forall matchf, R matchf d_init s_init.
Proof. exact R_init. Qed.
Print Assumptions C01_init_related.

(* from any related pair of states, over any history *)
Theorem C01_run_refines :
  forall matchf applyf extractf projectf now calls ds s,
    R matchf ds s -> Forall no_session_call calls ->
    let '(ds', rs) := run matchf applyf extractf projectf now ds calls in
    let '(s', rs') := s_run matchf applyf extractf projectf now s calls in
    rs = rs' /\ R matchf ds' s'.
Proof. exact run_refines. Qed.
Print Assumptions C01_run_refines.

(* ------------------------------------------------------------------ *)
(* the heart: probing the index entries = scanning the documents.  Under the
   collection invariant every operation of the collection layer and of the
   reference agree: same error kind, or related results and
   abs_coll (new collection) = the reference's new collection *)

Theorem C01_insert_agrees :
  forall matchf c fresh d oid,
    coll_inv matchf c -> ids_lt c fresh ->
    out_rel res_rel (coll_insert matchf c fresh d oid) (s_insert matchf (abs_coll c) d oid).
Proof. exact sim_insert. Qed.
Print Assumptions C01_insert_agrees.

Theorem C01_upsert_agrees :
  forall matchf applyf extractf c fresh q repl update afs oid now,
    coll_inv matchf c -> ids_lt c fresh ->
    out_rel res_rel (coll_upsert matchf applyf extractf c fresh q repl update afs oid now)
            (s_upsert matchf applyf extractf now (abs_coll c) q repl update afs oid).
Proof. exact sim_upsert. Qed.
Print Assumptions C01_upsert_agrees.

Theorem C01_delete_agrees :
  forall matchf c q sort skip limit,
    coll_inv matchf c ->
    out_rel res_rel (coll_delete matchf c q sort skip limit)
            (s_delete matchf (abs_coll c) q sort skip limit).
Proof. exact sim_delete. Qed.
Print Assumptions C01_delete_agrees.

Theorem C01_replace_agrees :
  forall matchf c fresh q repl sort,
    coll_inv matchf c -> ids_lt c fresh ->
    out_rel res_rel (coll_replace matchf c fresh q repl sort)
            (s_replace matchf (abs_coll c) q repl sort).
Proof. exact sim_replace. Qed.
Print Assumptions C01_replace_agrees.

Theorem C01_update_agrees :
  forall matchf applyf c fresh q u sort skip limit afs now,
    coll_inv matchf c -> ids_lt c fresh ->
    out_rel res_rel (coll_update matchf applyf c fresh q u sort skip limit afs now)
            (s_update matchf applyf now (abs_coll c) q u sort skip limit afs).
Proof. exact sim_update. Qed.
Print Assumptions C01_update_agrees.

Theorem C01_create_index_agrees :
  forall matchf c name cf,
    coll_inv matchf c ->
    out_rel (@eq string) (coll_create_index matchf c name cf)
            (s_create_index matchf (abs_coll c) name cf).
Proof. exact sim_create_index. Qed.
Print Assumptions C01_create_index_agrees.

(* ------------------------------------------------------------------ *)
(* non-vacuity: a concrete history (operator semantics: MiniOps) with an
   upsert, a successful insert, a failed insert (duplicate _id), a
   multi-update, a find, a drop, a count and an unordered bulk-write with a
   failing item: the hypothesis holds, the replies are the expected ones and
   the two models agree *)

Definition ex_h : handle := ("db"%string, "c"%string).

Definition ex_history : list call :=
  [ CUpdate 0 ex_h false [("a"%string, VInt32 1)]
            [("$set"%string, VDoc [("b"%string, VInt32 2)])] true [];
    CInsertOne 0 ex_h [("_id"%string, VInt32 7); ("a"%string, VInt32 1)];
    CInsertOne 0 ex_h [("_id"%string, VInt32 7); ("a"%string, VInt32 5)];
    CUpdate 0 ex_h true [("a"%string, VInt32 1)]
            [("$set"%string, VDoc [("c"%string, VInt32 9)])] false [];
    CFind 0 ex_h [] None None 0 0;
    CDropColl 0 ex_h;
    CCount 0 ex_h [] 0 0;
    CBulk 0 ex_h [ BInsert [("_id"%string, VInt32 1); ("a"%string, VInt32 1)];
                   BInsert [("_id"%string, VInt32 1)];
                   BUpdate [("a"%string, VInt32 1)]
                           [("$set"%string, VDoc [("b"%string, VInt32 3)])] None false 0 0 [];
                   BDelete [("a"%string, VInt32 2)] None 0 1 ] false;
    CFind 0 ex_h [] None None 0 0 ].

Example C01_nonvacuous :
  Forall no_session_call ex_history /\
  snd (run mini_match mini_apply mini_extract mini_project 0 d_init ex_history) =
    [ RUpdate 0 0 1 (gen_oid 1);
      RId (VInt32 7);
      RErr EDup;
      RUpdate 2 2 0 VNull;
      RDocs [ [("_id"%string, gen_oid 1); ("a"%string, VInt32 1); ("b"%string, VInt32 2);
               ("c"%string, VInt32 9)];
              [("_id"%string, VInt32 7); ("a"%string, VInt32 1); ("c"%string, VInt32 9)] ];
      ROk;
      RCount 0;
      RBulk 1 1 1 0 0 [] [(1, EDup)];
      RDocs [ [("_id"%string, VInt32 1); ("a"%string, VInt32 1); ("b"%string, VInt32 3)] ] ] /\
  snd (s_run mini_match mini_apply mini_extract mini_project 0 s_init ex_history) =
  snd (run mini_match mini_apply mini_extract mini_project 0 d_init ex_history) /\
  sc_docs (coll_or_new
             (abs (fst (run mini_match mini_apply mini_extract mini_project 0 d_init
                            (firstn 4 ex_history)))) ex_h) =
    [ [("_id"%string, gen_oid 1); ("a"%string, VInt32 1); ("b"%string, VInt32 2);
       ("c"%string, VInt32 9)];
      [("_id"%string, VInt32 7); ("a"%string, VInt32 1); ("c"%string, VInt32 9)] ].
Proof.
  split; [repeat constructor|]. vm_compute. repeat split.
Qed.

(* why reads of local.oplog are outside: the reference model has no oplog, so
   there the two models differ (the implementation returns the change
   events).  Not a defect of either: the statement is about user collections. *)
Example C01_oplog_read_outside :
  let hist := [ CInsertOne 0 ex_h [("_id"%string, VInt32 1)];
                CCount 0 oplog_handle [] 0 0 ] in
  snd (run mini_match mini_apply mini_extract mini_project 0 d_init hist) =
    [RId (VInt32 1); RCount 1] /\
  snd (s_run mini_match mini_apply mini_extract mini_project 0 s_init hist) =
    [RId (VInt32 1); RCount 0].
Proof. vm_compute. split; reflexivity. Qed.

(* why bulk items with a sort are outside: a single update on a missing
   namespace returns "nothing matched" without looking at the sort, whereas
   Transaction.Bulk creates the namespace in its clone and runs the update on
   it, so an invalid sort specification is an error there.  The driver API
   cannot produce such an item (BulkWrite models carry no sort). *)
Example C01_bulk_sort_outside :
  let hist := [ CBulk 0 ex_h [ BUpdate [] [("$set"%string, VDoc [("b"%string, VInt32 3)])]
                                       (Some [("a"%string, VInt32 7)]) false 0 0 [] ] true ] in
  snd (run mini_match mini_apply mini_extract mini_project 0 d_init hist) =
    [RBulk 0 0 0 0 0 [] [(0, EErr)]] /\
  snd (s_run mini_match mini_apply mini_extract mini_project 0 s_init hist) =
    [RBulk 0 0 0 0 0 [] []].
Proof. vm_compute. split; reflexivity. Qed.

(* ---------------- the catalog-level calls (Model/DriverExt.v) ----------------
   What CreateCollection, ListCollections and ListDatabases return, stated
   directly against the catalog (the "plain sequential model" of these calls
   is the set of namespaces): for ANY matcher semantics. *)
From Lungo.Model Require Import DriverExt.
From Lungo.Proofs Require Import DriverExtProofs SortProofs.

(* ListCollections(db, q) returns exactly the specification documents of the
   namespaces of db that q accepts (no_error: the matcher is defined on them;
   otherwise the call fails, C01_listing_fails_with_the_matcher) *)
Theorem C01_list_collections_exact :
  forall matchf c db q res,
    no_error (fun d => matchf d q) (map (fun hc => coll_spec (fst hc))
                                        (filter (fun hc => String.eqb (fst (fst hc)) db) (cat_ns c))) ->
    txn_list_collections matchf c db q = inl res ->
    forall d, In d res <->
              exists name nc, In ((db, name), nc) (cat_ns c) /\ d = coll_spec (db, name) /\ matchf d q = Ok true.
Proof. exact list_collections_spec. Qed.
Print Assumptions C01_list_collections_exact.

Theorem C01_list_databases_exact :
  forall matchf c q res,
    no_error (fun d => matchf d q) (map (db_spec (cat_ns c)) (db_names (cat_ns c) [])) ->
    txn_list_databases matchf c q = inl res ->
    forall d, In d res <->
              exists db, (exists h nc, In (h, nc) (cat_ns c) /\ fst h = db) /\
                         d = db_spec (cat_ns c) db /\ matchf d q = Ok true.
Proof. exact list_databases_spec. Qed.
Print Assumptions C01_list_databases_exact.

(* "empty" of a database: no namespace of it holds a document *)
Theorem C01_database_empty_flag :
  forall l db, db_empty l db = true <-> forall h nc, In (h, nc) l -> fst h = db -> c_docs nc = [].
Proof. exact db_empty_spec. Qed.
Print Assumptions C01_database_empty_flag.

(* a listing is the accepted documents sorted by name: as many as accepted *)
Theorem C01_listing_length :
  forall matchf l q res,
    no_error (fun d => matchf d q) l -> filter_sorted matchf l q = inl res ->
    List.length res = List.length (filter (selb (fun d => matchf d q)) l).
Proof. exact filter_sorted_length. Qed.
Print Assumptions C01_listing_length.

Theorem C01_listing_fails_with_the_matcher :
  forall matchf l1 x l2 q,
    no_error (fun d => matchf d q) l1 -> (forall b, matchf x q <> Ok b) ->
    exists e, filter_sorted matchf (l1 ++ x :: l2) q = inr e.
Proof. exact filter_sorted_error. Qed.
Print Assumptions C01_listing_fails_with_the_matcher.

Theorem C01_list_collections_invalid_database :
  forall matchf c db q,
    valid_handle (db, ""%string) false = false -> txn_list_collections matchf c db q = inr EErr.
Proof. exact list_collections_invalid_db. Qed.
Print Assumptions C01_list_collections_invalid_database.

(* CreateCollection: afterwards the namespace exists, every other namespace
   and every session is what it was; creating an existing one changes nothing *)
Theorem C01_create_collection_creates :
  forall matchf applyf extractf projectf now ds sid h ds',
    xstep matchf applyf extractf projectf now ds (XCreateColl sid h) = (ds', XR ROk) ->
    (exists nc, ns_get (cat_ns (ds_cat ds')) h = Some nc) /\
    (forall k, k <> h -> ns_get (cat_ns (ds_cat ds')) k = ns_get (cat_ns (ds_cat ds)) k) /\
    ds_sessions ds' = ds_sessions ds.
Proof. exact create_coll_creates. Qed.
Print Assumptions C01_create_collection_creates.

Theorem C01_create_existing_collection_is_noop :
  forall matchf applyf extractf projectf now ds sid h nc,
    ns_get (cat_ns (ds_cat ds)) h = Some nc ->
    fst (xstep matchf applyf extractf projectf now ds (XCreateColl sid h)) = ds.
Proof. exact create_coll_existing_noop. Qed.
Print Assumptions C01_create_existing_collection_is_noop.

(* non-vacuity: a listing over a catalog with two databases *)
Example C01_listing_nonvacuous :
  let c := mkCat [(("db", "c"), new_collection true); (("db", "a"), new_collection true);
                  (("db2", "z"), new_collection true)]%string 0 in
  (match txn_list_collections (fun _ _ => Ok true) c "db" [] with
   | inl l => map (fun d => Get d "name") l | inr _ => [] end) = [VString "a"; VString "c"] /\
  (match txn_list_databases (fun _ _ => Ok true) c [] with
   | inl l => map (fun d => Get d "name") l | inr _ => [] end) = [VString "db"; VString "db2"].
Proof. vm_compute. split; reflexivity. Qed.

(* ---------------- tie to the source: the listing documents (G8) ----------------
   Gen/Listing.v is regenerated from transaction.go on every run. *)
From Lungo.Proofs Require Import GenListing.
From Lungo.Gen Require Import Listing.

Theorem C01_source_coll_spec_is_model : forall h,
  inst_doc (coll_env h) gen_coll_spec = Some (coll_spec h).
Proof. exact gen_coll_spec_is_model. Qed.
Print Assumptions C01_source_coll_spec_is_model.

Theorem C01_source_db_spec_is_model : forall l db,
  inst_doc (db_env l db) gen_db_spec = Some (db_spec l db).
Proof. exact gen_db_spec_is_model. Qed.
Print Assumptions C01_source_db_spec_is_model.

Theorem C01_source_listing_tails :
  gen_list_collections_post =
  ["list, err = mongokit.Filter(list, query, 0)"; "if err != nil { return nil, err }";
   "bsonkit.Sort(list, []bsonkit.Column{{Path: ""name""}})"; "return list, nil"]%string /\
  gen_list_databases_post =
  ["var list bsonkit.List"; "list, err := mongokit.Filter(list, query, 0)"; "if err != nil { return nil, err }";
   "bsonkit.Sort(list, []bsonkit.Column{{Path: ""name""}})"; "return list, nil"]%string.
Proof. split; [exact gen_list_collections_post_ok|exact gen_list_databases_post_ok]. Qed.
Print Assumptions C01_source_listing_tails.

(* ---------------- refinement for the catalog-level calls ----------------
   The reference model extended by CreateCollection, ListCollections and
   CreateMany (Spec/SpecDbExt.v: a collection is its documents and index
   definitions; creating adds an empty one with the _id definition; listing
   enumerates the collections of the database): the implementation model gives
   the same replies and keeps equal contents, for EVERY history of
   non-session calls that may contain them.  ListDatabases is outside the
   reference (it reports `local`, whose only collection is the change log the
   reference does not have): C01_list_databases_exact states it directly. *)
From Lungo.Spec Require Import SpecDbExt.
From Lungo.Proofs Require Import RefineExt.

Theorem C01_ext_step_refines :
  forall matchf applyf extractf projectf now ds s x,
    RefineStep.R matchf ds s -> x_no_session x ->
    let '(ds', r1) := xstep matchf applyf extractf projectf now ds x in
    let '(s', r2) := xs_step matchf applyf extractf projectf now s x in
    r1 = r2 /\ RefineStep.R matchf ds' s'.
Proof. exact xstep_refines. Qed.
Print Assumptions C01_ext_step_refines.

Theorem C01_ext_refines :
  forall matchf applyf extractf projectf now xs,
    Forall x_no_session xs ->
    let '(ds, rs) := xrun matchf applyf extractf projectf now d_init xs in
    let '(s, rs') := xs_run matchf applyf extractf projectf now s_init xs in
    rs = rs' /\ RefineStep.abs ds = s.
Proof. exact xrefines. Qed.
Print Assumptions C01_ext_refines.

(* non-vacuity: a history with all three calls satisfies the premise *)
Example C01_ext_refines_nonvacuous :
  Forall x_no_session
    [XCreateColl 0 ("db", "c")%string;
     XCreateMany 0 ("db", "c")%string [mkISpec "" [("a", VInt32 1)]%string true None None];
     XBase (CInsertOne 0 ("db", "c")%string [("a", VInt32 1)]%string);
     XListColls 0 "db"%string []].
Proof. repeat constructor; discriminate. Qed.

(* ---------------- listings follow the writes ---------------- *)

(* a collection that CreateCollection created is listed (filter accepting everything) *)
Theorem C01_created_collection_is_listed :
  forall matchf applyf extractf projectf now ds sid h ds' q res,
    (forall d, matchf d q = Ok true) ->
    xstep matchf applyf extractf projectf now ds (XCreateColl sid h) = (ds', XR ROk) ->
    txn_list_collections matchf (ds_cat ds') (fst h) q = inl res ->
    In (coll_spec h) res.
Proof. exact created_collection_is_listed. Qed.
Print Assumptions C01_created_collection_is_listed.

(* a collection that Collection.Drop dropped is in no listing, whatever the filter *)
Theorem C01_dropped_collection_is_not_listed :
  forall matchf applyf extractf projectf now ds sid h ds' q res,
    step matchf applyf extractf projectf now ds (CDropColl sid h) = (ds', ROk) ->
    no_error (fun d => matchf d q)
             (map (fun hc => coll_spec (fst hc))
                  (filter (fun hc => String.eqb (fst (fst hc)) (fst h)) (cat_ns (ds_cat ds')))) ->
    txn_list_collections matchf (ds_cat ds') (fst h) q = inl res ->
    ~ In (coll_spec h) res.
Proof. exact dropped_collection_is_not_listed. Qed.
Print Assumptions C01_dropped_collection_is_not_listed.

(* a listing is sorted by name (every element is <= every later one in the
   BSON order of the `name` fields) *)
Theorem C01_listing_sorted_by_name :
  forall matchf l q res,
    no_error (fun d => matchf d q) l -> filter_sorted matchf l q = inl res ->
    sorted by_name res.
Proof. exact filter_sorted_sorted. Qed.
Print Assumptions C01_listing_sorted_by_name.

(* ListDatabases lists every database at most once *)
Theorem C01_list_databases_names_distinct :
  forall matchf c q res,
    no_error (fun d => matchf d q) (map (db_spec (cat_ns c)) (db_names (cat_ns c) [])) ->
    txn_list_databases matchf c q = inl res ->
    NoDup (names_of res).
Proof. exact list_databases_names_distinct. Qed.
Print Assumptions C01_list_databases_names_distinct.
