(* C10 — query filters select exactly the documents MongoDB's semantics
   select.  Only statements closed by `exact`, with Print Assumptions, and
   non-vacuity examples.  Results are three-valued: Ok true (matched),
   Ok false (not matched), Err (the filter is rejected). *)
From Coq Require Import List ZArith Bool String.
From Lungo.Model Require Import Match.
From Lungo.Gen Require Import MatchOps.
From Lungo.Spec Require Import RefMatch.
From Lungo.Proofs Require Import MatchLaws GenMatchOps MatchRef.
Import ListNotations.
Open Scope string_scope.

(* ---- the operator tables are the ones registered in /repo (G2) ---- *)

Theorem C10_source_top_operators : gen_query_top = query_top_table.
Proof. exact gen_query_top_ok. Qed.
Print Assumptions C10_source_top_operators.

Theorem C10_source_expression_operators : gen_query_expr = query_expr_table.
Proof. exact gen_query_expr_ok. Qed.
Print Assumptions C10_source_expression_operators.

Theorem C10_source_type_aliases :
  map (fun p => (snd p, bsontype_byte (fst p))) gen_type2alias = alias2type.
Proof. exact gen_type2alias_ok. Qed.
Print Assumptions C10_source_type_aliases.

(* ---- logical laws: every document, every filter, no nesting bound ---- *)

(* a filter document is the conjunction of its entries (first failure decides) *)
Theorem C10_implicit_and : forall d f1 f2,
  Match d (f1 ++ f2)%list = and_then (Match d f1) (Match d f2).
Proof. exact implicit_and. Qed.
Print Assumptions C10_implicit_and.

(* $nor is the exact negation of $or, whatever the argument (errors coincide) *)
Theorem C10_nor_is_not_or : forall d v,
  Match d [("$nor", v)] = negate (Match d [("$or", v)]).
Proof. exact nor_is_not_or. Qed.
Print Assumptions C10_nor_is_not_or.

Theorem C10_and_is_conj : forall d fs, fs <> [] ->
  Match d [("$and", VArr (map VDoc fs))] = fold_right and_then (Ok true) (map (Match d) fs).
Proof. exact and_is_conj. Qed.
Print Assumptions C10_and_is_conj.

Theorem C10_and_true_iff : forall d fs, fs <> [] ->
  (Match d [("$and", VArr (map VDoc fs))] = Ok true <-> Forall (fun f => Match d f = Ok true) fs).
Proof. exact and_true_iff. Qed.
Print Assumptions C10_and_true_iff.

Theorem C10_and_is_conj_bool : forall d fs bs, fs <> [] -> map (Match d) fs = map Ok bs ->
  Match d [("$and", VArr (map VDoc fs))] = Ok (forallb (fun b => b) bs).
Proof. exact and_is_conj_bool. Qed.
Print Assumptions C10_and_is_conj_bool.

Theorem C10_or_is_disj : forall d fs, fs <> [] ->
  Match d [("$or", VArr (map VDoc fs))] = fold_right or_else (Ok false) (map (Match d) fs).
Proof. exact or_is_disj. Qed.
Print Assumptions C10_or_is_disj.

Theorem C10_or_is_disj_bool : forall d fs bs, fs <> [] -> map (Match d) fs = map Ok bs ->
  Match d [("$or", VArr (map VDoc fs))] = Ok (existsb (fun b => b) bs).
Proof. exact or_is_disj_bool. Qed.
Print Assumptions C10_or_is_disj_bool.

(* $ne, $nin, $not are exact negations (p a field path, i.e. not starting with $) *)
Theorem C10_ne_is_not_eq : forall d p v, is_op p = false ->
  Match d [(p, VDoc [("$ne", v)])] = negate (Match d [(p, VDoc [("$eq", v)])]).
Proof. exact ne_is_not_eq. Qed.
Print Assumptions C10_ne_is_not_eq.

Theorem C10_nin_is_not_in : forall d p v, is_op p = false ->
  Match d [(p, VDoc [("$nin", v)])] = negate (Match d [(p, VDoc [("$in", v)])]).
Proof. exact nin_is_not_in. Qed.
Print Assumptions C10_nin_is_not_in.

Theorem C10_not_negates : forall d p op v, is_op p = false -> is_op op = true ->
  Match d [(p, VDoc [("$not", VDoc [(op, v)])])] = negate (Match d [(p, VDoc [(op, v)])]).
Proof. exact not_negates. Qed.
Print Assumptions C10_not_negates.

Theorem C10_not_negates_ops : forall d p exps,
  is_op p = false -> exps <> [] -> forallb (fun e => is_op (fst e)) exps = true ->
  Match d [(p, VDoc [("$not", VDoc exps)])] = negate (Match d [(p, VDoc exps)]).
Proof. exact not_negates_ops. Qed.
Print Assumptions C10_not_negates_ops.

(* $in is the disjunction of the equalities (elements are compared as values:
   no regular-expression elements, as in the code) *)
Theorem C10_in_is_disj_eq : forall d p vs, is_op p = false ->
  Match d [(p, VDoc [("$in", VArr vs)])] =
  Ok (existsb (fun v => is_true (Match d [(p, VDoc [("$eq", v)])])) vs).
Proof. exact in_is_disj_eq. Qed.
Print Assumptions C10_in_is_disj_eq.

Theorem C10_gte_is_gt_or_eq : forall d p v, is_op p = false ->
  Match d [(p, VDoc [("$gte", v)])] =
  Ok (is_true (Match d [(p, VDoc [("$gt", v)])]) || is_true (Match d [(p, VDoc [("$eq", v)])])).
Proof. exact gte_is_gt_or_eq. Qed.
Print Assumptions C10_gte_is_gt_or_eq.

Theorem C10_lte_is_lt_or_eq : forall d p v, is_op p = false ->
  Match d [(p, VDoc [("$lte", v)])] =
  Ok (is_true (Match d [(p, VDoc [("$lt", v)])]) || is_true (Match d [(p, VDoc [("$eq", v)])])).
Proof. exact lte_is_lt_or_eq. Qed.
Print Assumptions C10_lte_is_lt_or_eq.

(* {p: v} is {p: {$eq: v}} when v is not an operator document *)
Theorem C10_literal_is_eq : forall d p v, is_op p = false -> is_op_doc v = false ->
  Match d [(p, v)] = Match d [(p, VDoc [("$eq", v)])].
Proof. exact literal_is_eq. Qed.
Print Assumptions C10_literal_is_eq.

(* ---- paths fan out; comparisons are type-bracketed; array-or-element ---- *)

Theorem C10_comparison_candidates : forall d p op v, is_op p = false -> In op cmp_ops ->
  Match d [(p, VDoc [(op, v)])] = Ok (existsb (fun c => holds op c v) (candidates d p)).
Proof. exact comparison_candidates. Qed.
Print Assumptions C10_comparison_candidates.

Theorem C10_bracketing : forall d p op v, is_op p = false -> In op cmp_ops ->
  Match d [(p, VDoc [(op, v)])] = Ok true ->
  exists c, In c (candidates d p) /\ class_of c = class_of v /\ holds op c v = true.
Proof. exact bracketing. Qed.
Print Assumptions C10_bracketing.

Theorem C10_array_or_element : forall d p op v arr, is_op p = false -> In op cmp_ops ->
  All d p true false = (VArr arr, false) ->
  Match d [(p, VDoc [(op, v)])] =
  Ok (holds op (VArr arr) v || existsb (fun e => holds op e v) arr).
Proof. exact array_or_element. Qed.
Print Assumptions C10_array_or_element.

(* under fan-out every value found is matched like a directly addressed field *)
Theorem C10_fanout_leaves : forall d p op v leaves, is_op p = false -> In op cmp_ops ->
  All d p true false = (VArr leaves, true) ->
  Match d [(p, VDoc [(op, v)])] =
  Ok (existsb (fun leaf => existsb (fun c => holds op c v) (leaf_candidates leaf)) leaves).
Proof. exact fanout_leaves. Qed.
Print Assumptions C10_fanout_leaves.

Theorem C10_scalar_field : forall d p op v x, is_op p = false -> In op cmp_ops ->
  All d p true false = (x, false) -> (forall a, x <> VArr a) ->
  Match d [(p, VDoc [(op, v)])] = Ok (holds op x v).
Proof. exact scalar_field. Qed.
Print Assumptions C10_scalar_field.

(* ---- needed by C19 (TTL): $lt against a date selects earlier dates only ---- *)

Theorem C10_lt_date_brackets : forall d f t, is_op f = false ->
  (Match d [(f, VDoc [("$lt", VDate t)])] = Ok true <->
   exists c, In c (candidates d f) /\ exists u, c = VDate u /\ (u < t)%Z).
Proof. exact lt_date_brackets. Qed.
Print Assumptions C10_lt_date_brackets.

(* ---- agreement with the reference semantics ---- *)

(* Spec/RefMatch.v: `RefMatch.holds` is the reference truth value (DESIGN.md
   8.1).  The property's domain is D1-D4 as written in 8.2 (`domainb`: D1 no
   array directly in an array, D2 non-null scalar operands and the leaf
   operators only under fan-out, D3 no numeric field names inside array
   elements, D4 well-formed arguments; a numeric index into an array holding
   documents counts as fan-out for D2, see C10_index_null_refuted).  `core` is
   that domain; `domain_class` tells whether a pair lies in it.  Six defect
   classes found by this check inside the domain were repaired in lungo.  On `core` the
   agreement is proved, for every operator: $and $or $nor, implicit and,
   literal equality, $eq $gt $gte $lt $lte $ne, $in $nin, $exists, $type,
   $size, $mod, $bitsAllSet/AllClear/AnySet/AnyClear, $not, $all, $elemMatch.
   $jsonSchema has no reference semantics here and is outside the domain.
   The real matcher is compared with the reference on the whole domain on
   every run (oracle `reference`): any disagreement is a violation. *)
Theorem C10_match_ref : forall d f,
  core d f -> Match d f = Ok (RefMatch.holds d f).
Proof. exact match_ref. Qed.
Print Assumptions C10_match_ref.

Theorem C10_match_ref_partial : forall d f,
  core_covered d f -> Match d f = Ok (RefMatch.holds d f).
Proof. exact match_ref_partial. Qed.
Print Assumptions C10_match_ref_partial.

(* `core` is exactly the first class of the classification; DOutside is outside D1-D4 *)
Theorem C10_domain_class_core : forall d f, domain_class d f = DCore <-> core d f.
Proof. exact domain_class_core. Qed.
Print Assumptions C10_domain_class_core.

Theorem C10_domain_class_outside : forall d f, domain_class d f = DOutside -> domainb d f = false.
Proof. exact domain_class_outside. Qed.
Print Assumptions C10_domain_class_outside.

(* the element wrapper used by the reference for $elemMatch is neutral *)
Theorem C10_elem_root_lookup : forall e p, rlookup (elem_root e) (elem_path ++ p)%list = rlookup e p.
Proof. exact elem_root_lookup. Qed.
Print Assumptions C10_elem_root_lookup.

Theorem C10_match_ref_example :
  core [("a", VArr [VDoc [("b", VInt32 1)]])] [("a.b", VDoc [("$in", VArr [VInt32 2; VString "x"])])]
  /\ Match [("a", VArr [VDoc [("b", VInt32 1)]])] [("a.b", VDoc [("$in", VArr [VInt32 2; VString "x"])])] = Ok false
  /\ core [("a", VArr [VDoc [("b", VInt32 1)]; VDoc [("b", VInt32 7)]])]
          [("a", VDoc [("$elemMatch", VDoc [("b", VDoc [("$gt", VInt32 5)])])])]
  /\ Match [("a", VArr [VDoc [("b", VInt32 1)]; VDoc [("b", VInt32 7)]])]
           [("a", VDoc [("$elemMatch", VDoc [("b", VDoc [("$gt", VInt32 5)])])])] = Ok true.
Proof. vm_compute. repeat split; reflexivity. Qed.

(* -- outside D1-D4: why the domain ends where it does (lungo's answer last;
      the reference answers the opposite; `differs` includes domainb = false) -- *)
Theorem C10_null_fanout_refuted :
  differs [("a", VArr [VDoc [("b", VInt32 1)]; VDoc [("c", VInt32 2)]])] [("a.b", VNull)] false.
Proof. exact null_fanout_refuted. Qed.
Print Assumptions C10_null_fanout_refuted.

Theorem C10_numeric_field_refuted :
  differs [("a", VArr [VDoc [("0", VInt32 5)]])] [("a.0", VInt32 5)] false.
Proof. exact numeric_field_refuted. Qed.
Print Assumptions C10_numeric_field_refuted.

Theorem C10_nested_array_refuted :
  differs [("a", VArr [VArr [VDoc [("b", VInt32 1)]]])] [("a.b", VInt32 1)] true.
Proof. exact nested_array_refuted. Qed.
Print Assumptions C10_nested_array_refuted.

(* a boundary of D2/D3, not a defect of lungo: by D3 a numeric segment addresses
   an array position only inside the domain; the reference of 8.1 also reads it
   as a field name of every element document (a Missing candidate, matched by
   null) — semantics the property does not state.  A numeric index into an
   array holding documents therefore counts as fan-out for D2 and the null
   operand puts the pair outside the domain (domainb = false). *)
Theorem C10_index_null_refuted :
  differs [("a", VArr [VDoc [("b", VInt32 2)]])] [("a.0.b", VDoc [("$ne", VNull)])] true.
Proof. exact index_null_refuted. Qed.
Print Assumptions C10_index_null_refuted.

(* -- repaired in lungo (known_findings.json, status fixed:
      C10:type-null-on-missing-field, C10:all-mixed-operands,
      C10:type-array-under-fanout, C10:exists-under-fanout-empty-array,
      C10:size-under-fanout): the inputs that used to differ now lie in `core`,
      where C10_match_ref applies (`repaired d f b` = core, Match = Ok b, holds = b) -- *)
Theorem C10_type_array_fanout_repaired :
  repaired [("a", VArr [VDoc [("b", VArr [VInt32 1])]])] [("a.b", VDoc [("$type", VString "array")])] true.
Proof. exact type_array_fanout_repaired. Qed.
Print Assumptions C10_type_array_fanout_repaired.

Theorem C10_exists_fanout_empty_repaired :
  repaired [("a", VArr [VDoc [("b", VArr [])]])] [("a.b", VDoc [("$exists", VBool true)])] true.
Proof. exact exists_fanout_empty_repaired. Qed.
Print Assumptions C10_exists_fanout_empty_repaired.

Theorem C10_size_fanout_repaired :
  repaired [("a", VArr [VDoc [("b", VArr [VDoc [("c", VArr [VInt32 1; VInt32 2])]])]])]
           [("a.b.c", VDoc [("$size", VInt32 2)])] true.
Proof. exact size_fanout_repaired. Qed.
Print Assumptions C10_size_fanout_repaired.

Theorem C10_size_fanout_phantom_repaired :
  repaired [("a", VArr [VDoc [("b", VArr [])]])] [("a.b.c", VDoc [("$size", VInt32 0)])] false.
Proof. exact size_fanout_phantom_repaired. Qed.
Print Assumptions C10_size_fanout_phantom_repaired.

(* outside D2, repaired by the same change: an array operand under fan-out *)
Theorem C10_array_operand_fanout_repaired :
  Match [("a", VArr [VDoc [("b", VArr [VInt32 1; VInt32 2])]; VDoc [("b", VArr [VInt32 3])]])]
        [("a.b", VArr [VInt32 3])] = Ok true /\
  RefMatch.holds [("a", VArr [VDoc [("b", VArr [VInt32 1; VInt32 2])]; VDoc [("b", VArr [VInt32 3])]])]
        [("a.b", VArr [VInt32 3])] = true.
Proof. exact array_operand_fanout_repaired. Qed.
Print Assumptions C10_array_operand_fanout_repaired.

Theorem C10_type_null_missing_repaired :
  core [("b", VInt32 1)] [("a", VDoc [("$type", VString "null")])] /\
  Match [("b", VInt32 1)] [("a", VDoc [("$type", VString "null")])] = Ok false /\
  Match [("a", VNull)] [("a", VDoc [("$type", VString "null")])] = Ok true.
Proof. exact type_null_missing_repaired. Qed.
Print Assumptions C10_type_null_missing_repaired.

Theorem C10_all_mixed_repaired :
  core [("a", VArr [VInt32 1; VInt32 2])]
       [("a", VDoc [("$all", VArr [VInt32 1; VArr [VInt32 1; VInt32 2]])])] /\
  Match [("a", VArr [VInt32 1; VInt32 2])]
        [("a", VDoc [("$all", VArr [VInt32 1; VArr [VInt32 1; VInt32 2]])])] = Ok true /\
  Match [("a", VArr [VInt32 1; VInt32 2])]
        [("a", VDoc [("$all", VArr [VInt32 1; VInt32 3])])] = Ok false.
Proof. exact all_mixed_repaired. Qed.
Print Assumptions C10_all_mixed_repaired.

(* ---- non-vacuity: the hypotheses are met and both truth values occur ---- *)

Definition ex_doc : doc :=
  [("a", VArr [VInt32 1; VInt32 5]); ("b", VArr [VDoc [("c", VInt32 1)]; VDoc [("c", VString "x")]]);
   ("t", VDate 100)].

Example C10_ex_and_or :
  Match ex_doc [("$and", VArr (map VDoc [[("a", VInt32 5)]; [("b.c", VString "x")]]))] = Ok true /\
  Match ex_doc [("$and", VArr (map VDoc [[("a", VInt32 5)]; [("b.c", VString "y")]]))] = Ok false /\
  Match ex_doc [("$or", VArr (map VDoc [[("a", VInt32 7)]; [("b.c", VString "x")]]))] = Ok true /\
  Match ex_doc [("$nor", VArr (map VDoc [[("a", VInt32 7)]; [("b.c", VString "x")]]))] = Ok false /\
  Match ex_doc [("$and", VArr [])] = Err /\
  Match ex_doc [("$and", VArr (map VDoc [[("a", VInt32 7)]; [("$foo", VNull)]]))] = Ok false /\
  Match ex_doc [("$and", VArr (map VDoc [[("a", VInt32 5)]; [("$foo", VNull)]]))] = Err.
Proof. vm_compute. repeat split. Qed.

Example C10_ex_negations :
  Match ex_doc [("a", VDoc [("$ne", VInt64 5)])] = Ok false /\
  Match ex_doc [("a", VDoc [("$nin", VArr [VInt64 2; VString "s"])])] = Ok true /\
  Match ex_doc [("a", VDoc [("$not", VDoc [("$gt", VInt32 4)])])] = Ok false /\
  Match ex_doc [("a", VDoc [("$not", VDoc [("$gt", VInt32 5)])])] = Ok true /\
  Match ex_doc [("a", VDoc [("$nin", VInt32 1)])] = Err.
Proof. vm_compute. repeat split. Qed.

Example C10_ex_comparisons :
  Match ex_doc [("a", VDoc [("$gte", VDouble 4617315517961601024)])] = Ok true   (* 5.0 *) /\
  Match ex_doc [("a", VDoc [("$gt", VInt32 5)])] = Ok false /\
  Match ex_doc [("a", VDoc [("$lt", VString "z")])] = Ok false              (* bracketing *) /\
  Match ex_doc [("a", VDoc [("$eq", VArr [VInt32 1; VInt32 5])])] = Ok true    (* the array itself *) /\
  Match ex_doc [("a", VDoc [("$in", VArr [VInt32 9; VInt64 1])])] = Ok true /\
  All ex_doc "a" true true = (VArr [VInt32 1; VInt32 5], false) /\
  All ex_doc "b.c" true true = (VArr [VInt32 1; VString "x"], true).
Proof. vm_compute. repeat split. Qed.

Example C10_ex_lt_date :
  Match ex_doc [("t", VDoc [("$lt", VDate 101)])] = Ok true /\
  Match ex_doc [("t", VDoc [("$lt", VDate 100)])] = Ok false /\
  Match ex_doc [("a", VDoc [("$lt", VDate 100)])] = Ok false /\
  Match ex_doc [("missing", VDoc [("$lt", VDate 100)])] = Ok false.
Proof. vm_compute. repeat split. Qed.
