(* C06 — Persist-and-reload returns the identical database.
   "Closing a file-backed database and opening it again yields, for every
   database and collection, the same documents with the same field order,
   value types and natural order, the same index definitions (key, unique,
   partial filter, expiry, name) enforcing the same constraints, and the same
   change log, for every content that could be written through the API."

   Only statements closed by `exact`, with Print Assumptions.  The model is
   Model/Codec.v (BSON wire format) and Model/File.v (BuildFile, Marshal /
   Unmarshal of the File structs, BuildCatalog), tied to /repo by the families
   `codec` and `reload` of harness/fam_codec.go.

   FULL STATEMENT (false of lungo, see C06_reload_identity_refuted):
     forall c, wf_catalog nilp c -> indexes_build build_ok c = true ->
               reload_g build_ok nilp c = Some c.
   It is proved with the extra hypothesis `handles_ok c` (no database name
   contains a dot), which Handle.Validate does not enforce.

   Not modelled: index ENTRIES.  `indexes_build` is the hypothesis that every
   stored index can be rebuilt over its documents (C07/C15); "enforcing the
   same constraints" then follows from equal documents and equal definitions
   and is checked on the real code by the duplicate probes of the oracle. *)
From Coq Require Import List ZArith String.
From Lungo.Model Require Import File.
From Lungo.Proofs Require Import CodecProofs FileProofs.
Import ListNotations.
Open Scope string_scope.
Open Scope Z_scope.

(* the byte-level codec loses nothing: decoding the encoding of any storable
   document — unbounded nesting and length — gives back that document *)
Theorem C06_decode_encode : forall d, wf_doc d -> decode_bytes (encode_doc d) = Some d.
Proof. exact decode_encode. Qed.
Print Assumptions C06_decode_encode.

Theorem C06_decode_encode_fuel : forall d fuel, wf_doc d -> (doc_fuel d <= fuel)%nat ->
  decode_doc fuel (encode_doc d) = Some d.
Proof. exact decode_encode_fuel. Qed.
Print Assumptions C06_decode_encode_fuel.

(* the general form: the decoder consumes exactly what the encoder produced *)
Theorem C06_decode_value_encode_value : forall v,
  codec_ok v = true -> Z.of_nat (List.length (enc_value v)) < two31 ->
  forall fuel rest, (vneed v <= fuel)%nat ->
  dec_value fuel (type_of v) (enc_value v ++ rest)%list = Some (v, rest).
Proof. exact dec_enc_value. Qed.
Print Assumptions C06_decode_value_encode_value.

Theorem C06_encode_injective : forall d1 d2, wf_doc d1 -> wf_doc d2 ->
  encode_doc d1 = encode_doc d2 -> d1 = d2.
Proof. exact encode_injective. Qed.
Print Assumptions C06_encode_injective.

(* wf_doc excludes exactly two things the Go codec normalises (and that lungo
   therefore never stores): both are needed *)
Theorem C06_codec_normalisations :
  decode_bytes (encode_doc [("a", VBin 2 "")]) = Some [("a", VBin 2 four_zero_bytes)]
  /\ decode_bytes (encode_doc [("a", VRegex "p" "xi")]) = Some [("a", VRegex "p" "ix")].
Proof. exact decode_encode_needs_wf. Qed.
Print Assumptions C06_codec_normalisations.

(* Store followed by Load is the identity on catalogs: same handles, same
   documents in the same order, same index definitions (name, key, unique,
   partial, expiry), same change log (the namespace local.oplog) *)
Theorem C06_reload_identity_partial : forall build_ok nilp c,
  wf_catalog nilp c -> indexes_build build_ok c = true -> handles_ok c = true ->
  reload_g build_ok nilp c = Some c.
Proof. exact reload_identity_g. Qed.
Print Assumptions C06_reload_identity_partial.

Theorem C06_reload_same_namespaces : forall build_ok nilp c c',
  wf_catalog nilp c -> indexes_build build_ok c = true -> handles_ok c = true ->
  reload_g build_ok nilp c = Some c' ->
  forall h, lookup h c' = lookup h c.
Proof. exact reload_same_namespaces. Qed.
Print Assumptions C06_reload_same_namespaces.

(* the finding: database "a.b", collection "c" reloads as database "a",
   collection "b.c" *)
Theorem C06_reload_identity_refuted : exists c,
  wf_catalog (fun _ => false) c /\ indexes_build create_ok c = true /\
  handles_ok c = false /\
  exists c', reload c = Some c' /\ c' <> c /\ lookup ("a.b", "c") c' = None.
Proof. exact reload_identity_refuted. Qed.
Print Assumptions C06_reload_identity_refuted.

(* non-vacuity *)
Example C06_wf_doc_example :
  wf_doc [("_id", VOid "0123456789ab"); ("n", VNull); ("i", VInt32 (-1)); ("l", VInt64 9223372036854775807);
          ("f", VDouble 9221120237041090561); ("d", VDecimal 8646911284551352320 0); ("s", VString "a");
          ("D", VDoc [("", VArr [VArr []; VDoc []])]); ("b", VBin 2 "x"); ("b0", VBin 0 ""); ("t", VBool true);
          ("dt", VDate (-1)); ("ts", VTs 4294967295 0); ("r", VRegex "^a" "imsx")].
Proof. split; vm_compute; reflexivity. Qed.

Example C06_reload_identity_example :
  wf_catalog (fun k => String.eqb k "e.empty") sample_catalog /\
  indexes_build create_ok sample_catalog = true /\ handles_ok sample_catalog = true /\
  reload_g create_ok (fun k => String.eqb k "e.empty") sample_catalog = Some sample_catalog.
Proof. exact reload_identity_example. Qed.
