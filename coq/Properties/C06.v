(* C06 — Persist-and-reload returns the identical database.
   "Closing a file-backed database and opening it again yields, for every
   database and collection, the same documents with the same field order,
   value types and natural order, the same index definitions (key, unique,
   partial filter, expiry, name) enforcing the same constraints, and the same
   change log, for every content that could be written through the API."

   Only statements closed by `exact`, with Print Assumptions.  Two models:
   Model/Codec.v (BSON wire format) + Model/File.v (BuildFile, Marshal /
   Unmarshal of the File structs, BuildCatalog) for the FILE IMAGE, and
   Model/Collection.v / Txn.v / Driver.v (documents with identities, indexes
   with their ENTRY sets, every driver call) for the DATABASE; Model/Reload.v
   connects them (`image`, the real index builder `build_ok_real`, `load`,
   `reopen`).  Tied to /repo by the families `codec` and `reload` of
   harness/fam_codec.go.

   FILE LEVEL (part 1): forall c, wf_catalog nilp c -> indexes_build build_ok c
   = true -> handles_ok c = true -> reload_g build_ok nilp c = Some c, with
   `build_ok` abstract; false without `handles_ok` (C06_reload_identity_refuted,
   the repaired defect).

   HISTORY LEVEL (part 2): for every history of driver calls both hypotheses
   are INVARIANTS — `handles_ok` because Handle.Validate rejects a dot in a
   database name (C06_handles_ok_history), `indexes_build` for the REAL index
   builder because every index of a reachable catalog is coherent and unique
   (C15 / C07: C06_indexes_build_real) — so Store-then-Load is the identity on
   the image, the catalog rebuilt from the file is equivalent to the original
   (same documents in order, same index definitions, entry sets equal modulo
   the renumbering of document identities: C06_load_equivalent), and the
   reopened engine answers EVERY later call identically
   (C06_reload_continuation, from the simulation C06_step_simulation).
   Remaining hypotheses: the codec-side conditions on the stored VALUES
   (`storable_image`: names without NUL, values in the codec's range, file
   below 2^31 bytes) — not provable from how documents enter, since calls
   carry arbitrary values and the update semantics is a parameter.  Sessions
   do not survive a reload: the continuation is compared with the original
   engine without its client sessions (`forget_sessions`), which is the
   original itself for histories without explicit session control
   (C06_reload_continuation_plain; C06_sessions_do_not_survive shows why).
   Event timestamps and generated ObjectIDs are ranks in the model, so the
   reopened engine continues both counters. *)
From Coq Require Import List ZArith String.
From Lungo.Model Require Import File.
From Lungo.Model Require Import Driver Reload Match Apply Project ApiOps.
From Lungo.Proofs Require Import CodecProofs FileProofs CatInv HistoryInv ReloadProofs ReloadHandles
  ReloadSimCat ReloadSimStep ReloadHistory ReloadExamples.
Import ListNotations.
Open Scope string_scope.
Open Scope Z_scope.

(* the byte-level codec loses nothing: decoding the encoding of any storable
   document — unbounded nesting and length — gives back that document *)
Theorem C06_decode_encode : forall d, wf_doc d -> decode_bytes (encode_doc d) = Some d.
Proof. exact decode_encode. Qed.
Print Assumptions C06_decode_encode.

Theorem C06_decode_encode_fuel : forall d fuel, wf_doc d -> (doc_fuel d <= fuel)%nat ->
  decode_doc fuel (encode_doc d) = Some d.
Proof. exact decode_encode_fuel. Qed.
Print Assumptions C06_decode_encode_fuel.

(* the general form: the decoder consumes exactly what the encoder produced *)
Theorem C06_decode_value_encode_value : forall v,
  codec_ok v = true -> Z.of_nat (List.length (enc_value v)) < two31 ->
  forall fuel rest, (vneed v <= fuel)%nat ->
  dec_value fuel (type_of v) (enc_value v ++ rest)%list = Some (v, rest).
Proof. exact dec_enc_value. Qed.
Print Assumptions C06_decode_value_encode_value.

Theorem C06_encode_injective : forall d1 d2, wf_doc d1 -> wf_doc d2 ->
  encode_doc d1 = encode_doc d2 -> d1 = d2.
Proof. exact encode_injective. Qed.
Print Assumptions C06_encode_injective.

(* wf_doc excludes exactly two things the Go codec normalises (and that lungo
   therefore never stores): both are needed *)
Theorem C06_codec_normalisations :
  decode_bytes (encode_doc [("a", VBin 2 "")]) = Some [("a", VBin 2 four_zero_bytes)]
  /\ decode_bytes (encode_doc [("a", VRegex "p" "xi")]) = Some [("a", VRegex "p" "ix")].
Proof. exact decode_encode_needs_wf. Qed.
Print Assumptions C06_codec_normalisations.

(* Store followed by Load is the identity on catalogs: same handles, same
   documents in the same order, same index definitions (name, key, unique,
   partial, expiry), same change log (the namespace local.oplog) *)
Theorem C06_reload_identity_partial : forall build_ok nilp c,
  wf_catalog nilp c -> indexes_build build_ok c = true -> handles_ok c = true ->
  reload_g build_ok nilp c = Some c.
Proof. exact reload_identity_g. Qed.
Print Assumptions C06_reload_identity_partial.

Theorem C06_reload_same_namespaces : forall build_ok nilp c c',
  wf_catalog nilp c -> indexes_build build_ok c = true -> handles_ok c = true ->
  reload_g build_ok nilp c = Some c' ->
  forall h, lookup h c' = lookup h c.
Proof. exact reload_same_namespaces. Qed.
Print Assumptions C06_reload_same_namespaces.

(* the finding: database "a.b", collection "c" reloads as database "a",
   collection "b.c" *)
Theorem C06_reload_identity_refuted : exists c,
  wf_catalog (fun _ => false) c /\ indexes_build create_ok c = true /\
  handles_ok c = false /\
  exists c', reload c = Some c' /\ c' <> c /\ lookup ("a.b", "c") c' = None.
Proof. exact reload_identity_refuted. Qed.
Print Assumptions C06_reload_identity_refuted.

(* non-vacuity *)
Example C06_wf_doc_example :
  wf_doc [("_id", VOid "0123456789ab"); ("n", VNull); ("i", VInt32 (-1)); ("l", VInt64 9223372036854775807);
          ("f", VDouble 9221120237041090561); ("d", VDecimal 8646911284551352320 0); ("s", VString "a");
          ("D", VDoc [("", VArr [VArr []; VDoc []])]); ("b", VBin 2 "x"); ("b0", VBin 0 ""); ("t", VBool true);
          ("dt", VDate (-1)); ("ts", VTs 4294967295 0); ("r", VRegex "^a" "imsx")].
Proof. split; vm_compute; reflexivity. Qed.

Example C06_reload_identity_example :
  wf_catalog (fun k => String.eqb k "e.empty") sample_catalog /\
  indexes_build create_ok sample_catalog = true /\ handles_ok sample_catalog = true /\
  reload_g create_ok (fun k => String.eqb k "e.empty") sample_catalog = Some sample_catalog.
Proof. exact reload_identity_example. Qed.

(* ------------------------------------------------------------------ *)
(* Part 2: the database model (indexes with their entries) and histories *)

(* rebuilding every stored index with the REAL builder (mongokit.CreateIndex +
   Index.Build over the stored documents) succeeds for every catalog that
   satisfies the catalog invariant — hence for every reachable one *)
Theorem C06_indexes_build_real : forall matchf c n,
  cat_inv matchf c n -> indexes_build (build_ok_real matchf) (image c) = true.
Proof. exact indexes_build_image. Qed.
Print Assumptions C06_indexes_build_real.

(* BuildCatalog on the image: fresh collections, documents renumbered in
   order, CreateIndex + Build per definition — gives a catalog that is good
   again and EQUIVALENT to the original: same handles, same documents in the
   same order, same index names / definitions, and for every index the entry
   set is the image of the original entry set under the renumbering
   position-k identity |-> position-k identity (ReloadProofs.cat_equiv) *)
Theorem C06_load_equivalent : forall matchf c n,
  cat_inv matchf c n ->
  exists c', load matchf (cat_clock c) (image c) = Some c' /\
             cat_equiv c c' /\ cat_inv matchf c' (next_did (image c)).
Proof. exact load_image. Qed.
Print Assumptions C06_load_equivalent.

(* no database name of a reachable catalog contains a dot *)
Theorem C06_handles_ok_history : forall matchf applyf extractf projectf now calls,
  handles_ok (image (ds_cat (fst (run matchf applyf extractf projectf now d_init calls)))) = true.
Proof. exact handles_ok_history. Qed.
Print Assumptions C06_handles_ok_history.

(* after ANY history: the stored file loads back as the same image, with the
   real index builder; the rebuilt catalog is equivalent to the stored one *)
Theorem C06_reload_history : forall matchf applyf extractf projectf now calls nilp,
  let ds := fst (run matchf applyf extractf projectf now d_init calls) in
  storable_image nilp (ds_cat ds) ->
  indexes_build (build_ok_real matchf) (image (ds_cat ds)) = true /\
  handles_ok (image (ds_cat ds)) = true /\
  reload_g (build_ok_real matchf) nilp (image (ds_cat ds)) = Some (image (ds_cat ds)) /\
  exists c', load matchf (cat_clock (ds_cat ds)) (image (ds_cat ds)) = Some c' /\
             cat_equiv (ds_cat ds) c' /\
             cat_inv matchf c' (next_did (image (ds_cat ds))) /\
             reopen matchf nilp ds =
               Some (mkD c' (mkGen (next_did (image (ds_cat ds))) (g_oid (ds_gen ds))) []).
Proof. exact reload_history. Qed.
Print Assumptions C06_reload_history.

(* the simulation: two driver states related by `dsim` (same handles,
   documents, index definitions, change log, clock, ObjectID counter and
   sessions; both satisfy the invariants; identities and entry order free)
   give the same reply to EVERY call and stay related *)
Theorem C06_step_simulation : forall matchf applyf extractf projectf now d1 d2 c,
  dsim matchf d1 d2 ->
  snd (step matchf applyf extractf projectf now d1 c) =
  snd (step matchf applyf extractf projectf now d2 c) /\
  dsim matchf (fst (step matchf applyf extractf projectf now d1 c))
              (fst (step matchf applyf extractf projectf now d2 c)).
Proof. exact step_sim. Qed.
Print Assumptions C06_step_simulation.

(* "... and answers every later call identically": after any history, the
   reopened engine and the original (without its client sessions) give the
   same replies to every continuation, and stay related *)
Theorem C06_reload_continuation : forall matchf applyf extractf projectf now calls nilp more,
  let ds := fst (run matchf applyf extractf projectf now d_init calls) in
  storable_image nilp (ds_cat ds) ->
  exists ds', reopen matchf nilp ds = Some ds' /\ cat_equiv (ds_cat ds) (ds_cat ds') /\
              snd (run matchf applyf extractf projectf now ds' more) =
              snd (run matchf applyf extractf projectf now (forget_sessions ds) more) /\
              dsim matchf (fst (run matchf applyf extractf projectf now (forget_sessions ds) more))
                          (fst (run matchf applyf extractf projectf now ds' more)).
Proof. exact reload_continuation. Qed.
Print Assumptions C06_reload_continuation.

(* for histories without explicit session control calls the original engine
   itself is the reference *)
Theorem C06_reload_continuation_plain : forall matchf applyf extractf projectf now calls nilp more,
  let ds := fst (run matchf applyf extractf projectf now d_init calls) in
  Forall plain_call calls -> storable_image nilp (ds_cat ds) ->
  exists ds', reopen matchf nilp ds = Some ds' /\ cat_equiv (ds_cat ds) (ds_cat ds') /\
              snd (run matchf applyf extractf projectf now ds' more) =
              snd (run matchf applyf extractf projectf now ds more).
Proof. exact reload_continuation_plain. Qed.
Print Assumptions C06_reload_continuation_plain.

(* non-vacuity (full operator models, by computation): unique + TTL index,
   identities 1, 7 / 2, 4, 6, 8, 9 before and 6, 7 / 1..5 after the reload,
   the entry sets renumbered accordingly, and a continuation with duplicate
   probes, a TTL pass, an oplog read and a session transaction answered alike *)
Example C06_reload_example :
  Forall plain_call ex_history /\
  storable_image ex_nilp (ds_cat ex_ds) /\
  entries_of (ds_cat ex_ds) =
    [ (Txn.oplog_handle, [2; 4; 6; 8; 9], []);
      (ex_h, [1; 7], [ ("_id_", [([VInt32 1], 1); ([VInt32 2], 7)]);
                       ("u_1", [([VInt32 5], 1); ([VInt32 8], 7)]);
                       ("t_1", [([VDate 0], 1); ([VMissing], 7)]) ]) ] /\
  option_map (fun d => (ds_gen d, entries_of (ds_cat d))) (reopen api_match ex_nilp ex_ds) =
    Some (mkGen 8 1,
          [ (Txn.oplog_handle, [1; 2; 3; 4; 5], []);
            (ex_h, [6; 7], [ ("_id_", [([VInt32 1], 6); ([VInt32 2], 7)]);
                             ("u_1", [([VInt32 5], 6); ([VInt32 8], 7)]);
                             ("t_1", [([VDate 0], 6); ([VMissing], 7)]) ]) ]) /\
  option_map (fun d => snd (ex_run d ex_more)) (reopen api_match ex_nilp ex_ds) = Some ex_replies /\
  snd (ex_run ex_ds ex_more) = ex_replies.
Proof. exact reload_example. Qed.

(* the equivalence is needed: same image, but the unique index built over
   half of the documents — the duplicate probe is accepted *)
Example C06_broken_index_differs :
  image (ds_cat ex_broken) = image (ds_cat ex_ds) /\
  firstn 1 (snd (ex_run ex_broken ex_more)) = [RId (VInt32 9)] /\
  firstn 1 (snd (ex_run ex_ds ex_more)) = [RErr EDup].
Proof. exact broken_index_differs. Qed.

(* sessions do not survive a reload: why `forget_sessions` *)
Example C06_sessions_do_not_survive :
  let ds := fst (ex_run d_init (ex_history ++ [CStart 1])) in
  let probe := [CInsertOne 0 ex_h [("_id", VInt32 9); ("u", VInt32 0)]] in
  snd (ex_run ds probe) = [RErr EErr] /\
  option_map (fun d => snd (ex_run d probe)) (reopen api_match ex_nilp ds) = Some [RId (VInt32 9)] /\
  snd (ex_run (forget_sessions ds) probe) = [RId (VInt32 9)].
Proof. exact sessions_do_not_survive. Qed.
