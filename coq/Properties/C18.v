(* C18 — GridFS returns the bytes that were uploaded, at any offset.
   Theorems about the executable model Model/Gridfs.v of /repo/bucket.go, for
   ALL contents, chunk sizes 0 < cs <= B (B the upload buffer size), write
   partitions, suspend/resume points and download scripts.  Only statements
   closed by `exact`, with Print Assumptions.  The guards are needed: the
   `_refuted` theorems show the unrestricted statements false of the faithful
   model (chunk size <= 0 panics, chunk size > buffer hangs, unknown whence). *)
From Coq Require Import List ZArith.
From Lungo.Model Require Import Gridfs.
From Lungo.Proofs Require Import GridfsProofs.
Import ListNotations.
Open Scope Z_scope.

(* Closing after any sequence of writes stores chunks whose concatenation is
   the concatenation of the writes, numbered 0..n-1, all of file f, all but
   the last of length cs, the last non-empty; the file record states the exact
   length and chunk size (in a tracked bucket: after ClaimUpload); the file
   records and chunks of other files are untouched. *)
Theorem C18_upload_concat_partial : forall c f cs parts st0,
  0 < cs <= cfg_B c -> fresh st0 f -> ids_fresh st0 ->
  exists st, upload_run c st0 f cs parts = Some st /\
             stored_as_stated st f cs (concat parts) /\ OtherSame f st0 st.
Proof. exact upload_concat_partial. Qed.
Print Assumptions C18_upload_concat_partial.

(* ... and the stored chunk list is the canonical chunking of the content *)
Theorem C18_upload_canonical : forall c f cs parts st0,
  0 < cs <= cfg_B c -> fresh st0 f -> ids_fresh st0 ->
  exists st, upload_run c st0 f cs parts = Some st /\
             Stored c f cs (concat parts) st /\ OtherSame f st0 st.
Proof. exact upload_canonical. Qed.
Print Assumptions C18_upload_canonical.

(* Suspending at any points (Suspend; new stream; Resume; continue from the
   reported offset) ends in the same stored state as the uninterrupted upload. *)
Theorem C18_suspend_resume_partial : forall c f cs content script st0,
  0 < cs <= cfg_B c -> script_ok c script -> fresh st0 f -> ids_fresh st0 ->
  exists st st',
    client_upload c st0 f cs content script = Some st /\
    upload_run c st0 f cs [content] = Some st' /\
    find_chunks st f = find_chunks st' f /\ find_file st f = find_file st' f /\
    stored_as_stated st f cs content /\ OtherSame f st0 st.
Proof. exact suspend_resume_partial. Qed.
Print Assumptions C18_suspend_resume_partial.

(* Any script of Read n / Seek off whence / Skip n on the download stream of a
   stored file = the same script on an in-memory reader of the content: bytes,
   returned positions, errors on negative positions, EOF behaviour (incl.
   zero-length reads and seeks beyond the end), and the final position. *)
Theorem C18_download_equiv_partial : forall st f cs content script,
  wf_file st f cs content -> Forall valid_op script ->
  exists d, dopen st f = DOpened d /\
            fst (run_download st d script) = fst (run_reader (bytes_reader content) script) /\
            d_pos (snd (run_download st d script)) = br_pos (snd (run_reader (bytes_reader content) script)).
Proof. exact download_equiv_partial. Qed.
Print Assumptions C18_download_equiv_partial.

(* End to end: upload with any partition and suspensions, then any script. *)
Theorem C18_roundtrip : forall c f cs content uscript st0 dscript,
  0 < cs <= cfg_B c -> script_ok c uscript -> fresh st0 f -> ids_fresh st0 -> Forall valid_op dscript ->
  exists st d,
    client_upload c st0 f cs content uscript = Some st /\ dopen st f = DOpened d /\
    fst (run_download st d dscript) = fst (run_reader (bytes_reader content) dscript).
Proof. exact roundtrip. Qed.
Print Assumptions C18_roundtrip.

(* An upload aborted at any point leaves no chunk, no file record and (tracked)
   no marker of the file; other files are untouched. *)
Theorem C18_abort_leaves_nothing : forall c f cs content script st0,
  0 < cs <= cfg_B c -> script_ok c script -> fresh st0 f -> ids_fresh st0 ->
  exists st, client_abort c st0 f cs content script = Some st /\
             no_chunks st f /\ no_file st f /\ (cfg_tracked c = true -> no_marker st f) /\
             OtherSame f st0 st.
Proof. exact abort_leaves_nothing. Qed.
Print Assumptions C18_abort_leaves_nothing.

(* A deleted file leaves nothing behind: untracked bucket ... *)
Theorem C18_delete_leaves_nothing : forall c f cs parts st0,
  0 < cs <= cfg_B c -> cfg_tracked c = false -> fresh st0 f -> ids_fresh st0 ->
  exists st st',
    upload_run c st0 f cs parts = Some st /\ delete c st f = (st', UOk) /\
    no_chunks st' f /\ no_file st' f /\ dopen st' f = DOpenErr ENotFound /\ OtherSame f st0 st'.
Proof. exact delete_leaves_nothing. Qed.
Print Assumptions C18_delete_leaves_nothing.

(* ... and tracked bucket (Delete marks, Cleanup removes); files without a
   marker are untouched by the cleanup. *)
Theorem C18_delete_cleanup_leaves_nothing : forall c f cs parts st0,
  0 < cs <= cfg_B c -> cfg_tracked c = true -> fresh st0 f -> ids_fresh st0 ->
  exists st st',
    upload_run c st0 f cs parts = Some st /\ delete_cleanup c st f = Some st' /\
    no_chunks st' f /\ no_file st' f /\ no_marker st' f /\ dopen st' f = DOpenErr ENotFound /\
    (forall g, no_marker st g -> g <> f ->
       filter (is_file g) (s_chunks st') = filter (is_file g) (s_chunks st) /\
       filter (fun r => f_id r =? g) (s_files st') = filter (fun r => f_id r =? g) (s_files st)).
Proof. exact delete_cleanup_leaves_nothing. Qed.
Print Assumptions C18_delete_cleanup_leaves_nothing.

(* The guards cannot be dropped (findings about lungo, see DESIGN.md 7.18). *)
Theorem C18_upload_concat_refuted_zero_chunk_size :
  exists c data,
    fresh empty_store 1 /\ ids_fresh empty_store /\
    upload_run c empty_store 1 0 [data] = None /\
    (let '(st, u, _) := write c empty_store (new_upload 1 0) data in snd (close c st u)) = UPanic.
Proof. exact upload_concat_refuted_zero_chunk_size. Qed.
Print Assumptions C18_upload_concat_refuted_zero_chunk_size.

Theorem C18_upload_concat_refuted_negative_chunk_size :
  exists c data,
    upload_run c empty_store 1 (-1) [data] = None /\
    (let '(st, u, _) := write c empty_store (new_upload 1 (-1)) data in snd (close c st u)) = UPanic.
Proof. exact upload_concat_refuted_negative_chunk_size. Qed.
Print Assumptions C18_upload_concat_refuted_negative_chunk_size.

Theorem C18_upload_concat_refuted_nonpositive_empty :
  exists c st,
    upload_run c empty_store 1 (-1) [] = Some st /\ dopen st 1 = DOpenErr EOther.
Proof. exact upload_concat_refuted_nonpositive_empty. Qed.
Print Assumptions C18_upload_concat_refuted_nonpositive_empty.

Theorem C18_upload_concat_refuted_chunk_size_over_buffer :
  exists c cs data,
    cs > cfg_B c /\
    snd (write c empty_store (new_upload 1 cs) data) = NHang /\
    upload_run c empty_store 1 cs [data] = None.
Proof. exact upload_concat_refuted_chunk_size_over_buffer. Qed.
Print Assumptions C18_upload_concat_refuted_chunk_size_over_buffer.

(* with a full buffer and cs > B one iteration of Write's loop changes nothing *)
Theorem C18_write_no_progress : forall c st u,
  cfg_B c < u_cs u -> zlen (u_buf u) = cfg_B c -> 0 < cfg_B c ->
  (cfg_tracked c = true -> u_marker u <> None) ->
  upload c false st u = (st, u, UOk).
Proof. exact write_no_progress. Qed.
Print Assumptions C18_write_no_progress.

Theorem C18_download_equiv_refuted_whence :
  exists st f cs content script d,
    wf_file st f cs content /\ dopen st f = DOpened d /\
    fst (run_download st d script) <> fst (run_reader (bytes_reader content) script).
Proof. exact download_equiv_refuted_whence. Qed.
Print Assumptions C18_download_equiv_refuted_whence.

(* non-vacuity: the hypotheses are satisfiable, the runs compute *)
Example C18_upload_example :
  let c := mkCfg 4 true in
  fresh empty_store 7 /\ ids_fresh empty_store /\ 0 < 3 <= cfg_B c /\
  exists st,
    upload_run c empty_store 7 3 [[1; 2]; [3; 4; 5; 6; 7]; []; [8]] = Some st /\
    find_chunks st 7 = [mkChunk 7 0 [1; 2; 3]; mkChunk 7 1 [4; 5; 6]; mkChunk 7 2 [7; 8]] /\
    find_file st 7 = Some (mkFile 7 8 3).
Proof. exact upload_example. Qed.

Example C18_suspend_resume_example :
  let c := mkCfg 4 true in
  let content := [1; 2; 3; 4; 5; 6; 7; 8] in
  let script := [CSuspendResume; CWrite 2; CSuspendResume; CWrite 5; CSuspendResume; CWrite 1] in
  script_ok c script /\
  exists st,
    client_upload c empty_store 7 3 content script = Some st /\
    find_chunks st 7 = [mkChunk 7 0 [1; 2; 3]; mkChunk 7 1 [4; 5; 6]; mkChunk 7 2 [7; 8]] /\
    find_file st 7 = Some (mkFile 7 8 3).
Proof. exact suspend_resume_example. Qed.

Example C18_download_example :
  let st := mkStore [mkChunk 7 0 [1; 2; 3]; mkChunk 7 1 [4; 5; 6]; mkChunk 7 2 [7; 8]] [mkFile 7 8 3] [] 0 in
  let script := [DRead 2; DRead 0; DSkip 2; DRead 9; DRead 1; DSeek (-3) 2; DRead 1; DSeek (-9) 2;
                 DSeek 20 0; DRead 0; DSeek 3 0; DRead 4] in
  wf_file st 7 3 [1; 2; 3; 4; 5; 6; 7; 8] /\ Forall valid_op script /\
  exists d, dopen st 7 = DOpened d /\
    fst (run_download st d script) =
      [ORead [1; 2] None; ORead [] None; OPos 4; ORead [5; 6; 7; 8] None; ORead [] (Some EEOF);
       OPos 5; ORead [6] None; OErr ENeg; OPos 20; ORead [] (Some EEOF); OPos 3; ORead [4; 5; 6; 7] None].
Proof. exact download_example. Qed.

Example C18_abort_example :
  let c := mkCfg 4 true in
  exists st,
    client_abort c empty_store 7 3 [1; 2; 3; 4; 5; 6; 7; 8] [CWrite 5; CSuspendResume; CWrite 4] = Some st /\
    s_chunks st = [] /\ s_markers st = [] /\ s_files st = [].
Proof. exact abort_example. Qed.

Example C18_delete_example :
  exists st st' st'',
    upload_run (mkCfg 4 false) empty_store 7 3 [[1; 2; 3; 4; 5]] = Some st /\
    delete (mkCfg 4 false) st 7 = (st', UOk) /\ s_chunks st' = [] /\
    upload_run (mkCfg 4 true) empty_store 7 3 [[1; 2; 3; 4; 5]] = Some st'' /\
    exists st3, delete_cleanup (mkCfg 4 true) st'' 7 = Some st3 /\
                s_chunks st3 = [] /\ s_files st3 = [] /\ s_markers st3 = [].
Proof. exact delete_example. Qed.
