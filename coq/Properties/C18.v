(* C18 — GridFS returns the bytes that were uploaded, at any offset.
   Theorems about the executable model Model/Gridfs.v of /repo/bucket.go, for
   ALL contents, write partitions, suspend/resume points, download scripts and
   every chunk size with which an upload stream can be opened.  Only statements
   closed by `exact`, with Print Assumptions. *)
From Coq Require Import List ZArith.
From Lungo.Model Require Import Gridfs.
From Lungo.Proofs Require Import GridfsProofs.
Import ListNotations.
Open Scope Z_scope.

(* OpenUploadStreamWithID succeeds exactly for 0 < chunk size <= upload buffer *)
Theorem C18_open_ok : forall c f cs u,
  open_upload c f cs = Some u -> 0 < cs <= cfg_B c /\ u = new_upload f cs.
Proof. exact open_ok. Qed.
Print Assumptions C18_open_ok.

Theorem C18_open_rejects_bad_chunk_size : forall c f cs,
  cs <= 0 \/ cs > cfg_B c -> open_upload c f cs = None.
Proof. exact open_rejects_bad_chunk_size. Qed.
Print Assumptions C18_open_rejects_bad_chunk_size.

(* Closing after any sequence of writes stores chunks whose concatenation is
   the concatenation of the writes, numbered 0..n-1, all of file f, all but
   the last of length cs, the last non-empty; the file record states the exact
   length and chunk size (in a tracked bucket: after ClaimUpload); the file
   records and chunks of other files are untouched. *)
Theorem C18_upload_concat : forall c f cs parts st0 u0,
  open_upload c f cs = Some u0 -> fresh st0 f -> ids_fresh st0 ->
  exists st, upload_run c st0 f cs parts = Some st /\
             stored_as_stated st f cs (concat parts) /\ OtherSame f st0 st.
Proof. exact upload_concat. Qed.
Print Assumptions C18_upload_concat.

(* ... and the stored chunk list is the canonical chunking of the content *)
Theorem C18_upload_canonical : forall c f cs parts st0 u0,
  open_upload c f cs = Some u0 -> fresh st0 f -> ids_fresh st0 ->
  exists st, upload_run c st0 f cs parts = Some st /\
             Stored c f cs (concat parts) st /\ OtherSame f st0 st.
Proof. exact upload_canonical. Qed.
Print Assumptions C18_upload_canonical.

(* no guard at all: refused at open (nothing stored) or stored exactly *)
Theorem C18_upload_total : forall c f cs parts st0,
  fresh st0 f -> ids_fresh st0 ->
  (open_upload c f cs = None /\ (cs <= 0 \/ cs > cfg_B c) /\ upload_run c st0 f cs parts = None) \/
  (exists st, upload_run c st0 f cs parts = Some st /\
              stored_as_stated st f cs (concat parts) /\ OtherSame f st0 st).
Proof. exact upload_total. Qed.
Print Assumptions C18_upload_total.

(* Suspending at any points (Suspend; new stream; Resume; continue from the
   reported offset) ends in the same stored state as the uninterrupted upload. *)
Theorem C18_suspend_resume : forall c f cs content script st0 u0,
  open_upload c f cs = Some u0 -> script_ok c script -> fresh st0 f -> ids_fresh st0 ->
  exists st st',
    client_upload c st0 f cs content script = Some st /\
    upload_run c st0 f cs [content] = Some st' /\
    find_chunks st f = find_chunks st' f /\ find_file st f = find_file st' f /\
    stored_as_stated st f cs content /\ OtherSame f st0 st.
Proof. exact suspend_resume. Qed.
Print Assumptions C18_suspend_resume.

(* ANY script of Read n / Seek off whence / Skip n on the download stream of a
   stored file = the same script on an in-memory reader of the content: bytes,
   returned positions, errors (negative position, unknown whence), EOF
   behaviour (incl. zero-length reads and seeks beyond the end), and the final
   position. *)
Theorem C18_download_equiv : forall st f cs content script,
  wf_file st f cs content ->
  exists d, dopen st f = DOpened d /\
            fst (run_download st d script) = fst (run_reader (bytes_reader content) script) /\
            d_pos (snd (run_download st d script)) = br_pos (snd (run_reader (bytes_reader content) script)).
Proof. exact download_equiv. Qed.
Print Assumptions C18_download_equiv.

Theorem C18_seek_rejects_unknown_whence : forall st d offset whence,
  d_closed d = false -> ~ valid_whence whence ->
  dseek_whence st d offset whence = (d, PErr EOther).
Proof. exact seek_rejects_unknown_whence. Qed.
Print Assumptions C18_seek_rejects_unknown_whence.

(* End to end: upload with any partition and suspensions, then any script. *)
Theorem C18_roundtrip : forall c f cs content uscript st0 u0 dscript,
  open_upload c f cs = Some u0 -> script_ok c uscript -> fresh st0 f -> ids_fresh st0 ->
  exists st d,
    client_upload c st0 f cs content uscript = Some st /\ dopen st f = DOpened d /\
    fst (run_download st d dscript) = fst (run_reader (bytes_reader content) dscript).
Proof. exact roundtrip. Qed.
Print Assumptions C18_roundtrip.

(* An upload aborted at any point leaves no chunk, no file record and (tracked)
   no marker of the file; other files are untouched. *)
Theorem C18_abort_leaves_nothing : forall c f cs content script st0 u0,
  open_upload c f cs = Some u0 -> script_ok c script -> fresh st0 f -> ids_fresh st0 ->
  exists st, client_abort c st0 f cs content script = Some st /\
             no_chunks st f /\ no_file st f /\ (cfg_tracked c = true -> no_marker st f) /\
             OtherSame f st0 st.
Proof. exact abort_leaves_nothing. Qed.
Print Assumptions C18_abort_leaves_nothing.

(* A deleted file leaves nothing behind: untracked bucket ... *)
Theorem C18_delete_leaves_nothing : forall c f cs parts st0 u0,
  open_upload c f cs = Some u0 -> cfg_tracked c = false -> fresh st0 f -> ids_fresh st0 ->
  exists st st',
    upload_run c st0 f cs parts = Some st /\ delete c st f = (st', UOk) /\
    no_chunks st' f /\ no_file st' f /\ dopen st' f = DOpenErr ENotFound /\ OtherSame f st0 st'.
Proof. exact delete_leaves_nothing. Qed.
Print Assumptions C18_delete_leaves_nothing.

(* ... and tracked bucket (Delete marks, Cleanup removes); files without a
   marker are untouched by the cleanup. *)
Theorem C18_delete_cleanup_leaves_nothing : forall c f cs parts st0 u0,
  open_upload c f cs = Some u0 -> cfg_tracked c = true -> fresh st0 f -> ids_fresh st0 ->
  exists st st',
    upload_run c st0 f cs parts = Some st /\ delete_cleanup c st f = Some st' /\
    no_chunks st' f /\ no_file st' f /\ no_marker st' f /\ dopen st' f = DOpenErr ENotFound /\
    (forall g, no_marker st g -> g <> f ->
       filter (is_file g) (s_chunks st') = filter (is_file g) (s_chunks st) /\
       filter (fun r => f_id r =? g) (s_files st') = filter (fun r => f_id r =? g) (s_files st)).
Proof. exact delete_cleanup_leaves_nothing. Qed.
Print Assumptions C18_delete_cleanup_leaves_nothing.

(* What the validation at open protects from (lungo before fix ae31d98): the
   same runs on a stream that did not come from open_upload. *)
Theorem C18_unguarded_zero_chunk_size_panics :
  exists c data,
    open_upload c 1 0 = None /\
    upload_from c empty_store (new_upload 1 0) [data] = None /\
    (let '(st, u, _) := write c empty_store (new_upload 1 0) data in snd (close c st u)) = UPanic.
Proof. exact unguarded_zero_chunk_size_panics. Qed.
Print Assumptions C18_unguarded_zero_chunk_size_panics.

Theorem C18_unguarded_negative_chunk_size_panics :
  exists c data,
    open_upload c 1 (-1) = None /\
    upload_from c empty_store (new_upload 1 (-1)) [data] = None /\
    (let '(st, u, _) := write c empty_store (new_upload 1 (-1)) data in snd (close c st u)) = UPanic.
Proof. exact unguarded_negative_chunk_size_panics. Qed.
Print Assumptions C18_unguarded_negative_chunk_size_panics.

Theorem C18_unguarded_nonpositive_empty_unreadable :
  exists c st,
    open_upload c 1 (-1) = None /\
    upload_from c empty_store (new_upload 1 (-1)) [] = Some st /\ dopen st 1 = DOpenErr EOther.
Proof. exact unguarded_nonpositive_empty_unreadable. Qed.
Print Assumptions C18_unguarded_nonpositive_empty_unreadable.

Theorem C18_unguarded_chunk_size_over_buffer_hangs :
  exists c cs data,
    cs > cfg_B c /\ open_upload c 1 cs = None /\
    snd (write c empty_store (new_upload 1 cs) data) = NHang /\
    upload_from c empty_store (new_upload 1 cs) [data] = None.
Proof. exact unguarded_chunk_size_over_buffer_hangs. Qed.
Print Assumptions C18_unguarded_chunk_size_over_buffer_hangs.

(* with a full buffer and cs > B one iteration of Write's loop changes nothing *)
Theorem C18_write_no_progress : forall c st u,
  cfg_B c < u_cs u -> zlen (u_buf u) = cfg_B c -> 0 < cfg_B c ->
  (cfg_tracked c = true -> u_marker u <> None) ->
  upload c false st u = (st, u, UOk).
Proof. exact write_no_progress. Qed.
Print Assumptions C18_write_no_progress.

(* non-vacuity: the hypotheses are satisfiable, the runs compute *)
Example C18_upload_example :
  let c := mkCfg 4 true in
  fresh empty_store 7 /\ ids_fresh empty_store /\ open_upload c 7 3 = Some (new_upload 7 3) /\
  exists st,
    upload_run c empty_store 7 3 [[1; 2]; [3; 4; 5; 6; 7]; []; [8]] = Some st /\
    find_chunks st 7 = [mkChunk 7 0 [1; 2; 3]; mkChunk 7 1 [4; 5; 6]; mkChunk 7 2 [7; 8]] /\
    find_file st 7 = Some (mkFile 7 8 3).
Proof. exact upload_example. Qed.

Example C18_suspend_resume_example :
  let c := mkCfg 4 true in
  let content := [1; 2; 3; 4; 5; 6; 7; 8] in
  let script := [CSuspendResume; CWrite 2; CSuspendResume; CWrite 5; CSuspendResume; CWrite 1] in
  script_ok c script /\
  exists st,
    client_upload c empty_store 7 3 content script = Some st /\
    find_chunks st 7 = [mkChunk 7 0 [1; 2; 3]; mkChunk 7 1 [4; 5; 6]; mkChunk 7 2 [7; 8]] /\
    find_file st 7 = Some (mkFile 7 8 3).
Proof. exact suspend_resume_example. Qed.

Example C18_download_example :
  let st := mkStore [mkChunk 7 0 [1; 2; 3]; mkChunk 7 1 [4; 5; 6]; mkChunk 7 2 [7; 8]] [mkFile 7 8 3] [] 0 in
  let script := [DRead 2; DRead 0; DSkip 2; DRead 9; DRead 1; DSeek (-3) 2; DRead 1; DSeek (-9) 2;
                 DSeek 20 0; DRead 0; DSeek 3 0; DSeek 1 3; DRead 4] in
  wf_file st 7 3 [1; 2; 3; 4; 5; 6; 7; 8] /\
  exists d, dopen st 7 = DOpened d /\
    fst (run_download st d script) =
      [ORead [1; 2] None; ORead [] None; OPos 4; ORead [5; 6; 7; 8] None; ORead [] (Some EEOF);
       OPos 5; ORead [6] None; OErr ENeg; OPos 20; ORead [] (Some EEOF); OPos 3; OErr EOther;
       ORead [4; 5; 6; 7] None].
Proof. exact download_example. Qed.

Example C18_abort_example :
  let c := mkCfg 4 true in
  exists st,
    client_abort c empty_store 7 3 [1; 2; 3; 4; 5; 6; 7; 8] [CWrite 5; CSuspendResume; CWrite 4] = Some st /\
    s_chunks st = [] /\ s_markers st = [] /\ s_files st = [].
Proof. exact abort_example. Qed.

Example C18_delete_example :
  exists st st' st'',
    upload_run (mkCfg 4 false) empty_store 7 3 [[1; 2; 3; 4; 5]] = Some st /\
    delete (mkCfg 4 false) st 7 = (st', UOk) /\ s_chunks st' = [] /\
    upload_run (mkCfg 4 true) empty_store 7 3 [[1; 2; 3; 4; 5]] = Some st'' /\
    exists st3, delete_cleanup (mkCfg 4 true) st'' 7 = Some st3 /\
                s_chunks st3 = [] /\ s_files st3 = [] /\ s_markers st3 = [].
Proof. exact delete_example. Qed.
