(* C12 — BSON value comparison is a total order consistent with the MongoDB
   type order.  Only statements closed by `exact`, with Print Assumptions. *)
From Coq Require Import List ZArith QArith String.
From Lungo.Model Require Import Compare.
From Lungo.Gen Require Import Inspect.
From Lungo.Proofs Require Import OrderLaws CompareOrder GenInspect.
Import ListNotations.

(* reflexive *)
Theorem C12_reflexive : forall a, compare a a = Eq.
Proof. exact compare_refl. Qed.
Print Assumptions C12_reflexive.

(* antisymmetric: swapping the arguments flips the sign *)
Theorem C12_antisymmetric : forall a b, compare b a = CompOpp (compare a b).
Proof. exact compare_antisym. Qed.
Print Assumptions C12_antisymmetric.

(* transitive *)
Theorem C12_transitive : forall a b c,
  compare a b <> Gt -> compare b c <> Gt -> compare a c <> Gt.
Proof. exact compare_trans. Qed.
Print Assumptions C12_transitive.

Theorem C12_strict_transitive : forall a b c,
  compare a b = Lt -> compare b c = Lt -> compare a c = Lt.
Proof. exact compare_lt_trans. Qed.
Print Assumptions C12_strict_transitive.

(* values that compare equal are interchangeable in every comparison *)
Theorem C12_equal_interchangeable : forall a b, compare a b = Eq ->
  forall c, compare a c = compare b c /\ compare c a = compare c b.
Proof. exact compare_eq_interchangeable. Qed.
Print Assumptions C12_equal_interchangeable.

(* values of different type classes are ordered by the class rank ... *)
Theorem C12_class_order : forall a b, class_of a <> class_of b ->
  compare a b = Z.compare (class_rank (class_of a)) (class_rank (class_of b)).
Proof. exact compare_class. Qed.
Print Assumptions C12_class_order.

(* ... and the ranks are the MongoDB order, as declared in /repo's inspect.go *)
Theorem C12_rank_is_mongo_order :
  forall c, nth_error mongo_order (Z.to_nat (class_rank c)) = Some c.
Proof. exact class_rank_is_mongo_order. Qed.
Print Assumptions C12_rank_is_mongo_order.

Theorem C12_source_class_order : gen_class_order = map class_name mongo_order.
Proof. exact gen_class_order_ok. Qed.
Print Assumptions C12_source_class_order.

Theorem C12_source_inspect_table : gen_inspect_table = model_inspect_table.
Proof. exact gen_inspect_table_ok. Qed.
Print Assumptions C12_source_inspect_table.

(* numbers of all four numeric types: exact mathematical value, NaN lowest *)
Theorem C12_numbers_exact : forall a b x y,
  numval a = Some x -> numval b = Some y -> compare a b = xcompare x y.
Proof. exact compare_num_exact. Qed.
Print Assumptions C12_numbers_exact.

(* non-vacuity: concrete values of every numeric type meet the hypotheses *)
Example C12_numbers_example :
  compare (VInt64 1152921504606846976) (VDouble 4877398396442247168) = Eq /\
  compare (VDouble 4877398396442247168) (VDecimal 3476778912330022912 1152921504606846977) = Lt /\
  compare (VDecimal 8646911284551352320 0) (VInt32 5) = Gt /\
  compare (VDouble 9221120237041090560) (VDecimal 8935141660703064064 0) = Eq.
Proof. vm_compute. repeat split. Qed.
