(* C11 — update operators transform documents as MongoDB's update semantics
   define.  Only statements closed by `exact`, with Print Assumptions, and
   non-vacuity Examples.  `Apply` is the model of mongokit.Apply instantiated
   with the query matcher; every theorem below holds for any matcher.

   Partial (names end in _partial) or refuted (…_refuted) clauses are the ones
   the faithful model of lungo does not satisfy in full; see DESIGN.md 7.11/9. *)
From Coq Require Import List ZArith QArith String Permutation Sorted.
From Lungo.Model Require Import Apply.
From Lungo.Gen Require Import UpdateOps.
From Lungo.Spec Require Import RefUpdate.
From Lungo.Proofs Require Import AccessAlgebra ApplyProofs ArithProofs GenUpdateOps RefUpdateProofs ChangesFaithful.
Import ListNotations.
Open Scope string_scope.
Open Scope Z_scope.

(* ------------------------------------------------------------------ *)
(* the operator tables are the ones registered in /repo's source *)

Theorem C11_source_update_ops : forall m upsert now, gen_update_ops = model_update_ops m upsert now.
Proof. exact gen_update_ops_ok. Qed.
Print Assumptions C11_source_update_ops.

Theorem C11_source_extract_top : gen_extract_top = extract_top.
Proof. exact gen_extract_top_ok. Qed.
Print Assumptions C11_source_extract_top.

Theorem C11_source_extract_expr : gen_extract_expr = extract_expr.
Proof. exact gen_extract_expr_ok. Qed.
Print Assumptions C11_source_extract_expr.

(* ------------------------------------------------------------------ *)
(* access algebra: untouched fields keep value and position *)

(* what Put wrote is what Get reads (index segments in canonical form: Put
   reads them with Atoi, Get with ParseIndex) *)
Theorem C11_get_put_same : forall d ps v pre old d',
  canon_path (split_path ps) -> Put d ps v pre = Ok (old, d') -> Get d' ps = v.
Proof. exact (fun d ps => get_put_same d (split_path ps)). Qed.
Print Assumptions C11_get_put_same.

(* a write leaves every readable value at a disjoint path alone *)
Theorem C11_get_put_frame : forall d ps qs v pre old d',
  disjoint (split_path ps) (split_path qs) -> Put d ps v pre = Ok (old, d') ->
  Get d qs <> VMissing -> Get d' qs = Get d qs.
Proof. exact (fun d ps qs => get_put_frame d (split_path ps) (split_path qs)). Qed.
Print Assumptions C11_get_put_frame.

(* where nothing was readable, nothing appears except the null padding of an
   array extended up to a new index *)
Theorem C11_get_put_frame_missing : forall d ps qs v pre old d',
  disjoint (split_path ps) (split_path qs) -> Put d ps v pre = Ok (old, d') ->
  Get d qs = VMissing -> Get d' qs = VMissing \/ Get d' qs = VNull.
Proof. exact (fun d ps qs => get_put_frame_missing d (split_path ps) (split_path qs)). Qed.
Print Assumptions C11_get_put_frame_missing.

(* along field paths (no index segments) the frame is unconditional *)
Theorem C11_get_put_frame_field : forall d ps qs v pre old d',
  field_path (split_path ps) -> disjoint (split_path ps) (split_path qs) ->
  Put d ps v pre = Ok (old, d') -> Get d' qs = Get d qs.
Proof. exact (fun d ps qs => get_put_frame_field d (split_path ps) (split_path qs)). Qed.
Print Assumptions C11_get_put_frame_field.

(* existing top-level keys keep their position, a new key is appended *)
Theorem C11_put_preserves_order : forall d key rest v old d',
  put_path d (key :: rest) v false = Ok (old, d') ->
  (lookup d key <> None /\ map fst d' = map fst d) \/
  (lookup d key = None /\ map fst d' = (map fst d ++ [key])%list).
Proof. exact put_preserves_order. Qed.
Print Assumptions C11_put_preserves_order.

(* every other top-level field keeps position and value *)
Theorem C11_put_other_fields : forall d key rest v old d' n k x,
  put_path d (key :: rest) v false = Ok (old, d') ->
  nth_error d n = Some (k, x) -> k <> key -> nth_error d' n = Some (k, x).
Proof. exact put_other_fields. Qed.
Print Assumptions C11_put_other_fields.

Theorem C11_put_put_same : forall d ps v pre old d1,
  Put d ps v pre = Ok (old, d1) -> Put d1 ps v pre = Ok (v, d1).
Proof. exact (fun d ps => put_put_same d (split_path ps)). Qed.
Print Assumptions C11_put_put_same.

(* after Unset the path reads Missing (field removed) or null (array slot nulled) *)
Theorem C11_unset_get : forall d ps old d',
  uniq_keys (VDoc d) -> Unset d ps = (old, d') -> Get d' ps = VMissing \/ Get d' ps = VNull.
Proof. exact (fun d ps old d' U => unset_get d (split_path ps) old d' U (split_path_nonempty ps)). Qed.
Print Assumptions C11_unset_get.

Theorem C11_unset_frame : forall d ps qs old d',
  disjoint (split_path ps) (split_path qs) -> Unset d ps = (old, d') -> Get d' qs = Get d qs.
Proof. exact (fun d ps qs => unset_frame d (split_path ps) (split_path qs)). Qed.
Print Assumptions C11_unset_frame.

(* disjoint really means: neither path is a prefix of the other *)
Theorem C11_disjoint_not_prefix : forall p q, disjoint p q -> ~ is_prefix p q /\ ~ is_prefix q p.
Proof. exact disjoint_not_prefix. Qed.
Print Assumptions C11_disjoint_not_prefix.

(* ------------------------------------------------------------------ *)
(* the update is applied as a whole or rejected as a whole *)

Theorem C11_apply_all_or_error : forall d q u1 kv u2 up fs now s1,
  apply_ops the_matcher up now fs u1 (d, []) = Ok s1 ->
  apply_ops the_matcher up now fs [kv] s1 = Err ->
  Apply d q (u1 ++ kv :: u2)%list up fs now = Err.
Proof. exact (apply_rejects_as_a_whole _). Qed.
Print Assumptions C11_apply_all_or_error.

(* ------------------------------------------------------------------ *)
(* idempotence *)

(* one of $set, $min, $max, $addToSet, $pull, $pullAll on one plain path *)
Theorem C11_idempotent_single : forall d q k op ps v up fs now d1 ch1,
  idem_operator the_matcher k op -> plain ps -> canon_path (split_path ps) ->
  Apply d q [(k, VDoc [(ps, v)])] up fs now = Ok (d1, ch1) ->
  exists ch2, Apply d1 q [(k, VDoc [(ps, v)])] up fs now = Ok (d1, ch2).
Proof. exact (apply_idempotent_single _). Qed.
Print Assumptions C11_idempotent_single.

(* ... on any number of pairwise disjoint plain field paths *)
Theorem C11_idempotent_list_partial : forall d q k op pairs up fs now d1 ch1,
  idem_operator the_matcher k op -> plain_pairs pairs -> field_pairs pairs ->
  pairwise_disjoint (map fst pairs) ->
  Apply d q [(k, VDoc pairs)] up fs now = Ok (d1, ch1) ->
  exists ch2, Apply d1 q [(k, VDoc pairs)] up fs now = Ok (d1, ch2).
Proof. exact (apply_idempotent_list _). Qed.
Print Assumptions C11_idempotent_list_partial.

Theorem C11_unset_idempotent_single : forall d q ps v up fs now d1 ch1,
  plain ps -> uniq_keys (VDoc d) ->
  Apply d q [("$unset", VDoc [(ps, v)])] up fs now = Ok (d1, ch1) ->
  exists ch2, Apply d1 q [("$unset", VDoc [(ps, v)])] up fs now = Ok (d1, ch2).
Proof. exact (apply_unset_idempotent_single _). Qed.
Print Assumptions C11_unset_idempotent_single.

Theorem C11_unset_idempotent_list_partial : forall d q pairs up fs now d1 ch1,
  plain_pairs pairs -> field_pairs pairs -> pairwise_disjoint (map fst pairs) -> uniq_keys (VDoc d) ->
  Apply d q [("$unset", VDoc pairs)] up fs now = Ok (d1, ch1) ->
  exists ch2, Apply d1 q [("$unset", VDoc pairs)] up fs now = Ok (d1, ch2).
Proof. exact (apply_unset_idempotent_list _). Qed.
Print Assumptions C11_unset_idempotent_list_partial.

(* the static conflict check (lungo b41b8b8): acceptance
   of an update does not depend on the document as far as PATH conflicts go —
   a conflicting update is rejected for every document *)
Theorem C11_conflicting_update_rejected : forall u p,
  conflicting_path u = Some p ->
  forall d q up fs now, Apply d q u up fs now = Err.
Proof. exact (conflicting_update_rejected _). Qed.
Print Assumptions C11_conflicting_update_rejected.

(* ... and the named paths of an accepted update are pairwise conflict-free *)
Theorem C11_accepted_paths_conflict_free : forall d q u up fs now r,
  Apply d q u up fs now = Ok r -> pairwise_free (named_paths u).
Proof. exact (accepted_paths_conflict_free _). Qed.
Print Assumptions C11_accepted_paths_conflict_free.

(* the former counter-examples to idempotence are rejected now, whatever the
   document: a.$[] next to a.1; 1.0 next to 1 (first invocation a no-op); and
   a.$[].x next to a.1.y (the witness against the first draft of the check) *)
Theorem C11_former_idempotence_witnesses_rejected :
  conflicting_path u_positional_and_index = Some "a.1" /\
  conflicting_path u_conflict_after_noop = Some "1" /\
  conflicting_path u_positional_and_index_below = Some "a.1.y" /\
  forall d q up fs now,
    Apply d q u_positional_and_index up fs now = Err /\
    Apply d q u_conflict_after_noop up fs now = Err /\
    Apply d q u_positional_and_index_below up fs now = Err.
Proof. exact (former_idempotence_witnesses_rejected _). Qed.
Print Assumptions C11_former_idempotence_witnesses_rejected.

(* idempotence on any number of plain field paths: pairwise disjointness is a
   consequence of acceptance, no longer a hypothesis.  Partial: positional
   paths, and paths with index segments (there a second application can be
   REJECTED — the document is still unchanged — because the first one padded an
   array with null: {$addToSet: {"a.0": {$each: []}, "a.1": 5}} on {a: []}) *)
Theorem C11_idempotent_accepted_partial : forall d q k op pairs up fs now d1 ch1,
  idem_operator the_matcher k op -> plain_pairs pairs -> field_pairs pairs ->
  Apply d q [(k, VDoc pairs)] up fs now = Ok (d1, ch1) ->
  exists ch2, Apply d1 q [(k, VDoc pairs)] up fs now = Ok (d1, ch2).
Proof. exact (apply_idempotent_accepted _). Qed.
Print Assumptions C11_idempotent_accepted_partial.

(* ANY accepted update that combines $set / $min / $max / $addToSet / $pull /
   $pullAll (several operators, any number of paths each) on plain field paths
   is idempotent.  Partial: positional paths and index segments (see above);
   $unset is covered on its own (C11_unset_idempotent_list_partial) *)
Theorem C11_idempotent_update_partial : forall d q u up fs now d1 ch1,
  idem_update the_matcher u ->
  Forall (fun p => field_path (split_path p)) (named_paths u) ->
  Apply d q u up fs now = Ok (d1, ch1) ->
  exists ch2, Apply d1 q u up fs now = Ok (d1, ch2).
Proof. exact (apply_idempotent_update _). Qed.
Print Assumptions C11_idempotent_update_partial.

(* a positional operator is only recognised at the start of a path segment
   (/repo 4eddedf): the path is cut exactly at a '.' separator, so the array
   that is resolved is named by a true segment prefix of the path in the update *)
Theorem C11_split_dollar_at_segment_start : forall ps before rest,
  split_dollar ps = Some (before, rest) ->
  ps = (before ++ rest)%string /\ starts_dollar rest = true /\
  (before = "" \/ before = (drop_last before ++ ".")%string).
Proof. exact split_dollar_at_segment_start. Qed.
Print Assumptions C11_split_dollar_at_segment_start.

(* the former witness: "ab$[].c" is a plain path; the field "a" is untouched *)
Theorem C11_dollar_inside_segment_is_plain :
  plain "ab$[].c" /\
  Apply [("a", VArr [VDoc [("c", VInt32 1)]]); ("k", VInt32 0)] []
        [("$mul", VDoc [("ab$[].c", VInt32 2)])] false [] 0 =
  Ok ([("a", VArr [VDoc [("c", VInt32 1)]]); ("k", VInt32 0); ("ab$[]", VDoc [("c", VInt32 0)])],
      [("ab$[].c", VInt32 0)]).
Proof. exact (dollar_inside_segment_is_plain _). Qed.
Print Assumptions C11_dollar_inside_segment_is_plain.

(* ------------------------------------------------------------------ *)
(* Changed describes the update (C08 direction): for EVERY update that Apply
   accepts (all 15 operators, positional paths included), replaying the
   recorded changes — Put for a value, Unset for Missing — in the order of
   recording (a permutation of the path-sorted list Apply returns) on the
   ORIGINAL document yields the resulting document.  Side conditions: the
   update holds no Missing marker (true of every BSON value), and recorded
   $push index segments are below 2^63 (always true in Go, where a slice
   length fits an int; the model's lists are unbounded). *)
Theorem C11_apply_changes_faithful : forall d q u up fs now d' sorted,
  has_missing (VDoc u) = false ->
  Apply d q u up fs now = Ok (d', sorted) ->
  exists ch, Permutation ch sorted /\ sorted = sort_changes ch /\
             (small_changes ch -> replay ch d = Ok d').
Proof. exact (apply_changes_faithful _). Qed.
Print Assumptions C11_apply_changes_faithful.

(* the $push fix (/repo f8e1696): the recorded changes of a $push, applied as
   $sets to the original document, reproduce the new document *)
Theorem C11_push_changes_faithful : forall d q pairs up fs now d' sorted,
  has_missing (VDoc pairs) = false ->
  Apply d q [("$push", VDoc pairs)] up fs now = Ok (d', sorted) ->
  exists ch, Permutation ch sorted /\ (small_changes ch -> replay ch d = Ok d').
Proof. exact (push_changes_faithful _). Qed.
Print Assumptions C11_push_changes_faithful.

(* Changed is an unordered map: replayed in PATH order it reproduces the
   document only up to the order of newly appended fields *)
Theorem C11_replay_sorted_refuted :
  Apply [] [] [("$set", VDoc [("b", VInt32 1); ("a", VInt32 2)])] false [] 0 =
    Ok ([("b", VInt32 1); ("a", VInt32 2)], [("a", VInt32 2); ("b", VInt32 1)]) /\
  replay [("a", VInt32 2); ("b", VInt32 1)] [] = Ok [("a", VInt32 2); ("b", VInt32 1)] /\
  replay [("b", VInt32 1); ("a", VInt32 2)] [] = Ok [("b", VInt32 1); ("a", VInt32 2)].
Proof. exact (replay_sorted_refuted _). Qed.
Print Assumptions C11_replay_sorted_refuted.

(* an update whose result is identical to the input is not counted modified *)
Theorem C11_noop_reports_unchanged : forall d q u up fs now d' ch,
  Apply d q u up fs now = Ok (d', ch) -> d' = d -> counted_modified d d' = false.
Proof. exact (noop_reports_unchanged _). Qed.
Print Assumptions C11_noop_reports_unchanged.

(* docsEqual = structural equality: counted exactly when the document differs *)
Theorem C11_counted_modified_iff : forall before after,
  counted_modified before after = true <-> before <> after.
Proof. exact counted_modified_iff. Qed.
Print Assumptions C11_counted_modified_iff.

(* ------------------------------------------------------------------ *)
(* reference semantics (Spec/RefUpdate.v) of the array operators and $rename
   on a plain path.  Partial: the other operators have no separate reference
   specification (their model IS the short statement), and a whole-update
   reference interpreter (apply_ref) is not provided. *)

(* $addToSet adds exactly the values not BSON-equal to a member, each once *)
Theorem C11_ref_add_to_set_partial : forall d ch ps v vals arr d' ch',
  canon_path (split_path ps) -> add_to_set_arg v = Ok vals -> current_array (Get d ps) arr ->
  apply_add_to_set (d, ch) ps v = Ok (d', ch') ->
  exists res, add_to_set_spec arr vals res /\
    ((res = arr /\ d' = d /\ ch' = ch) \/
     (Get d' ps = VArr res /\ ch' = (ch ++ [(ps, VArr res)])%list)).
Proof. exact apply_add_to_set_ref. Qed.
Print Assumptions C11_ref_add_to_set_partial.

(* $pull (plain value) removes exactly the BSON-equal elements *)
Theorem C11_ref_pull_partial : forall m d ch ps cond arr d' ch',
  canon_path (split_path ps) -> (forall cd, cond <> VDoc cd) -> Get d ps = VArr arr ->
  apply_pull m (d, ch) ps cond = Ok (d', ch') ->
  let kept := filter (fun x => negb (is_eq (compare x cond))) arr in
  pull_spec (fun x => is_eq (compare x cond)) arr kept /\
  ((existsb (fun x => is_eq (compare x cond)) arr = false /\ d' = d /\ ch' = ch) \/
   (Get d' ps = VArr kept /\ ch' = (ch ++ [(ps, VArr kept)])%list)).
Proof. exact apply_pull_ref. Qed.
Print Assumptions C11_ref_pull_partial.

Theorem C11_ref_pull_all_partial : forall d ch ps targets arr d' ch',
  canon_path (split_path ps) -> Get d ps = VArr arr ->
  apply_pull_all (d, ch) ps (VArr targets) = Ok (d', ch') ->
  let kept := filter (fun x => negb (mem_cmp x targets)) arr in
  pull_spec (fun x => mem_cmp x targets) arr kept /\
  ((len kept = len arr /\ d' = d /\ ch' = ch) \/
   (Get d' ps = VArr kept /\ ch' = (ch ++ [(ps, VArr kept)])%list)).
Proof. exact apply_pull_all_ref. Qed.
Print Assumptions C11_ref_pull_all_partial.

(* $push with $each/$position/$sort/$slice = slice (sort (insert_at position)) *)
Theorem C11_ref_push_partial : forall d ch ps each p dir n arr d' ch',
  canon_path (split_path ps) -> Get d ps = VArr arr ->
  apply_push (d, ch) ps
    (VDoc [("$each", VArr each); ("$position", VInt64 p); ("$sort", VInt32 dir); ("$slice", VInt64 n)]) = Ok (d', ch') ->
  exists sorted,
    stable_sort_spec (dir_le dir) (ref_insert (Some p) each arr) sorted /\
    Get d' ps = VArr (ref_slice (Some n) sorted) /\
    ch' = (ch ++ [(ps, VArr (ref_slice (Some n) sorted))])%list.
Proof. exact apply_push_ref. Qed.
Print Assumptions C11_ref_push_partial.

(* $rename moves the value, removes the source, touches nothing else *)
Theorem C11_ref_rename_partial : forall d ch olds news v d' ch',
  uniq_keys (VDoc d) ->
  field_path (split_path olds) -> field_path (split_path news) ->
  disjoint (split_path olds) (split_path news) ->
  Get d olds = v -> v <> VMissing ->
  apply_rename (d, ch) olds (VString news) = Ok (d', ch') ->
  Get d' news = v /\ Get d' olds = VMissing /\
  (forall qs, disjoint (split_path olds) (split_path qs) -> disjoint (split_path news) (split_path qs) ->
              Get d' qs = Get d qs) /\
  ch' = (ch ++ [(olds, VMissing); (news, v)])%list.
Proof. exact apply_rename_ref. Qed.
Print Assumptions C11_ref_rename_partial.

(* ------------------------------------------------------------------ *)
(* numeric rules (after /repo 5082d2f: promotion and rejection) *)

(* result type: the wider operand type, int32 op int32 promoted to int64 when
   it does not fit, or the operation is rejected (Missing) *)
Theorem C11_add_type : forall a b r,
  is_num a = true -> is_num b = true -> Add a b = Ok r -> result_rank_ok a b r.
Proof. exact add_type. Qed.
Print Assumptions C11_add_type.

Theorem C11_mul_type : forall a b r,
  is_num a = true -> is_num b = true -> Mul a b = Ok r -> result_rank_ok a b r.
Proof. exact mul_type. Qed.
Print Assumptions C11_mul_type.

(* integers, the full statement: with z the mathematical result, int32 op
   int32 is int32 z if it fits and int64 z otherwise; every other integer pair
   is int64 z if it fits and rejected otherwise *)
Theorem C11_add_int_full : forall a b x y,
  int_of a = Some x -> int_of b = Some y -> Add a b = Ok (int_result a b (x + y)).
Proof. exact add_int_full. Qed.
Print Assumptions C11_add_int_full.

Theorem C11_mul_int_full : forall a b x y,
  int_of a = Some x -> int_of b = Some y -> Mul a b = Ok (int_result a b (x * y)).
Proof. exact mul_int_full. Qed.
Print Assumptions C11_mul_int_full.

(* MongoDB's promotion rule (formerly refuted): the result is the mathematical
   sum, typed int32 iff both operands are int32 and it fits; there is no
   result exactly when an int64 sum overflows *)
Theorem C11_add_promotes : forall a b x y r,
  int_of a = Some x -> int_of b = Some y -> Add a b = Ok r ->
  (int_of r = Some (x + y) /\
   num_rank r = (if (num_rank a =? 0) && (num_rank b =? 0) && in_int32 (x + y) then 0 else 1)) \/
  (r = VMissing /\ ~ in64 (x + y) /\ Z.max (num_rank a) (num_rank b) = 1).
Proof. exact add_promotes. Qed.
Print Assumptions C11_add_promotes.

Theorem C11_mul_promotes : forall a b x y r,
  int_of a = Some x -> int_of b = Some y -> Mul a b = Ok r ->
  (int_of r = Some (x * y) /\
   num_rank r = (if (num_rank a =? 0) && (num_rank b =? 0) && in_int32 (x * y) then 0 else 1)) \/
  (r = VMissing /\ ~ in64 (x * y) /\ Z.max (num_rank a) (num_rank b) = 1).
Proof. exact mul_promotes. Qed.
Print Assumptions C11_mul_promotes.

Theorem C11_int32_never_rejected : forall x y,
  in32 x -> in32 y ->
  (exists r, Add (VInt32 x) (VInt32 y) = Ok r /\ int_of r = Some (x + y)) /\
  (exists r, Mul (VInt32 x) (VInt32 y) = Ok r /\ int_of r = Some (x * y)).
Proof. exact int32_never_rejected. Qed.
Print Assumptions C11_int32_never_rejected.

(* a rejected arithmetic result rejects the update: $inc / $mul answer Err *)
Theorem C11_arith_rejection_rejects_update : forall f s ps v,
  f (if is_missing (Get (fst s) ps) then VInt32 0 else Get (fst s) ps) v = Ok VMissing ->
  apply_arith f s ps v = Err.
Proof. exact arith_rejection_rejects_update. Qed.
Print Assumptions C11_arith_rejection_rejects_update.

(* Decimal128 (formerly refuted): the stored result denotes exactly the
   mathematical product / sum, or the operation is rejected *)
Theorem C11_mul_decimal_exact_or_rejected : forall h1 l1 h2 l2 c1 e1 c2 e2 r,
  dec_decode h1 l1 = DFin c1 e1 -> dec_decode h2 l2 = DFin c2 e2 ->
  Mul (VDecimal h1 l1) (VDecimal h2 l2) = Ok r ->
  r = VMissing \/
  exists h l c' e', r = VDecimal h l /\ dec_decode h l = DFin c' e' /\ same_decimal (c1 * c2) (e1 + e2) c' e'.
Proof. exact mul_decimal_exact_or_rejected. Qed.
Print Assumptions C11_mul_decimal_exact_or_rejected.

Theorem C11_add_decimal_exact_or_rejected : forall h1 l1 h2 l2 c1 e1 c2 e2 r,
  dec_decode h1 l1 = DFin c1 e1 -> dec_decode h2 l2 = DFin c2 e2 ->
  Add (VDecimal h1 l1) (VDecimal h2 l2) = Ok r ->
  let e := Z.min e1 e2 in
  let c := c1 * zpow 10 (e1 - e) + c2 * zpow 10 (e2 - e) in
  r = VMissing \/
  exists h l c' e', r = VDecimal h l /\ dec_decode h l = DFin c' e' /\ same_decimal c e c' e'.
Proof. exact add_decimal_exact_or_rejected. Qed.
Print Assumptions C11_add_decimal_exact_or_rejected.

(* ... and it is not rejected when the exact result fits as it is *)
Theorem C11_mul_decimal_fits : forall h1 l1 h2 l2 c1 e1 c2 e2,
  dec_decode h1 l1 = DFin c1 e1 -> dec_decode h2 l2 = DFin c2 e2 ->
  Z.abs (c1 * c2) <= d128_maxS -> d128_min_exp <= e1 + e2 <= d128_max_exp ->
  exists h l, Mul (VDecimal h1 l1) (VDecimal h2 l2) = Ok (VDecimal h l) /\
              dec_decode h l = DFin (c1 * c2) (e1 + e2).
Proof. exact mul_decimal_fits. Qed.
Print Assumptions C11_mul_decimal_fits.

Theorem C11_add_decimal_fits : forall h1 l1 h2 l2 c1 e1 c2 e2,
  dec_decode h1 l1 = DFin c1 e1 -> dec_decode h2 l2 = DFin c2 e2 ->
  let e := Z.min e1 e2 in
  let c := c1 * zpow 10 (e1 - e) + c2 * zpow 10 (e2 - e) in
  Z.abs c <= d128_maxS -> d128_min_exp <= e <= d128_max_exp ->
  exists h l, Add (VDecimal h1 l1) (VDecimal h2 l2) = Ok (VDecimal h l) /\ dec_decode h l = DFin c e.
Proof. exact add_decimal_fits. Qed.
Print Assumptions C11_add_decimal_fits.

(* NaN and infinities next to a Decimal128 (formerly a finding: they were
   treated as 0): the IEEE 754 table.  kind_of reads NaN / Inf sign / finite
   sign and zero-ness off the exact interpretation of either operand (int,
   double or decimal); ieee_add / ieee_mul are the table.  Outside: Mod (still
   collapses non-finite operands to 0), and the sign / payload of a NaN input
   (the result is always the canonical quiet NaN 0x7C00..) *)
Theorem C11_add_nonfinite_spec : forall a b ka kb,
  kind_of a = Some ka -> kind_of b = Some kb -> is_decimal_value a || is_decimal_value b = true ->
  Add a b = match ieee_add ka kb with Some r => Ok r | None => add_finite a b end.
Proof. exact add_nonfinite_spec. Qed.
Print Assumptions C11_add_nonfinite_spec.

Theorem C11_mul_nonfinite_spec : forall a b ka kb,
  kind_of a = Some ka -> kind_of b = Some kb -> is_decimal_value a || is_decimal_value b = true ->
  Mul a b = match ieee_mul ka kb with Some r => Ok r | None => mul_finite a b end.
Proof. exact mul_nonfinite_spec. Qed.
Print Assumptions C11_mul_nonfinite_spec.

(* the table answers with a Decimal128 special value ... *)
Theorem C11_ieee_result_special : forall x y r,
  (ieee_add x y = Some r \/ ieee_mul x y = Some r) ->
  (r = d128_nan \/ r = d128_pos_inf \/ r = d128_neg_inf) /\ num_rank r = 3.
Proof. exact ieee_result_special. Qed.
Print Assumptions C11_ieee_result_special.

(* ... exactly when an operand is not finite *)
Theorem C11_ieee_table_domain : forall x y,
  (ieee_add x y = None <-> exists n1 z1 n2 z2, x = KFin n1 z1 /\ y = KFin n2 z2) /\
  (ieee_mul x y = None <-> exists n1 z1 n2 z2, x = KFin n1 z1 /\ y = KFin n2 z2).
Proof. exact ieee_table_domain. Qed.
Print Assumptions C11_ieee_table_domain.

(* Decimal128 x Decimal128 on the full domain: finite operands give the exact
   result or are rejected, otherwise the IEEE table *)
Theorem C11_mul_decimal_total : forall h1 l1 h2 l2 r,
  Mul (VDecimal h1 l1) (VDecimal h2 l2) = Ok r ->
  (exists c1 e1 c2 e2, dec_decode h1 l1 = DFin c1 e1 /\ dec_decode h2 l2 = DFin c2 e2 /\
     (r = VMissing \/
      exists h l c' e', r = VDecimal h l /\ dec_decode h l = DFin c' e' /\ same_decimal (c1 * c2) (e1 + e2) c' e')) \/
  (exists ka kb, kind_of (VDecimal h1 l1) = Some ka /\ kind_of (VDecimal h2 l2) = Some kb /\ ieee_mul ka kb = Some r).
Proof. exact mul_decimal_total. Qed.
Print Assumptions C11_mul_decimal_total.

Theorem C11_add_decimal_total : forall h1 l1 h2 l2 r,
  Add (VDecimal h1 l1) (VDecimal h2 l2) = Ok r ->
  (exists c1 e1 c2 e2, dec_decode h1 l1 = DFin c1 e1 /\ dec_decode h2 l2 = DFin c2 e2 /\
     let e := Z.min e1 e2 in
     let c := c1 * zpow 10 (e1 - e) + c2 * zpow 10 (e2 - e) in
     (r = VMissing \/
      exists h l c' e', r = VDecimal h l /\ dec_decode h l = DFin c' e' /\ same_decimal c e c' e')) \/
  (exists ka kb, kind_of (VDecimal h1 l1) = Some ka /\ kind_of (VDecimal h2 l2) = Some kb /\ ieee_add ka kb = Some r).
Proof. exact add_decimal_total. Qed.
Print Assumptions C11_add_decimal_total.

Example C11_ex_nonfinite :
  Add d128_pos_inf (VInt32 5) = Ok d128_pos_inf /\
  Add d128_pos_inf d128_neg_inf = Ok d128_nan /\
  Mul (VInt64 0) d128_neg_inf = Ok d128_nan /\
  Mul (VInt32 (-2)) d128_pos_inf = Ok d128_neg_inf /\
  Mul (VDouble 9221120237041090561) (VDecimal 3476778912330022912 1) = Ok d128_nan /\
  Add (VDouble 18442240474082181120) (VDecimal 3476778912330022912 1) = Ok d128_neg_inf.
Proof. exact nonfinite_examples. Qed.

(* the former counter-examples *)
Example C11_ex_promotion_and_rejection :
  Add (VInt32 2147483647) (VInt32 1) = Ok (VInt64 2147483648) /\
  Mul (VInt32 65536) (VInt32 65536) = Ok (VInt64 4294967296) /\
  Add (VInt64 9223372036854775807) (VInt64 1) = Ok VMissing /\
  Mul (VInt64 (-9223372036854775808)) (VInt32 (-1)) = Ok VMissing /\
  Mul dec_a dec_b = Ok VMissing /\
  Apply [("n", VInt64 9223372036854775807)] [] [("$inc", VDoc [("n", VInt64 1)])] false [] 0 = Err /\
  Apply [("n", VInt32 2147483647)] [] [("$inc", VDoc [("n", VInt32 1)])] false [] 0 =
    Ok ([("n", VInt64 2147483648)], [("n", VInt64 2147483648)]).
Proof. vm_compute. repeat split; reflexivity. Qed.

(* ------------------------------------------------------------------ *)
(* non-vacuity: concrete inputs meet the hypotheses and the conclusions are
   the expected documents *)

Definition ex_doc : doc := [("a", VInt32 1); ("b", VArr [VInt32 1; VInt32 2; VInt32 2]); ("c", VDoc [("x", VInt32 5)])].

Example C11_ex_set :
  Apply ex_doc [] [("$set", VDoc [("c.y", VInt32 7)])] false [] 0 =
  Ok ([("a", VInt32 1); ("b", VArr [VInt32 1; VInt32 2; VInt32 2]); ("c", VDoc [("x", VInt32 5); ("y", VInt32 7)])],
      [("c.y", VInt32 7)]).
Proof. vm_compute. reflexivity. Qed.

Example C11_ex_set_hypotheses :
  plain "c.y" /\ canon_path (split_path "c.y") /\ field_path (split_path "c.y") /\
  disjoint (split_path "c.y") (split_path "c.x") /\ idem_operator the_matcher "$set" apply_set /\
  plain_pairs [("c.y", VInt32 7); ("a", VInt32 0)] /\ field_pairs [("c.y", VInt32 7); ("a", VInt32 0)] /\
  pairwise_disjoint (map fst [("c.y", VInt32 7); ("a", VInt32 0)]).
Proof.
  split; [reflexivity|]. split; [repeat constructor|]. split; [repeat constructor|].
  split; [left; split; [reflexivity|]; right; split; [discriminate | intros i H; discriminate]|].
  split; [apply io_set|].
  split; [repeat constructor|]. split; [repeat constructor|].
  cbn. split; [|split; [constructor | exact I]]. constructor; [|constructor].
  right. split; [discriminate | intros i H; discriminate].
Qed.

Example C11_ex_idem_update :
  idem_update the_matcher [("$set", VDoc [("c.y", VInt32 7)]); ("$max", VDoc [("a", VInt32 3); ("n", VInt32 0)])] /\
  Apply ex_doc [] [("$set", VDoc [("c.y", VInt32 7)]); ("$max", VDoc [("a", VInt32 3); ("n", VInt32 0)])] false [] 0 =
  Ok ([("a", VInt32 3); ("b", VArr [VInt32 1; VInt32 2; VInt32 2]); ("c", VDoc [("x", VInt32 5); ("y", VInt32 7)]); ("n", VInt32 0)],
      [("a", VInt32 3); ("c.y", VInt32 7); ("n", VInt32 0)]) /\
  Apply ex_doc [] [("$set", VDoc [("c.y", VInt32 7)]); ("$max", VDoc [("a", VInt32 3); ("c", VInt32 0)])] false [] 0 = Err.
Proof.
  split; [|split; vm_compute; reflexivity].
  eapply iu_cons; [apply io_set | repeat constructor |].
  eapply iu_cons; [apply io_max | repeat constructor | constructor].
Qed.

Example C11_ex_pull_twice :
  Apply ex_doc [] [("$pull", VDoc [("b", VInt64 2)])] false [] 0 =
  Ok ([("a", VInt32 1); ("b", VArr [VInt32 1]); ("c", VDoc [("x", VInt32 5)])], [("b", VArr [VInt32 1])]) /\
  Apply [("a", VInt32 1); ("b", VArr [VInt32 1]); ("c", VDoc [("x", VInt32 5)])] []
        [("$pull", VDoc [("b", VInt64 2)])] false [] 0 =
  Ok ([("a", VInt32 1); ("b", VArr [VInt32 1]); ("c", VDoc [("x", VInt32 5)])], []).
Proof. vm_compute. split; reflexivity. Qed.

Example C11_ex_rejected_as_a_whole :
  Apply ex_doc [] [("$set", VDoc [("a", VInt32 2)]); ("$inc", VDoc [("b", VInt32 1)])] false [] 0 = Err /\
  Apply ex_doc [] [("$set", VDoc [("a", VInt32 2)]); ("$inc", VDoc [("a.b", VInt32 1)])] false [] 0 = Err /\
  Apply ex_doc [] [("$inc", VDoc [("a", VInt64 1)]); ("$push", VDoc [("b", VDoc [("$each", VArr [VInt32 0]); ("$sort", VInt32 1); ("$slice", VInt32 3)])])] false [] 0 =
  Ok ([("a", VInt64 2); ("b", VArr [VInt32 0; VInt32 1; VInt32 2]); ("c", VDoc [("x", VInt32 5)])],
      [("a", VInt64 2); ("b", VArr [VInt32 0; VInt32 1; VInt32 2])]).
Proof. vm_compute. repeat split; reflexivity. Qed.

Example C11_ex_push_modifiers :
  Apply ex_doc [] [("$push", VDoc [("b", VDoc [("$each", VArr [VInt32 0; VInt32 9]); ("$position", VInt64 1);
                                             ("$sort", VInt32 (-1)); ("$slice", VInt64 (-3))])])] false [] 0 =
  Ok ([("a", VInt32 1); ("b", VArr [VInt32 2; VInt32 1; VInt32 0]); ("c", VDoc [("x", VInt32 5)])],
      [("b", VArr [VInt32 2; VInt32 1; VInt32 0])]) /\
  Apply ex_doc [] [("$rename", VDoc [("c.x", VString "y")])] false [] 0 =
  Ok ([("a", VInt32 1); ("b", VArr [VInt32 1; VInt32 2; VInt32 2]); ("c", VDoc []); ("y", VInt32 5)],
      [("c.x", VMissing); ("y", VInt32 5)]) /\
  Apply ex_doc [] [("$addToSet", VDoc [("b", VDoc [("$each", VArr [VInt64 2; VDouble 4613937818241073152; VInt32 3])])])] false [] 0 =
  Ok ([("a", VInt32 1); ("b", VArr [VInt32 1; VInt32 2; VInt32 2; VDouble 4613937818241073152]); ("c", VDoc [("x", VInt32 5)])],
      [("b", VArr [VInt32 1; VInt32 2; VInt32 2; VDouble 4613937818241073152])]).
Proof. vm_compute. repeat split; reflexivity. Qed.

Example C11_ex_numeric :
  Add (VInt32 1) (VInt64 2) = Ok (VInt64 3) /\ in64 3 /\
  Add (VInt32 1) (VDouble 4609434218613702656) = Ok (VDouble 4612811918334230528) /\   (* 1 + 1.5 = 2.5 *)
  Mul (VInt64 3) (VDecimal 3476215962376601600 15) = Ok (VDecimal 3476215962376601600 45). (* 3 * 1.5 = 4.5 *)
Proof. repeat split; try reflexivity; vm_compute; discriminate. Qed.

Example C11_ex_unset :
  uniq_keys (VDoc ex_doc) /\
  Apply ex_doc [] [("$unset", VDoc [("b.1", VString "")])] false [] 0 =
  Ok ([("a", VInt32 1); ("b", VArr [VInt32 1; VNull; VInt32 2]); ("c", VDoc [("x", VInt32 5)])], [("b.1", VMissing)]).
Proof.
  split; [|vm_compute; reflexivity].
  assert (O : forall z, uniq_keys (VInt32 z)) by (intro z; apply uk_other; intros; discriminate).
  unfold ex_doc. apply uk_doc.
  - cbn. constructor; [cbn; intuition discriminate|]. constructor; [cbn; intuition discriminate|].
    constructor; [cbn; intuition|]. constructor.
  - constructor; [cbn; apply O|].
    constructor; [cbn; apply uk_arr; repeat (constructor; [apply O|]); constructor|].
    constructor; [|constructor]. cbn. apply uk_doc.
    + cbn. constructor; [intuition | constructor].
    + constructor; [cbn; apply O | constructor].
Qed.
