(* C02 — A write that reports an error leaves the database exactly as it was.
   All statements hold for ANY operator semantics (matcher, update, extract,
   projection functions are universally quantified). *)
From Coq Require Import List ZArith.
From Lungo.Model Require Import Driver.
From Lungo.Proofs Require Import TxnProofs DriverProofs.
Import ListNotations.

(* single write calls (insert-one, update-one/many, replace, delete,
   find-one-and-modify, index create/drop, drops): if the call reports an
   error, nobody's view of the database changes — the committed catalog
   (documents, every index entry, the change log) and every open
   transaction's catalog are identical to before the call.  (This includes a
   find-one-and-modify whose projection fails inside an explicit session
   transaction: lungo c9a1dbb reverts the transaction to a checkpoint; before
   that repair this case had to be excluded by hypothesis.) *)
Theorem C02_single_write_error_noop :
  forall matchf applyf extractf projectf now ds c ds' e,
    single_write c ->
    step matchf applyf extractf projectf now ds c = (ds', RErr e) ->
    same_views ds ds'.
Proof. exact step_error_noop. Qed.
Print Assumptions C02_single_write_error_noop.

(* same_views really is "nobody sees a difference" *)
Theorem C02_same_views_means_same_reads :
  forall ds ds', same_views ds ds' -> forall sid, view ds' sid = view ds sid.
Proof. exact same_views_view. Qed.
Print Assumptions C02_same_views_means_same_reads.

(* at the transaction layer the half-applied collection a failing mongokit
   operation leaves behind is discarded *)
Theorem C02_txn_replace_error_noop :
  forall matchf applyf extractf c g h q s r u now c' g' e,
    txn_replace matchf applyf extractf c g h q s r u now = (c', g', inr e) -> c' = c.
Proof. exact txn_replace_error_noop. Qed.
Print Assumptions C02_txn_replace_error_noop.

Theorem C02_txn_update_error_noop :
  forall matchf applyf extractf c g h q s u sk li up afs now c' g' e,
    txn_update matchf applyf extractf c g h q s u sk li up afs now = (c', g', inr e) -> c' = c.
Proof. exact txn_update_error_noop. Qed.
Print Assumptions C02_txn_update_error_noop.

Theorem C02_txn_delete_error_noop :
  forall matchf c g h q s sk li c' g' e,
    txn_delete matchf c g h q s sk li = (c', g', inr e) -> c' = c.
Proof. exact txn_delete_error_noop. Qed.
Print Assumptions C02_txn_delete_error_noop.

Theorem C02_txn_create_index_error_noop :
  forall matchf c h n cf c' e, txn_create_index matchf c h n cf = (c', inr e) -> c' = c.
Proof. exact txn_create_index_error_noop. Qed.
Print Assumptions C02_txn_create_index_error_noop.

Theorem C02_txn_drop_index_error_noop :
  forall c h n c' e, txn_drop_index c h n = (c', inr e) -> c' = c.
Proof. exact txn_drop_index_error_noop. Qed.
Print Assumptions C02_txn_drop_index_error_noop.

(* multi-item calls: insert-many behaves exactly like inserting the items one
   at a time, where a failing item changes nothing; ordered stops at the
   first failure (a prefix takes effect), unordered continues (every valid
   item takes effect) *)
Theorem C02_insert_many_is_sequence_of_singles :
  forall matchf c g h l ordered,
    guard_write h = None ->
    let '(c2, g2, acc, err) := insert_seq matchf c g h l ordered in
    txn_insert matchf c g h l ordered = (c2, g2, inl (mkT [] acc None err)).
Proof. exact txn_insert_is_insert_seq. Qed.
Print Assumptions C02_insert_many_is_sequence_of_singles.

Theorem C02_bulk_is_sequence_of_singles :
  forall matchf applyf extractf c g h ops ordered now,
    guard_write h = None ->
    let '(c2, g2, rs, n) := bulk_seq matchf applyf extractf c g h ops ordered now in
    txn_bulk matchf applyf extractf c g h ops ordered now = (if (0 <? n)%Z then c2 else c, g2, inl rs).
Proof. exact txn_bulk_is_bulk_seq. Qed.
Print Assumptions C02_bulk_is_sequence_of_singles.

Theorem C02_failing_bulk_item_contributes_nothing :
  forall matchf applyf extractf c g h op now c' g' e,
    bulk1 matchf applyf extractf c g h op now = (c', g', inr e) -> c' = c.
Proof. exact bulk1_error_noop. Qed.
Print Assumptions C02_failing_bulk_item_contributes_nothing.

(* ---------------- CreateCollection / CreateMany (Model/DriverExt.v) ---------------- *)
From Lungo.Model Require Import DriverExt.
From Lungo.Proofs Require Import DriverExtProofs.

(* a failing CreateCollection changes nobody's view *)
Theorem C02_create_collection_error_noop :
  forall matchf applyf extractf projectf now ds sid h ds' e,
    xstep matchf applyf extractf projectf now ds (XCreateColl sid h) = (ds', XR (RErr e)) -> same_views ds ds'.
Proof. exact create_coll_error_noop. Qed.
Print Assumptions C02_create_collection_error_noop.

(* CreateMany stops at the first CreateOne that fails; that failing call
   changes nobody's view: the result is the indexes created before it *)
Theorem C02_create_many_stops_at_error :
  forall matchf applyf extractf projectf now ds sid h sp t acc ds1 e,
    step matchf applyf extractf projectf now ds (create_index_call sid h sp) = (ds1, RErr e) ->
    create_many matchf applyf extractf projectf now ds sid h (sp :: t) acc = (ds1, XNames acc (Some e)) /\
    same_views ds ds1.
Proof. exact create_many_stops_at_error. Qed.
Print Assumptions C02_create_many_stops_at_error.
