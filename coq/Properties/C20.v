(* C20 — Well-formed input never panics the library.

   The model (coq/Model/*.v) makes every Go panic site that was found an
   explicit `Panic` outcome and every Go loop a structural recursion or a
   recursion on explicit fuel (`OutOfFuel`).  `returns r` says: r is neither
   `Panic` nor `OutOfFuel` — the modelled call returns a result or an error,
   and the recursion it unrolls terminates within the fuel the model computes
   from its own arguments.  All statements quantify over ALL inputs: documents,
   filters, updates, projections, sorts and array filters of any shape built
   from the model's BSON values (operator arguments of the wrong type, unknown
   operators, empty keys and paths, huge / non-finite numbers, document- or
   binary-valued _id ...).  The only hypothesis anywhere is `wf` of a
   PROJECTION document: its int32 fields fit 32 bits (true of every Go value;
   projectSliceInt clamps int64 and float64 but has no reason to clamp an
   int32).  Get / All / Unset / Compare / Order / Sort / Distinct / Collect are
   plain total functions of the model (no outcome type): nothing to state.

   Only `exact`, with Print Assumptions; non-vacuity / tightness Examples at
   the end. *)
From Coq Require Import List ZArith String.
From Lungo.Model Require Import Match Apply Project Lists Driver ApiOps.
From Lungo.Proofs Require Import NoPanicBase NoPanicColl NoPanicDriver NoPanic DriverProofs.
Import ListNotations.
Open Scope string_scope.
Open Scope Z_scope.

(* ---------------- bsonkit / mongokit ---------------- *)

(* mongokit.Match: every document, every filter; structurally recursive *)
Theorem C20_match_returns : forall d q,
  Match d q <> Panic /\ Match d q <> OutOfFuel.
Proof. exact match_returns. Qed.
Print Assumptions C20_match_returns.

(* bsonkit.Schema.Evaluate ($jsonSchema): every schema value, every value *)
Theorem C20_schema_returns : forall s v,
  sch s v <> Panic /\ sch s v <> OutOfFuel.
Proof. exact schema_returns. Qed.
Print Assumptions C20_schema_returns.

(* mongokit.Apply: every document, update, upsert flag, array-filter list and
   clock; the fuel of the positional-operator expansion (number of '$' in the
   path + 1) and of the Decimal128 conversion always suffices *)
Theorem C20_apply_returns : forall d q u upsert filters now,
  Apply d q u upsert filters now <> Panic /\ Apply d q u upsert filters now <> OutOfFuel.
Proof. exact apply_returns. Qed.
Print Assumptions C20_apply_returns.

(* mongokit.Extract: every query; the fuel (size of the query) suffices; the
   outcome is a document or an error *)
Theorem C20_extract_returns : forall q,
  (Extract q <> Panic /\ Extract q <> OutOfFuel) /\ Extract q <> Unmodelled.
Proof. exact extract_returns. Qed.
Print Assumptions C20_extract_returns.

(* mongokit.Project: every document, every well-typed projection *)
Theorem C20_project_returns : forall d p, wf (VDoc p) = true ->
  Project d p <> Panic /\ Project d p <> OutOfFuel.
Proof. exact project_returns. Qed.
Print Assumptions C20_project_returns.

(* bsonkit.Put: the type assertion of the top-level setter cannot fail *)
Theorem C20_put_returns : forall d path v prepend,
  (Put d path v prepend <> Panic /\ Put d path v prepend <> OutOfFuel) /\
  Put d path v prepend <> Unmodelled.
Proof. exact put_returns. Qed.
Print Assumptions C20_put_returns.

(* mongokit.Columns: any sort document *)
Theorem C20_columns_returns : forall s,
  (columns s <> Panic /\ columns s <> OutOfFuel) /\ columns s <> Unmodelled.
Proof. exact columns_returns. Qed.
Print Assumptions C20_columns_returns.

(* bsonkit.Add / Mul / Mod: any two values; the three loops of
   ParseDecimal128FromBigInt terminate *)
Theorem C20_arith_returns : forall a b,
  returns (Lungo.Model.Arith.Add a b) /\ returns (Lungo.Model.Arith.Mul a b) /\
  returns (Lungo.Model.Arith.Mod a b).
Proof. exact arith_returns. Qed.
Print Assumptions C20_arith_returns.

(* sort + filter + skip + limit with any sort document and any window (a
   negative skip is an error since /repo dfe0c95) *)
Theorem C20_find_returns : forall matchf, (forall d q, returns (matchf d q)) ->
  forall l q sort skip limit, returns (find_list matchf l q sort skip limit).
Proof. exact find_returns. Qed.
Print Assumptions C20_find_returns.

(* ---------------- collection layer ---------------- *)

(* for ANY operator semantics that returns, no mongokit.Collection operation
   reports a panic or exhausted fuel — no documented exception is left *)
Theorem C20_collection_returns : forall matchf applyf extractf, op_returns matchf applyf extractf ->
  (forall c q sort skip limit, outcome_ok (coll_find matchf c q sort skip limit)) /\
  (forall c fresh d oid, outcome_ok (coll_insert matchf c fresh d oid)) /\
  (forall c fresh q repl sort, outcome_ok (coll_replace matchf c fresh q repl sort)) /\
  (forall c fresh q u sort skip limit afs now,
      outcome_ok (coll_update matchf applyf c fresh q u sort skip limit afs now)) /\
  (forall c fresh q repl update afs oid now,
      outcome_ok (coll_upsert matchf applyf extractf c fresh q repl update afs oid now)) /\
  (forall c q sort skip limit, outcome_ok (coll_delete matchf c q sort skip limit)) /\
  (forall c name cf, outcome_ok (coll_create_index matchf c name cf)) /\
  (forall c name, outcome_ok (coll_drop_index c name)).
Proof. exact collection_returns. Qed.
Print Assumptions C20_collection_returns.

(* ---------------- driver level ---------------- *)

(* for EVERY state (reachable or not) and every call: no PANIC / FUEL in the
   reply — with the models of Match / Apply / Extract / Project plugged in *)
Theorem C20_driver_step_returns : forall now ds c,
  call_wf c -> reply_ok (snd (api_step now ds c)).
Proof. exact driver_step_returns. Qed.
Print Assumptions C20_driver_step_returns.

(* every reply of every history *)
Theorem C20_history_returns : forall now cs,
  Forall call_wf cs -> Forall reply_ok (snd (api_run now d_init cs)).
Proof. exact history_returns. Qed.
Print Assumptions C20_history_returns.

(* "never leaves the engine unable to serve the next call": after ANY history
   (any arguments, failing calls included) the next call is answered *)
Theorem C20_next_call_served : forall now cs c,
  call_wf c -> reply_ok (snd (api_step now (fst (api_run now d_init cs)) c)).
Proof. exact next_call_served. Qed.
Print Assumptions C20_next_call_served.

(* ... and a single write that reports an error has changed nobody's view
   (C02's theorem, any operator semantics): the engine continues from the
   state it had *)
Theorem C20_failing_write_changes_nothing : forall matchf applyf extractf projectf now ds c ds' e,
  single_write c ->
  step matchf applyf extractf projectf now ds c = (ds', RErr e) -> same_views ds ds'.
Proof. exact step_error_noop. Qed.
Print Assumptions C20_failing_write_changes_nothing.

(* the same, generic: any operator semantics that returns, any condition
   `okp` under which the projection returns *)
Theorem C20_driver_generic : forall matchf applyf extractf projectf now,
  (forall d q, safe (matchf d q)) ->
  (forall d q u up afs now, safe (applyf d q u up afs now)) ->
  (forall q, safe (extractf q)) ->
  forall okp : doc -> Prop, (forall d p, okp p -> safe (projectf d p)) ->
  forall ds c, call_ok okp c -> reply_ok (snd (step matchf applyf extractf projectf now ds c)).
Proof. exact step_reply_ok. Qed.
Print Assumptions C20_driver_generic.

(* ---------------- examples ---------------- *)

(* wrong-typed operator arguments, zero divisor, empty $and, empty key with
   a non-finite $size: errors *)
Example C20_ex_wrong_typed_operator_argument :
  Match [("a", VInt32 1)] [("a", VDoc [("$in", VInt32 1)])] = Err /\
  Match [("a", VInt32 1)] [("a", VDoc [("$mod", VArr [VInt32 0; VInt32 0])])] = Err /\
  Match [("a", VInt32 1)] [("$and", VArr [])] = Err /\
  Match [("a", VInt32 1)] [("", VDoc [("$size", VDouble 9218868437227405312)])] = Err.
Proof. exact wrong_typed_operator_argument. Qed.

(* $push with $slice: MinInt64 (panicked before /repo f8e1696) *)
Example C20_ex_push_slice_min_int64 :
  Apply [("a", VArr [VInt32 1; VInt32 2])] []
        [("$push", VDoc [("a", VDoc [("$each", VArr []); ("$slice", VInt64 (-9223372036854775808))])])]
        false [] 0
  = Ok ([("a", VArr [VInt32 1; VInt32 2])], [("a", VArr [VInt32 1; VInt32 2])]).
Proof. exact push_slice_min_int64. Qed.

(* an array index far beyond the end is refused (appended nulls without bound
   before /repo ba43a99) *)
Example C20_ex_huge_array_index_is_an_error :
  Apply [("a", VArr [])] [] [("$set", VDoc [("a.9223372036854775806", VInt32 1)])] false [] 0 = Err /\
  Apply [("a", VArr [])] [] [("$set", VDoc [("a.1500001", VInt32 1)])] false [] 0 = Err.
Proof. exact huge_array_index_is_an_error. Qed.

(* a history with a document-and-binary valued _id, an ill-typed $inc, a
   negative skip (panicked before /repo dfe0c95), a non-finite $slice, a
   replacement of the odd-_id document and an unknown top-level operator: every
   call is answered, the engine keeps serving (non-vacuity of the history
   theorems) *)
Example C20_ex_odd_history :
  Forall call_wf ex_history /\
  snd (api_run 0 d_init ex_history) =
    [ RId ex_id; RErr EErr; RErr EErr
    ; RDocs [[("_id", ex_id); ("a", VArr [VInt32 1; VInt32 2; VInt32 3])]]
    ; RUpdate 1 1 0 VNull; RErr EErr; RCount 1 ].
Proof. exact odd_history. Qed.

(* tightness of `call_wf`: an "int32" outside the int32 range (not a value of
   any Go program) reaches the $slice window arithmetic unclamped *)
Example C20_ex_ill_typed_int32_reaches_slice :
  snd (api_run 0 d_init
         [ CInsertOne 0 ("db", "c") [("_id", VInt32 1); ("a", VArr [VInt32 1])]
         ; CFind 0 ("db", "c") [] None
                 (Some [("a", VDoc [("$slice", VArr [VInt32 1; VInt32 9223372036854775807])])]) 0 0 ])
  = [RId (VInt32 1); RErr EPanic].
Proof. exact ill_typed_int32_reaches_slice. Qed.

(* ---------------- the catalog-level driver calls (Model/DriverExt.v) ----------------
   CreateCollection, ListCollections, ListDatabases (any filter) and
   CreateMany answer with a result or an error, for every state, and after
   every history of extended calls. *)
From Lungo.Model Require Import DriverExt.
From Lungo.Proofs Require Import DriverExtProofs.

Theorem C20_ext_driver_generic : forall matchf applyf extractf projectf now,
  (forall d q, safe (matchf d q)) ->
  (forall d q u up afs now, safe (applyf d q u up afs now)) ->
  (forall q, safe (extractf q)) ->
  forall okp : doc -> Prop, (forall d p, okp p -> safe (projectf d p)) ->
  forall ds x, xcall_ok okp x -> xreply_ok (snd (xstep matchf applyf extractf projectf now ds x)).
Proof. exact xstep_reply_ok. Qed.
Print Assumptions C20_ext_driver_generic.

Theorem C20_ext_histories_answered : forall matchf applyf extractf projectf now,
  (forall d q, safe (matchf d q)) ->
  (forall d q u up afs now, safe (applyf d q u up afs now)) ->
  (forall q, safe (extractf q)) ->
  forall okp : doc -> Prop, (forall d p, okp p -> safe (projectf d p)) ->
  forall xs ds, Forall (xcall_ok okp) xs ->
                Forall xreply_ok (snd (xrun matchf applyf extractf projectf now ds xs)).
Proof. exact xrun_replies_ok. Qed.
Print Assumptions C20_ext_histories_answered.

(* ---------------- tie to the source: the listing documents (G8) ----------------
   Gen/Listing.v is regenerated from transaction.go on every run. *)
From Lungo.Proofs Require Import GenListing.
From Lungo.Gen Require Import Listing.

(* no leaf of a listing document is an untyped Go value (which bsonkit.Inspect
   panics on): the obligation that fails on the tree before /repo 6670a85 *)
Theorem C20_source_listing_documents_are_bson :
  tval_typed (TDoc gen_coll_spec) = true /\ tval_typed (TDoc gen_db_spec) = true.
Proof. exact gen_listing_specs_typed. Qed.
Print Assumptions C20_source_listing_documents_are_bson.
