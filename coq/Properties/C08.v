(* C08 — Every committed document change appears in the change log exactly
   once, in commit order, with strictly increasing unique event ids: replaying
   the events recorded after any point (insert/replace/update set the full
   document under its key, delete removes it, drop and drop-database clear)
   onto the contents at that point reproduces the contents at any later
   point.  Failed calls, no-op writes and aborted transactions leave no event,
   and for update events applying the recorded updated/removed fields to the
   previous version of the document yields the new version (up to field
   order).  Retention only ever removes the oldest events as one prefix, never
   any of the configured minimum number of newest events or an event younger
   than the minimum age, and removes events beyond the maximum size or age as
   soon as those two protections no longer cover them.

   Every statement holds for ANY operator semantics and for EVERY history of
   driver calls (Model/Driver.v).  Definitions (Proofs/ReplayTxn.v,
   ReplayProofs.v):

     events c          the documents of local.oplog of catalog c, oldest first
     ev_clock e        the counter of clusterTime (= _id.ts) of event e
     events_after k c  the events of c with ev_clock > k
     contents c        the user namespaces of c with their documents in
                       natural order : list (handle * list doc)
     contents_eq a b   equal as maps handle -> document LIST; an absent
                       namespace and an empty one are the same (an empty
                       namespace created by Create / CreateIndex, or left by
                       deleting every document, has no event), the order of
                       the namespaces in the catalog is immaterial
     key_of_event e    documentKey._id;  documents are found by comparing
                       their _id with `compare` (BSON equality)
     replay evs cs     fold of apply_event:
                         insert:  append fullDocument, unless a document with
                                  a compare-equal _id exists (then replace it
                                  in place)
                         replace / update: replace in place the document
                                  whose _id is compare-equal to the key
                         delete:  remove it
                         drop:    remove the namespace
                         dropDatabase: remove all namespaces of the database
     cat_step c c'     exists evs, events c' = events c ++ evs (the log only
                       grew), every new event has cat_clock c < ev_clock <=
                       cat_clock c', and replay evs (contents c) is
                       contents_eq to contents c'
     state_at calls k  the driver state after the first k calls of a history

   No hypothesis on the shape of _id values is needed: uniqueness of _id
   under `compare` (arrays included) follows from the catalog invariant
   (ReplayBase.ids_distinct). *)
From Coq Require Import List ZArith String Lia.
From Lungo.Model Require Import Driver MiniOps.
From Lungo.Proofs Require Import TxnProofs OplogProofs DriverProofs RetentionProofs CatInv HistoryInv
     ReplayBase ReplayColl ReplayTxn ReplayProofs ReplayExamples.
Import ListNotations.
Open Scope Z_scope.

(* ------------------------------------------------------------------ *)
(* every Transaction method: the events it appended, replayed onto the
   contents before, give the contents after; the log only grows *)

Theorem C08_txn_insert_replay :
  forall matchf c g h l o c' g' r,
    cat_inv matchf c (g_did g) -> txn_insert matchf c g h l o = (c', g', r) -> cat_step c c'.
Proof. exact txn_insert_replay. Qed.
Print Assumptions C08_txn_insert_replay.

Theorem C08_txn_replace_replay :
  forall matchf applyf extractf c g h q s rp up now c' g' r,
    cat_inv matchf c (g_did g) ->
    txn_replace matchf applyf extractf c g h q s rp up now = (c', g', r) -> cat_step c c'.
Proof. exact txn_replace_replay. Qed.
Print Assumptions C08_txn_replace_replay.

Theorem C08_txn_update_replay :
  forall matchf applyf extractf c g h q s u sk li up afs now c' g' r,
    cat_inv matchf c (g_did g) ->
    txn_update matchf applyf extractf c g h q s u sk li up afs now = (c', g', r) -> cat_step c c'.
Proof. exact txn_update_replay. Qed.
Print Assumptions C08_txn_update_replay.

Theorem C08_txn_delete_replay :
  forall matchf c g h q s sk li c' g' r,
    cat_inv matchf c (g_did g) -> txn_delete matchf c g h q s sk li = (c', g', r) -> cat_step c c'.
Proof. exact txn_delete_replay. Qed.
Print Assumptions C08_txn_delete_replay.

Theorem C08_txn_bulk_replay :
  forall matchf applyf extractf c g h ops o now c' g' r,
    cat_inv matchf c (g_did g) ->
    txn_bulk matchf applyf extractf c g h ops o now = (c', g', r) -> cat_step c c'.
Proof. exact txn_bulk_replay. Qed.
Print Assumptions C08_txn_bulk_replay.

Theorem C08_txn_drop_replay :
  forall matchf c n g h c' g' r,
    cat_inv matchf c n -> txn_drop c g h = (c', g', r) -> cat_step c c'.
Proof. exact txn_drop_replay. Qed.
Print Assumptions C08_txn_drop_replay.

Theorem C08_txn_expire_replay :
  forall matchf c g now_ms c' g' r,
    cat_inv matchf c (g_did g) -> txn_expire matchf c g now_ms = (c', g', r) -> cat_step c c'.
Proof. exact txn_expire_replay. Qed.
Print Assumptions C08_txn_expire_replay.

(* Create, CreateIndex, DropIndex(ByKey) append nothing and change no
   document (a namespace they create is empty, hence not in `contents`) *)
Theorem C08_txn_create_replay :
  forall c h c' r, txn_create c h = (c', r) -> cat_step c c'.
Proof. exact txn_create_replay. Qed.
Print Assumptions C08_txn_create_replay.

Theorem C08_txn_create_index_replay :
  forall matchf c n h name cf c' r,
    cat_inv matchf c n -> txn_create_index matchf c h name cf = (c', r) -> cat_step c c'.
Proof. exact txn_create_index_replay. Qed.
Print Assumptions C08_txn_create_index_replay.

Theorem C08_txn_drop_index_replay :
  forall matchf c n h name c' r,
    cat_inv matchf c n -> txn_drop_index c h name = (c', r) -> cat_step c c'.
Proof. exact txn_drop_index_replay. Qed.
Print Assumptions C08_txn_drop_index_replay.

Theorem C08_txn_drop_index_by_key_replay :
  forall matchf c n h key c' r,
    cat_inv matchf c n -> txn_drop_index_by_key c h key = (c', r) -> cat_step c c'.
Proof. exact txn_drop_index_by_key_replay. Qed.
Print Assumptions C08_txn_drop_index_by_key_replay.

(* the oplog trim changes no contents and removes a prefix of the log *)
Theorem C08_trim_keeps_contents :
  forall c k, contents (trim_oplog c k) = contents c.
Proof. exact trim_keeps_contents. Qed.
Print Assumptions C08_trim_keeps_contents.

Theorem C08_trim_removes_prefix :
  forall c k, exists pre, events c = pre ++ events (trim_oplog c k).
Proof. exact trim_removes_prefix. Qed.
Print Assumptions C08_trim_removes_prefix.

(* ------------------------------------------------------------------ *)
(* one driver call.  ds_rep ds (the log invariant of the driver state):
   session ids are distinct, at most one session transaction is open, and
   every open transaction's catalog is a cat_step of the committed one *)

Theorem C08_step_replay :
  forall matchf applyf extractf projectf now ds c,
    ds_inv matchf ds -> ds_rep ds ->
    ds_rep (fst (step matchf applyf extractf projectf now ds c)) /\
    ((forall m, c <> CTrim m) ->
     cat_step (ds_cat ds) (ds_cat (fst (step matchf applyf extractf projectf now ds c)))).
Proof. exact step_rep. Qed.
Print Assumptions C08_step_replay.

Theorem C08_step_trim :
  forall matchf applyf extractf projectf now ds m,
    ds_cat (fst (step matchf applyf extractf projectf now ds (CTrim m))) = ds_cat ds \/
    exists k, ds_cat (fst (step matchf applyf extractf projectf now ds (CTrim m))) =
              trim_oplog (ds_cat ds) k.
Proof. exact step_trim. Qed.
Print Assumptions C08_step_trim.

Theorem C08_history_log_invariant :
  forall matchf applyf extractf projectf now calls,
    ds_rep (fst (run matchf applyf extractf projectf now d_init calls)).
Proof. exact run_rep. Qed.
Print Assumptions C08_history_log_invariant.

(* ------------------------------------------------------------------ *)
(* histories: replay between ANY two points i <= j.

   trims_ok k0 ds seg: along the calls of seg started in ds, every event that
   disappears from the committed log has ev_clock <= k0 (only CTrim makes
   events disappear): the trims in between removed no event younger than
   point i.  Without that, the events needed are gone
   (C08_replay_needs_untrimmed_events_refuted below). *)
Theorem C08_run_replay :
  forall matchf applyf extractf projectf now calls i j,
    (i <= j <= List.length calls)%nat ->
    let ci := ds_cat (state_at matchf applyf extractf projectf now calls i) in
    let cj := ds_cat (state_at matchf applyf extractf projectf now calls j) in
    trims_ok matchf applyf extractf projectf now (cat_clock ci)
             (state_at matchf applyf extractf projectf now calls i) (skipn i (firstn j calls)) ->
    contents_eq (replay (events_after (cat_clock ci) cj) (contents ci)) (contents cj).
Proof. exact run_replay. Qed.
Print Assumptions C08_run_replay.

(* without a trim in between: moreover the log at j is the log at i plus
   exactly the replayed events — every change once, in commit order *)
Theorem C08_run_replay_no_trim :
  forall matchf applyf extractf projectf now calls i j,
    (i <= j <= List.length calls)%nat ->
    no_trim (skipn i (firstn j calls)) ->
    let ci := ds_cat (state_at matchf applyf extractf projectf now calls i) in
    let cj := ds_cat (state_at matchf applyf extractf projectf now calls j) in
    contents_eq (replay (events_after (cat_clock ci) cj) (contents ci)) (contents cj) /\
    exists evs, events cj = events ci ++ evs /\ events_after (cat_clock ci) cj = evs.
Proof. exact run_replay_no_trim. Qed.
Print Assumptions C08_run_replay_no_trim.

(* strictly increasing unique event ids, in every visible catalog (committed
   or of an open transaction) after every history *)
Theorem C08_event_ids_strictly_increasing :
  forall matchf applyf extractf projectf now calls c i j a b,
    visible_cat (fst (run matchf applyf extractf projectf now d_init calls)) c -> (i < j)%nat ->
    nth_error (events c) i = Some a -> nth_error (events c) j = Some b ->
    ev_clock a < ev_clock b.
Proof. exact event_ids_strictly_increasing. Qed.
Print Assumptions C08_event_ids_strictly_increasing.

Theorem C08_event_ids_bounded :
  forall matchf applyf extractf projectf now calls c e,
    visible_cat (fst (run matchf applyf extractf projectf now d_init calls)) c ->
    In e (events c) -> 0 < ev_clock e <= cat_clock c.
Proof. exact event_ids_bounded. Qed.
Print Assumptions C08_event_ids_bounded.

Theorem C08_event_id_is_clock :
  forall k h op d chs,
    lookup (event_doc k h op d chs) "_id" = Some (VDoc [("ts"%string, VTs 0 k)]) /\
    ev_clock (event_doc k h op d chs) = k.
Proof. exact event_id_is_clock. Qed.
Print Assumptions C08_event_id_is_clock.

(* ------------------------------------------------------------------ *)
(* failed calls, no-op writes and aborted transactions leave no event *)

Theorem C08_failed_call_logs_nothing :
  forall matchf applyf extractf projectf now ds c ds' e,
    single_write c ->
    step matchf applyf extractf projectf now ds c = (ds', RErr e) ->
    events (ds_cat ds') = events (ds_cat ds) /\ forall sid, routed ds' sid = routed ds sid.
Proof. exact failed_call_logs_nothing. Qed.
Print Assumptions C08_failed_call_logs_nothing.

Theorem C08_failed_and_noop_log_nothing :
  forall matchf applyf extractf projectf now,
    (forall ds c ds' e,
       single_write c ->
       step matchf applyf extractf projectf now ds c = (ds', RErr e) ->
       events (ds_cat ds') = events (ds_cat ds) /\ forall sid, routed ds' sid = routed ds sid) /\
    (forall c g h q s u sk li up afs now0 c' g' tr,
       txn_update matchf applyf extractf c g h q s u sk li up afs now0 = (c', g', inl tr) ->
       t_modified tr = [] -> t_upserted tr = None -> c' = c) /\
    (forall c g h q s sk li c' g' tr,
       txn_delete matchf c g h q s sk li = (c', g', inl tr) -> t_matched tr = [] -> c' = c).
Proof. exact failed_and_noop_log_nothing. Qed.
Print Assumptions C08_failed_and_noop_log_nothing.

Theorem C08_update_noop_logs_nothing :
  forall matchf applyf extractf c g h q s u sk li up afs now c' g' tr,
    txn_update matchf applyf extractf c g h q s u sk li up afs now = (c', g', inl tr) ->
    t_modified tr = [] -> t_upserted tr = None -> c' = c.
Proof. exact update_noop_logs_nothing. Qed.
Print Assumptions C08_update_noop_logs_nothing.

Theorem C08_delete_noop_logs_nothing :
  forall matchf c g h q s sk li c' g' tr,
    txn_delete matchf c g h q s sk li = (c', g', inl tr) -> t_matched tr = [] -> c' = c.
Proof. exact delete_noop_logs_nothing. Qed.
Print Assumptions C08_delete_noop_logs_nothing.

Theorem C08_aborted_transaction_logs_nothing :
  forall matchf applyf extractf projectf now ds sid ds' r,
    step matchf applyf extractf projectf now ds (CAbort sid) = (ds', r) ->
    events (ds_cat ds') = events (ds_cat ds) /\ (r = ROk -> routed ds' sid = None).
Proof. exact aborted_transaction_logs_nothing. Qed.
Print Assumptions C08_aborted_transaction_logs_nothing.

Theorem C08_ended_session_logs_nothing :
  forall matchf applyf extractf projectf now ds sid ds' r,
    step matchf applyf extractf projectf now ds (CEnd sid) = (ds', r) ->
    events (ds_cat ds') = events (ds_cat ds) /\ routed ds' sid = None.
Proof. exact ended_session_logs_nothing. Qed.
Print Assumptions C08_ended_session_logs_nothing.

Theorem C08_uncommitted_events_invisible :
  forall matchf applyf extractf projectf now ds c ds' r,
    routed ds (sid_of c) <> None -> (forall s, c <> CCommit s) ->
    step matchf applyf extractf projectf now ds c = (ds', r) ->
    events (ds_cat ds') = events (ds_cat ds).
Proof. exact uncommitted_events_invisible. Qed.
Print Assumptions C08_uncommitted_events_invisible.

(* ------------------------------------------------------------------ *)
(* update_desc_faithful — "for update events applying the recorded
   updated/removed fields to the previous version of the document yields the
   new version (up to field order)" — DEFERRED: it is a statement about the
   update-operator semantics (Model/Apply.v, change sets of Apply), proved in
   Properties/C11.v once that model is merged.  Here the change sets are the
   uninterpreted second component of `applyf`; what IS proved here is that the
   k-th update event carries the k-th MODIFIED document with the k-th change
   set that `applyf` returned for it (ReplayColl.coll_update_full:
   r_modified / r_changes = modified_only matched newl chs). *)

(* ------------------------------------------------------------------ *)
(* retention (Transaction.Clean), from Proofs/RetentionProofs.v *)

Theorem C08_clean_range :
  forall evs now mn_sz mx_sz mn_age mx_age,
    0 <= clean_events evs now mn_sz mx_sz mn_age mx_age <= Z.of_nat (List.length evs).
Proof. exact clean_range. Qed.
Print Assumptions C08_clean_range.

Theorem C08_clean_keeps_min_size :
  forall evs now mn_sz mx_sz mn_age mx_age,
    0 <= mn_sz ->
    clean_events evs now mn_sz mx_sz mn_age mx_age <= Z.max 0 (Z.of_nat (List.length evs) - mn_sz).
Proof. exact clean_keeps_min_size. Qed.
Print Assumptions C08_clean_keeps_min_size.

Theorem C08_clean_keeps_young :
  forall evs now mn_sz mx_sz mn_age mx_age j ts,
    mn_age <> 0 -> 0 <= j < clean_events evs now mn_sz mx_sz mn_age mx_age ->
    nth_error evs (Z.to_nat j) = Some ts ->
    ts_lt ts (wrap_u32 (fst now - wrap_u32 (Z.quot mn_age 1000000000)), 0) = true.
Proof. exact clean_keeps_young. Qed.
Print Assumptions C08_clean_keeps_young.

Theorem C08_clean_exact :
  forall mi ma age mn mx evs j ts,
    chrono evs -> 0 <= j -> nth_error evs (Z.to_nat j) = Some ts ->
    (j < clean_count evs 0 mi ma age mn mx <-> droppable mi ma age mn mx j ts = true).
Proof. exact clean_exact. Qed.
Print Assumptions C08_clean_exact.

(* ------------------------------------------------------------------ *)
(* non-vacuity (Proofs/ReplayExamples.v): a history with inserts, a trim, an
   update, a committed transaction (delete, replace, re-insert of a deleted
   _id), a collection drop, an aborted transaction and a rejected duplicate *)

Example C08_ex_replies :
  snd (run mini_match mini_apply mini_extract mini_project 0 d_init ex_calls) =
  [RId (VInt32 1); RId (VInt32 2); RCount 1; RId (VInt32 7); RUpdate 1 1 0 VNull; ROk;
   RDelete 1; RUpdate 1 1 0 VNull; RId (VInt32 1); ROk; ROk; ROk; RId (VInt32 8); ROk; RErr EDup].
Proof. exact ex_replies. Qed.

(* between point 3 (after the trim) and the end there is no trim: the
   hypotheses of C08_run_replay_no_trim hold; six events are replayed and the
   contents differ at both ends *)
Example C08_ex_no_trim : no_trim (skipn 3 (firstn 15 ex_calls)).
Proof. exact ex_no_trim. Qed.

Example C08_ex_replay_concrete :
  map ev_clock (events_after (cat_clock (ds_cat (ex_state 3))) (ds_cat (ex_state 15))) = [3; 4; 5; 6; 7; 8] /\
  contents (ds_cat (ex_state 3)) =
    [(ex_h, [[("_id"%string, VInt32 1); ("a"%string, VInt32 5)];
             [("_id"%string, VInt32 2); ("a"%string, VInt32 6)]])] /\
  contents (ds_cat (ex_state 15)) =
    [(ex_h, [[("_id"%string, VInt32 2); ("b"%string, VInt32 0)]; [("_id"%string, VInt32 1)]])] /\
  replay (events_after (cat_clock (ds_cat (ex_state 3))) (ds_cat (ex_state 15)))
         (contents (ds_cat (ex_state 3))) = contents (ds_cat (ex_state 15)).
Proof. exact ex_replay_concrete. Qed.

(* a trim between the two points that removes only events not younger than
   point i: the hypothesis trims_ok of C08_run_replay holds *)
Example C08_ex_trims_ok :
  let si := state_at mini_match mini_apply mini_extract mini_project 0 ex_calls2 1 in
  trims_ok mini_match mini_apply mini_extract mini_project 0 (cat_clock (ds_cat si)) si
           (skipn 1 (firstn 4 ex_calls2)) /\
  List.length (events (ds_cat (state_at mini_match mini_apply mini_extract mini_project 0 ex_calls2 2))) = 2%nat /\
  List.length (events (ds_cat (state_at mini_match mini_apply mini_extract mini_project 0 ex_calls2 3))) = 1%nat.
Proof. exact ex_trims_ok. Qed.

(* the hypothesis cannot be dropped: when a trim removes events younger than
   point i, replaying what is left does not reproduce the contents *)
Theorem C08_replay_needs_untrimmed_events_refuted :
  exists matchf applyf extractf projectf now calls i j,
    (i <= j <= List.length calls)%nat /\
    let ci := ds_cat (state_at matchf applyf extractf projectf now calls i) in
    let cj := ds_cat (state_at matchf applyf extractf projectf now calls j) in
    ~ contents_eq (replay (events_after (cat_clock ci) cj) (contents ci)) (contents cj).
Proof. exact replay_needs_untrimmed_events_refuted. Qed.
Print Assumptions C08_replay_needs_untrimmed_events_refuted.
