(* C17 — Caller-owned values and database state never alias each other.
   (a) In the ownership model (values as trees of heap objects) a value that
   crosses the API boundary through a copying function shares no object with
   the database, so overwriting either side in place leaves the other
   unchanged.  (b) The table of boundary crossings regenerated from /repo's
   collection.go / indexes.go / cursor.go / result.go on every run contains
   only copying crossings (Transform in, Decode / copyValue out, counts, nil)
   and all the required components. *)
From Coq Require Import List ZArith String.
From Lungo.Model Require Import Cow.
From Lungo.Gen Require Import Boundary.
From Lungo.Proofs Require Import CowProofs GenBoundary.
Import ListNotations.

Theorem C17_fresh_copy_shares_nothing :
  forall v n w, below n w -> forall l, In l (locs (fst (copy_fresh n v))) -> ~ In l (locs w).
Proof. exact copy_is_fresh. Qed.
Print Assumptions C17_fresh_copy_shares_nothing.

Theorem C17_write_elsewhere_changes_nothing :
  forall v L, (forall l, In l (locs v) -> ~ In l L) -> mutate L v = v.
Proof. exact mutate_disjoint. Qed.
Print Assumptions C17_write_elsewhere_changes_nothing.

(* results: the caller may overwrite anything inside a value handed back *)
Theorem C17_results_do_not_alias :
  forall stored n L, below n stored ->
    (forall l, In l L -> In l (locs (fst (copy_fresh n stored)))) ->
    mutate L stored = stored.
Proof. exact copies_do_not_alias. Qed.
Print Assumptions C17_results_do_not_alias.

(* arguments: the caller may overwrite anything inside a value it passed *)
Theorem C17_arguments_do_not_alias :
  forall arg n L, below n arg ->
    (forall l, In l L -> In l (locs arg)) ->
    mutate L (fst (copy_fresh n arg)) = fst (copy_fresh n arg).
Proof. exact kept_copy_independent_of_argument. Qed.
Print Assumptions C17_arguments_do_not_alias.

(* handing out the stored object itself is NOT safe (what the code did before
   the fix for inserted/upserted ids and distinct values) *)
Theorem C17_stored_reference_aliases :
  exists stored L, (forall l, In l L -> In l (locs stored)) /\ mutate L stored <> stored.
Proof. exact stored_ref_aliases_refuted. Qed.
Print Assumptions C17_stored_reference_aliases.

(* the source: every boundary crossing is a copy, and none is missing *)
Theorem C17_source_boundary_copies : boundary_copies gen_boundary = true.
Proof. exact gen_boundary_copies. Qed.
Print Assumptions C17_source_boundary_copies.

Theorem C17_source_boundary_complete : boundary_complete gen_boundary = true.
Proof. exact gen_boundary_complete. Qed.
Print Assumptions C17_source_boundary_complete.

Theorem C17_boundary_table_sound :
  forall t, boundary_copies t = true ->
    forall m c x, In (m, c, x) t -> crossing_copies (crossing_of x) = true.
Proof. exact boundary_copies_sound. Qed.
Print Assumptions C17_boundary_table_sound.

(* ---------------- the engine-level write API (G9) ----------------
   Gen/EngineBoundary.v is regenerated from transaction.go on every run: every
   caller-owned document whose values can reach a stored document is cloned
   before anything else uses it, on every path to namespace.Insert /
   namespace.Replace (Proofs/GenEngineBoundary.v). *)
From Lungo.Gen Require Import EngineBoundary.
From Lungo.Proofs Require Import GenEngineBoundary.

Theorem C17_source_engine_boundary : gen_engine_boundary = expected_engine_boundary.
Proof. exact gen_engine_boundary_ok. Qed.
Print Assumptions C17_source_engine_boundary.

Theorem C17_source_engine_boundary_clones : boundary_safe gen_engine_boundary = true.
Proof. exact gen_engine_boundary_safe. Qed.
Print Assumptions C17_source_engine_boundary_clones.

(* ---------------- bsonkit.Clone at the engine-level boundary ----------------
   The copy the engine-level writes make (G9: every document is cloned first)
   is bsonkit.Clone: containers are rebuilt, the byte slice of a
   primitive.Binary is shared.  In the ownership model: *)

(* on a value without binaries Clone is the fresh copy *)
Theorem C17_clone_without_binaries_is_fresh_copy :
  forall bin v n, no_bin bin v = true -> clone_share bin n v = copy_fresh n v.
Proof. exact clone_no_bin_is_copy. Qed.
Print Assumptions C17_clone_without_binaries_is_fresh_copy.

(* ... so whatever the caller overwrites inside its argument after the call,
   the clone the transaction keeps is unchanged.
   FULL statement (no `no_bin` hypothesis): false of the faithful model, see
   the _refuted theorem; this is the proved part. *)
Theorem C17_engine_clone_independent_partial :
  forall bin arg n L,
    no_bin bin arg = true -> below n arg ->
    (forall l, In l L -> In l (locs arg)) ->
    mutate L (fst (clone_share bin n arg)) = fst (clone_share bin n arg).
Proof. exact engine_clone_independent_partial. Qed.
Print Assumptions C17_engine_clone_independent_partial.

(* the recorded finding C17:engine-level-argument-binary-bytes-shared: a
   document with one binary field; overwriting the binary's bytes through the
   argument changes the clone *)
Theorem C17_engine_clone_independent_refuted :
  exists arg n L,
    below n arg /\ (forall l, In l L -> In l (locs arg)) /\
    mutate L (fst (clone_share leaf_is_binary n arg)) <> fst (clone_share leaf_is_binary n arg).
Proof. exact engine_clone_independent_refuted. Qed.
Print Assumptions C17_engine_clone_independent_refuted.

Example C17_engine_clone_partial_nonvacuous :
  no_bin leaf_is_binary (HNode 1 7 [HNode 2 9 [HScalar 3]; HScalar 4]) = true /\
  below 10 (HNode 1 7 [HNode 2 9 [HScalar 3]; HScalar 4]).
Proof. exact engine_clone_partial_nonvacuous. Qed.
