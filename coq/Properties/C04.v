(* C04 — concurrent operations are strictly serializable.  Theorems about the
   transition system of Model/Engine.v (any number of threads and steps, any
   interleaving, any faults): committed writes form a serial log, that order
   respects real time, and every snapshot is the state after a commit prefix
   that was current during the read.  A write is an abstract operation; the
   catalog is the list of operations applied to it, so "apply" is append and
   any concrete deterministic interpretation is a homomorphic image. *)
From Coq Require Import List Arith Bool.
From Lungo.Model Require Import Base Engine.
From Lungo.Proofs Require Import EngineProofs EngineTime EngineExamples.
Import ListNotations.

(* at most one write transaction is open at a time *)
Theorem C04_single_writer : forall c s x y,
  reachable c s -> txn_status (st_g s) x = Some TOpen -> txn_status (st_g s) y = Some TOpen -> x = y.
Proof. exact single_writer_txn. Qed.
Print Assumptions C04_single_writer.

(* while a transaction is installed the committed catalog is its base: nobody else can publish *)
Theorem C04_base_is_current : forall c s x,
  reachable c s -> etxn (st_g s) = Some x -> txn_base_ok (st_g s) x.
Proof. exact base_is_current_thm. Qed.
Print Assumptions C04_base_is_current.

(* the k-th commit's result = its operations applied to the (k-1)-th result,
   its base version is k-1 (no lost update), the committed state is the log
   replayed in order *)
Theorem C04_commits_serial : forall c s,
  reachable c s ->
  catalog (st_g s) = result_of (log (st_g s)) /\
  version (st_g s) = List.length (log (st_g s)) /\
  catalog (st_g s) = flat_map c_ops (rev (log (st_g s))) /\
  forall l1 e l2, log (st_g s) = l1 ++ e :: l2 ->
    c_base e = List.length l2 /\ c_result e = result_of l2 ++ c_ops e.
Proof. exact commits_serial_thm. Qed.
Print Assumptions C04_commits_serial.

(* real time: a committing call that returned before another was issued is earlier in the log *)
Theorem C04_real_time : forall c s k1 k2 x1 x2,
  reachable c s -> In k1 (calls (st_g s)) -> In k2 (calls (st_g s)) ->
  k_pub k1 = Some x1 -> k_pub k2 = Some x2 -> k_ret k1 < k_inv k2 ->
  exists e1 e2 l1 l2 l3, log (st_g s) = l1 ++ e2 :: l2 ++ e1 :: l3 /\ c_txn e1 = x1 /\ c_txn e2 = x2.
Proof. exact real_time_commits. Qed.
Print Assumptions C04_real_time.

Theorem C04_real_time_read_after_commit : forall c s k1 k2 x1 v tm,
  reachable c s -> In k1 (calls (st_g s)) -> In k2 (calls (st_g s)) ->
  k_pub k1 = Some x1 -> k_read k2 = Some (v, tm) -> k_ret k1 < k_inv k2 ->
  exists e1, In e1 (log (st_g s)) /\ c_txn e1 = x1 /\ c_base e1 < v.
Proof. exact real_time_read_after_commit. Qed.
Print Assumptions C04_real_time_read_after_commit.

Theorem C04_real_time_commit_after_read : forall c s k1 k2 x2 v tm,
  reachable c s -> In k1 (calls (st_g s)) -> In k2 (calls (st_g s)) ->
  k_read k1 = Some (v, tm) -> k_pub k2 = Some x2 -> k_ret k1 < k_inv k2 ->
  exists e2, In e2 (log (st_g s)) /\ c_txn e2 = x2 /\ v <= c_base e2.
Proof. exact real_time_commit_after_read. Qed.
Print Assumptions C04_real_time_commit_after_read.

(* every transaction (snapshot or writer) starts from the state after a committed prefix *)
Theorem C04_reads_see_prefix : forall c s x tx,
  reachable c s -> nth_error (txns (st_g s)) x = Some tx ->
  t_base_ver tx <= List.length (log (st_g s)) /\
  t_base_cat tx = result_of (skipn (List.length (log (st_g s)) - t_base_ver tx) (log (st_g s))).
Proof. exact snapshots_are_prefixes. Qed.
Print Assumptions C04_reads_see_prefix.

(* ... and that prefix was the committed state at an instant inside the call *)
Theorem C04_read_prefix_was_current : forall c s k v tm,
  reachable c s -> In k (calls (st_g s)) -> k_read k = Some (v, tm) ->
  k_inv k <= tm /\ tm < k_ret k /\
  forall e, In e (log (st_g s)) -> (c_base e < v <-> c_time e < tm).
Proof. exact read_prefix_was_current. Qed.
Print Assumptions C04_read_prefix_was_current.

(* non-vacuity: a commit followed by the next writer *)
Example C04_commit_example :
  exists s, run_labels cfg_fixed commit_then_next_writer_init commit_then_next_writer_labels = Some s /\
    reachable cfg_fixed s /\ commit_then_next_writer_props s.
Proof. exact commit_then_next_writer. Qed.
