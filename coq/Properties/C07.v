(* C07 — At every moment, in every collection, no two documents that fall
   under a unique index (all documents for _id; those matching the partial
   filter for a partial index) share an index key - compared with BSON
   equality across numeric types, per element for array fields, per tuple for
   compound keys - regardless of the sequence of inserts, updates, replaces,
   upserts, bulk writes, index creations and reloads that led there.  A write
   or index build that would create such a pair is rejected with a uniqueness
   error, and a write that would not is never rejected for uniqueness.

   Every statement holds for ANY operator semantics and for EVERY history of
   driver calls (see Properties/C15.v for `after`, `visible_cat`):

     reachable_coll nc      = nc is a namespace of a catalog visible after
                              some history
     reachable_ns nc fresh  = nc is a USER namespace of a catalog visible
                              after some history `calls`, and fresh is at
                              least the identity generator of that state
                              (the identity the next write will use)

   Keys: `tuples (ix_cols ix) d` is the Cartesian product over the index
   columns of the flattened values of d (per element for arrays);
   `tuple_eq` is column-wise `compare = Eq` (BSON equality across numeric
   types); `covered ix d` is the partial-filter gate. *)
From Coq Require Import List ZArith String.
From Lungo.Model Require Import Driver MiniOps.
From Lungo.Proofs Require Import EntryLemmas IndexInv CollInv CollDup CatInv HistoryInv HistoryProps
     HistoryDup.
Import ListNotations.
Open Scope Z_scope.

(* ix_unique_ok P ix :=
     cf_unique (ix_config ix) = true ->
     forall id1 d1 id2 d2, P (id1, d1) -> P (id2, d2) -> id1 <> id2 ->
       covered ix d1 = Ok true -> covered ix d2 = Ok true ->
       forall t1 t2, In t1 (tuples (ix_cols ix) d1) -> In t2 (tuples (ix_cols ix) d2) ->
                     tuple_eq t1 t2 = false *)
Theorem C07_unique_at_every_moment :
  forall matchf applyf extractf projectf now calls c h nc n ix,
    visible_cat (after matchf applyf extractf projectf now calls) c ->
    In (h, nc) (cat_ns c) -> In (n, ix) (c_indexes nc) ->
    ix_unique_ok matchf (docs_of nc) ix.
Proof. exact hist_unique. Qed.
Print Assumptions C07_unique_at_every_moment.

Theorem C07_no_duplicate_pair :
  forall matchf applyf extractf projectf now calls c h nc ni,
    visible_cat (after matchf applyf extractf projectf now calls) c ->
    In (h, nc) (cat_ns c) -> In ni (c_indexes nc) ->
    ~ dup_pair matchf (docs_of nc) (snd ni).
Proof. exact hist_no_dup_pair. Qed.
Print Assumptions C07_no_duplicate_pair.

(* the _id index (unique, not partial: ALL documents) is always present *)
Theorem C07_id_index_present :
  forall matchf applyf extractf projectf now calls c h nc,
    visible_cat (after matchf applyf extractf projectf now calls) c ->
    In (h, nc) (cat_ns c) -> h <> oplog_handle ->
    has_id_index nc.
Proof. exact hist_id_index_present. Qed.
Print Assumptions C07_id_index_present.

(* ------------------------------------------------------------------ *)
(* exactness of the rejections, at every reachable namespace.

   The index loops stop at the first index that does not accept the document,
   so the unconditional statements speak about the first rejecting index
   (`first_reject`: every earlier index has a defined partial filter on the
   document, and this one is unique, covers it and holds a covered document
   sharing a key).  In the `_total` forms `would_dup` is "SOME unique index
   covers the new document and a covered existing document shares a key":
     rejected with EDup -> would_dup            holds unconditionally
     would_dup -> rejected with EDup            needs `filters_defined`
   (every partial filter evaluates on the new document: otherwise the write
   fails earlier with the matcher's error — it is still rejected, but not "for
   uniqueness"; see CollInvExamples.insert_dup_needs_filters_defined_refuted),
   and `*_accepts` (no duplicate -> not rejected) needs it for the same
   reason. *)

Theorem C07_insert_dup_iff :
  forall matchf applyf extractf projectf now nc fresh d oid,
    reachable_ns matchf applyf extractf projectf now nc fresh ->
    ((exists c', coll_insert matchf nc fresh d oid = (c', inr EDup)) <->
     exists d', ensure_id d oid = Ok d' /\ first_reject matchf (c_indexes nc) (docs_of nc) d').
Proof. exact hist_insert_dup_iff. Qed.
Print Assumptions C07_insert_dup_iff.

Theorem C07_insert_dup_iff_total :
  forall matchf applyf extractf projectf now nc fresh d oid d',
    reachable_ns matchf applyf extractf projectf now nc fresh ->
    ensure_id d oid = Ok d' -> filters_defined matchf (c_indexes nc) d' ->
    ((exists c', coll_insert matchf nc fresh d oid = (c', inr EDup)) <->
     would_dup matchf (c_indexes nc) (docs_of nc) d').
Proof. exact hist_insert_dup_iff_total. Qed.
Print Assumptions C07_insert_dup_iff_total.

Theorem C07_insert_accepts :
  forall matchf applyf extractf projectf now nc fresh d oid d',
    reachable_ns matchf applyf extractf projectf now nc fresh ->
    ensure_id d oid = Ok d' -> filters_defined matchf (c_indexes nc) d' ->
    ~ would_dup matchf (c_indexes nc) (docs_of nc) d' ->
    exists c', coll_insert matchf nc fresh d oid = (c', inl (mkResult [] [(fresh, d')] None [])).
Proof. exact hist_insert_accepts. Qed.
Print Assumptions C07_insert_accepts.

Theorem C07_upsert_dup_iff :
  forall matchf applyf extractf projectf now nc fresh query repl update afs oid now0,
    reachable_ns matchf applyf extractf projectf now nc fresh ->
    ((exists c', coll_upsert matchf applyf extractf nc fresh query repl update afs oid now0 = (c', inr EDup)) <->
     exists d', upsert_prepared applyf extractf query repl update afs oid now0 = Ok d' /\
                first_reject matchf (c_indexes nc) (docs_of nc) d').
Proof. exact hist_upsert_dup_iff. Qed.
Print Assumptions C07_upsert_dup_iff.

Theorem C07_upsert_dup_iff_total :
  forall matchf applyf extractf projectf now nc fresh query repl update afs oid now0 d',
    reachable_ns matchf applyf extractf projectf now nc fresh ->
    upsert_prepared applyf extractf query repl update afs oid now0 = Ok d' ->
    filters_defined matchf (c_indexes nc) d' ->
    ((exists c', coll_upsert matchf applyf extractf nc fresh query repl update afs oid now0 = (c', inr EDup)) <->
     would_dup matchf (c_indexes nc) (docs_of nc) d').
Proof. exact hist_upsert_dup_iff_total. Qed.
Print Assumptions C07_upsert_dup_iff_total.

Theorem C07_upsert_accepts :
  forall matchf applyf extractf projectf now nc fresh query repl update afs oid now0 d',
    reachable_ns matchf applyf extractf projectf now nc fresh ->
    upsert_prepared applyf extractf query repl update afs oid now0 = Ok d' ->
    filters_defined matchf (c_indexes nc) d' ->
    ~ would_dup matchf (c_indexes nc) (docs_of nc) d' ->
    exists c', coll_upsert matchf applyf extractf nc fresh query repl update afs oid now0 =
               (c', inl (mkResult [] [] (Some (fresh, d')) [])).
Proof. exact hist_upsert_accepts. Qed.
Print Assumptions C07_upsert_accepts.

(* Replace: the replaced document does not count *)
Theorem C07_replace_dup_iff :
  forall matchf applyf extractf projectf now nc fresh query repl sort,
    reachable_ns matchf applyf extractf projectf now nc fresh ->
    ((exists c', coll_replace matchf nc fresh query repl sort = (c', inr EDup)) <->
     exists old rest repl',
       find_list matchf (c_docs nc) query sort 0 1 = Ok (old :: rest) /\
       replace_prepared (snd old) repl = Ok repl' /\
       first_reject matchf (c_indexes nc) (fun x => docs_of nc x /\ x <> old) repl').
Proof. exact hist_replace_dup_iff. Qed.
Print Assumptions C07_replace_dup_iff.

Theorem C07_replace_dup_iff_total :
  forall matchf applyf extractf projectf now nc fresh query repl sort old rest repl',
    reachable_ns matchf applyf extractf projectf now nc fresh ->
    find_list matchf (c_docs nc) query sort 0 1 = Ok (old :: rest) ->
    replace_prepared (snd old) repl = Ok repl' ->
    filters_defined matchf (c_indexes nc) repl' ->
    ((exists c', coll_replace matchf nc fresh query repl sort = (c', inr EDup)) <->
     would_dup matchf (c_indexes nc) (fun x => docs_of nc x /\ x <> old) repl').
Proof. exact hist_replace_dup_iff_total. Qed.
Print Assumptions C07_replace_dup_iff_total.

Theorem C07_replace_accepts :
  forall matchf applyf extractf projectf now nc fresh query repl sort old rest repl',
    reachable_ns matchf applyf extractf projectf now nc fresh ->
    find_list matchf (c_docs nc) query sort 0 1 = Ok (old :: rest) ->
    replace_prepared (snd old) repl = Ok repl' ->
    filters_defined matchf (c_indexes nc) repl' ->
    ~ would_dup matchf (c_indexes nc) (fun x => docs_of nc x /\ x <> old) repl' ->
    exists c' r, coll_replace matchf nc fresh query repl sort = (c', inl r).
Proof. exact hist_replace_accepts. Qed.
Print Assumptions C07_replace_accepts.

(* CreateIndex: a unique build fails exactly when two covered documents share
   a key.  The direction "duplicate pair -> EDup" (and create_accepts) needs
   the new index's partial filter to be defined on the stored documents. *)
Theorem C07_create_dup_sound :
  forall matchf applyf extractf projectf now nc name cf c',
    reachable_coll matchf applyf extractf projectf now nc ->
    coll_create_index matchf nc name cf = (c', inr EDup) ->
    exists n ix0, index_name name cf = Ok n /\ find_index (c_indexes nc) n = None /\
                  new_index cf = Ok ix0 /\ dup_pair matchf (docs_of nc) ix0.
Proof. exact hist_create_dup_sound. Qed.
Print Assumptions C07_create_dup_sound.

Theorem C07_create_dup_iff :
  forall matchf applyf extractf projectf now nc name cf n ix0,
    reachable_coll matchf applyf extractf projectf now nc ->
    index_name name cf = Ok n -> find_index (c_indexes nc) n = None ->
    key_clash nc cf = false -> new_index cf = Ok ix0 ->
    (forall sd, In sd (c_docs nc) -> covers_ok matchf ix0 (snd sd)) ->
    ((exists c', coll_create_index matchf nc name cf = (c', inr EDup)) <->
     dup_pair matchf (docs_of nc) ix0).
Proof. exact hist_create_dup_iff. Qed.
Print Assumptions C07_create_dup_iff.

Theorem C07_create_accepts :
  forall matchf applyf extractf projectf now nc name cf n ix0,
    reachable_coll matchf applyf extractf projectf now nc ->
    index_name name cf = Ok n -> find_index (c_indexes nc) n = None ->
    key_clash nc cf = false -> new_index cf = Ok ix0 ->
    (forall sd, In sd (c_docs nc) -> covers_ok matchf ix0 (snd sd)) ->
    ~ dup_pair matchf (docs_of nc) ix0 ->
    exists c', coll_create_index matchf nc name cf = (c', inl n).
Proof. exact hist_create_accepts. Qed.
Print Assumptions C07_create_accepts.

(* Update (one or many): judged on the FINAL document set — all matched
   documents leave the indexes before any updated clone enters, so swapping
   two keys inside one multi-update is accepted.  `update_dup_sound`
   (EDup -> duplicate pair in the final set) is unconditional;
   `update_dup_complete` / `update_accepts` need the partial filters to be
   defined on the updated clones. *)
Theorem C07_update_dup_sound :
  forall matchf applyf extractf projectf now nc fresh query update sort skip limit afs now0 c',
    reachable_ns matchf applyf extractf projectf now nc fresh ->
    coll_update matchf applyf nc fresh query update sort skip limit afs now0 = (c', inr EDup) ->
    exists matched newl chs,
      find_list matchf (c_docs nc) query sort skip limit = Ok matched /\
      apply_list applyf matched fresh query update afs now0 = Ok (newl, chs) /\
      exists ni, In ni (c_indexes nc) /\ dup_pair matchf (final_docs nc matched newl) (snd ni).
Proof. exact hist_update_dup_sound. Qed.
Print Assumptions C07_update_dup_sound.

Theorem C07_update_dup_complete :
  forall matchf applyf extractf projectf now nc fresh query update sort skip limit afs now0 matched newl chs,
    reachable_ns matchf applyf extractf projectf now nc fresh ->
    find_list matchf (c_docs nc) query sort skip limit = Ok matched -> matched <> [] ->
    apply_list applyf matched fresh query update afs now0 = Ok (newl, chs) ->
    ids_unchanged matched newl = true ->
    (forall ni sd, In ni (c_indexes nc) -> In sd newl -> covers_ok matchf (snd ni) (snd sd)) ->
    (exists ni, In ni (c_indexes nc) /\ dup_pair matchf (final_docs nc matched newl) (snd ni)) ->
    exists c', coll_update matchf applyf nc fresh query update sort skip limit afs now0 = (c', inr EDup).
Proof. exact hist_update_dup_complete. Qed.
Print Assumptions C07_update_dup_complete.

Theorem C07_update_dup_iff :
  forall matchf applyf extractf projectf now nc fresh query update sort skip limit afs now0 matched newl chs,
    reachable_ns matchf applyf extractf projectf now nc fresh ->
    find_list matchf (c_docs nc) query sort skip limit = Ok matched -> matched <> [] ->
    apply_list applyf matched fresh query update afs now0 = Ok (newl, chs) ->
    ids_unchanged matched newl = true ->
    (forall ni sd, In ni (c_indexes nc) -> In sd newl -> covers_ok matchf (snd ni) (snd sd)) ->
    ((exists c', coll_update matchf applyf nc fresh query update sort skip limit afs now0 = (c', inr EDup)) <->
     exists ni, In ni (c_indexes nc) /\ dup_pair matchf (final_docs nc matched newl) (snd ni)).
Proof. exact hist_update_dup_iff. Qed.
Print Assumptions C07_update_dup_iff.

Theorem C07_update_accepts :
  forall matchf applyf extractf projectf now nc fresh query update sort skip limit afs now0 matched newl chs,
    reachable_ns matchf applyf extractf projectf now nc fresh ->
    find_list matchf (c_docs nc) query sort skip limit = Ok matched -> matched <> [] ->
    apply_list applyf matched fresh query update afs now0 = Ok (newl, chs) ->
    ids_unchanged matched newl = true ->
    (forall ni sd, In ni (c_indexes nc) -> In sd newl -> covers_ok matchf (snd ni) (snd sd)) ->
    (forall ni, In ni (c_indexes nc) -> ~ dup_pair matchf (final_docs nc matched newl) (snd ni)) ->
    exists c' r, coll_update matchf applyf nc fresh query update sort skip limit afs now0 = (c', inl r).
Proof. exact hist_update_accepts. Qed.
Print Assumptions C07_update_accepts.

(* ------------------------------------------------------------------ *)
(* "all documents for _id": distinct documents of a namespace never have
   compare-equal _id values (numbers of different types, arrays, documents:
   whatever the BSON type) *)
Theorem C07_ids_distinct :
  forall matchf applyf extractf projectf now calls c h nc i1 d1 i2 d2,
    visible_cat (after matchf applyf extractf projectf now calls) c ->
    In (h, nc) (cat_ns c) -> h <> oplog_handle ->
    In (i1, d1) (c_docs nc) -> In (i2, d2) (c_docs nc) -> i1 <> i2 ->
    compare (Get d1 "_id") (Get d2 "_id") <> Eq.
Proof. exact hist_ids_distinct. Qed.
Print Assumptions C07_ids_distinct.

(* ------------------------------------------------------------------ *)
(* exactness at the driver level.  `target ds sid` is the catalog the call
   works on (the transaction of session sid if it has one, else the committed
   catalog); `can_write ds sid`: the call is routed to an open transaction or
   no transaction holds the engine token (otherwise it fails with a plain
   error before touching anything). *)
Theorem C07_insert_one_reply_dup_iff :
  forall matchf applyf extractf projectf now calls sid h d,
    let ds := after matchf applyf extractf projectf now calls in
    let nc := ns_or_new (target ds sid) h in
    guard_write h = None -> can_write ds sid ->
    (snd (step matchf applyf extractf projectf now ds (CInsertOne sid h d)) = RErr EDup <->
     exists d', ensure_id d (gen_oid (g_oid (ds_gen ds))) = Ok d' /\
                first_reject matchf (c_indexes nc) (docs_of nc) d').
Proof. exact hist_insert_one_dup_iff. Qed.
Print Assumptions C07_insert_one_reply_dup_iff.

Theorem C07_create_index_reply_dup_sound :
  forall matchf applyf extractf projectf now calls sid h name key unique partial expire_s,
    let ds := after matchf applyf extractf projectf now calls in
    let nc := ns_or_new (ds_cat ds) h in
    let cf := mkConfig key unique partial (expiry_ns expire_s) in
    guard_write h = None -> routed ds sid = None -> token_held ds = false ->
    snd (step matchf applyf extractf projectf now ds
              (CCreateIndex sid h name key unique partial expire_s)) = RErr EDup ->
    exists n ix0, index_name name cf = Ok n /\ find_index (c_indexes nc) n = None /\
                  new_index cf = Ok ix0 /\ dup_pair matchf (docs_of nc) ix0.
Proof. exact hist_create_index_dup_sound. Qed.
Print Assumptions C07_create_index_reply_dup_sound.

Theorem C07_create_index_reply_dup_iff :
  forall matchf applyf extractf projectf now calls sid h name key unique partial expire_s n ix0,
    let ds := after matchf applyf extractf projectf now calls in
    let nc := ns_or_new (ds_cat ds) h in
    let cf := mkConfig key unique partial (expiry_ns expire_s) in
    guard_write h = None -> routed ds sid = None -> token_held ds = false ->
    index_name name cf = Ok n -> find_index (c_indexes nc) n = None ->
    key_clash nc cf = false -> new_index cf = Ok ix0 ->
    (forall sd, In sd (c_docs nc) -> covers_ok matchf ix0 (snd sd)) ->
    (snd (step matchf applyf extractf projectf now ds
               (CCreateIndex sid h name key unique partial expire_s)) = RErr EDup <->
     dup_pair matchf (docs_of nc) ix0).
Proof. exact hist_create_index_dup_iff. Qed.
Print Assumptions C07_create_index_reply_dup_iff.

(* ------------------------------------------------------------------ *)
(* non-vacuity: after the history of C15.v (unique index on a, one document
   committed, a second one inside an open transaction) the namespace is a
   reachable_ns with a user unique index and documents; the duplicate insert
   of the history was rejected with EDup, the non-duplicate accepted *)
Definition ex_h : handle := ("db"%string, "c"%string).
Definition ex_calls : list call :=
  [CCreateIndex 0 ex_h "" [("a"%string, VInt32 1)] true None None;
   CInsertOne 0 ex_h [("_id"%string, VInt32 1); ("a"%string, VInt32 5)];
   CInsertOne 0 ex_h [("_id"%string, VInt32 2); ("a"%string, VInt32 5)];
   CStart 7;
   CInsertOne 7 ex_h [("_id"%string, VInt32 3); ("a"%string, VInt32 6)]].

Example C07_nonvacuous_replies :
  snd (run mini_match mini_apply mini_extract mini_project 0 d_init ex_calls)
  = [RName "a_1"; RId (VInt32 1); RErr EDup; ROk; RId (VInt32 3)].
Proof. vm_compute. reflexivity. Qed.

Example C07_nonvacuous_reachable :
  exists nc ix,
    reachable_ns mini_match mini_apply mini_extract mini_project 0 nc 5 /\
    In ("a_1"%string, ix) (c_indexes nc) /\ cf_unique (ix_config ix) = true /\
    List.length (c_docs nc) = 2%nat.
Proof.
  eexists. eexists. split.
  - exists ex_calls. eexists. exists ex_h. split.
    + right. exists 7. eexists. split; [vm_compute; left; reflexivity|]. reflexivity.
    + split; [vm_compute; right; left; reflexivity|].
      split; [discriminate|]. vm_compute. discriminate.
  - split; [vm_compute; right; left; reflexivity|]. split; reflexivity.
Qed.
