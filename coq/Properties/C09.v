(* C09 — Change streams deliver each matching event once, in order, without
   stalls.  Only statements closed by `exact`, with Print Assumptions.

   Model: Model/Stream.v (Stream.next pass by pass, Engine.Watch, Stream.Close,
   the publish/broadcast tail of Engine.Commit, Engine.Close).  Proofs:
   Proofs/StreamProofs.v.  The sequential theorems quantify over EVERY script
   of commits, retention trims, single passes of next's loop (Next or TryNext,
   cancelled context or not) and Close — induction over the script, no bound;
   one pass is the atomic unit because it runs under s.mutex on one catalog
   snapshot.  `inv h pre w mid post` is the invariant: the history is
   pre ++ mid ++ post with pre the events before the stream's start position;
   watch_inv shows every stream Engine.Watch returns starts in it.

   Two statements of the plan are FALSE of the faithful model of the current
   code; each is given as  _refuted (witness, by computation) + _partial:
     - lost_is_reported   : a stream with s.last = nil (opened on an empty
                            oplog, or positioned at the first retained event by
                            startAtOperationTime) silently skips events removed
                            by retention               -> known finding;
     - delivery_complete  : a stream whose reference event (already behind it)
                            is removed reports ErrLostOplogPosition although
                            every undelivered event is retained -> known finding. *)
From Coq Require Import List ZArith Bool.
From Lungo.Model Require Import Stream.
From Lungo.Proofs Require Import StreamProofs.
Import ListNotations.
Local Open Scope list_scope.
Local Open Scope nat_scope.
Local Notation length := List.length (only parsing).

(* ---- every stream returned by Watch starts in the invariant ---- *)
Theorem C09_watch_inv : forall h o hist ntrim st,
  NoDup (ids hist) -> ntrim <= length hist ->
  watch h o (skipn ntrim hist) = Some st ->
  exists pre post, inv h pre (world0 hist ntrim st) [] post /\ live st /\ sdropped st = false.
Proof. exact watch_inv. Qed.
Print Assumptions C09_watch_inv.

(* start position of the three modes *)
Theorem C09_watch_now_start : forall h hist ntrim, NoDup (ids hist) -> ntrim <= length hist ->
  exists st, watch h watch_now (skipn ntrim hist) = Some st /\
             inv h hist (world0 hist ntrim st) [] [] /\
             (slast st = None <-> ntrim = length hist).
Proof. exact watch_now_start. Qed.
Print Assumptions C09_watch_now_start.

Theorem C09_watch_resume_start : forall h hist ntrim A e B (after : bool),
  NoDup (ids hist) -> ntrim <= length A -> hist = A ++ e :: B ->
  let o := if after then mkW None (Some (TokEvent (eid e))) None else mkW (Some (TokEvent (eid e))) None None in
  exists st, watch h o (skipn ntrim hist) = Some st /\ slast st = Some (eid e) /\
             inv h (A ++ [e]) (world0 hist ntrim st) [] B.
Proof. exact watch_resume_start. Qed.
Print Assumptions C09_watch_resume_start.

Theorem C09_watch_at_start : forall h hist ntrim z a e b,
  NoDup (ids hist) -> ntrim <= length hist -> skipn ntrim hist = a ++ e :: b ->
  (forall x, In x a -> (eid x < z)%Z) -> (z <= eid e)%Z ->
  exists st, watch h (mkW None None (Some z)) (skipn ntrim hist) = Some st /\
             inv h (firstn ntrim hist ++ a) (world0 hist ntrim st) [] (e :: b) /\
             (slast st = None <-> a = []).
Proof. exact watch_at_start. Qed.
Print Assumptions C09_watch_at_start.

(* ---- delivery: once, in order, only matching events after the start; and
        gap-free unless the defect window was hit (w_jumped) ---- *)
Theorem C09_delivery : forall h pre w0 post0 script,
  inv h pre w0 [] post0 -> script_ok (w_hist w0) script ->
  let w := exec w0 script in
  let after := skipn (length pre) (w_hist w) in
  subseq (w_deliv w) (filter (in_scope h) after) /\
  NoDup (ids (w_deliv w)) /\
  (w_jumped w = false -> prefix (w_deliv w) (expected h after)).
Proof. exact delivery. Qed.
Print Assumptions C09_delivery.

(* a stream that starts at an event never skips: unconditional prefix *)
Theorem C09_delivery_anchored : forall h pre w0 post0 script,
  inv h pre w0 [] post0 -> script_ok (w_hist w0) script ->
  slast (w_st w0) <> None -> w_jumped w0 = false ->
  let w := exec w0 script in
  prefix (w_deliv w) (expected h (skipn (length pre) (w_hist w))).
Proof. exact delivery_anchored. Qed.
Print Assumptions C09_delivery_anchored.

(* the expected sequence is the scope filter, cut after the invalidating drop *)
Theorem C09_expected_no_drop : forall h l,
  forallb (fun e => negb (drops h e)) (filter (in_scope h) l) = true ->
  expected h l = filter (in_scope h) l.
Proof. exact expected_no_drop. Qed.
Print Assumptions C09_expected_no_drop.

(* ---- completeness ---- *)
Theorem C09_delivery_complete_partial : forall h pre w0 post0 script,
  inv h pre w0 [] post0 -> script_ok (w_hist w0) script ->
  let w := exec w0 script in
  w_jumped w = false -> anchor_retained w ->
  serror (w_st w) = None -> (sclosed (w_st w) = false \/ sdropped (w_st w) = true) ->
  forall n, length (w_hist w) <= n ->
  w_deliv (drain n w) = expected h (skipn (length pre) (w_hist w)) /\ w_hist (drain n w) = w_hist w.
Proof. exact delivery_complete_partial. Qed.
Print Assumptions C09_delivery_complete_partial.

(* FULL statement (hypothesis `w_ntrim w <= position w`: no event beyond the
   stream's position was removed) is false: *)
Theorem C09_delivery_complete_refuted :
  exists h st0 script,
    watch h watch_now [ev0] = Some st0 /\ script_ok [ev0] script /\
    let w := exec (world0 [ev0] 0 st0) script in
    w_jumped w = false /\
    w_ntrim w <= position w /\
    In ev1 (w_log w) /\ in_scope h ev1 = true /\
    (forall n, w_deliv (drain (S n) w) = []) /\
    expected h (skipn 1 (w_hist w)) = [ev1] /\
    snd (next_iter false false (w_st w) (w_log w)) = Return Lost.
Proof. exact delivery_complete_refuted. Qed.
Print Assumptions C09_delivery_complete_refuted.

(* ---- lost position ---- *)
Theorem C09_lost_is_reported_partial : forall h pre w0 post0 script,
  inv h pre w0 [] post0 -> script_ok (w_hist w0) script ->
  slast (w_st w0) <> None ->
  let w := exec w0 script in
  live (w_st w) -> sdropped (w_st w) = false ->
  position w < w_ntrim w ->
  forall b c, snd (next_iter b c (w_st w) (w_log w)) = Return Lost.
Proof. exact lost_is_reported_partial. Qed.
Print Assumptions C09_lost_is_reported_partial.

(* FULL statement (without `slast (w_st w0) <> None`) is false — the finding: *)
Theorem C09_lost_is_reported_refuted :
  exists h st0 script,
    watch h watch_now [] = Some st0 /\ script_ok [] script /\
    let w := exec (world0 [] 0 st0) script in
    (exists e, In e (w_hist w) /\ in_scope h e = true /\ ~ In e (w_deliv w) /\ ~ In e (w_log w)) /\
    ~ In (Return Lost) (w_outs w) /\ serror (w_st w) = None /\ sclosed (w_st w) = false /\
    w_deliv w = [ev1] /\ expected h (w_hist w) = [ev0; ev1] /\
    ~ prefix (w_deliv w) (expected h (w_hist w)).
Proof. exact lost_is_reported_refuted. Qed.
Print Assumptions C09_lost_is_reported_refuted.

Theorem C09_lost_is_reported_refuted_start_at :
  exists h st0 script,
    watch h (mkW None None (Some 0%Z)) [ev0; ev1] = Some st0 /\ slast st0 = None /\
    let w := exec (world0 [ev0; ev1] 0 st0) script in
    script_ok [ev0; ev1] script /\
    ~ In (Return Lost) (w_outs w) /\ w_deliv w = [ev1] /\
    ~ prefix (w_deliv w) (expected h (w_hist w)).
Proof. exact lost_is_reported_refuted_start_at. Qed.
Print Assumptions C09_lost_is_reported_refuted_start_at.

(* ---- resume ---- *)
Theorem C09_resume_continues : forall h h' pre w0 post0 script e,
  inv h pre w0 [] post0 -> script_ok (w_hist w0) script ->
  let w := exec w0 script in
  In e (w_deliv w) -> In e (w_log w) ->
  exists st' A B,
    w_hist w = A ++ e :: B /\
    watch h' (mkW (Some (TokEvent (eid e))) None None) (w_log w) = Some st' /\
    slast st' = Some (eid e) /\
    inv h' (A ++ [e]) (world0 (w_hist w) (w_ntrim w) st') [] B.
Proof. exact resume_continues. Qed.
Print Assumptions C09_resume_continues.

Theorem C09_resume_continues_delivery : forall h' hist ntrim st' A e B script,
  inv h' (A ++ [e]) (world0 hist ntrim st') [] B -> slast st' = Some (eid e) ->
  script_ok hist script ->
  let w := exec (world0 hist ntrim st') script in
  prefix (w_deliv w) (expected h' (skipn (length (A ++ [e])) (w_hist w))).
Proof. exact resume_continues_delivery. Qed.
Print Assumptions C09_resume_continues_delivery.

Theorem C09_token_after_event : forall b c s log s' e,
  next_iter b c s log = (s', Return (Event e)) -> stok s' = Some (TokEvent (eid e)).
Proof. exact token_after_event. Qed.
Print Assumptions C09_token_after_event.

(* ---- invalidate ---- *)
Theorem C09_invalidate_after_drop : forall b c s log s' e,
  next_iter b c s log = (s', Return (Event e)) -> drops (sh s) e = true ->
  forall b' c' log',
  exists s'', next_iter b' c' s' log' = (s'', Return Invalidate) /\
              sclosed s'' = true /\ stok s'' = Some TokInvalidate /\
              forall b'' c'' log'', next_iter b'' c'' s'' log'' = (s'', Return Closed).
Proof. exact invalidate_after_drop. Qed.
Print Assumptions C09_invalidate_after_drop.

Theorem C09_invalidate_only_after_drop : forall b c s log s',
  next_iter b c s log = (s', Return Invalidate) -> sdropped s = true.
Proof. exact invalidate_only_after_drop. Qed.
Print Assumptions C09_invalidate_only_after_drop.

(* which events drop a stream: the drop of its collection or the dropDatabase
   of its database (collection scope), dropDatabase (database scope), none (client) *)
Theorem C09_drops_coll : forall d c e, d <> ""%string -> c <> ""%string ->
  drops (d, c) e = is_drop (eop e) || is_dropdb (eop e).
Proof. exact drops_coll. Qed.
Print Assumptions C09_drops_coll.
Theorem C09_drops_db : forall d e, d <> ""%string -> drops (d, ""%string) e = is_dropdb (eop e).
Proof. exact drops_db. Qed.
Print Assumptions C09_drops_db.
Theorem C09_drops_client : forall c e, drops (""%string, c) e = false.
Proof. exact drops_client. Qed.
Print Assumptions C09_drops_client.
Theorem C09_in_scope_coll : forall d c e, d <> ""%string -> c <> ""%string ->
  in_scope (d, c) e = String.eqb d (edb e) && (String.eqb c (ecoll e) || is_dropdb (eop e)).
Proof. exact in_scope_coll. Qed.
Print Assumptions C09_in_scope_coll.

(* TryNext always returns (the fuel of `next` suffices) *)
Theorem C09_next_total : forall s log, NoDup (ids log) ->
  exists o, snd (next s log) = Ok o /\ exists o', snd (next_cancelled s log) = Ok o'.
Proof. exact next_total. Qed.
Print Assumptions C09_next_total.

(* the model's trim / commit are prefix removal / append on the oplog *)
Theorem C09_trim_is_prefix_removal : forall w k, w_log (exec_step w (STrim k)) = trim k (w_log w).
Proof. exact w_log_trim. Qed.
Print Assumptions C09_trim_is_prefix_removal.

(* ---- without stalls: the concurrent model ---- *)
Theorem C09_no_lost_wakeup : forall s0 s, initial s0 -> reachable s0 s ->
  consumer_waiting s -> undelivered_matching s ->
  signal_full s \/ committer_about_to_signal s.
Proof. exact no_lost_wakeup. Qed.
Print Assumptions C09_no_lost_wakeup.

Theorem C09_no_lost_wakeup_general : forall s0 s, initial s0 -> reachable s0 s ->
  consumer_waiting s -> ~ quiescent s ->
  signal_full s \/ c_chclosed s = true \/ committer_about_to_signal s \/ closer_about_to_signal s.
Proof. exact no_lost_wakeup_general. Qed.
Print Assumptions C09_no_lost_wakeup_general.

Theorem C09_waiting_consumer_enabled : forall s0 s, initial s0 -> reachable s0 s ->
  consumer_waiting s -> wake_reason s ->
  wake_enabled s \/
  exists l s1, is_send l /\ cstep l s = Some s1 /\ wake_enabled s1.
Proof. exact waiting_consumer_enabled. Qed.
Print Assumptions C09_waiting_consumer_enabled.

Theorem C09_wake_enabled_stable : forall l s s', cstep l s = Some s' ->
  l <> LWake -> l <> LWakeCtx -> wake_enabled s -> wake_enabled s'.
Proof. exact wake_enabled_stable. Qed.
Print Assumptions C09_wake_enabled_stable.

Theorem C09_commit_wakes : forall s i s1 s2,
  consumer_waiting s -> c_reg s = true ->
  cstep (LPublish i) s = Some s1 -> cstep (LSignal i) s1 = Some s2 ->
  exists s3, cstep LWake s2 = Some s3 /\ c_cons s3 = CRunning true.
Proof. exact commit_wakes. Qed.
Print Assumptions C09_commit_wakes.

(* ---- non-vacuity ---- *)
Example C09_ex_start : watch hcoll watch_now [ev0] = Some st_after0 /\ inv hcoll [ev0] w_ex [] [].
Proof. exact ex_start. Qed.
Example C09_ex_script_ok : script_ok (w_hist w_ex) script_ex.
Proof. exact script_ex_ok. Qed.
Example C09_ex_delivery :
  w_deliv (exec w_ex script_ex) = [ev1; ev3] /\
  expected hcoll (skipn 1 (w_hist (exec w_ex script_ex))) = [ev1; ev3] /\
  w_outs (exec w_ex script_ex) =
    [Return (Event ev1); Continue; Return (Event ev3); Return Invalidate; Return Closed; Return Closed] /\
  w_jumped (exec w_ex script_ex) = false.
Proof. exact ex_delivery. Qed.
Example C09_ex_lost :
  script_ok (w_hist w_ex) script_lost /\ slast (w_st w_ex) <> None /\
  let w := exec w_ex script_lost in
  live (w_st w) /\ sdropped (w_st w) = false /\ position w < w_ntrim w /\
  snd (next_iter false false (w_st w) (w_log w)) = Return Lost.
Proof. exact ex_lost. Qed.
Example C09_ex_complete :
  script_ok (w_hist w_ex) script_complete /\
  let w := exec w_ex script_complete in
  w_jumped w = false /\ anchor_retained w /\ serror (w_st w) = None /\ sclosed (w_st w) = false /\
  w_deliv w = [ev1] /\ w_deliv (drain 4 w) = [ev1; ev4] /\
  expected hcoll (skipn 1 (w_hist w)) = [ev1; ev4].
Proof. exact ex_complete. Qed.
Example C09_ex_resume :
  let w := exec w_ex script_complete in
  In ev1 (w_deliv w) /\ In ev1 (w_log w) /\
  exists st', watch ("d"%string, ""%string) (mkW (Some (TokEvent 1%Z)) None None) (w_log w) = Some st' /\
              snd (next st' (w_log w)) = Ok (Event ev2).
Proof. exact ex_resume. Qed.
Example C09_ex_invalidate :
  exists s', next_iter false false (mkS hcoll (Some 2%Z) false false None None None) [ev2; ev3; ev4]
             = (s', Return (Event ev3)) /\ drops hcoll ev3 = true.
Proof. exact ex_invalidate. Qed.
Example C09_ex_window_reachable :
  exists s, initial c_ex0 /\ reachable c_ex0 s /\ consumer_waiting s /\ undelivered_matching s.
Proof. exact ex_window_reachable. Qed.
Example C09_ex_window :
  exists s, crun [LCall true; LCheck; LPublish 0] c_ex0 = Some s /\
            consumer_waiting s /\ undelivered_matching s /\ c_sig s = false /\
            committer_about_to_signal s.
Proof. exact ex_window. Qed.
Example C09_ex_wakeup :
  exists s, crun [LCall true; LCheck; LPublish 0; LSignal 0; LWake; LCheck] c_ex0 = Some s /\
            c_cons s = CDone (Event ev1) /\ c_sig s = false.
Proof. exact ex_wakeup. Qed.
Example C09_ex_close_wakes :
  (exists s, crun [LCall true; LCheck; LCloseMark; LCloseSend; LWake; LCheck] c_ex0 = Some s /\ c_cons s = CDone Closed) /\
  (exists s, crun [LCall true; LCheck; LCancel; LWakeCtx] c_ex0 = Some s /\ c_cons s = CDone Closed /\ serror (c_st s) = Some ECtx) /\
  (exists s, crun [LCall true; LCheck; LEngineClose; LWake] c_ex0 = Some s /\ c_cons s = CDone Closed /\ sclosed (c_st s) = true).
Proof. exact ex_close_wakes. Qed.
