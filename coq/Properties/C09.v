(* C09 — Change streams deliver each matching event once, in order, without
   stalls.  Only statements closed by `exact`, with Print Assumptions.

   Model: Model/Stream.v (Stream.next pass by pass, Engine.Watch, Stream.Close,
   the publish/broadcast tail of Engine.Commit, Engine.Close) of the REPAIRED
   stream position: Stream.last is the id timestamp of the last passed event,
   Catalog.Trimmed the id of the newest event retention has removed, a stream
   has lost its position iff Trimmed > last.  Proofs: Proofs/StreamProofs.v.
   The sequential theorems quantify over EVERY script of commits (ids strictly
   increasing, C08), retention trims, single passes of next's loop (Next or
   TryNext, cancelled context or not) and Close — induction over the script, no
   bound; one pass is the atomic unit because it runs under s.mutex on one
   catalog snapshot.  `sinv h z w mid post`: the events of the history above the
   start position z are mid ++ post, mid passed, post ahead.

   lost_is_reported and delivery_complete are FULL statements now; the two
   former refutation witnesses (known findings C09:silent-skip-unanchored-stream
   and C09:spurious-lost-anchor-trimmed) are kept as *_repaired examples. *)
From Coq Require Import List ZArith Bool.
From Lungo.Model Require Import Stream.
From Lungo.Proofs Require Import StreamProofs.
Import ListNotations.
Local Open Scope list_scope.
Local Open Scope Z_scope.
Local Notation length := List.length (only parsing).

(* every stream returned by Watch starts in the invariant, at start position z = its s.last *)
Theorem C09_watch_inv : forall h o hist ntrim st,
  increasing ts_zero hist -> (ntrim <= length hist)%nat -> at_ok o ->
  watch h o (skipn ntrim hist) (trimmed_of hist ntrim) = Some st ->
  sinv h (slast st) (world0 hist ntrim st) [] (after (slast st) hist) /\ live st /\ sdropped st = false.
Proof. exact watch_inv. Qed.
Print Assumptions C09_watch_inv.

(* now: nothing committed so far is ahead of the stream (also on an empty oplog: position = Catalog.Trimmed) *)
Theorem C09_watch_now_start : forall h hist ntrim, increasing ts_zero hist -> (ntrim <= length hist)%nat ->
  exists st, watch h watch_now (skipn ntrim hist) (trimmed_of hist ntrim) = Some st /\
             after (slast st) hist = [].
Proof. exact watch_now_start. Qed.
Print Assumptions C09_watch_now_start.

(* resumeAfter / startAfter: exactly the events after the token's event are ahead *)
Theorem C09_watch_resume_start : forall h hist ntrim A e B (after_opt : bool),
  increasing ts_zero hist -> (ntrim <= length A)%nat -> hist = A ++ e :: B ->
  let o := if after_opt then mkW None (Some (TokEvent (eid e))) None else mkW (Some (TokEvent (eid e))) None None in
  exists st, watch h o (skipn ntrim hist) (trimmed_of hist ntrim) = Some st /\ slast st = eid e /\
             after (slast st) hist = B.
Proof. exact watch_resume_start. Qed.
Print Assumptions C09_watch_resume_start.

(* startAtOperationTime z: exactly the events with id >= z are ahead, removed ones included (then Lost) *)
Theorem C09_watch_at_start : forall h hist ntrim z, increasing ts_zero hist ->
  exists st, watch h (mkW None None (Some z)) (skipn ntrim hist) (trimmed_of hist ntrim) = Some st /\
             slast st = z - 1 /\
             after (slast st) hist = filter (fun e => Z.leb z (eid e)) hist.
Proof. exact watch_at_start. Qed.
Print Assumptions C09_watch_at_start.

(* once, in order, only matching events above the start, gap-free — every stream, every interleaving *)
Theorem C09_delivery : forall h z w0 post0 script,
  sinv h z w0 [] post0 -> script_ok (w_hist w0) script ->
  let w := exec w0 script in
  let after_start := after z (w_hist w) in
  subseq (w_deliv w) (filter (in_scope h) after_start) /\
  NoDup (ids (w_deliv w)) /\
  prefix (w_deliv w) (expected h after_start).
Proof. exact delivery. Qed.
Print Assumptions C09_delivery.

(* the expected sequence is the scope filter, cut after the invalidating drop *)
Theorem C09_expected_no_drop : forall h l, forallb (fun e => negb (drops h e)) (filter (in_scope h) l) = true ->
  expected h l = filter (in_scope h) l.
Proof. exact expected_no_drop. Qed.
Print Assumptions C09_expected_no_drop.

(* FULL: nothing ahead of the stream removed, not closed -> repeated TryNext delivers everything expected *)
Theorem C09_delivery_complete : forall h z w0 post0 script,
  sinv h z w0 [] post0 -> script_ok (w_hist w0) script ->
  let w := exec w0 script in
  (w_ntrim w <= position w)%nat ->
  serror (w_st w) = None -> (sclosed (w_st w) = false \/ sdropped (w_st w) = true) ->
  forall n, (length (w_hist w) <= n)%nat ->
  w_deliv (drain n w) = expected h (after z (w_hist w)) /\ w_hist (drain n w) = w_hist w.
Proof. exact delivery_complete. Qed.
Print Assumptions C09_delivery_complete.

(* FULL: retention removed an event ahead of the stream -> every pass reports Lost *)
Theorem C09_lost_is_reported : forall h z w0 post0 script,
  sinv h z w0 [] post0 -> script_ok (w_hist w0) script ->
  let w := exec w0 script in
  live (w_st w) -> sdropped (w_st w) = false ->
  (position w < w_ntrim w)%nat ->
  forall b c, snd (next_iter b c (w_st w) (w_log w) (w_trimmed w)) = Return Lost.
Proof. exact lost_is_reported. Qed.
Print Assumptions C09_lost_is_reported.

(* ... and only then (no spurious ErrLostOplogPosition) *)
Theorem C09_lost_only_if_trimmed : forall h z w0 post0 script,
  sinv h z w0 [] post0 -> script_ok (w_hist w0) script ->
  let w := exec w0 script in
  forall b c, snd (next_iter b c (w_st w) (w_log w) (w_trimmed w)) = Return Lost ->
  (position w < w_ntrim w)%nat.
Proof. exact lost_only_if_trimmed. Qed.
Print Assumptions C09_lost_only_if_trimmed.

(* resume from a delivered event's token continues with the next event *)
Theorem C09_resume_continues : forall h h' z w0 post0 script e,
  sinv h z w0 [] post0 -> script_ok (w_hist w0) script ->
  let w := exec w0 script in
  In e (w_deliv w) -> In e (w_log w) ->
  exists st' A B,
    w_hist w = A ++ e :: B /\
    watch h' (mkW (Some (TokEvent (eid e))) None None) (w_log w) (w_trimmed w) = Some st' /\
    slast st' = eid e /\ after (eid e) (w_hist w) = B /\
    sinv h' (eid e) (world0 (w_hist w) (w_ntrim w) st') [] B.
Proof. exact resume_continues. Qed.
Print Assumptions C09_resume_continues.

Theorem C09_token_after_event : forall b c s log tr s' e,
  next_iter b c s log tr = (s', Return (Event e)) -> stok s' = Some (TokEvent (eid e)).
Proof. exact token_after_event. Qed.
Print Assumptions C09_token_after_event.

(* invalidate + close after the drop of the stream's namespace *)
Theorem C09_invalidate_after_drop : forall b c s log tr s' e,
  next_iter b c s log tr = (s', Return (Event e)) -> drops (sh s) e = true ->
  forall b' c' log' tr',
  exists s'', next_iter b' c' s' log' tr' = (s'', Return Invalidate) /\
              sclosed s'' = true /\ stok s'' = Some TokInvalidate /\
              forall b'' c'' log'' tr'', next_iter b'' c'' s'' log'' tr'' = (s'', Return Closed).
Proof. exact invalidate_after_drop. Qed.
Print Assumptions C09_invalidate_after_drop.

Theorem C09_invalidate_only_after_drop : forall b c s log tr s',
  next_iter b c s log tr = (s', Return Invalidate) -> sdropped s = true.
Proof. exact invalidate_only_after_drop. Qed.
Print Assumptions C09_invalidate_only_after_drop.

Theorem C09_drops_coll : forall d c e, d <> ""%string -> c <> ""%string ->
  drops (d, c) e = is_drop (eop e) || is_dropdb (eop e).
Proof. exact drops_coll. Qed.
Print Assumptions C09_drops_coll.

Theorem C09_drops_db : forall d e, d <> ""%string -> drops (d, ""%string) e = is_dropdb (eop e).
Proof. exact drops_db. Qed.
Print Assumptions C09_drops_db.

Theorem C09_drops_client : forall c e, drops ("", c)%string e = false.
Proof. exact drops_client. Qed.
Print Assumptions C09_drops_client.

Theorem C09_in_scope_coll : forall d c e, d <> ""%string -> c <> ""%string ->
  in_scope (d, c) e = String.eqb d (edb e) && (String.eqb c (ecoll e) || is_dropdb (eop e)).
Proof. exact in_scope_coll. Qed.
Print Assumptions C09_in_scope_coll.

(* TryNext always returns (the fuel of `next` suffices) *)
Theorem C09_next_total : forall s log tr,
  exists o, snd (next s log tr) = Ok o /\ exists o', snd (next_cancelled s log tr) = Ok o'.
Proof. exact next_total. Qed.
Print Assumptions C09_next_total.

(* the model's trim is prefix removal on the oplog *)
Theorem C09_w_log_trim : forall w k, w_log (exec_step w (STrim k)) = trim k (w_log w).
Proof. exact w_log_trim. Qed.
Print Assumptions C09_w_log_trim.

(* Catalog.Trimmed is the id of the newest event retention has removed *)
Theorem C09_trimmed_after_of : forall hist n k,
  trimmed_after k (skipn n hist) (trimmed_of hist n) = trimmed_of hist (Nat.min (n + k) (length hist)).
Proof. exact trimmed_after_of. Qed.
Print Assumptions C09_trimmed_after_of.

(* in a history, the events ahead of position z are the events with id > z *)
Theorem C09_after_filter : forall l lo z, increasing lo l -> after z l = filter (fun e => Z.ltb z (eid e)) l.
Proof. exact after_filter. Qed.
Print Assumptions C09_after_filter.

(* without stalls: the concurrent model *)
Theorem C09_no_lost_wakeup : forall s0 s, initial s0 -> reachable s0 s ->
  consumer_waiting s -> undelivered_matching s ->
  signal_full s \/ committer_about_to_signal s.
Proof. exact no_lost_wakeup. Qed.
Print Assumptions C09_no_lost_wakeup.

Theorem C09_no_lost_wakeup_general : forall s0 s, initial s0 -> reachable s0 s ->
  consumer_waiting s -> ~ quiescent s ->
  signal_full s \/ c_chclosed s = true \/ committer_about_to_signal s \/ closer_about_to_signal s.
Proof. exact no_lost_wakeup_general. Qed.
Print Assumptions C09_no_lost_wakeup_general.

Theorem C09_waiting_consumer_enabled : forall s0 s, initial s0 -> reachable s0 s ->
  consumer_waiting s -> wake_reason s ->
  wake_enabled s \/
  exists l s1, is_send l /\ cstep l s = Some s1 /\ wake_enabled s1.
Proof. exact waiting_consumer_enabled. Qed.
Print Assumptions C09_waiting_consumer_enabled.

Theorem C09_wake_enabled_stable : forall l s s', cstep l s = Some s' ->
  l <> LWake -> l <> LWakeCtx -> wake_enabled s -> wake_enabled s'.
Proof. exact wake_enabled_stable. Qed.
Print Assumptions C09_wake_enabled_stable.

Theorem C09_commit_wakes : forall s i s1 s2,
  consumer_waiting s -> c_reg s = true ->
  cstep (LPublish i) s = Some s1 -> cstep (LSignal i) s1 = Some s2 ->
  exists s3, cstep LWake s2 = Some s3 /\ c_cons s3 = CRunning true.
Proof. exact commit_wakes. Qed.
Print Assumptions C09_commit_wakes.

(* ---- non-vacuity, and the former defect witnesses, repaired ---- *)
Example C09_ex_start : watch hcoll watch_now [ev0] ts_zero = Some st_after0 /\ sinv hcoll 0 w_ex [] [].
Proof. exact ex_start. Qed.

Example C09_script_ex_ok : script_ok (w_hist w_ex) script_ex.
Proof. exact script_ex_ok. Qed.

Example C09_ex_delivery :
  w_deliv (exec w_ex script_ex) = [ev1; ev3] /\
  expected hcoll (after 0 (w_hist (exec w_ex script_ex))) = [ev1; ev3] /\
  w_outs (exec w_ex script_ex) =
    [Return (Event ev1); Continue; Return (Event ev3); Return Invalidate; Return Closed; Return Closed].
Proof. exact ex_delivery. Qed.

Example C09_ex_lost :
  script_ok (w_hist w_ex) script_lost /\
  let w := exec w_ex script_lost in
  live (w_st w) /\ sdropped (w_st w) = false /\ (position w < w_ntrim w)%nat /\
  snd (next_iter false false (w_st w) (w_log w) (w_trimmed w)) = Return Lost.
Proof. exact ex_lost. Qed.

Example C09_ex_complete :
  script_ok (w_hist w_ex) script_complete /\
  let w := exec w_ex script_complete in
  (w_ntrim w <= position w)%nat /\ serror (w_st w) = None /\ sclosed (w_st w) = false /\
  w_ntrim w = 2%nat /\ w_trimmed w = 1 /\
  w_deliv w = [ev1] /\ w_deliv (drain 4 w) = [ev1; ev4] /\
  expected hcoll (after 0 (w_hist w)) = [ev1; ev4].
Proof. exact ex_complete. Qed.

Example C09_lost_is_reported_repaired :
  watch hcoll watch_now [] ts_zero = Some st_fresh /\ script_ok [] skip_script /\
  let w := exec (world0 [] 0 st_fresh) skip_script in
  w_outs w = [Return Lost; Return Closed] /\ w_deliv w = [] /\
  serror (w_st w) = Some ELost /\ sclosed (w_st w) = true.
Proof. exact lost_is_reported_repaired. Qed.

Example C09_lost_is_reported_repaired_start_at :
  exists st0, watch hcoll (mkW None None (Some 0)) [ev0; ev1] ts_zero = Some st0 /\
  let w := exec (world0 [ev0; ev1] 0 st0) [STrim 1; SIter false false] in
  w_outs w = [Return Lost] /\ w_deliv w = [].
Proof. exact lost_is_reported_repaired_start_at. Qed.

Example C09_delivery_complete_repaired :
  watch hcoll watch_now [ev0] ts_zero = Some st_after0 /\
  let w := exec w_ex [SCommit [ev1]; STrim 1] in
  (w_ntrim w <= position w)%nat /\ In ev1 (w_log w) /\
  snd (next_iter false false (w_st w) (w_log w) (w_trimmed w)) = Return (Event ev1) /\
  w_deliv (drain 2 w) = [ev1] /\ expected hcoll (after 0 (w_hist w)) = [ev1].
Proof. exact delivery_complete_repaired. Qed.

Example C09_ex_resume :
  let w := exec w_ex script_resume in
  In ev1 (w_deliv w) /\ In ev1 (w_log w) /\
  exists st', watch ("d"%string, ""%string) (mkW (Some (TokEvent 1)) None None) (w_log w) (w_trimmed w) = Some st' /\
              snd (next st' (w_log w) (w_trimmed w)) = Ok (Event ev2).
Proof. exact ex_resume. Qed.

Example C09_ex_invalidate :
  exists s', next_iter false false (mkS hcoll 2 false false None None None) [ev2; ev3; ev4] ts_zero
             = (s', Return (Event ev3)) /\ drops hcoll ev3 = true.
Proof. exact ex_invalidate. Qed.

Local Open Scope nat_scope.

Example C09_ex_window_reachable :
  exists s, initial c_ex0 /\ reachable c_ex0 s /\ consumer_waiting s /\ undelivered_matching s.
Proof. exact ex_window_reachable. Qed.

Example C09_ex_window :
  exists s, crun [LCall true; LCheck; LPublish 0] c_ex0 = Some s /\
            consumer_waiting s /\ undelivered_matching s /\ c_sig s = false /\
            committer_about_to_signal s.
Proof. exact ex_window. Qed.

Example C09_ex_wakeup :
  exists s, crun [LCall true; LCheck; LPublish 0; LSignal 0; LWake; LCheck] c_ex0 = Some s /\
            c_cons s = CDone (Event ev1) /\ c_sig s = false.
Proof. exact ex_wakeup. Qed.

Example C09_ex_trim_wakes :
  exists s, crun [LCall true; LCheck; LPublish 0; LSignal 0; LWake; LCheck]
                 (cinit [ev0] ts_zero st_after0 [([ev1; ev2], 2)]) = Some s /\
            c_cons s = CDone Lost /\ c_trimmed s = 1%Z.
Proof. exact ex_trim_wakes. Qed.

Example C09_ex_close_wakes :
  (exists s, crun [LCall true; LCheck; LCloseMark; LCloseSend; LWake; LCheck] c_ex0 = Some s /\ c_cons s = CDone Closed) /\
  (exists s, crun [LCall true; LCheck; LCancel; LWakeCtx] c_ex0 = Some s /\ c_cons s = CDone Closed /\ serror (c_st s) = Some ECtx) /\
  (exists s, crun [LCall true; LCheck; LEngineClose; LWake] c_ex0 = Some s /\ c_cons s = CDone Closed /\ sclosed (c_st s) = true).
Proof. exact ex_close_wakes. Qed.

