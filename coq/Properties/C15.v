(* C15 — After any sequence of writes, index creations/drops, failed calls and
   transaction commits/aborts, each index of each collection contains exactly
   the collection's current documents (those matching its partial filter),
   each once and in key order, so that the index behaves identically to one
   rebuilt from scratch over the same documents - including after reopening
   the file.  Creating an index that already exists with the same definition
   is a no-op, creating a conflicting one fails, and dropping indexes never
   removes the _id index.

   Every statement holds for ANY operator semantics (matchf, applyf, extractf,
   projectf are universally quantified) and for EVERY history `calls` of
   driver calls (Model/Driver.v: all 25 call constructors, including session
   start/commit/abort/end, the oplog trim and TTL expiry):

     after calls        = fst (run d_init calls), the state after the history
     visible_cat ds c   = c is the committed catalog of ds, or the catalog of
                          an open session transaction of ds

   An index is modelled as the SET of its (key tuple, document identity)
   entries (the btree order is a function of the entries: "in key order" is
   the order of the tree, not part of the state). *)
From Coq Require Import List ZArith String.
From Lungo.Model Require Import Driver MiniOps.
From Lungo.Proofs Require Import EntryLemmas IndexInv CollInv CatInv HistoryInv HistoryProps.
Import ListNotations.
Open Scope Z_scope.

(* the history invariant itself: the committed catalog and every open
   transaction's catalog satisfy cat_inv (CatInv.v) after every call ... *)
Theorem C15_step_invariant :
  forall matchf applyf extractf projectf now ds c,
    ds_inv matchf ds -> ds_inv matchf (fst (step matchf applyf extractf projectf now ds c)).
Proof. exact step_inv. Qed.
Print Assumptions C15_step_invariant.

(* ... hence after every history *)
Theorem C15_history_invariant :
  forall matchf applyf extractf projectf now calls,
    ds_inv matchf (fst (run matchf applyf extractf projectf now d_init calls)).
Proof. exact run_inv. Qed.
Print Assumptions C15_history_invariant.

(* every index of every namespace of every visible catalog holds exactly the
   key tuples of the covered documents, each entry once (ix_ok):
     nodup_entries (ix_entries ix)
     /\ the partial filter is defined on every document
     /\ forall t id, mem (ix_entries ix) t id <->
                     exists d, In (id, d) (c_docs nc) /\ covered ix d = Ok true /\
                               some tuple of d is tuple_eq to t *)
Theorem C15_index_exact :
  forall matchf applyf extractf projectf now calls c h nc n ix,
    visible_cat (after matchf applyf extractf projectf now calls) c ->
    In (h, nc) (cat_ns c) -> In (n, ix) (c_indexes nc) ->
    ix_ok matchf (docs_of nc) ix.
Proof. exact hist_index_exact. Qed.
Print Assumptions C15_index_exact.

(* ... and is indistinguishable from the index rebuilt from scratch over the
   current documents with the same configuration (what reopening the file
   does): the rebuild succeeds and has the same membership relation *)
Theorem C15_index_equals_rebuild :
  forall matchf applyf extractf projectf now calls c h nc n ix,
    visible_cat (after matchf applyf extractf projectf now calls) c ->
    In (h, nc) (cat_ns c) -> In (n, ix) (c_indexes nc) ->
    exists ix0 ix',
      new_index (ix_config ix) = Ok ix0 /\
      build matchf ix0 (c_docs nc) = (ix', None) /\
      ix_config ix' = ix_config ix /\ ix_cols ix' = ix_cols ix /\
      nodup_entries (ix_entries ix') /\ nodup_entries (ix_entries ix) /\
      forall t id, mem (ix_entries ix') t id <-> mem (ix_entries ix) t id.
Proof. exact hist_index_rebuild. Qed.
Print Assumptions C15_index_equals_rebuild.

(* every user namespace always has its _id index *)
Theorem C15_id_index_present :
  forall matchf applyf extractf projectf now calls c h nc,
    visible_cat (after matchf applyf extractf projectf now calls) c ->
    In (h, nc) (cat_ns c) -> h <> oplog_handle ->
    has_id_index nc.
Proof. exact hist_id_index_present. Qed.
Print Assumptions C15_id_index_present.

Theorem C15_index_names_distinct :
  forall matchf applyf extractf projectf now calls c h nc,
    visible_cat (after matchf applyf extractf projectf now calls) c ->
    In (h, nc) (cat_ns c) -> NoDup (map fst (c_indexes nc)).
Proof. exact hist_index_names_distinct. Qed.
Print Assumptions C15_index_names_distinct.

Theorem C15_namespaces_distinct :
  forall matchf applyf extractf projectf now calls c,
    visible_cat (after matchf applyf extractf projectf now calls) c ->
    NoDup (map fst (cat_ns c)).
Proof. exact hist_namespaces_distinct. Qed.
Print Assumptions C15_namespaces_distinct.

(* the index catalogue: collection level ... *)
Theorem C15_create_same_is_noop :
  forall matchf c name cf n ix,
    index_name name cf = Ok n ->
    find_index (c_indexes c) n = Some ix ->
    config_equal cf (ix_config ix) = true ->
    coll_create_index matchf c name cf = (c, inl n).
Proof. exact create_same_is_noop. Qed.
Print Assumptions C15_create_same_is_noop.

Theorem C15_create_conflicting_fails :
  forall matchf c name cf n,
    index_name name cf = Ok n ->
    (exists ix, find_index (c_indexes c) n = Some ix /\ config_equal cf (ix_config ix) = false) \/
    (find_index (c_indexes c) n = None /\
     exists m ix, In (m, ix) (c_indexes c) /\
                  compare (VDoc (cf_key cf)) (VDoc (cf_key (ix_config ix))) = Eq) ->
    coll_create_index matchf c name cf = (c, inr EErr).
Proof. exact create_conflicting_fails. Qed.
Print Assumptions C15_create_conflicting_fails.

Theorem C15_drop_never_removes_id :
  forall c name c' r,
    coll_drop_index c name = (c', r) ->
    find_index (c_indexes c') "_id_" = find_index (c_indexes c) "_id_" /\
    (forall dropped, r = inl dropped -> ~ In "_id_"%string dropped).
Proof. exact drop_never_removes_id. Qed.
Print Assumptions C15_drop_never_removes_id.

(* ... and through the Transaction methods: the catalog comes back identical *)
(* dropping by key specification (IndexView.DropOneWithKey) is a drop by
   name after a pure lookup: the history theorems above (in particular
   C15_id_index_present and C15_drop_never_removes_id) cover it *)
Theorem C15_drop_by_key_is_drop_by_name : forall ds sid h key,
  exists name, drop_by_key_call ds sid h key = CDropIndex sid h name.
Proof. exact drop_by_key_is_drop_by_name. Qed.
Print Assumptions C15_drop_by_key_is_drop_by_name.

Theorem C15_txn_create_same_is_noop :
  forall matchf c h nc name cf n ix,
    guard_write h = None -> ns_get (cat_ns c) h = Some nc ->
    index_name name cf = Ok n -> find_index (c_indexes nc) n = Some ix ->
    config_equal cf (ix_config ix) = true ->
    txn_create_index matchf c h name cf = (c, inl n).
Proof. exact txn_create_same_is_noop. Qed.
Print Assumptions C15_txn_create_same_is_noop.

Theorem C15_txn_create_conflicting_fails :
  forall matchf c h nc name cf n,
    guard_write h = None -> ns_get (cat_ns c) h = Some nc ->
    index_name name cf = Ok n ->
    (exists ix, find_index (c_indexes nc) n = Some ix /\ config_equal cf (ix_config ix) = false) \/
    (find_index (c_indexes nc) n = None /\
     exists m ix, In (m, ix) (c_indexes nc) /\
                  compare (VDoc (cf_key cf)) (VDoc (cf_key (ix_config ix))) = Eq) ->
    txn_create_index matchf c h name cf = (c, inr EErr).
Proof. exact txn_create_conflicting_fails. Qed.
Print Assumptions C15_txn_create_conflicting_fails.

Theorem C15_txn_drop_keeps_id :
  forall c h name c' r nc,
    NoDup (map fst (cat_ns c)) ->
    txn_drop_index c h name = (c', r) -> ns_get (cat_ns c) h = Some nc ->
    exists nc', ns_get (cat_ns c') h = Some nc' /\
                find_index (c_indexes nc') "_id_" = find_index (c_indexes nc) "_id_" /\
                c_docs nc' = c_docs nc.
Proof. exact txn_drop_keeps_id. Qed.
Print Assumptions C15_txn_drop_keeps_id.

(* ------------------------------------------------------------------ *)
(* non-vacuity: a history with a unique index build, inserts, a rejected
   duplicate, an open session transaction holding an uncommitted insert and
   a rejected outside write; both visible catalogs have a user namespace with
   documents and two indexes *)
Definition ex_h : handle := ("db"%string, "c"%string).
Definition ex_calls : list call :=
  [CCreateIndex 0 ex_h "" [("a"%string, VInt32 1)] true None None;
   CInsertOne 0 ex_h [("_id"%string, VInt32 1); ("a"%string, VInt32 5)];
   CInsertOne 0 ex_h [("_id"%string, VInt32 2); ("a"%string, VInt32 5)];
   CStart 7;
   CInsertOne 7 ex_h [("_id"%string, VInt32 3); ("a"%string, VInt32 6)];
   CUpdate 0 ex_h false [("_id"%string, VInt32 1)]
           [("$set"%string, VDoc [("a"%string, VInt32 9)])] false []].

Example C15_nonvacuous_committed :
  exists c nc ix,
    visible_cat (after mini_match mini_apply mini_extract mini_project 0 ex_calls) c /\
    In (ex_h, nc) (cat_ns c) /\ In ("a_1"%string, ix) (c_indexes nc) /\
    List.length (c_docs nc) = 1%nat /\ ix_entries ix = [([VInt32 5], 1)].
Proof.
  eexists. eexists. eexists. split; [left; reflexivity|].
  split; [vm_compute; right; left; reflexivity|].
  split; [vm_compute; right; left; reflexivity|].
  split; reflexivity.
Qed.

Example C15_nonvacuous_open_transaction :
  exists c nc ix,
    visible_cat (after mini_match mini_apply mini_extract mini_project 0 ex_calls) c /\
    c <> ds_cat (after mini_match mini_apply mini_extract mini_project 0 ex_calls) /\
    In (ex_h, nc) (cat_ns c) /\ In ("a_1"%string, ix) (c_indexes nc) /\
    List.length (c_docs nc) = 2%nat /\ ix_entries ix = [([VInt32 5], 1); ([VInt32 6], 3)].
Proof.
  eexists. eexists. eexists. split.
  - right. exists 7. eexists. split; [vm_compute; left; reflexivity|]. reflexivity.
  - split; [vm_compute; discriminate|].
    split; [vm_compute; right; left; reflexivity|].
    split; [vm_compute; right; left; reflexivity|].
    split; reflexivity.
Qed.

(* ---------------- the catalog-level driver calls (Model/DriverExt.v) ----------------
   Histories may also contain CreateCollection, ListCollections,
   ListDatabases and CreateMany (xcall / xstep / xrun): the invariant, and
   with it every consequence above, holds after every such history. *)
From Lungo.Model Require Import DriverExt.
From Lungo.Proofs Require Import DriverExtProofs.

Theorem C15_ext_step_invariant :
  forall matchf applyf extractf projectf now ds x,
    ds_inv matchf ds -> ds_inv matchf (fst (xstep matchf applyf extractf projectf now ds x)).
Proof. exact xstep_inv. Qed.
Print Assumptions C15_ext_step_invariant.

Theorem C15_ext_history_invariant :
  forall matchf applyf extractf projectf now xs,
    ds_inv matchf (fst (xrun matchf applyf extractf projectf now d_init xs)).
Proof. exact xrun_inv. Qed.
Print Assumptions C15_ext_history_invariant.

Theorem C15_ext_reachable_catalog_invariant :
  forall matchf applyf extractf projectf now xs c,
    visible_cat (fst (xrun matchf applyf extractf projectf now d_init xs)) c ->
    CatInv.cat_inv matchf c (g_did (ds_gen (fst (xrun matchf applyf extractf projectf now d_init xs)))).
Proof. exact xreachable_cat_inv. Qed.
Print Assumptions C15_ext_reachable_catalog_invariant.

(* a history of Driver calls is a history of extended calls *)
Theorem C15_ext_histories_contain_driver_histories :
  forall matchf applyf extractf projectf now cs ds,
    xrun matchf applyf extractf projectf now ds (lift_calls cs) =
    (fst (run matchf applyf extractf projectf now ds cs),
     map XR (snd (run matchf applyf extractf projectf now ds cs))).
Proof. exact xrun_lift. Qed.
Print Assumptions C15_ext_histories_contain_driver_histories.

(* CreateMany is its CreateOne calls, in order, as far as they succeed *)
Theorem C15_create_many_is_prefix_of_create_ones :
  forall matchf applyf extractf projectf now specs ds sid h acc,
    exists k, (k <= List.length specs)%nat /\
      fst (create_many matchf applyf extractf projectf now ds sid h specs acc) =
      fst (run matchf applyf extractf projectf now ds (map (create_index_call sid h) (firstn k specs))).
Proof. exact create_many_is_prefix_run. Qed.
Print Assumptions C15_create_many_is_prefix_of_create_ones.
