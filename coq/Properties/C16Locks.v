(* C16 (lock order) — the "acquired while holding" graph between the mutex
   classes, regenerated from /repo's source on every run (Gen/Locks.v, G6), is
   acyclic, and an ordered-locking system has no wait-for cycle. *)
From Coq Require Import List String Relations.
From Lungo.Model Require Import Base LockOrder.
From Lungo.Gen Require Import Locks.
From Lungo.Proofs Require Import LockOrderProofs GenLocks.
Import ListNotations.

(* soundness of the boolean checker: no closed walk (cycle or self loop) *)
Theorem C16_acyclic_sound : forall es,
  acyclic es = true -> forall x l, ~ walk es (x :: l ++ [x]).
Proof. exact acyclic_sound_thm. Qed.
Print Assumptions C16_acyclic_sound.

(* the generic theorem: threads that only wait for a mutex reachable along
   the edges from every mutex they hold never form a wait-for cycle *)
Theorem C16_ordered_locking_no_wait_cycle :
  forall M (cls : M -> string) es (sys : list (lthread M)),
  acyclic es = true -> respects cls es sys ->
  forall a, ~ clos_trans_1n _ (waits_for sys) a a.
Proof. exact no_wait_cycle_thm. Qed.
Print Assumptions C16_ordered_locking_no_wait_cycle.

(* the obligation on the current source *)
Theorem C16_source_lock_graph_acyclic : acyclic gen_lock_edges = true.
Proof. exact gen_lock_edges_acyclic. Qed.
Print Assumptions C16_source_lock_graph_acyclic.

Theorem C16_source_no_wait_cycle :
  forall M (cls : M -> string) (sys : list (lthread M)),
  respects cls gen_lock_edges sys ->
  forall a, ~ clos_trans_1n _ (waits_for sys) a a.
Proof. exact gen_lock_order_no_wait_cycle. Qed.
Print Assumptions C16_source_no_wait_cycle.

Theorem C16_source_lock_classes :
  gen_lock_classes = ["Engine.mutex"; "Session.mutex"; "Stream.mutex"; "Transaction.mutex"]%string.
Proof. exact gen_lock_classes_ok. Qed.
Print Assumptions C16_source_lock_classes.

Example C16_checker_rejects_inversion :
  acyclic [("Session.mutex", "Engine.mutex"); ("Engine.mutex", "Session.mutex")]%string = false.
Proof. exact acyclic_rejects_inversion. Qed.
Example C16_checker_accepts :
  acyclic [("Session.mutex", "Engine.mutex"); ("Stream.mutex", "Engine.mutex");
           ("Engine.mutex", "Transaction.mutex"); ("Session.mutex", "Transaction.mutex")]%string = true.
Proof. exact acyclic_accepts. Qed.
