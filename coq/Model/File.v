(* File.v — the persistent image of a lungo database (/repo/file.go,
   /repo/store.go, /repo/catalog.go).  Executable definitions only.

   catalog      ~ lungo.Catalog: handle (database, collection) -> documents in
                  natural order + index definitions (name -> key, unique,
                  partial filter, expiry); the change log is the namespace
                  ("local","oplog"), present in every catalog (NewCatalog).
   file         ~ lungo.File / FileNamespace / FileIndex.
   build_file   ~ BuildFile            (namespace key = db ++ "." ++ coll)
   file_to_value / value_to_file
                ~ bson.Marshal / bson.Unmarshal of the Go structs: field names
                  from the struct tags, time.Duration as int64 nanoseconds, a
                  nil *bson.D / nil slice / nil map as null
   build_catalog ~ File.BuildCatalog    (handle split at the FIRST dot)

   Go maps are association lists here, in the order of the case; the harness
   sorts what Go leaves to map iteration order.  Index ENTRIES are not part of
   this model: rebuilding an index on load (mongokit.CreateIndex + Build) is
   the parameter `build_ok`; its instance `create_ok` mirrors the checks of
   CreateIndex only (a rebuild over documents that satisfied the unique
   constraint before cannot fail — that is C07/C15, not modelled here). *)
From Lungo.Model Require Export Codec.
Open Scope string_scope.
Open Scope Z_scope.

Record index_cfg : Type := {
  ix_key : doc;              (* IndexConfig.Key *)
  ix_unique : bool;          (* IndexConfig.Unique *)
  ix_partial : option doc;   (* IndexConfig.Partial, nil = None *)
  ix_expiry : Z              (* IndexConfig.Expiry, time.Duration in ns *)
}.

Record coll : Type := {
  c_docs : list doc;                       (* Documents.List, natural order *)
  c_indexes : list (string * index_cfg)    (* Indexes: name -> definition *)
}.

Definition handle : Type := (string * string)%type.   (* lungo.Handle *)
Definition catalog : Type := list (handle * coll).

Definition oplog_handle : handle := ("local", "oplog").
Definition empty_coll : coll := {| c_docs := []; c_indexes := [] |}.

(* lungo.FileNamespace; None = a nil slice / nil map, written as null *)
Record file_ns : Type := {
  fn_docs : option (list doc);
  fn_indexes : option (list (string * index_cfg))
}.

Definition file : Type := list (string * file_ns).    (* File.Namespaces *)

(* Handle.String *)
Definition handle_key (h : handle) : string := fst h ++ "." ++ snd h.

Definition is_nil {A} (l : list A) : bool := match l with [] => true | _ => false end.

(* BuildFile.  An empty document list is a nil slice in Go when the set never
   held a document and an empty non-nil slice after removals; `nilp` makes
   that choice, per namespace key, explicit. *)
Definition build_ns (nilp : string -> bool) (hc : handle * coll) : string * file_ns :=
  let k := handle_key (fst hc) in
  (k, {| fn_docs := if nilp k && is_nil (c_docs (snd hc)) then None else Some (c_docs (snd hc));
         fn_indexes := Some (c_indexes (snd hc)) |}).

Definition build_file_g (nilp : string -> bool) (c : catalog) : file := map (build_ns nilp) c.

Definition build_file (c : catalog) : file := build_file_g (fun _ => false) c.

(* ---- bson.Marshal of the structs ---- *)

Definition opt_doc_value (p : option doc) : value :=
  match p with None => VNull | Some d => VDoc d end.

Definition ix_to_value (ix : index_cfg) : value :=
  VDoc [("key", VDoc (ix_key ix)); ("unique", VBool (ix_unique ix));
        ("partial", opt_doc_value (ix_partial ix)); ("expiry", VInt64 (ix_expiry ix))].

Definition named_ix_to_value (ni : string * index_cfg) : string * value :=
  (fst ni, ix_to_value (snd ni)).

Definition ns_to_value (ns : file_ns) : value :=
  VDoc [("documents", match fn_docs ns with None => VNull | Some l => VArr (map VDoc l) end);
        ("indexes", match fn_indexes ns with None => VNull
                    | Some l => VDoc (map named_ix_to_value l) end)].

Definition named_ns_to_value (kn : string * file_ns) : string * value :=
  (fst kn, ns_to_value (snd kn)).

Definition file_to_doc (f : file) : doc := [("namespaces", VDoc (map named_ns_to_value f))].
Definition file_to_value (f : file) : value := VDoc (file_to_doc f).

(* ---- bson.Unmarshal into the structs ----
   The struct decoder takes fields by name in any order (the last occurrence
   wins), ignores unknown fields and leaves absent ones at their zero value;
   null gives nil.  Its lenient conversions (a number into a bool, a double
   into an integer, …) are not modelled: None.  A null or absent `key` makes
   BuildCatalog dereference nil (panic): also None here. *)

Fixpoint field (k : string) (d : doc) : option value :=
  match d with
  | [] => None
  | (k', v) :: t =>
      match field k t with
      | Some w => Some w
      | None => if String.eqb k k' then Some v else None
      end
  end.

Definition value_to_ix (v : value) : option index_cfg :=
  match v with
  | VDoc d =>
      match field "key" d with
      | Some (VDoc key) =>
          match (match field "unique" d with
                 | None | Some VNull => Some false | Some (VBool b) => Some b | _ => None end),
                (match field "partial" d with
                 | None | Some VNull => Some None | Some (VDoc p) => Some (Some p) | _ => None end),
                (match field "expiry" d with
                 | None | Some VNull => Some 0 | Some (VInt64 z) => Some z | Some (VInt32 z) => Some z
                 | _ => None end) with
          | Some u, Some p, Some e =>
              Some {| ix_key := key; ix_unique := u; ix_partial := p; ix_expiry := e |}
          | _, _, _ => None
          end
      | _ => None
      end
  | _ => None
  end.

Definition value_to_named_ix (kv : string * value) : option (string * index_cfg) :=
  match value_to_ix (snd kv) with Some ix => Some (fst kv, ix) | None => None end.

Definition value_to_docv (v : value) : option doc :=
  match v with VDoc d => Some d | _ => None end.

Definition value_to_ns (v : value) : option file_ns :=
  match v with
  | VDoc d =>
      match (match field "documents" d with
             | None | Some VNull => Some None
             | Some (VArr l) => option_map Some (opt_mapM value_to_docv l)
             | _ => None end),
            (match field "indexes" d with
             | None | Some VNull => Some None
             | Some (VDoc l) => option_map Some (opt_mapM value_to_named_ix l)
             | _ => None end) with
      | Some ds, Some ixs => Some {| fn_docs := ds; fn_indexes := ixs |}
      | _, _ => None
      end
  | _ => None
  end.

Definition value_to_named_ns (kv : string * value) : option (string * file_ns) :=
  match value_to_ns (snd kv) with Some ns => Some (fst kv, ns) | None => None end.

Definition value_to_file (v : value) : option file :=
  match v with
  | VDoc d =>
      match field "namespaces" d with
      | None | Some VNull => Some []
      | Some (VDoc l) => opt_mapM value_to_named_ns l
      | _ => None
      end
  | _ => None
  end.

(* ---- BuildCatalog ---- *)

Definition dot : ascii := "."%char.

(* strings.SplitN(name, ".", 2) with exactly two segments *)
Fixpoint split_first_dot (s : string) : option (string * string) :=
  match s with
  | EmptyString => None
  | String c t =>
      if Ascii.eqb c dot then Some (EmptyString, t)
      else match split_first_dot t with
           | Some (a, b) => Some (String c a, b)
           | None => None
           end
  end.

Definition handle_eqb (a b : handle) : bool :=
  String.eqb (fst a) (fst b) && String.eqb (snd a) (snd b).

Definition load_ns (build_ok : index_cfg -> list doc -> bool) (kn : string * file_ns)
  : option (handle * coll) :=
  match split_first_dot (fst kn) with
  | None => None                       (* "invalid namespace name" *)
  | Some h =>
      let docs := match fn_docs (snd kn) with None => [] | Some l => l end in
      let ixs := match fn_indexes (snd kn) with None => [] | Some l => l end in
      if forallb (fun ni => build_ok (snd ni) docs) ixs
      then Some (h, {| c_docs := docs; c_indexes := ixs |})
      else None                        (* CreateIndex / Build failed *)
  end.

(* NewCatalog() already holds an empty local.oplog; the namespaces of the file
   are then assigned over it *)
Definition build_catalog_g (build_ok : index_cfg -> list doc -> bool) (f : file) : option catalog :=
  match opt_mapM (load_ns build_ok) f with
  | Some nss =>
      if existsb (fun hc => handle_eqb (fst hc) oplog_handle) nss then Some nss
      else Some ((oplog_handle, empty_coll) :: nss)
  | None => None
  end.

(* mongokit.CreateIndex: non-empty key, directions 1 / -1 (int32, int64 or the
   doubles 1.0 / -1.0; other doubles that truncate to 1 or -1 are accepted by
   Go and not modelled), no expiring compound index *)
Definition direction_ok (v : value) : bool :=
  match v with
  | VInt32 z | VInt64 z => (z =? 1) || (z =? -1)
  | VDouble b => (b =? 4607182418800017408) || (b =? 13830554455654793216)
  | _ => false
  end.

Definition create_ok (ix : index_cfg) (_ : list doc) : bool :=
  negb (is_nil (ix_key ix)) && forallb (fun kv => direction_ok (snd kv)) (ix_key ix)
  && negb ((0 <? ix_expiry ix) && (1 <? Z.of_nat (List.length (ix_key ix)))).

Definition build_catalog (f : file) : option catalog := build_catalog_g create_ok f.

(* ---- FileStore.Store followed by FileStore.Load ---- *)

Definition store_bytes (nilp : string -> bool) (c : catalog) : bytes :=
  encode_doc (file_to_doc (build_file_g nilp c)).

Definition load_bytes (build_ok : index_cfg -> list doc -> bool) (bs : bytes) : option catalog :=
  match decode_bytes bs with
  | Some d =>
      match value_to_file (VDoc d) with
      | Some f => build_catalog_g build_ok f
      | None => None
      end
  | None => None
  end.

Definition reload_g (build_ok : index_cfg -> list doc -> bool) (nilp : string -> bool) (c : catalog)
  : option catalog := load_bytes build_ok (store_bytes nilp c).

Definition reload (c : catalog) : option catalog := reload_g create_ok (fun _ => false) c.

(* bson.Marshal fails (and with it the commit) when a map key contains NUL *)
Definition storable (c : catalog) : bool := encodable (file_to_value (build_file c)).

(* ------------------------------------------------------------------ *)
(* Predicates of the theorems (executable, so examples are by computation). *)

Fixpoint no_dot (s : string) : bool :=
  match s with
  | EmptyString => true
  | String c t => negb (Ascii.eqb c dot) && no_dot t
  end.

(* no database name contains a dot.  Handle.Validate does NOT enforce this
   (it only rejects empty names): the hypothesis of reload_identity that the
   real code violates, see reload_identity_refuted *)
Definition handles_ok (c : catalog) : bool :=
  forallb (fun hc => no_dot (fst (fst hc))) c.

Definition int64_ok (z : Z) : bool := (- two63 <=? z) && (z <? two63).

Definition ix_ok (ni : string * index_cfg) : bool :=
  no_nul (fst ni) && codec_ok (VDoc (ix_key (snd ni)))
  && match ix_partial (snd ni) with None => true | Some p => codec_ok (VDoc p) end
  && int64_ok (ix_expiry (snd ni)).

Definition ns_ok (hc : handle * coll) : bool :=
  no_nul (fst (fst hc)) && no_nul (snd (fst hc))
  && forallb (fun d => codec_ok (VDoc d)) (c_docs (snd hc))
  && forallb ix_ok (c_indexes (snd hc)).

(* everything in the catalog is storable: names without NUL, documents, index
   keys and partial filters made of storable values, expiry an int64 *)
Definition catalog_ok (c : catalog) : bool := forallb ns_ok c.

(* NewCatalog puts local.oplog into every catalog and nothing removes it *)
Definition has_oplog (c : catalog) : bool :=
  existsb (fun hc => handle_eqb (fst hc) oplog_handle) c.

(* every stored index can be created and rebuilt over its collection *)
Definition indexes_build (build_ok : index_cfg -> list doc -> bool) (c : catalog) : bool :=
  forallb (fun hc => forallb (fun ni => build_ok (snd ni) (c_docs (snd hc))) (c_indexes (snd hc))) c.

(* ------------------------------------------------------------------ *)
(* S-expressions of catalogs and the runner.                            *)
(*   (ns xDB xCOLL n|e (docs D…) (idx (xNAME D T|F N|D expiry) …))      *)

Definition ix_to_sexp (ni : string * index_cfg) : sexp :=
  SList [SAtom (hex (fst ni)); value_to_sexp (VDoc (ix_key (snd ni)));
         SAtom (if ix_unique (snd ni) then "T" else "F");
         value_to_sexp (opt_doc_value (ix_partial (snd ni)));
         SAtom (show_Z (ix_expiry (snd ni)))].

Definition ns_to_sexp (hc : handle * coll) : sexp :=
  SList [SAtom "ns"; SAtom (hex (fst (fst hc))); SAtom (hex (snd (fst hc)));
         SList (SAtom "docs" :: map (fun d => value_to_sexp (VDoc d)) (c_docs (snd hc)));
         SList (SAtom "idx" :: map ix_to_sexp (c_indexes (snd hc)))].

Definition ix_of_sexp (x : sexp) : option (string * index_cfg) :=
  match x with
  | SList [SAtom n; k; SAtom u; p; SAtom e] =>
      match unhex n, doc_of_sexp k, parse_Z e with
      | Some n', Some k', Some e' =>
          match (if String.eqb u "T" then Some true else if String.eqb u "F" then Some false else None),
                (match value_of_sexp p with
                 | Some VNull => Some None | Some (VDoc d) => Some (Some d) | _ => None end) with
          | Some u', Some p' =>
              Some (n', {| ix_key := k'; ix_unique := u'; ix_partial := p'; ix_expiry := e' |})
          | _, _ => None
          end
      | _, _, _ => None
      end
  | _ => None
  end.

(* a namespace and whether its (empty) document list is a nil slice *)
Definition ns_of_sexp (x : sexp) : option (handle * coll * bool) :=
  match x with
  | SList [SAtom "ns"; SAtom db; SAtom cl; SAtom flag; SList (SAtom "docs" :: ds); SList (SAtom "idx" :: ixs)] =>
      match unhex db, unhex cl, opt_mapM doc_of_sexp ds, opt_mapM ix_of_sexp ixs with
      | Some db', Some cl', Some ds', Some ixs' =>
          Some ((db', cl'), {| c_docs := ds'; c_indexes := ixs' |}, String.eqb flag "n")
      | _, _, _, _ => None
      end
  | _ => None
  end.

Definition nilp_of (l : list (handle * coll * bool)) (k : string) : bool :=
  existsb (fun x => snd x && String.eqb (handle_key (fst (fst x))) k) l.

(* canonical order of a dump: by namespace key, bytewise *)
Fixpoint insert_ns (x : handle * coll) (l : catalog) : catalog :=
  match l with
  | [] => [x]
  | y :: t =>
      match str_compare (handle_key (fst x)) (handle_key (fst y)) with
      | Gt => y :: insert_ns x t
      | _ => x :: l
      end
  end.

Definition sort_catalog (c : catalog) : catalog := fold_right insert_ns [] c.

Definition show_catalog (c : catalog) : string :=
  show_sexp (SList (SAtom "cat" :: map ns_to_sexp (sort_catalog c))).

Definition show_reload (r : option catalog) : string :=
  match r with Some c => show_catalog c | None => "ERR" end.

Definition run_file (x : sexp) : option string :=
  match x with
  | SList (SAtom "file" :: nss) =>
      (* BuildFile + bson.Marshal (map order canonicalised by the harness),
         then bson.Unmarshal + BuildCatalog of those bytes *)
      match opt_mapM ns_of_sexp nss with
      | Some l =>
          let c := map fst l in
          if storable c then
            let bs := store_bytes (nilp_of l) c in
            Some (hex_bytes bs ++ " " ++ show_reload (load_bytes create_ok bs))
          else Some "ERR"
      | None => Some "BAD-CASE"
      end
  | SList (SAtom "reloadimg" :: SList (SAtom "img" :: nss) :: _) =>
      (* the catalog of a real engine before Close -> the catalog after Open *)
      match opt_mapM ns_of_sexp nss with
      | Some l =>
          let c := map fst l in
          if storable c then Some (show_reload (reload_g create_ok (nilp_of l) c)) else Some "ERR"
      | None => Some "BAD-CASE"
      end
  | _ => None
  end.
