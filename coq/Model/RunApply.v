(* RunApply.v — runners of family `apply` (mongokit.Apply, mongokit.Extract). *)
From Lungo.Model Require Import Apply RunAccess.
Open Scope string_scope.

(* the syntactic class of updates that can reach the query matcher: a $pull
   whose argument is a document, or a non-empty arrayFilters list *)
Definition is_doc (v : value) : bool := match v with VDoc _ => true | _ => false end.

Definition needs_matcher (u : doc) (filters : list doc) : bool :=
  negb (match filters with [] => true | _ => false end) ||
  existsb (fun kv =>
             String.eqb (fst kv) "$pull" &&
             match snd kv with
             | VDoc pairs => existsb (fun p => is_doc (snd p)) pairs
             | _ => false
             end) u.

(* the class of updates in which $inc / $mul may combine a double with a
   Decimal128 (decimal.NewFromFloat, not modelled): an $inc / $mul argument is
   a decimal while the document or the update holds a double anywhere, or
   the other way round.  Conservative and purely syntactic, so that both sides
   compute it before running anything. *)
Fixpoint has_kind (k : value -> bool) (v : value) : bool :=
  match v with
  | VDoc d => (fix go (d : list (string * value)) : bool :=
                 match d with [] => false | (_, x) :: t => has_kind k x || go t end) d
  | VArr a => (fix go (a : list value) : bool :=
                 match a with [] => false | x :: t => has_kind k x || go t end) a
  | _ => k v
  end.
Definition is_double (v : value) : bool := match v with VDouble _ => true | _ => false end.
Definition is_decimal (v : value) : bool := match v with VDecimal _ _ => true | _ => false end.

(* a NaN / infinite argument never reaches decimal.NewFromFloat *)
Definition non_finite_number (v : value) : bool :=
  match v with
  | VDouble b => is_nan_bits b || is_inf_bits b
  | VDecimal h l => match dec_decode h l with DFin _ _ => false | _ => true end
  | _ => false
  end.

Definition mixed_arith (d u : doc) : bool :=
  let dbl := has_kind is_double (VDoc d) || has_kind is_double (VDoc u) in
  let dcm := has_kind is_decimal (VDoc d) || has_kind is_decimal (VDoc u) in
  existsb (fun kv =>
             (String.eqb (fst kv) "$inc" || String.eqb (fst kv) "$mul") &&
             match snd kv with
             | VDoc pairs =>
                 existsb (fun p => negb (non_finite_number (snd p)) &&
                                   ((is_decimal (snd p) && dbl) || (is_double (snd p) && dcm))) pairs
             | _ => false
             end) u.

Definition show_changes (ch : changes) : string :=
  show_sexp (SList (map (fun kv => SList [SAtom (hex (fst kv)); value_to_sexp (snd kv)]) ch)).

Definition show_apply (r : res (doc * changes)) : string :=
  match r with
  | Ok (d, ch) => "(" ++ show_value (VDoc d) ++ " " ++ show_changes ch ++ ")"
  | Err => "ERR"
  | Panic => "PANIC"
  | OutOfFuel => "OUT-OF-FUEL"
  | Unmodelled => "UNMODELLED"
  end.

Definition run_apply (x : sexp) : option string :=
  match x with
  | SList [SAtom "apply"; d; q; u; up; SList fs; SAtom now] =>
      match doc_of_sexp d, doc_of_sexp q, doc_of_sexp u, bool_of_sexp up, opt_mapM doc_of_sexp fs, parse_Z now with
      | Some d', Some q', Some u', Some up', Some fs', Some now' =>
          if (matcher_stubbed && needs_matcher u' fs') || mixed_arith d' u' then Some "UNMODELLED"
          else Some (show_apply (Apply d' q' u' up' fs' now'))
      | _, _, _, _, _, _ => Some "BAD-CASE"
      end
  | SList [SAtom "extract"; q] =>
      match doc_of_sexp q with
      | Some q' =>
          match Extract q' with
          | Ok d => Some (show_value (VDoc d))
          | Err => Some "ERR"
          | Panic => Some "PANIC"
          | OutOfFuel => Some "OUT-OF-FUEL"
          | Unmodelled => Some "UNMODELLED"
          end
      | None => Some "BAD-CASE"
      end
  | _ => None
  end.
