(* Codec.v — the BSON wire format of exactly the value types lungo stores
   (Model/Bson.v), as written by bson.Marshal and read by bson.Unmarshal into
   bson.D of go.mongodb.org/mongo-driver v1 (the bsoncore Append functions
   and the bsonrw valueReader Read functions).  FileStore.Store/Load (/repo/store.go) persist the whole
   catalog through this codec.  Executable definitions only.

   Byte strings are `list ascii`; all integers are little endian; a double is
   its 64-bit pattern, a decimal128 its low word followed by its high word, a
   timestamp its increment followed by its seconds.

   Three behaviours of the Go codec that are easy to miss are mirrored:
   - binary subtype 2 ("old binary") is written with an extra inner length and
     read back with it only when the outer length exceeds 4
     (valueReader.ReadBinary), so subtype 2 with EMPTY data does not round trip;
   - the option letters of a regular expression are sorted when written
     (bsoncore.AppendRegex);
   - array keys are written "0","1",… and ignored when read. *)
From Lungo.Model Require Export Bson.
Close Scope string_scope.
Open Scope list_scope.
Open Scope Z_scope.

Definition bytes := list ascii.

Definition zero_byte : ascii := Ascii.zero.
Definition one_byte : ascii := Ascii.one.
Definition byte_of_Z (z : Z) : ascii := ascii_of_N (Z.to_N z).
Definition Z_of_byte (a : ascii) : Z := Z.of_N (N_of_ascii a).

Definition bytes_of_string (s : string) : bytes := list_ascii_of_string s.
Definition string_of_bytes (b : bytes) : string := string_of_list_ascii b.

(* n little-endian bytes of z (the caller reduces z modulo 256^n) *)
Fixpoint le_bytes (n : nat) (z : Z) : bytes :=
  match n with
  | O => []
  | S k => byte_of_Z (z mod 256) :: le_bytes k (z / 256)
  end.

Fixpoint le_val (bs : bytes) : Z :=
  match bs with
  | [] => 0
  | b :: t => Z_of_byte b + 256 * le_val t
  end.

Definition u32 (z : Z) : bytes := le_bytes 4 (z mod two32).
Definition u64 (z : Z) : bytes := le_bytes 8 (z mod two64).

(* two's complement reading of an unsigned word *)
Definition to_signed (half full u : Z) : Z := if u <? half then u else u - full.

(* the first n bytes and the rest; None when fewer than n are left *)
Fixpoint take_n (n : nat) (bs : bytes) : option (bytes * bytes) :=
  match n with
  | O => Some ([], bs)
  | S k =>
      match bs with
      | [] => None
      | b :: t =>
          match take_n k t with
          | Some (a, r) => Some (b :: a, r)
          | None => None
          end
      end
  end.

(* the same with a length read from the input (recursion on the input, so
   that a corrupt length never becomes a huge unary number) *)
Fixpoint take_zl (bs : bytes) (n : Z) {struct bs} : option (bytes * bytes) :=
  if n =? 0 then Some ([], bs)
  else match bs with
       | [] => None
       | b :: t =>
           match take_zl t (n - 1) with
           | Some (a, r) => Some (b :: a, r)
           | None => None
           end
       end.

Definition take_z (n : Z) (bs : bytes) : option (bytes * bytes) :=
  if n <? 0 then None else take_zl bs n.

Definition read_u32 (bs : bytes) : option (Z * bytes) :=
  match take_n 4 bs with
  | Some (a, r) => Some (le_val a, r)
  | None => None
  end.

Definition read_u64 (bs : bytes) : option (Z * bytes) :=
  match take_n 8 bs with
  | Some (a, r) => Some (le_val a, r)
  | None => None
  end.

(* Go reads every length as int32 *)
Definition read_i32 (bs : bytes) : option (Z * bytes) :=
  match read_u32 bs with
  | Some (u, r) => Some (to_signed two31 two32 u, r)
  | None => None
  end.

Definition read_i64 (bs : bytes) : option (Z * bytes) :=
  match read_u64 bs with
  | Some (u, r) => Some (to_signed two63 two64 u, r)
  | None => None
  end.

(* NUL-terminated string *)
Definition cstr (s : string) : bytes := bytes_of_string s ++ [zero_byte].

Fixpoint read_cstr (bs : bytes) : option (string * bytes) :=
  match bs with
  | [] => None
  | b :: t =>
      if Ascii.eqb b zero_byte then Some (EmptyString, t)
      else match read_cstr t with
           | Some (s, r) => Some (String b s, r)
           | None => None
           end
  end.

Fixpoint no_nul (s : string) : bool :=
  match s with
  | EmptyString => true
  | String c t => negb (Ascii.eqb c zero_byte) && no_nul t
  end.

(* bsoncore.AppendRegex sorts the option letters (ascending) *)
Fixpoint insert_byte (c : ascii) (s : string) : string :=
  match s with
  | EmptyString => String c EmptyString
  | String d t =>
      if (N_of_ascii c <=? N_of_ascii d)%N then String c s else String d (insert_byte c t)
  end.

Fixpoint sort_opts (s : string) : string :=
  match s with
  | EmptyString => EmptyString
  | String c t => insert_byte c (sort_opts t)
  end.

Fixpoint all_ascii7 (s : string) : bool :=
  match s with
  | EmptyString => true
  | String c t => (N_of_ascii c <? 128)%N && all_ascii7 t
  end.

(* ------------------------------------------------------------------ *)
(* Encoder.                                                            *)

(* int32 total length (itself included), the elements, a terminating NUL *)
Definition frame (body : bytes) : bytes :=
  u32 (Z.of_nat (List.length body) + 5) ++ body ++ [zero_byte].

(* one element: type byte, key as a C string, the value *)
Definition elem (ty : Z) (k : string) (payload : bytes) : bytes :=
  byte_of_Z ty :: cstr k ++ payload.

Definition enc_binary (st : Z) (data : string) : bytes :=
  let d := bytes_of_string data in
  let n := Z.of_nat (List.length d) in
  if st =? 2 then u32 (n + 4) ++ [byte_of_Z st] ++ u32 n ++ d
  else u32 n ++ [byte_of_Z st] ++ d.

Definition enc_string (s : string) : bytes :=
  let d := cstr s in u32 (Z.of_nat (List.length d)) ++ d.

(* the value part of an element (bsoncore.Append<Type>) *)
Fixpoint enc_value (v : value) : bytes :=
  match v with
  | VNull => []
  | VMissing => []                      (* never stored; excluded by encodable *)
  | VInt32 z => u32 z
  | VInt64 z => u64 z
  | VDouble b => u64 b
  | VDecimal h l => u64 l ++ u64 h
  | VString s => enc_string s
  | VDoc d =>
      frame ((fix go (d : list (string * value)) : bytes :=
                match d with
                | [] => []
                | (k, x) :: t => elem (type_of x) k (enc_value x) ++ go t
                end) d)
  | VArr a =>
      frame ((fix go (a : list value) (i : Z) : bytes :=
                match a with
                | [] => []
                | x :: t => elem (type_of x) (show_Z i) (enc_value x) ++ go t (i + 1)
                end) a 0)
  | VBin st data => enc_binary st data
  | VOid b => bytes_of_string b
  | VBool b => [if b then one_byte else zero_byte]
  | VDate ms => u64 ms
  | VTs t i => u32 i ++ u32 t
  | VRegex p o => cstr p ++ cstr (sort_opts o)
  end.

(* the same functions on lists, for statements and proofs *)
Fixpoint enc_elems (d : list (string * value)) : bytes :=
  match d with
  | [] => []
  | (k, x) :: t => elem (type_of x) k (enc_value x) ++ enc_elems t
  end.

Fixpoint enc_items (a : list value) (i : Z) : bytes :=
  match a with
  | [] => []
  | x :: t => elem (type_of x) (show_Z i) (enc_value x) ++ enc_items t (i + 1)
  end.

Definition encode_doc (d : doc) : bytes := enc_value (VDoc d).

(* what bson.Marshal accepts: keys and regex parts without NUL bytes (the
   encoder returns an error otherwise); Missing is never stored *)
Fixpoint encodable (v : value) : bool :=
  match v with
  | VMissing => false
  | VDoc d =>
      (fix go (d : list (string * value)) : bool :=
         match d with
         | [] => true
         | (k, x) :: t => no_nul k && encodable x && go t
         end) d
  | VArr a =>
      (fix go (a : list value) : bool :=
         match a with
         | [] => true
         | x :: t => encodable x && go t
         end) a
  | VRegex p o => no_nul p && no_nul o
  | _ => true
  end.

(* The values the driver API can store: Go ranges; keys and regex parts without
   NUL; ObjectIDs of 12 bytes; regex options already sorted (and ASCII: Go
   sorts runes, the model bytes); no EMPTY binary of subtype 2.  lungo passes
   every incoming document through bsonkit.Transform (Marshal + Unmarshal), so
   stored values always satisfy the last two. *)
Fixpoint codec_ok (v : value) : bool :=
  match v with
  | VNull => true
  | VMissing => false
  | VInt32 z => (- two31 <=? z) && (z <? two31)
  | VInt64 z => (- two63 <=? z) && (z <? two63)
  | VDouble b => (0 <=? b) && (b <? two64)
  | VDecimal h l => (0 <=? h) && (h <? two64) && (0 <=? l) && (l <? two64)
  | VString _ => true
  | VDoc d =>
      (fix go (d : list (string * value)) : bool :=
         match d with
         | [] => true
         | (k, x) :: t => no_nul k && codec_ok x && go t
         end) d
  | VArr a =>
      (fix go (a : list value) : bool :=
         match a with
         | [] => true
         | x :: t => codec_ok x && go t
         end) a
  | VBin st data =>
      (0 <=? st) && (st <? 256) && negb ((st =? 2) && (match data with EmptyString => true | _ => false end))
  | VOid b => Nat.eqb (List.length (bytes_of_string b)) 12
  | VBool _ => true
  | VDate ms => (- two63 <=? ms) && (ms <? two63)
  | VTs t i => (0 <=? t) && (t <? two32) && (0 <=? i) && (i <? two32)
  | VRegex p o => no_nul p && no_nul o && String.eqb (sort_opts o) o && all_ascii7 o
  end.

(* ------------------------------------------------------------------ *)
(* Decoder (bsonrw.valueReader as driven by the bson.D decoder).        *)

Definition dec_string (bs : bytes) : option (string * bytes) :=
  match read_i32 bs with
  | Some (n, r) =>
      if 1 <=? n then
        match take_z (n - 1) r with
        | Some (s, r1) =>
            match r1 with
            | z :: r2 => if Ascii.eqb z zero_byte then Some (string_of_bytes s, r2) else None
            | [] => None
            end
        | None => None
        end
      else None
  | None => None
  end.

Definition dec_binary (bs : bytes) : option (value * bytes) :=
  match read_i32 bs with
  | Some (n, r) =>
      match r with
      | st :: r1 =>
          let stz := Z_of_byte st in
          if (stz =? 2) && (4 <? n) then
            (* old binary: a second length follows; the outer one is not re-checked *)
            match read_i32 r1 with
            | Some (m, r2) =>
                match take_z m r2 with
                | Some (d, r3) => Some (VBin stz (string_of_bytes d), r3)
                | None => None
                end
            | None => None
            end
          else
            match take_z n r1 with
            | Some (d, r2) => Some (VBin stz (string_of_bytes d), r2)
            | None => None
            end
      | [] => None
      end
  | None => None
  end.

(* decode the value of an element of type `ty` from the front of `bs`;
   documents and arrays consume fuel.  The types lungo never stores
   (undefined, dbpointer, code, symbol, min/max key) are errors here. *)
Fixpoint dec_value (fuel : nat) (ty : Z) (bs : bytes) {struct fuel} : option (value * bytes) :=
  match fuel with
  | O => None
  | S f =>
      match ty with
      | 1 => match read_u64 bs with Some (b, r) => Some (VDouble b, r) | None => None end
      | 2 => match dec_string bs with Some (s, r) => Some (VString s, r) | None => None end
      | 3 =>
          match read_i32 bs with
          | Some (n, r) =>
              if 5 <=? n then
                match take_z (n - 4) r with
                | Some (body, rest) =>
                    match dec_elems f body with
                    | Some d => Some (VDoc d, rest)
                    | None => None
                    end
                | None => None
                end
              else None
          | None => None
          end
      | 4 =>
          match read_i32 bs with
          | Some (n, r) =>
              if 5 <=? n then
                match take_z (n - 4) r with
                | Some (body, rest) =>
                    match dec_elems f body with
                    | Some d => Some (VArr (map snd d), rest)
                    | None => None
                    end
                | None => None
                end
              else None
          | None => None
          end
      | 5 => dec_binary bs
      | 7 => match take_n 12 bs with Some (o, r) => Some (VOid (string_of_bytes o), r) | None => None end
      | 8 =>
          match bs with
          | b :: r =>
              if Z_of_byte b =? 0 then Some (VBool false, r)
              else if Z_of_byte b =? 1 then Some (VBool true, r)
              else None
          | [] => None
          end
      | 9 => match read_i64 bs with Some (ms, r) => Some (VDate ms, r) | None => None end
      | 10 => Some (VNull, bs)
      | 11 =>
          match read_cstr bs with
          | Some (p, r) =>
              match read_cstr r with
              | Some (o, r1) => Some (VRegex p o, r1)
              | None => None
              end
          | None => None
          end
      | 16 => match read_i32 bs with Some (z, r) => Some (VInt32 z, r) | None => None end
      | 17 =>
          match read_u32 bs with
          | Some (i, r) =>
              match read_u32 r with
              | Some (t, r1) => Some (VTs t i, r1)
              | None => None
              end
          | None => None
          end
      | 18 => match read_i64 bs with Some (z, r) => Some (VInt64 z, r) | None => None end
      | 19 =>
          match read_u64 bs with
          | Some (l, r) =>
              match read_u64 r with
              | Some (h, r1) => Some (VDecimal h l, r1)
              | None => None
              end
          | None => None
          end
      | _ => None
      end
  end

(* the elements of a document body up to and including its terminating NUL,
   which must be the last byte of the body *)
with dec_elems (fuel : nat) (bs : bytes) {struct fuel} : option (list (string * value)) :=
  match fuel with
  | O => None
  | S f =>
      match bs with
      | [] => None
      | t :: r =>
          if Ascii.eqb t zero_byte then
            match r with
            | [] => Some []
            | _ :: _ => None
            end
          else
            match read_cstr r with
            | Some (k, r1) =>
                match dec_value f (Z_of_byte t) r1 with
                | Some (v, r2) =>
                    match dec_elems f r2 with
                    | Some d => Some ((k, v) :: d)
                    | None => None
                    end
                | None => None
                end
            | None => None
            end
      end
  end.

(* a whole document: its declared length must be the length of the input *)
Definition decode_doc (fuel : nat) (bs : bytes) : option doc :=
  match dec_value fuel ty_document bs with
  | Some (VDoc d, []) => Some d
  | _ => None
  end.

(* fuel that always suffices (proved in Proofs/CodecProofs.v) *)
Definition decode_bytes (bs : bytes) : option doc := decode_doc (S (List.length bs)) bs.

(* ------------------------------------------------------------------ *)
(* Runner: (enc <doc>) -> hex of the bytes or ERR; (dec xHEX) -> the    *)
(* decoded document or ERR.                                             *)

Open Scope string_scope.

Definition hex_bytes (b : bytes) : string := hex (string_of_bytes b).

Definition run_codec (x : sexp) : option string :=
  match x with
  | SList [SAtom "enc"; d] =>
      match value_of_sexp d with
      | Some (VDoc d') =>
          if encodable (VDoc d') then Some (hex_bytes (encode_doc d')) else Some "ERR"
      | _ => Some "BAD-CASE"
      end
  | SList [SAtom "dec"; SAtom h] =>
      match unhex h with
      | Some s =>
          match decode_bytes (bytes_of_string s) with
          | Some d => Some (show_sexp (value_to_sexp (VDoc d)))
          | None => Some "ERR"
          end
      | None => Some "BAD-CASE"
      end
  | _ => None
  end.
