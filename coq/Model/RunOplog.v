(* RunOplog.v — runner of family `oplog`: Transaction.Clean on a synthetic
   change log.  Case: (clean nowT nowI minSize maxSize minAgeNs maxAgeNs (T I) ...)
   -> number of events dropped from the start. *)
From Lungo.Model Require Import Txn.
Open Scope string_scope.

Definition zatom (x : sexp) : option Z := match x with SAtom s => parse_Z s | _ => None end.

Definition ts_of_sexp (x : sexp) : option (Z * Z) :=
  match x with
  | SList [a; b] => match zatom a, zatom b with Some t, Some i => Some (t, i) | _, _ => None end
  | _ => None
  end.

Definition run_oplog (x : sexp) : option string :=
  match x with
  | SList (SAtom "clean" :: nt :: ni :: mns :: mxs :: mna :: mxa :: evs) =>
      match zatom nt, zatom ni, zatom mns, zatom mxs, zatom mna, zatom mxa, opt_mapM ts_of_sexp evs with
      | Some nt', Some ni', Some mns', Some mxs', Some mna', Some mxa', Some evs' =>
          Some (show_Z (clean_events evs' (nt', ni') mns' mxs' mna' mxa'))
      | _, _, _, _, _, _, _ => Some "BAD-CASE"
      end
  | _ => None
  end.
