(* Schema.v — bsonkit/schema.go: Schema.Evaluate, the $jsonSchema validator.
   `sch s v` : Ok true = nil (valid), Ok false = ErrValidationFailed,
   Err = any other error (invalid schema), Unmodelled = the keywords that need
   Go's regexp engine (`pattern`, non-empty `patternProperties`) or
   shopspring/decimal (`multipleOf` with a Decimal128 operand).
   Structural recursion on the schema value.  Definitions only. *)
From Lungo.Model Require Export MatchAux.
Open Scope Z_scope.
Open Scope string_scope.

(* schema.go:13 jsonTypeClass *)
Definition json_type_class : list (string * class) :=
  [("null", CNull); ("boolean", CBoolean); ("number", CNumber);
   ("string", CString); ("object", CDocument); ("array", CArray)].

(* inspect.go:28 Type2Alias inverted (Alias2Type); values are bsontype bytes *)
Definition alias2type : list (string * Z) :=
  [("double", 1); ("string", 2); ("object", 3); ("array", 4); ("binData", 5);
   ("undefined", 6); ("objectId", 7); ("bool", 8); ("date", 9); ("null", 10);
   ("regex", 11); ("dbPointer", 12); ("javascript", 13); ("symbol", 14);
   ("javascriptWithScope", 15); ("int", 16); ("timestamp", 17); ("long", 18);
   ("decimal", 19); ("minKey", 255); ("maxKey", 127)].

(* Number2Type: the bytes that are keys of the map *)
Definition number2type (n : Z) : option Z :=
  if existsb (fun p => Z.eqb (snd p) n) alias2type then Some n else None.

Definition is_numeric (v : value) : bool := is_num v.
Definition is_doc (v : value) : bool := match v with VDoc _ => true | _ => false end.

(* schema.go:98-132 keyword "type" *)
Definition sch_type (vc : class) (kv : value) : res bool :=
  match kv with
  | VString s =>
      match assoc s json_type_class with
      | None => Err
      | Some c => Ok (class_eqb vc c)
      end
  | VArr [] => Err
  | VArr l =>
      (fix go (l : list value) (valid : bool) : res bool :=
         match l with
         | [] => Ok valid
         | VString s :: t =>
             match assoc s json_type_class with
             | None => Err
             | Some c => go t (valid || class_eqb vc c)
             end
         | _ :: _ => Err
         end) l false
  | _ => Err
  end.

(* schema.go:134-180 keyword "bsonType" *)
Definition bson_type_test (vc : class) (vt : Z) (s : string) : option bool :=
  if String.eqb s "number" then Some (class_eqb vc CNumber)
  else match assoc s alias2type with
       | None => None
       | Some t => Some (Z.eqb vt t)
       end.

Definition sch_bsontype (vc : class) (vt : Z) (kv : value) : res bool :=
  match kv with
  | VString s =>
      match bson_type_test vc vt s with None => Err | Some b => Ok b end
  | VArr [] => Err
  | VArr l =>
      (fix go (l : list value) (valid : bool) : res bool :=
         match l with
         | [] => Ok valid
         | VString s :: t =>
             match bson_type_test vc vt s with
             | None => Err
             | Some b => go t (valid || b)
             end
         | _ :: _ => Err
         end) l false
  | _ => Err
  end.

(* schema.go:181-198 keyword "enum" *)
Definition sch_enum (v : value) (kv : value) : res bool :=
  match kv with
  | VArr [] => Err
  | VArr l => Ok (existsb (fun e => is_eq (compare e v)) l)
  | _ => Err
  end.

(* schema.go:289-359 evaluateNumber *)
Fixpoint num_preflight (all l : list (string * value)) (emin emax : bool) : res (bool * bool) :=
  match l with
  | [] => Ok (emin, emax)
  | (k, kv) :: t =>
      if String.eqb k "exclusiveMinimum" then
        match kv with
        | VBool b => if is_missing (Get all "minimum") then Err else num_preflight all t b emax
        | _ => Err
        end
      else if String.eqb k "exclusiveMaximum" then
        match kv with
        | VBool b => if is_missing (Get all "maximum") then Err else num_preflight all t emin b
        | _ => Err
        end
      else num_preflight all t emin emax
  end.

Definition sch_number_kw (emin emax : bool) (num : value) (k : string) (kv : value) : res bool :=
  if String.eqb k "multipleOf" then
    if is_numeric kv then
      if is_gt (compare kv (VInt32 0)) then
        match mod_is_zero num kv with
        | Some b => Ok b
        | None => Unmodelled
        end
      else Err
    else Err
  else if String.eqb k "minimum" then
    if is_numeric kv then
      let c := compare num kv in
      Ok (if emin then is_gt c else negb (is_lt c))
    else Err
  else if String.eqb k "maximum" then
    if is_numeric kv then
      let c := compare num kv in
      Ok (if emax then is_lt c else negb (is_gt c))
    else Err
  else Ok true.

Fixpoint kw_loop (f : string -> value -> res bool) (l : list (string * value)) : res bool :=
  match l with
  | [] => Ok true
  | (k, kv) :: t => and_then (f k kv) (kw_loop f t)
  end.

Definition sch_number (kws : list (string * value)) (num : value) : res bool :=
  match num_preflight kws kws false false with
  | Ok (emin, emax) => kw_loop (sch_number_kw emin emax num) kws
  | Err => Err | Panic => Panic | OutOfFuel => OutOfFuel | Unmodelled => Unmodelled
  end.

(* the int32/int64 length bounds: minLength, minProperties, minItems (lower =
   true) and their max counterparts; schema.go:365-388, 431-454, 603-626 *)
Definition sch_len_bound (lower : bool) (n : Z) (kv : value) : res bool :=
  match kv with
  | VInt32 _ | VInt64 _ =>
      if is_lt (compare kv (VInt32 0)) then Err
      else
        let c := compare (VInt64 n) kv in
        Ok (if lower then negb (is_lt c) else negb (is_gt c))
  | _ => Err
  end.

(* schema.go:361-406 evaluateString *)
Definition sch_string_kw (str : string) (k : string) (kv : value) : res bool :=
  if String.eqb k "minLength" then sch_len_bound true (rune_count str) kv
  else if String.eqb k "maxLength" then sch_len_bound false (rune_count str) kv
  else if String.eqb k "pattern" then
    match kv with VString _ => Unmodelled | _ => Err end
  else Ok true.

(* "required" and the array form of "dependencies": every element a string
   naming a path present in the document (bsonkit.Get) *)
Fixpoint sch_required_list (doc : list (string * value)) (l : list value) : res bool :=
  match l with
  | [] => Ok true
  | VString p :: t => if is_missing (Get doc p) then Ok false else sch_required_list doc t
  | _ :: _ => Err
  end.

Definition sch_required (doc : list (string * value)) (kv : value) : res bool :=
  match kv with
  | VArr [] => Err
  | VArr l => sch_required_list doc l
  | _ => Err
  end.

(* schema.go:491-541: pre-flight of the stateful object keywords (errors only;
   the schemas themselves are looked up again when members are evaluated) *)
Definition sch_props_preflight_kw (k : string) (kv : value) : res bool :=
  if String.eqb k "properties" then
    match kv with
    | VDoc props => if forallb (fun p => is_doc (snd p)) props then Ok true else Err
    | _ => Err
    end
  else if String.eqb k "patternProperties" then
    match kv with
    | VDoc [] => Ok true
    | VDoc _ => Unmodelled
    | _ => Err
    end
  else if String.eqb k "additionalProperties" then
    match kv with VBool _ | VDoc _ => Ok true | _ => Err end
  else Ok true.

(* schema.go:583-598 *)
Definition sch_items_preflight_kw (k : string) (kv : value) : res bool :=
  if String.eqb k "additionalItems" then
    match kv with VBool _ | VDoc _ => Ok true | _ => Err end
  else Ok true.

(* schema.go:627-638 uniqueItems: no two elements compare equal *)
Fixpoint unique_items (l : list value) : bool :=
  match l with
  | [] => true
  | x :: t => negb (existsb (fun y => is_eq (compare x y)) t) && unique_items t
  end.

(* ------------------------------------------------------------------ *)
(* schema.go:56 Evaluate *)

Fixpoint sch (s : value) (v : value) {struct s} : res bool :=
  match s with
  | VDoc kws =>
      let vc := class_of v in
      let vt := type_of v in
      (* the schema held by the last `name` keyword (additionalProperties /
         additionalItems), evaluated on x: None = the keyword said false *)
      let additional := fun (name : string) (x : value) =>
        (fix addl (l : list (string * value)) (cur : option (res bool)) : option (res bool) :=
           match l with
           | [] => cur
           | (k, kv) :: t =>
               if String.eqb k name then
                 match kv with
                 | VBool false => addl t None
                 | VDoc _ => addl t (Some (sch kv x))
                 | _ => addl t cur
                 end
               else addl t cur
           end) kws (Some (Ok true)) in
      (* schema.go:91: type and bsonType exclude each other *)
      if negb (is_missing (Get kws "type")) && negb (is_missing (Get kws "bsonType")) then Err else
      and_then
        (* schema.go:96-284 evaluateGeneric *)
        ((fix generic (l : list (string * value)) : res bool :=
            match l with
            | [] => Ok true
            | (k, kv) :: t =>
                and_then
                  (if String.eqb k "type" then sch_type vc kv
                   else if String.eqb k "bsonType" then sch_bsontype vc vt kv
                   else if String.eqb k "enum" then sch_enum v kv
                   else if String.eqb k "allOf" then
                     match kv with
                     | VArr [] => Err
                     | VArr l =>
                         (fix all (l : list value) : res bool :=
                            match l with
                            | [] => Ok true
                            | x :: t =>
                                match x with
                                | VDoc _ => and_then (sch x v) (all t)
                                | _ => Err
                                end
                            end) l
                     | _ => Err
                     end
                   else if String.eqb k "anyOf" then
                     match kv with
                     | VArr [] => Err
                     | VArr l =>
                         (fix any (l : list value) (ok : bool) : res bool :=
                            match l with
                            | [] => Ok ok
                            | x :: t =>
                                match x with
                                | VDoc _ =>
                                    match sch x v with
                                    | Ok true => any t true
                                    | Ok false => any t ok
                                    | e => e
                                    end
                                | _ => Err
                                end
                            end) l false
                     | _ => Err
                     end
                   else if String.eqb k "oneOf" then
                     match kv with
                     | VArr [] => Err
                     | VArr l =>
                         (fix one (l : list value) (n : Z) : res bool :=
                            match l with
                            | [] => Ok (Z.eqb n 1)
                            | x :: t =>
                                match x with
                                | VDoc _ =>
                                    match sch x v with
                                    | Ok true => one t (n + 1)
                                    | Ok false => one t n
                                    | e => e
                                    end
                                | _ => Err
                                end
                            end) l 0
                     | _ => Err
                     end
                   else if String.eqb k "not" then
                     match kv with
                     | VDoc _ => negate (sch kv v)
                     | _ => Err
                     end
                   else Ok true)
                  (generic t)
            end) kws)
        (match v with
         | VInt32 _ | VInt64 _ | VDouble _ | VDecimal _ _ => sch_number kws v
         | VString str => kw_loop (sch_string_kw str) kws
         | VDoc doc =>
             (* schema.go:408-489 stateless object keywords *)
             and_then
               ((fix stateless (l : list (string * value)) : res bool :=
                   match l with
                   | [] => Ok true
                   | (k, kv) :: t =>
                       and_then
                         (if String.eqb k "required" then sch_required doc kv
                          else if String.eqb k "minProperties" then sch_len_bound true (len doc) kv
                          else if String.eqb k "maxProperties" then sch_len_bound false (len doc) kv
                          else if String.eqb k "dependencies" then
                            match kv with
                            | VDoc deps =>
                                (fix dep (deps : list (string * value)) : res bool :=
                                   match deps with
                                   | [] => Ok true
                                   | (dk, dv) :: dt =>
                                       and_then
                                         (match dv with
                                          | VDoc _ => if is_missing (Get doc dk) then Ok true else sch dv v
                                          | VArr [] => Err
                                          | VArr ps => sch_required_list doc ps
                                          | _ => Err
                                          end)
                                         (dep dt)
                                   end) deps
                            | _ => Err
                            end
                          else Ok true)
                         (stateless t)
                   end) kws)
               (and_then
                  (kw_loop sch_props_preflight_kw kws)
                  (* schema.go:543-576 every member against properties[key], else additionalProperties *)
                  ((fix members (ms : list (string * value)) : res bool :=
                      match ms with
                      | [] => Ok true
                      | (mk, mv) :: mt =>
                          and_then
                            (match
                                (fix findp (l : list (string * value)) : option (res bool) :=
                                   match l with
                                   | [] => None
                                   | (k, kv) :: t =>
                                       match findp t with
                                       | Some r => Some r
                                       | None =>
                                           if String.eqb k "properties" then
                                             match kv with
                                             | VDoc props =>
                                                 (fix fp (props : list (string * value)) : option (res bool) :=
                                                    match props with
                                                    | [] => None
                                                    | (pk, ps) :: pt =>
                                                        match fp pt with
                                                        | Some r => Some r
                                                        | None => if String.eqb pk mk then Some (sch ps mv) else None
                                                        end
                                                    end) props
                                             | _ => None
                                             end
                                           else None
                                       end
                                   end) kws
                              with
                              | Some r => r
                              | None =>
                                  match additional "additionalProperties" mv with
                                  | Some r => r
                                  | None => Ok false
                                  end
                              end)
                            (members mt)
                      end) doc))
         | VArr arr =>
             and_then
               (kw_loop sch_items_preflight_kw kws)
               (* schema.go:600-681 array keywords *)
               ((fix arrkw (l : list (string * value)) : res bool :=
                   match l with
                   | [] => Ok true
                   | (k, kv) :: t =>
                       and_then
                         (if String.eqb k "minItems" then sch_len_bound true (len arr) kv
                          else if String.eqb k "maxItems" then sch_len_bound false (len arr) kv
                          else if String.eqb k "uniqueItems" then
                            match kv with
                            | VBool true => Ok (unique_items arr)
                            | VBool false => Ok true
                            | _ => Err
                            end
                          else if String.eqb k "items" then
                            match kv with
                            | VDoc _ =>
                                (fix each (a : list value) : res bool :=
                                   match a with
                                   | [] => Ok true
                                   | item :: a' => and_then (sch kv item) (each a')
                                   end) arr
                            | VArr ss =>
                                if forallb is_doc ss then
                                  (fix zip (ss : list value) (a : list value) {struct ss} : res bool :=
                                     match ss with
                                     | [] =>
                                         (fix rest (a : list value) : res bool :=
                                            match a with
                                            | [] => Ok true
                                            | item :: a' =>
                                                and_then
                                                  (match additional "additionalItems" item with
                                                   | Some r => r
                                                   | None => Ok false
                                                   end)
                                                  (rest a')
                                            end) a
                                     | s0 :: ss' =>
                                         match a with
                                         | [] => Ok true
                                         | item :: a' => and_then (sch s0 item) (zip ss' a')
                                         end
                                     end) ss arr
                                else Err
                            | _ => Err
                            end
                          else Ok true)
                         (arrkw t)
                   end) kws)
         | _ => Ok true
         end)
  | _ => Err
  end.

(* emptySchema.Evaluate(x) = nil for every x, which is what `additional`
   starts from (schema.go:51, 494, 583) *)
