(* Compare.v — bsonkit.Compare (bsonkit/compare.go). *)
From Lungo.Model Require Export Num.
Open Scope Z_scope.

Definition opp (c : comparison) : comparison := CompOpp c.

(* lexicographic list comparison with "shorter is smaller"; this is the loop
   of compareDocuments / compareArrays (the explicit emptiness checks at their
   top are instances of the exhaustion rule) *)
Fixpoint lex {A} (cmp : A -> A -> comparison) (l r : list A) : comparison :=
  match l, r with
  | [], [] => Eq
  | [], _ => Lt
  | _, [] => Gt
  | x :: l', y :: r' =>
      match cmp x y with
      | Eq => lex cmp l' r'
      | c => c
      end
  end.

Definition bool_compare (a b : bool) : comparison :=
  match a, b with
  | true, false => Gt
  | false, true => Lt
  | _, _ => Eq
  end.

Definition then_cmp (c d : comparison) : comparison :=
  match c with Eq => d | Lt => Lt | Gt => Gt end.

Definition str_len (s : string) : Z := Z.of_nat (String.length s).

Fixpoint compare (a b : value) : comparison :=
  match Z.compare (class_rank (class_of a)) (class_rank (class_of b)) with
  | Eq =>
      match a, b with
      | VString s, VString t => str_compare s t
      | VDoc d, VDoc e =>
          (fix go (d e : list (string * value)) : comparison :=
             match d, e with
             | [], [] => Eq
             | [], _ => Lt
             | _, [] => Gt
             | (k, x) :: d', (k', y) :: e' =>
                 match str_compare k k' with
                 | Eq => match compare x y with
                         | Eq => go d' e'
                         | c => c
                         end
                 | c => c
                 end
             end) d e
      | VArr x, VArr y =>
          (fix go (x y : list value) : comparison :=
             match x, y with
             | [], [] => Eq
             | [], _ => Lt
             | _, [] => Gt
             | u :: x', v :: y' =>
                 match compare u v with
                 | Eq => go x' y'
                 | c => c
                 end
             end) x y
      | VBin s d, VBin s' d' =>
          then_cmp (Z.compare (str_len d) (str_len d'))
                   (then_cmp (Z.compare s s') (str_compare d d'))
      | VOid x, VOid y => str_compare x y
      | VBool x, VBool y => bool_compare x y
      | VDate x, VDate y => Z.compare x y
      | VTs t i, VTs t' i' => then_cmp (Z.compare t t') (Z.compare i i')
      | VRegex p o, VRegex p' o' => then_cmp (str_compare p p') (str_compare o o')
      | _, _ => compare_num a b   (* numbers; Eq for the null class *)
      end
  | c => c
  end.

Definition sign_of (c : comparison) : Z :=
  match c with Lt => -1 | Eq => 0 | Gt => 1 end.
