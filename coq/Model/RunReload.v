(* RunReload.v — runner of the `reloadix` cases of family `reload`: the image of
   a real engine's catalog is stored and loaded by the model WITH THE REAL
   INDEX BUILDER (Reload.build_ok_real / Reload.load over the full matcher
   model), and the reloaded catalog is printed together with every index
   ENTRY of the rebuilt collections, each entry through the position of the
   document it points to — the identity-free rendering the Go side produces
   from the catalog the real FileStore loaded (VerifEntries hook). *)
From Lungo.Model Require Import File.
From Lungo.Model Require Import Driver RunAccess RunApi ApiOps Reload.
Open Scope string_scope.

Definition ns_key_cmp (a b : Txn.handle * Collection.coll) : comparison :=
  str_compare (File.handle_key (fst a)) (File.handle_key (fst b)).

Definition show_entries_ns (hc : Txn.handle * Collection.coll) : string :=
  par [hex (fst (fst hc)); hex (snd (fst hc));
       par (map (show_index (Collection.c_docs (snd hc)))
                (stable_sort name_cmp (Collection.c_indexes (snd hc))))].

Definition show_entries (c : Txn.catalog) : string :=
  par ("ent" :: map show_entries_ns (stable_sort ns_key_cmp (cat_ns c))).

Definition run_reload (x : sexp) : option string :=
  match x with
  | SList (SAtom "reloadix" :: SList (SAtom "img" :: nss) :: _) =>
      match opt_mapM ns_of_sexp nss with
      | Some l =>
          let c := map fst l in
          if storable c then
            match reload_g (build_ok_real api_match) (nilp_of l) c with
            | Some fc =>
                match load api_match 0 fc with
                | Some tc => Some (File.show_catalog fc ++ " " ++ show_entries tc)
                | None => Some "ERR"
                end
            | None => Some "ERR"
            end
          else Some "ERR"
      | None => Some "BAD-CASE"
      end
  | _ => None
  end.
