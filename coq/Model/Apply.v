(* Apply.v — mongokit/apply.go (the 15 update operators, Changes.Record),
   mongokit/resolve.go ($[] and $[identifier] expansion), the MultiTopLevel
   branch of mongokit/process.go, bsonkit/access.go Increment / Multiply / Pop,
   bsonkit/sort.go Order (for $push $sort), mongokit/extract.go.

   Go mutates the document in place and returns an error; the model threads
   the pair (document, recorded changes) and returns it or Err.  A Go error
   therefore carries no document: what the Go caller is left with after an
   error (a half-updated clone) is not part of the model — callers discard it.

   The query matcher is a parameter of the section (`matchf`); it is called
   exactly where the Go code calls mongokit.Match: pullMatches ($pull with a
   condition document) and resolve ($[identifier] with array filters).

   The clock is a parameter (`now`, milliseconds): $currentDate writes
   VDate now, or VTs (now / 1000) 1 for {$type: "timestamp"}. *)
From Lungo.Model Require Import Match.
From Lungo.Model Require Export Access Arith.
Open Scope string_scope.
Open Scope Z_scope.

(* ------------------------------------------------------------------ *)
(* strings *)

(* strings.HasPrefix s p *)
Fixpoint has_prefix (s p : string) : bool :=
  match p, s with
  | EmptyString, _ => true
  | String a p', String b s' => Ascii.eqb a b && has_prefix s' p'
  | _, EmptyString => false
  end.

Definition has_suffix (s p : string) : bool := has_prefix (string_rev s) (string_rev p).

(* len(key) > 0 && key[0] == '$' *)
Definition starts_dollar (s : string) : bool :=
  match s with
  | String "$"%char _ => true
  | _ => false
  end.

(* SplitDynamicPath's search: the first '$' that starts a path segment (index
   0 or right after a '.'); the text before it and the text from it on.
   `start` tells whether the current position starts a segment. *)
Fixpoint split_dollar_go (s : string) (acc : string) (start : bool) : option (string * string) :=
  match s with
  | EmptyString => None
  | String c t =>
      if start && Ascii.eqb c "$"%char then Some (string_rev acc, s)
      else split_dollar_go t (String c acc) (Ascii.eqb c "."%char)
  end.
Definition split_dollar (s : string) : option (string * string) := split_dollar_go s EmptyString true.

(* s[:len(s)-1] *)
Fixpoint drop_last (s : string) : string :=
  match s with
  | EmptyString => EmptyString
  | String c EmptyString => EmptyString
  | String c t => String c (drop_last t)
  end.

(* bsonkit.PathSegment / ReducePath (None = PathEnd) *)
Fixpoint path_segment (s : string) : string :=
  match s with
  | EmptyString => EmptyString
  | String c t => if Ascii.eqb c "."%char then EmptyString else String c (path_segment t)
  end.
Fixpoint reduce_path (s : string) : option string :=
  match s with
  | EmptyString => None
  | String c t => if Ascii.eqb c "."%char then Some t else reduce_path t
  end.

Fixpoint count_dollar (s : string) : nat :=
  match s with
  | EmptyString => O
  | String c t => if Ascii.eqb c "$"%char then S (count_dollar t) else count_dollar t
  end.

(* ------------------------------------------------------------------ *)
(* Changes.Record: the path tree is represented by the list of recorded
   paths; a new path conflicts when a recorded path is a prefix of it
   (Lookup ends on a node that holds a value) or it is a prefix of a recorded
   path (Lookup consumes the whole path), equality included. *)

Definition changes := list (string * value).

Fixpoint seg_prefix (p q : path) : bool :=
  match p, q with
  | [], _ => true
  | s :: p', t :: q' => String.eqb s t && seg_prefix p' q'
  | _ :: _, [] => false
  end.

Definition paths_conflict (p q : path) : bool := seg_prefix p q || seg_prefix q p.

Definition record (ch : changes) (ps : string) (v : value) : res changes :=
  if existsb (fun kv => paths_conflict (split_path (fst kv)) (split_path ps)) ch then Err
  else Ok (ch ++ [(ps, v)])%list.

(* the state threaded through one Apply: document and recorded changes *)
Definition st : Type := doc * changes.

Definition put_record (s : st) (ps : string) (v : value) : res st :=
  let* (_, d') := Put (fst s) ps v false in
  let* ch' := record (snd s) ps v in
  Ok (d', ch').

(* ------------------------------------------------------------------ *)
(* list helpers of $push / $pop / $pull / $addToSet *)

Definition take {A} (n : Z) (l : list A) : list A := firstn (Z.to_nat n) l.
Definition drop {A} (n : Z) (l : list A) : list A := skipn (Z.to_nat n) l.

Definition insert_at (pos : Z) (vals arr : list value) : list value :=
  (take pos arr ++ vals ++ drop pos arr)%list.

(* stable insertion sort = sort.SliceStable for a strict weak order *)
Fixpoint insert_sorted {A} (less : A -> A -> bool) (x : A) (l : list A) : list A :=
  match l with
  | [] => [x]
  | y :: t => if less y x then y :: insert_sorted less x t else x :: l
  end.
Definition stable_sort {A} (less : A -> A -> bool) (l : list A) : list A :=
  fold_right (insert_sorted less) [] l.

Definition is_lt (c : comparison) : bool := match c with Lt => true | _ => false end.
Definition is_gt (c : comparison) : bool := match c with Gt => true | _ => false end.
Definition is_eq (c : comparison) : bool := match c with Eq => true | _ => false end.

(* bsonkit.sortKey *)
Definition sort_key (v : value) (reverse : bool) : value :=
  match v with
  | VArr (x :: t) =>
      fold_left (fun best item =>
                   let c := compare item best in
                   if reverse then (if is_gt c then item else best)
                   else (if is_lt c then item else best)) t x
  | _ => v
  end.

(* bsonkit.Order(l, r, columns, false) *)
Fixpoint order (l r : doc) (cols : list (string * bool)) : comparison :=
  match cols with
  | [] => Eq
  | (p, reverse) :: t =>
      match compare (sort_key (Get l p) reverse) (sort_key (Get r p) reverse) with
      | Eq => order l r t
      | c => if reverse then CompOpp c else c
      end
  end.

(* float64 that converts to int64 and back unchanged (amd64: out-of-range and
   NaN convert to MinInt64 and so never round-trip, except -2^63 itself) *)
Definition int_of_double (b : Z) : option Z :=
  let e := dbl_exp b in
  let m := dbl_man b in
  if e =? 2047 then None
  else
    let '(m', e') := if e =? 0 then (m, -1074) else (two52 + m, e - 1075) in
    let mag :=
      if 0 <=? e' then Some (m' * zpow 2 e')
      else let dv := zpow 2 (- e') in if m' mod dv =? 0 then Some (m' / dv) else None in
    match mag with
    | None => None
    | Some g =>
        let v := if dbl_sign b then - g else g in
        if (- two63 <=? v) && (v <? two63) then Some v else None
    end.

(* pushIntModifier *)
Definition int_modifier (v : value) : res Z :=
  match v with
  | VInt32 z | VInt64 z => Ok z
  | VDouble b => match int_of_double b with Some z => Ok z | None => Err end
  | _ => Err
  end.

(* pushSortDirect *)
Definition sort_direct (arr : list value) (dir : Z) : res (list value) :=
  if dir =? 1 then Ok (stable_sort (fun a b => is_lt (compare a b)) arr)
  else if dir =? -1 then Ok (stable_sort (fun a b => is_gt (compare a b)) arr)
  else Err.

Fixpoint sort_columns (spec : doc) : res (list (string * bool)) :=
  match spec with
  | [] => Ok []
  | (k, v) :: t =>
      let* dir := int_modifier v in
      if (dir =? 1) || (dir =? -1) then
        let* cols := sort_columns t in Ok ((k, dir =? -1) :: cols)
      else Err
  end.

Fixpoint all_docs (arr : list value) : option (list doc) :=
  match arr with
  | [] => Some []
  | VDoc d :: t => match all_docs t with Some ds => Some (d :: ds) | None => None end
  | _ :: _ => None
  end.

(* pushSort *)
Definition push_sort (arr : list value) (spec : value) : res (list value) :=
  match spec with
  | VInt32 z | VInt64 z => sort_direct arr z
  | VDouble b => match int_of_double b with Some z => sort_direct arr z | None => Err end
  | VDoc s =>
      let* cols := sort_columns s in
      match all_docs arr with
      | None => Err
      | Some ds => Ok (map VDoc (stable_sort (fun a b => is_lt (order a b cols)) ds))
      end
  | _ => Err
  end.

(* the $slice step of applyPush *)
Definition push_slice (arr : list value) (s : Z) : res (list value) :=
  if s =? 0 then Ok []
  else if 0 <? s then (if s <? len arr then Ok (take s arr) else Ok arr)
  else if - len arr <? s then Ok (drop (len arr + s) arr)
  else Ok arr.

(* the $position step *)
Definition push_position (n p : Z) : Z :=
  if p <? 0 then Z.max 0 (n + p) else Z.min p n.

Definition mem_cmp (v : value) (l : list value) : bool :=
  existsb (fun x => is_eq (compare x v)) l.

(* the append loop of applyAddToSet: (array, changed) *)
Fixpoint add_to_set (arr vals : list value) (changed : bool) : list value * bool :=
  match vals with
  | [] => (arr, changed)
  | v :: t => if mem_cmp v arr then add_to_set arr t changed else add_to_set (arr ++ [v])%list t true
  end.

Definition has_key (k : string) (d : doc) : bool := existsb (fun kv => String.eqb (fst kv) k) d.

(* ------------------------------------------------------------------ *)

Section WithMatcher.
Variable matchf : doc -> doc -> res bool.   (* mongokit.Match *)
Variable upsert : bool.                     (* Changes.Upsert *)
Variable now : Z.                           (* clock oracle, ms *)

(* an operator: state -> resolved path -> argument -> new state *)
Definition opfun : Type := st -> string -> value -> res st.

Definition apply_set : opfun := fun s ps v => put_record s ps v.

Definition apply_set_on_insert : opfun := fun s ps v =>
  if upsert then put_record s ps v else Ok s.

Definition apply_unset : opfun := fun s ps _ =>
  let '(old, d') := Unset (fst s) ps in
  if is_missing old then Ok s
  else let* ch' := record (snd s) ps VMissing in Ok (d', ch').

Definition apply_rename : opfun := fun s ps v =>
  match v with
  | VString np =>
      if indexed_path (split_path ps) || indexed_path (split_path np) then Err
      else if String.eqb ps np then Err
      else if has_prefix ps (np ++ ".") || has_prefix np (ps ++ ".") then Err
      else
        let value := Get (fst s) ps in
        if is_missing value then Ok s
        else
          let* (_, d1) := Put (fst s) np value false in
          let '(_, d2) := Unset d1 ps in
          let* ch1 := record (snd s) ps VMissing in
          let* ch2 := record ch1 np value in
          Ok (d2, ch2)
  | _ => Err
  end.

(* bsonkit.Increment / Multiply through applyInc / applyMul *)
Definition apply_arith (f : value -> value -> res value) : opfun := fun s ps v =>
  let field := Get (fst s) ps in
  let field := if is_missing field then VInt32 0 else field in
  let* r := f field v in
  if is_missing r then Err else put_record s ps r.

Definition apply_inc : opfun := apply_arith Add.
Definition apply_mul : opfun := apply_arith Mul.

Definition apply_minmax (replace : comparison -> bool) : opfun := fun s ps v =>
  let value := Get (fst s) ps in
  if is_missing value then put_record s ps v
  else if replace (compare value v) then put_record s ps v
  else Ok s.

Definition apply_max : opfun := apply_minmax is_lt.
Definition apply_min : opfun := apply_minmax is_gt.

Definition ts_of_now : value := VTs (now / 1000) 1.

Definition apply_current_date : opfun := fun s ps v =>
  match v with
  | VBool true => put_record s ps (VDate now)
  | VBool false => Ok s
  | VDoc [(k, ty)] =>
      if String.eqb k "$type" then
        match ty with
        | VString t =>
            if String.eqb t "date" then put_record s ps (VDate now)
            else if String.eqb t "timestamp" then put_record s ps ts_of_now
            else Err
        | _ => Err
        end
      else Err
  | _ => Err
  end.

(* the modifier loop of applyPush: (values, position, sort, slice) *)
Record push_mods : Type := {
  pm_values : list value;
  pm_position : option value;
  pm_sort : option value;
  pm_slice : option value }.

Fixpoint push_modifiers (spec : doc) (m : push_mods) : res push_mods :=
  match spec with
  | [] => Ok m
  | (k, v) :: t =>
      if String.eqb k "$each" then
        match v with
        | VArr a => push_modifiers t {| pm_values := a; pm_position := pm_position m; pm_sort := pm_sort m; pm_slice := pm_slice m |}
        | _ => Err
        end
      else if String.eqb k "$position" then
        push_modifiers t {| pm_values := pm_values m; pm_position := Some v; pm_sort := pm_sort m; pm_slice := pm_slice m |}
      else if String.eqb k "$sort" then
        push_modifiers t {| pm_values := pm_values m; pm_position := pm_position m; pm_sort := Some v; pm_slice := pm_slice m |}
      else if String.eqb k "$slice" then
        push_modifiers t {| pm_values := pm_values m; pm_position := pm_position m; pm_sort := pm_sort m; pm_slice := Some v |}
      else Err
  end.

Definition is_some {A} (o : option A) : bool := match o with Some _ => true | None => false end.

(* Changes.Record for every pushed element: path.(start+i) *)
Fixpoint record_each (ch : changes) (ps : string) (start : Z) (vals : list value) : res changes :=
  match vals with
  | [] => Ok ch
  | v :: t =>
      let* ch' := record ch (ps ++ "." ++ show_Z start) v in
      record_each ch' ps (start + 1) t
  end.

Definition apply_push : opfun := fun s ps v =>
  let no_mods := {| pm_values := [v]; pm_position := None; pm_sort := None; pm_slice := None |} in
  let* m :=
    match v with
    | VDoc vd =>
        if has_key "$each" vd
        then push_modifiers vd {| pm_values := []; pm_position := None; pm_sort := None; pm_slice := None |}
        else Ok no_mods
    | _ => Ok no_mods
    end in
  let field := Get (fst s) ps in
  let* arr :=
    match field with
    | VMissing => Ok []
    | VArr a => Ok a
    | _ => Err
    end in
  let* at_ :=
    match pm_position m with
    | None => Ok (len arr)
    | Some pv => let* p := int_modifier pv in Ok (push_position (len arr) p)
    end in
  let arr1 := insert_at at_ (pm_values m) arr in
  let* arr2 :=
    match pm_sort m with
    | None => Ok arr1
    | Some sv => push_sort arr1 sv
    end in
  let* arr3 :=
    match pm_slice m with
    | None => Ok arr2
    | Some sv => let* n := int_modifier sv in push_slice arr2 n
    end in
  let* (_, d') := Put (fst s) ps (VArr arr3) false in
  if is_missing field then
    (* the field has been created as a whole: record the new array *)
    let* ch' := record (snd s) ps (VArr arr3) in Ok (d', ch')
  else
  match pm_values m, pm_position m, pm_sort m, pm_slice m with
  | [], None, None, None => Ok (d', snd s)
  | _, _, _, _ =>
      if negb (is_some (pm_sort m)) && negb (is_some (pm_slice m)) && (at_ =? len arr) then
        let* ch' := record_each (snd s) ps at_ (pm_values m) in Ok (d', ch')
      else
        let* ch' := record (snd s) ps (VArr arr3) in Ok (d', ch')
  end.

(* applyPop + bsonkit.Pop *)
Definition apply_pop : opfun := fun s ps v =>
  let* last :=
    if is_eq (compare v (VInt64 1)) then Ok true
    else if is_eq (compare v (VInt64 (-1))) then Ok false
    else Err in
  match Get (fst s) ps with
  | VMissing => Ok s
  | VArr [] => Ok s
  | VArr a =>
      let rest := if last then removelast a else tl a in
      let* (_, d') := Put (fst s) ps (VArr rest) false in
      let* ch' := record (snd s) ps (Get d' ps) in
      Ok (d', ch')
  | _ => Err
  end.

(* pullMatches *)
Definition pull_matches (element condition : value) : res bool :=
  match condition with
  | VDoc cd =>
      if negb (len cd =? 0) && forallb (fun kv => starts_dollar (fst kv)) cd then
        matchf [("_x", element)] [("_x", VDoc cd)]
      else
        match element with
        | VDoc ed => matchf ed cd
        | _ => Ok false
        end
  | _ => Ok (is_eq (compare element condition))
  end.

(* the filter loop of applyPull: (kept elements, removed?) *)
Fixpoint pull_filter (arr : list value) (cond : value) : res (list value * bool) :=
  match arr with
  | [] => Ok ([], false)
  | x :: t =>
      let* m := pull_matches x cond in
      let* (kept, removed) := pull_filter t cond in
      if m then Ok (kept, true) else Ok (x :: kept, removed)
  end.

Definition store_if_removed (s : st) (ps : string) (kept : list value) (removed : bool) : res st :=
  if removed then put_record s ps (VArr kept) else Ok s.

Definition apply_pull : opfun := fun s ps v =>
  match Get (fst s) ps with
  | VMissing => Ok s
  | VArr a =>
      let* (kept, removed) := pull_filter a v in
      store_if_removed s ps kept removed
  | _ => Err
  end.

Definition apply_pull_all : opfun := fun s ps v =>
  match v with
  | VArr targets =>
      match Get (fst s) ps with
      | VMissing => Ok s
      | VArr a =>
          let kept := filter (fun x => negb (mem_cmp x targets)) a in
          store_if_removed s ps kept (negb (len kept =? len a))
      | _ => Err
      end
  | _ => Err
  end.

(* the $each loop of applyAddToSet *)
Fixpoint add_to_set_values (spec : doc) (vals : list value) : res (list value) :=
  match spec with
  | [] => Ok vals
  | (k, v) :: t =>
      if String.eqb k "$each" then
        match v with
        | VArr a => add_to_set_values t a
        | _ => Err
        end
      else Err
  end.

Definition apply_add_to_set : opfun := fun s ps v =>
  let* vals :=
    match v with
    | VDoc vd => if has_key "$each" vd then add_to_set_values vd [] else Ok [v]
    | _ => Ok [v]
    end in
  let* arr :=
    match Get (fst s) ps with
    | VMissing => Ok []
    | VArr a => Ok a
    | _ => Err
    end in
  let '(arr', changed) := add_to_set arr vals false in
  if changed then put_record s ps (VArr arr') else Ok s.

Definition apply_bit : opfun := fun s ps v =>
  match v with
  | VDoc [(opk, operand)] =>
      let* (opv, op64) :=
        match operand with
        | VInt32 z => Ok (z, false)
        | VInt64 z => Ok (z, true)
        | _ => Err
        end in
      let field := Get (fst s) ps in
      let* (cur, f64) :=
        match field with
        | VInt32 z => Ok (z, false)
        | VInt64 z => Ok (z, true)
        | VMissing => Ok (0, false)
        | _ => Err
        end in
      let* r :=
        if String.eqb opk "and" then Ok (Z.land cur opv)
        else if String.eqb opk "or" then Ok (Z.lor cur opv)
        else if String.eqb opk "xor" then Ok (Z.lxor cur opv)
        else Err in
      let rv := if f64 || op64 then VInt64 (wrap64 r) else VInt32 (wrap32 r) in
      if negb (is_missing field) && is_eq (compare field rv) then Ok s
      else put_record s ps rv
  | _ => Err
  end.

(* FieldUpdateOperators: name, Go function, model *)
Definition update_ops : list (string * (string * opfun)) :=
  [ ("$set", ("applySet", apply_set))
  ; ("$setOnInsert", ("applySetOnInsert", apply_set_on_insert))
  ; ("$unset", ("applyUnset", apply_unset))
  ; ("$rename", ("applyRename", apply_rename))
  ; ("$inc", ("applyInc", apply_inc))
  ; ("$mul", ("applyMul", apply_mul))
  ; ("$max", ("applyMax", apply_max))
  ; ("$min", ("applyMin", apply_min))
  ; ("$currentDate", ("applyCurrentDate", apply_current_date))
  ; ("$push", ("applyPush", apply_push))
  ; ("$pop", ("applyPop", apply_pop))
  ; ("$pull", ("applyPull", apply_pull))
  ; ("$pullAll", ("applyPullAll", apply_pull_all))
  ; ("$addToSet", ("applyAddToSet", apply_add_to_set))
  ; ("$bit", ("applyBit", apply_bit))
  ].

Fixpoint assoc {A} (k : string) (l : list (string * A)) : option A :=
  match l with
  | [] => None
  | (k', x) :: t => if String.eqb k' k then Some x else assoc k t
  end.

(* ------------------------------------------------------------------ *)
(* mongokit.resolve *)

Variable filters : list doc.                (* arrayFilters *)

Definition filter_binds (id : string) : bool :=
  existsb (fun f => existsb (fun kv => String.eqb (fst kv) id || has_prefix (fst kv) (id ++ ".")) f) filters.

(* the element matches one of the array filters (first error wins) *)
Fixpoint item_matches (id : string) (item : value) (fs : list doc) : res bool :=
  match fs with
  | [] => Ok false
  | f :: t =>
      let* ok := matchf [(id, item)] f in
      if ok then Ok true else item_matches id item t
  end.

Definition indexed_sub_path (head : string) (i : Z) (tail : option string) : string :=
  head ++ "." ++ show_Z i ++ match tail with Some t => "." ++ t | None => "" end.

(* fuel: the number of '$' characters left in the path, plus one *)
Fixpoint resolve (fuel : nat) (f : st -> string -> res st) (ps : string) (s : st) : res st :=
  match split_dollar ps with
  | None => f s ps
  | Some (before, rest) =>
      match fuel with
      | O => OutOfFuel
      | S fuel' =>
          match before with
          | EmptyString => Err                      (* root positional operator *)
          | _ =>
              let head := drop_last before in
              let operator := path_segment rest in
              let tail := reduce_path rest in
              match Get (fst s) head with
              | VArr arr =>
                  if String.eqb operator "$" then Err
                  else if negb (has_prefix operator "$[" && has_suffix operator "]") then Err
                  else
                    let id := substring 2 (String.length operator - 3) operator in
                    if String.eqb id "" then
                      (fix each (items : list value) (i : Z) (s : st) : res st :=
                         match items with
                         | [] => Ok s
                         | _ :: t =>
                             let* s' := resolve fuel' f (indexed_sub_path head i tail) s in
                             each t (i + 1) s'
                         end) arr 0 s
                    else if negb (filter_binds id) then Err
                    else
                      (fix each (items : list value) (i : Z) (s : st) : res st :=
                         match items with
                         | [] => Ok s
                         | item :: t =>
                             let* ok := item_matches id item filters in
                             if ok then
                               let* s' := resolve fuel' f (indexed_sub_path head i tail) s in
                               each t (i + 1) s'
                             else each t (i + 1) s
                         end) arr 0 s
              | _ => Err
              end
          end
      end
  end.

(* ------------------------------------------------------------------ *)
(* Process / ProcessExpression with MultiTopLevel, TopLevel = the update
   operators and no expression operators *)

Fixpoint apply_pairs (op : opfun) (pairs : doc) (s : st) : res st :=
  match pairs with
  | [] => Ok s
  | (k, v) :: t =>
      let* s' := resolve (S (count_dollar k)) (fun s p => op s p v) k s in
      apply_pairs op t s'
  end.

Fixpoint apply_ops (u : doc) (s : st) : res st :=
  match u with
  | [] => Ok s
  | (k, v) :: t =>
      if starts_dollar k then
        match assoc k update_ops with
        | None => Err                                (* unknown top level operator *)
        | Some (_, op) =>
            match v with
            | VDoc pairs =>
                let* s' := apply_pairs op pairs s in
                apply_ops t s'
            | _ => Err                               (* expected document *)
            end
        end
      else Err   (* a plain field: no expression / default operator is registered *)
  end.

End WithMatcher.

(* Changes.Changed as an association list sorted by path (bytewise) *)
Definition sort_changes (ch : changes) : changes :=
  stable_sort (fun a b => is_lt (str_compare (fst a) (fst b))) ch.

(* conflictingPath: the static conflict check at the top of mongokit.Apply.
   Two named paths conflict when, segment by segment, they agree up to the end
   of the shorter one — or up to a position where one has a positional
   operator ($...) and the other a fixed segment.  Two different fixed
   segments, or two different positional segments, end the comparison without
   a conflict. *)
Fixpoint static_conflict (p q : path) : bool :=
  match p, q with
  | [], _ | _, [] => true
  | a :: p', b :: q' =>
      if String.eqb a b then static_conflict p' q'
      else xorb (starts_dollar a) (starts_dollar b)
  end.

(* the paths an update names, in order: every field of every operator
   document, and for $rename also the target *)
Definition named_paths (u : doc) : list string :=
  flat_map (fun kv =>
              match snd kv with
              | VDoc fields =>
                  if starts_dollar (fst kv) then
                    flat_map (fun fv =>
                                fst fv ::
                                match snd fv with
                                | VString target => if String.eqb (fst kv) "$rename" then [target] else []
                                | _ => []
                                end) fields
                  else []
              | _ => []
              end) u.

(* the first pair (i < j) in conflict; the later path is reported *)
Fixpoint first_conflict (names : list string) : option string :=
  match names with
  | [] => None
  | n :: t =>
      match find (fun m => static_conflict (split_path n) (split_path m)) t with
      | Some m => Some m
      | None => first_conflict t
      end
  end.

Definition conflicting_path (u : doc) : option string := first_conflict (named_paths u).

(* mongokit.Apply *)
Definition apply_with (matchf : doc -> doc -> res bool)
           (d q u : doc) (upsert : bool) (filters : list doc) (now : Z) : res (doc * changes) :=
  match u with
  | [] => Err                                        (* empty update document *)
  | _ =>
      match conflicting_path u with
      | Some _ => Err                                (* conflicting key *)
      | None =>
          let* (d', ch) := apply_ops matchf upsert now filters u (d, []) in
          Ok (d', sort_changes ch)
      end
  end.

(* ------------------------------------------------------------------ *)
(* mongokit.Extract: Process with TopLevel {$and, $or}, Expression
   {"", $eq, $in}, SkipMissing.  fuel bounds the nesting of $and / $or. *)

Definition extract_top : list (string * string) := [("$and", "extractAnd"); ("$or", "extractOr")].
Definition extract_expr : list (string * string) := [("", "extractEq"); ("$eq", "extractEq"); ("$in", "extractIn")].

Definition extract_put (d : doc) (ps : string) (v : value) : res doc :=
  let* (_, d') := Put d ps v false in Ok d'.

(* an expression operator (extractEq / extractIn) *)
Definition extract_expr_op (name : string) (d : doc) (ps : string) (v : value) : res doc :=
  if String.eqb name "extractEq" then extract_put d ps v
  else
    match v with
    | VArr [x] => extract_put d ps x
    | VArr _ => Ok d
    | _ => Err
    end.

(* the operator loop over a field's expression document; None: fall through
   to the default operator *)
Fixpoint extract_exps (exps : doc) (first : bool) (d : doc) (ps : string) : option (res doc) :=
  match exps with
  | [] => if first then None else Some (Ok d)
  | (k, v) :: t =>
      if negb (starts_dollar k) then (if first then None else Some Err)
      else
        match assoc k extract_expr with
        | None => Some (Ok d)                         (* SkipMissing: return nil *)
        | Some name =>
            match extract_expr_op name d ps v with
            | Ok d' => match t with [] => Some (Ok d') | _ => extract_exps t false d' ps end
            | r => Some r
            end
        end
  end.

Fixpoint extract_process (fuel : nat) (q : doc) (root : bool) (d : doc) : res doc :=
  match fuel with
  | O => OutOfFuel
  | S fuel' =>
      match q with
      | [] => Ok d
      | (k, v) :: t =>
          let* d' :=
            if starts_dollar k then
              if root then
                match assoc k extract_top with
                | None => Ok d
                | Some name =>
                    match v with
                    | VArr [] => Err
                    | VArr items =>
                        if String.eqb name "extractAnd" then
                          (fix all (items : list value) (d : doc) : res doc :=
                             match items with
                             | [] => Ok d
                             | VDoc sub :: rest => let* d' := extract_process fuel' sub true d in all rest d'
                             | _ :: _ => Err
                             end) items d
                        else
                          match items with
                          | [VDoc sub] => extract_process fuel' sub false d
                          | [_] => Err
                          | _ => Ok d
                          end
                    | _ => Err
                    end
                end
              else
                match assoc k extract_expr with
                | None => Ok d
                | Some name => extract_expr_op name d "" v     (* prefix "" *)
                end
            else
              let fallthrough := extract_put d k v in
              match v with
              | VDoc exps =>
                  match extract_exps exps true d k with
                  | Some r => r
                  | None => fallthrough
                  end
              | _ => fallthrough
              end in
          extract_process fuel' t root d'
      end
  end.

Definition Extract (q : doc) : res doc := extract_process (S (vsize (VDoc q))) q true [].

(* ------------------------------------------------------------------ *)
(* THE instantiation point of the matcher.  Until Model/Match.v is merged the
   matcher is a stub.  To plug the real matcher in:
     1. import Match.v above and set   the_matcher := Match
     2. set                             matcher_stubbed := false
     3. set  matcherModelled = true  in harness/fam_apply.go
   `matcher_stubbed` makes the runner (Model/RunApply.v) print UNMODELLED for
   the syntactic class of updates that can reach the matcher ($pull with a
   document argument, non-empty arrayFilters), exactly as the Go family does.
   Every theorem of Proofs/ApplyProofs.v is stated for an arbitrary matcher,
   so nothing else changes. *)

Definition stub_match (_ _ : doc) : res bool := Unmodelled.

Definition the_matcher : doc -> doc -> res bool := Match.
Definition matcher_stubbed : bool := false.

Definition Apply := apply_with the_matcher.
