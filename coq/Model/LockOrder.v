(* LockOrder.v — boolean check that an "acquired while holding" graph between
   mutex classes is acyclic (definitions only; soundness in Proofs/LockOrderProofs.v).
   The check computes a candidate topological order (Kahn's algorithm on
   fuel) and then verifies that every edge goes forward in it. *)
From Lungo.Model Require Import Base.
Open Scope string_scope.

Definition edge := (string * string)%type.

Fixpoint index_of (x : string) (l : list string) : option nat :=
  match l with
  | [] => None
  | y :: t => if String.eqb x y then Some 0
              else match index_of x t with Some i => Some (S i) | None => None end
  end.

Definition edge_forward (order : list string) (e : edge) : bool :=
  match index_of (fst e) order, index_of (snd e) order with
  | Some i, Some j => Nat.ltb i j
  | _, _ => false
  end.

Fixpoint add_node (x : string) (l : list string) : list string :=
  match l with
  | [] => [x]
  | y :: t => if String.eqb x y then l else y :: add_node x t
  end.

Fixpoint nodes_of (es : list edge) : list string :=
  match es with
  | [] => []
  | (a, b) :: t => add_node b (add_node a (nodes_of t))
  end.

Definition no_incoming (es : list edge) (n : string) : bool :=
  forallb (fun e : edge => negb (String.eqb (snd e) n)) es.

Fixpoint topo (fuel : nat) (ns : list string) (es : list edge) : list string :=
  match fuel with
  | O => []
  | S f =>
      match find (no_incoming es) ns with
      | Some n => n :: topo f (filter (fun m => negb (String.eqb m n)) ns)
                         (filter (fun e : edge => negb (String.eqb (fst e) n)) es)
      | None => []
      end
  end.

Definition topo_order (es : list edge) : list string :=
  let ns := nodes_of es in topo (S (List.length ns)) ns es.

Definition acyclic (es : list edge) : bool :=
  forallb (edge_forward (topo_order es)) es.
