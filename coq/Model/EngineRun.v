(* EngineRun.v — replay of hook traces recorded from the real engine against
   the step function of Model/Engine.v (family `engine`).  Definitions only.

   Case:  (engine (sessions N) (actors (OP ...) ...) (trace STEP ...) (res (R ...) ...))
   STEP:  (r T SNAP LOCS)   the controller released actor T from its park point
          (c T SNAP LOCS)   the controller cancelled the context of actor T
          (f SNAP LOCS)     the next Store returns an error
          (p SNAP LOCS)     the next Store panics
   SNAP:  (TX TK AL NS PV)  e.txn != nil, token in use, tomb alive, len(e.streams), publications so far,
                            read by the controller when every actor is parked, blocked or done
   LOCS:  (loc ...)         per actor: the hook point it is parked at, idle, done, or blk

   After a decision the model runs every released thread up to its next hook
   point (or until no step is enabled), in every order that the real scheduler
   could have chosen, and keeps the quiescent states whose snapshot and
   locations equal the recorded ones.  The observable is "ok" when some model
   execution explains the whole trace and the per-call results; otherwise
   "reject <i> ..." with the index of the first step no model execution explains. *)
From Lungo.Model Require Import Base Engine.
Open Scope string_scope.

Scheme Boolean Equality for nat.
Scheme Boolean Equality for bool.
Scheme Boolean Equality for option.
Scheme Boolean Equality for list.
Scheme Boolean Equality for result.
Scheme Boolean Equality for cb.
Scheme Boolean Equality for op.
Scheme Boolean Equality for scont.
Scheme Boolean Equality for cont.
Scheme Boolean Equality for rdkind.
Scheme Boolean Equality for pc.
Scheme Boolean Equality for thread.
Scheme Boolean Equality for session.
Scheme Boolean Equality for tstatus.
Scheme Boolean Equality for txn.
Scheme Boolean Equality for commit.
Scheme Boolean Equality for call.
Scheme Boolean Equality for globals.
Scheme Boolean Equality for state.

(* ---- parsing ---- *)

Definition nat_of_sexp (x : sexp) : option nat :=
  match x with
  | SAtom a => match parse_Z a with
               | Some z => if (0 <=? z)%Z then Some (Z.to_nat z) else None
               | None => None
               end
  | _ => None
  end.

Definition bool_of_sexp (x : sexp) : option bool :=
  match x with
  | SAtom "1" => Some true
  | SAtom "0" => Some false
  | _ => None
  end.

Definition osid_of_sexp (x : sexp) : option (option sid) :=
  match x with
  | SAtom "-" => Some None
  | _ => option_map Some (nat_of_sexp x)
  end.

Definition cb_of_sexp (x : sexp) : option cb :=
  match x with
  | SAtom "ok" => Some CbOk
  | SAtom "err" => Some CbErr
  | SAtom "panic" => Some CbPanic
  | _ => None
  end.

Definition op_of_sexp (x : sexp) : option op :=
  match x with
  | SList [SAtom "begin"; l; cs] =>
      match bool_of_sexp l, osid_of_sexp cs with Some l', Some cs' => Some (OBegin l' cs') | _, _ => None end
  | SList [SAtom "write"; w] => option_map OWrite (nat_of_sexp w)
  | SAtom "commit" => Some OCommit
  | SAtom "abort" => Some OAbort
  | SList [SAtom "sstart"; s] => option_map OSStart (nat_of_sexp s)
  | SList [SAtom "scommit"; s] => option_map OSCommit (nat_of_sexp s)
  | SList [SAtom "sabort"; s] => option_map OSAbort (nat_of_sexp s)
  | SList [SAtom "send"; s] => option_map OSEnd (nat_of_sexp s)
  | SList [SAtom "swrite"; s; w] =>
      match nat_of_sexp s, nat_of_sexp w with Some s', Some w' => Some (OSWrite s' w') | _, _ => None end
  | SList [SAtom "wtx"; s; w; c] =>
      match nat_of_sexp s, nat_of_sexp w, cb_of_sexp c with
      | Some s', Some w', Some c' => Some (OWtx s' w' c') | _, _, _ => None end
  | SList [SAtom "use"; cs; w; c] =>
      match osid_of_sexp cs, nat_of_sexp w, cb_of_sexp c with
      | Some s', Some w', Some c' => Some (OUse s' w' c') | _, _, _ => None end
  | SAtom "watch" => Some OWatch
  | SAtom "unwatch" => Some OUnwatch
  | SAtom "close" => Some OClose
  | _ => None
  end.

Definition result_name (r : result) : string :=
  match r with
  | ROk => "ok" | RClosed => "closed" | RCtxErr => "ctx" | RTimeout => "timeout"
  | RNested => "nested" | RExisting => "existing" | RNoActive => "noactive"
  | RMismatch => "mismatch" | RStoreErr => "storeerr" | RSessEnded => "ended"
  | RMissing => "missing" | RCbErr => "cberr" | RPanic => "panic" | RSkip => "skip"
  end.

(* ---- hook points ---- *)

Definition hook_of_pc (p : pc) : option string :=
  match p with
  | PIdle => Some "idle"
  | PBeginAcq _ => Some "begin.unlocked"
  | PBeginWoke _ _ => Some "begin.acquired"
  | PBeginInst _ _ => Some "begin.return"
  | PCommitL _ _ => Some "commit.locked"
  | PCommitStore _ _ => Some "commit.store"
  | PCommitPub _ _ => Some "commit.publish"
  | PCommitBcast _ _ => Some "commit.broadcast"
  | PAbortL _ _ => Some "abort.locked"
  | PAbortRel _ => Some "abort.released"
  | PCloseK => Some "close.killed"
  | PCloseW => Some "close.wait"
  | PSStartL _ _ => Some "session.start.locked"
  | PSStartFL _ _ _ _ => Some "session.start.final"
  | PSCommitL _ _ => Some "session.commit.locked"
  | PSAbortL _ _ => Some "session.abort.locked"
  | PSEndL _ => Some "session.end.locked"
  | PUnwatchL => Some "stream.close.locked"
  | _ => None
  end.

(* the step out of these program counters takes a mutex, the token, or waits *)
Definition acquiring (p : pc) : bool :=
  match p with
  | PBeginPre _ _ | PBegin0 _ _ _ _ | PBeginSess _ _ | PBeginAcq _ | PBeginWoke _ _
  | PCommit0 _ _ | PAbort0 _ _ | PClose0 | PCloseS | PCloseW | PWatch0 | PUnwatchC
  | PSStart0 _ _ | PSStartF _ _ _ _ | PSCommit0 _ _ | PSAbort0 _ _ | PSEnd0 _ | PSRead _ _ _ => true
  | _ => false
  end.

Definition loc_of (th : thread) (parked : bool) : string :=
  if parked then
    match th_pc th with
    | PIdle => match th_prog th with [] => "done" | _ => "idle" end
    | p => match hook_of_pc p with Some h => h | None => "?" end
    end
  else "blk".

(* driver state: the model state and, per thread, whether it is parked *)
Definition dstate := (state * list bool)%type.

Definition nthb (l : list bool) (n : nat) : bool := nth n l true.

Definition park_after (s : state) (t : tid) (parked : list bool) : list bool :=
  match nth_error (st_threads s) t with
  | Some th => if is_some (hook_of_pc (th_pc th)) then upd parked t true else parked
  | None => parked
  end.

(* the first non-parked thread whose next step is internal (takes no lock) *)
Fixpoint first_internal_tid (c : config) (s : state) (ths : list thread) (parked : list bool) (t : tid) : option (tid * state) :=
  match ths with
  | [] => None
  | th :: rest =>
      if negb (nthb parked t) && negb (acquiring (th_pc th)) then
        match step c s (LThread t ATau) with
        | Some s' => Some (t, s')
        | None => first_internal_tid c s rest parked (S t)
        end
      else first_internal_tid c s rest parked (S t)
  end.

(* all enabled lock / token steps of non-parked threads (no timeouts: the
   harness never waits a minute) *)
Fixpoint enabled_acq (c : config) (s : state) (ths : list thread) (parked : list bool) (t : tid) : list (tid * state) :=
  match ths with
  | [] => []
  | th :: rest =>
      app (if negb (nthb parked t) && acquiring (th_pc th) then
             flat_map (fun a => match step c s (LThread t a) with Some s' => [(t, s')] | None => [] end)
                      [ATau; AAcqOk; AAcqCancel]
           else []) (enabled_acq c s rest parked (S t))
  end.

Fixpoint settle (c : config) (fuel : nat) (d : dstate) : list dstate :=
  match fuel with
  | O => []
  | S f =>
      let (s, parked) := d in
      match first_internal_tid c s (st_threads s) parked 0 with
      | Some (t, s') => settle c f (s', park_after s' t parked)
      | None =>
          match enabled_acq c s (st_threads s) parked 0 with
          | [] => [d]
          | en => flat_map (fun ts => settle c f (snd ts, park_after (snd ts) (fst ts) parked)) en
          end
      end
  end.

(* equality of driver states up to the clock and the call records *)
Definition norm_thread (th : thread) : thread := th_set_inv th 0.
Definition norm_state (s : state) : state :=
  {| st_g := g_set_calls (g_set_now (st_g s) 0) []; st_threads := map norm_thread (st_threads s) |}.
Definition dstate_eqb (a b : dstate) : bool :=
  state_beq (norm_state (fst a)) (norm_state (fst b)) && list_beq bool bool_beq (snd a) (snd b).

Fixpoint dedupe (l : list dstate) (acc : list dstate) : list dstate :=
  match l with
  | [] => rev acc
  | d :: t => if existsb (dstate_eqb d) acc then dedupe t acc else dedupe t (d :: acc)
  end.

(* ---- snapshots ---- *)

Definition b01 (b : bool) : string := if b then "1" else "0".

Definition snap_text (s : state) : string :=
  let g := st_g s in
  "(" ++ b01 (is_some (etxn g)) ++ " " ++ b01 (negb (token_free g)) ++ " " ++ b01 (alive g) ++ " "
      ++ show_Z (Z.of_nat (nstreams g)) ++ " " ++ show_Z (Z.of_nat (version g)) ++ ")".

Fixpoint locs_text (ths : list thread) (parked : list bool) (t : tid) : string :=
  match ths with
  | [] => ""
  | [th] => loc_of th (nthb parked t)
  | th :: rest => loc_of th (nthb parked t) ++ " " ++ locs_text rest parked (S t)
  end.

Definition obs_text (d : dstate) : string :=
  snap_text (fst d) ++ " (" ++ locs_text (st_threads (fst d)) (snd d) 0 ++ ")".

Definition settle_fuel : nat := 400.

(* apply one recorded decision to one candidate *)
Definition decide (c : config) (d : dstate) (x : sexp) : option (list dstate * string) :=
  let (s, parked) := d in
  match x with
  | SList [SAtom "r"; t; sn; lc] =>
      match nat_of_sexp t with
      | Some t' =>
          if nthb parked t' && (t' <? List.length (st_threads s))%nat
          then Some (settle c settle_fuel (s, upd parked t' false), show_sexp sn ++ " " ++ show_sexp lc)
          else Some ([], show_sexp sn ++ " " ++ show_sexp lc)
      | None => None
      end
  | SList [SAtom "c"; t; sn; lc] =>
      match nat_of_sexp t with
      | Some t' =>
          match step c s (LCancel t') with
          | Some s' => Some (settle c settle_fuel (s', parked), show_sexp sn ++ " " ++ show_sexp lc)
          | None => Some ([], show_sexp sn ++ " " ++ show_sexp lc)
          end
      | None => None
      end
  | SList [SAtom "f"; sn; lc] =>
      match step c s LFailStore with
      | Some s' => Some ([(s', parked)], show_sexp sn ++ " " ++ show_sexp lc)
      | None => None
      end
  | SList [SAtom "p"; sn; lc] =>
      match step c s LPanicStore with
      | Some s' => Some ([(s', parked)], show_sexp sn ++ " " ++ show_sexp lc)
      | None => None
      end
  | _ => None
  end.

Fixpoint join (sep : string) (l : list string) : string :=
  match l with
  | [] => ""
  | [x] => x
  | x :: t => x ++ sep ++ join sep t
  end.

(* the candidates after all steps, or the index of the first step nobody explains *)
Fixpoint replay (c : config) (cands : list dstate) (steps : list sexp) (i : nat) : string + list dstate :=
  match steps with
  | [] => inr cands
  | x :: rest =>
      let outs := map (fun d => decide c d x) cands in
      if existsb (fun o => negb (is_some o)) outs then inl "BAD-STEP"
      else
        let want := match outs with Some (_, w) :: _ => w | _ => "" end in
        let next := flat_map (fun o => match o with Some (l, _) => l | None => [] end) outs in
        let keep := dedupe (filter (fun d => String.eqb (obs_text d) want) next) [] in
        match keep with
        | [] => inl ("reject " ++ show_Z (Z.of_nat i) ++ " model: " ++ join " | " (map obs_text (dedupe next [])))
        | _ => replay c keep rest (S i)
        end
  end.

Definition results_text (ths : list thread) : string :=
  "(" ++ join " " (map (fun th => "(" ++ join " " (map result_name (rev (th_results th))) ++ ")") ths) ++ ")".

Definition run_engine_cfg (c : config) (x : sexp) : option string :=
  match x with
  | SList [SAtom "engine"; SList [SAtom "sessions"; n]; SList (SAtom "actors" :: acts);
           SList (SAtom "trace" :: steps); SList (SAtom "res" :: res)] =>
      match nat_of_sexp n,
            opt_mapM (fun a => match a with SList ops => opt_mapM op_of_sexp ops | _ => None end) acts with
      | Some n', Some progs =>
          let s0 := init_state n' (map (fun p => (false, p)) progs) in
          let d0 : dstate := (s0, map (fun _ => true) progs) in
          match replay c [d0] steps 0 with
          | inl msg => Some msg
          | inr cands =>
              let want := show_sexp (SList res) in
              if existsb (fun d => String.eqb (results_text (st_threads (fst d))) want) cands then Some "ok"
              else Some ("reject results model: " ++ join " | " (map (fun d => results_text (st_threads (fst d))) cands))
          end
      | _, _ => Some "BAD-CASE"
      end
  | _ => None
  end.

(* traces are replayed against the variant of Begin that holds the property *)
Definition run_engine (x : sexp) : option string := run_engine_cfg cfg_fixed x.
