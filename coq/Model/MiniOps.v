(* MiniOps.v — provisional stand-ins for the operator semantics used to bring
   up the api family before Model/Match.v, Apply.v, Project.v are merged:
   equality filters on fields with scalar operands, $set / $unset on plain
   paths, no projections.  Anything else is Unmodelled. *)
From Lungo.Model Require Import Lists.
Open Scope Z_scope.

Definition is_scalar (v : value) : bool :=
  match v with VDoc _ | VArr _ | VRegex _ _ | VMissing => false | _ => true end.

Definition dollar_key (k : string) : bool :=
  match k with String "$"%char _ => true | _ => false end.

Definition eq_scalar (fv v : value) : bool :=
  match compare fv v with Eq => true | _ => false end.

(* {f: v, ...}: every pair holds; an array field matches through an element *)
Fixpoint mini_match (d : doc) (q : doc) : res bool :=
  match q with
  | [] => Ok true
  | (k, v) :: t =>
      if dollar_key k || negb (is_scalar v) then Unmodelled
      else
        let fv := fst (All d k true true) in
        let hit := match fv with
                   | VArr a => existsb (fun x => eq_scalar x v) a
                   | _ => eq_scalar fv v
                   end in
        match mini_match d t with
        | Ok b => Ok (hit && b)
        | r => r
        end
  end.

Fixpoint set_all (d : doc) (l : list (string * value)) : res (doc * list (string * value)) :=
  match l with
  | [] => Ok (d, [])
  | (p, v) :: t =>
      let* r := Put d p v false in
      let* rest := set_all (snd r) t in
      Ok (fst rest, (p, v) :: snd rest)
  end.

Definition mini_apply (d q u : doc) (upsert : bool) (afs : list doc) (now : Z)
  : res (doc * list (string * value)) :=
  match u, afs with
  | [], _ => Err
  | [("$set", VDoc l)], [] =>
      match l with
      | [(p, v)] => if dollar_key p || negb (is_scalar v) then Unmodelled else set_all d l
      | _ => Unmodelled
      end
  | _, _ => Unmodelled
  end.

Fixpoint mini_extract_go (d : doc) (q : doc) : res doc :=
  match q with
  | [] => Ok d
  | (k, v) :: t =>
      if dollar_key k || negb (is_scalar v) then Unmodelled
      else let* r := Put d k v false in mini_extract_go (snd r) t
  end.
Definition mini_extract (q : doc) : res doc := mini_extract_go [] q.

Definition mini_project (d p : doc) : res doc := Unmodelled.
