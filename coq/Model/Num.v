(* Num.v — exact interpretation of the four BSON numeric types
   (bsonkit/compare.go numeric part, primitive.Decimal128.BigInt,
   IEEE-754 binary64 decoding).  Every finite number denotes a rational. *)
From Coq Require Export QArith.
From Lungo.Model Require Export Bson.
Open Scope Z_scope.

(* extended rationals; the constructor order is the comparison order *)
Inductive xnum : Type :=
| XNaN
| XNegInf
| XFin (q : Q)
| XPosInf.

(* square-and-multiply power (Z.pow is linear in the exponent) *)
Fixpoint pow_pos_fast (b : Z) (p : positive) : Z :=
  match p with
  | xH => b
  | xO p' => let r := pow_pos_fast b p' in r * r
  | xI p' => let r := pow_pos_fast b p' in b * (r * r)
  end.

Definition zpow (b e : Z) : Z :=
  match e with
  | Z0 => 1
  | Zpos p => pow_pos_fast b p
  | Zneg _ => 0
  end.

(* m * 2^e as a rational *)
Definition q_of_bin (m e : Z) : Q :=
  if 0 <=? e then (m * zpow 2 e) # 1
  else m # (Z.to_pos (zpow 2 (- e))).

(* c * 10^e as a rational *)
Definition q_of_dec (c e : Z) : Q :=
  if 0 <=? e then (c * zpow 10 e) # 1
  else c # (Z.to_pos (zpow 10 (- e))).

(* IEEE-754 binary64 bit pattern *)
Definition dbl_sign (bits : Z) : bool := 1 <=? bits / 2 ^ 63.
Definition dbl_exp (bits : Z) : Z := (bits / 2 ^ 52) mod 2 ^ 11.
Definition dbl_man (bits : Z) : Z := bits mod 2 ^ 52.

Definition xnum_of_double (bits : Z) : xnum :=
  let s := dbl_sign bits in
  let e := dbl_exp bits in
  let m := dbl_man bits in
  if e =? 2047 then
    if m =? 0 then (if s then XNegInf else XPosInf) else XNaN
  else
    let mag := if e =? 0 then q_of_bin m (-1074) else q_of_bin (2 ^ 52 + m) (e - 1075) in
    XFin (if s then Qopp mag else mag).

(* primitive.Decimal128.BigInt (BID encoding), exponent bias -6176 *)
Inductive dec_class : Type :=
| DNaN
| DInf (neg : bool)
| DFin (coef exp : Z).      (* signed coefficient, decimal exponent *)

Definition dec_decode (h l : Z) : dec_class :=
  let neg := 1 <=? h / 2 ^ 63 in
  let comb := (h / 2 ^ 58) mod 32 in
  if comb =? 31 then DNaN
  else if comb =? 30 then DInf neg
  else
    let '(e, c) :=
      if (h / 2 ^ 61) mod 4 =? 3
      then ((h / 2 ^ 47) mod 2 ^ 14, 0)
      else ((h / 2 ^ 49) mod 2 ^ 14, (h mod 2 ^ 49) * 2 ^ 64 + l) in
    DFin (if neg then - c else c) (e - 6176).

Definition xnum_of_decimal (h l : Z) : xnum :=
  match dec_decode h l with
  | DNaN => XNaN
  | DInf true => XNegInf
  | DInf false => XPosInf
  | DFin c e => XFin (q_of_dec c e)
  end.

(* the exact mathematical value of a BSON number (None: not a number) *)
Definition numval (v : value) : option xnum :=
  match v with
  | VInt32 z | VInt64 z => Some (XFin (z # 1))
  | VDouble b => Some (xnum_of_double b)
  | VDecimal h l => Some (xnum_of_decimal h l)
  | _ => None
  end.

Definition xrank (x : xnum) : Z :=
  match x with XNaN => 0 | XNegInf => 1 | XFin _ => 2 | XPosInf => 3 end.

(* NaN lowest, then -Inf, the rationals, +Inf *)
Definition xcompare (a b : xnum) : comparison :=
  match a, b with
  | XFin p, XFin q => Qcompare p q
  | _, _ => Z.compare (xrank a) (xrank b)
  end.

Definition is_num (v : value) : bool :=
  match v with
  | VInt32 _ | VInt64 _ | VDouble _ | VDecimal _ _ => true
  | _ => false
  end.

(* bsonkit.compareNumbers: both arguments are numbers *)
Definition compare_num (a b : value) : comparison :=
  match numval a, numval b with
  | Some x, Some y => xcompare x y
  | _, _ => Eq
  end.
