(* Bson.v — the BSON value universe of lungo (bsonkit/bsonkit.go,
   bsonkit/inspect.go, bsonkit/access.go:MissingType) and its neutral
   S-expression rendering.  Doubles and decimals are carried as raw bits. *)
From Lungo.Model Require Export Base.
Open Scope Z_scope.

Inductive value : Type :=
| VNull                              (* nil / primitive.Null *)
| VMissing                           (* bsonkit.Missing *)
| VInt32 (z : Z)                     (* int32, -2^31 <= z < 2^31 *)
| VInt64 (z : Z)                     (* int64 *)
| VDouble (bits : Z)                 (* float64, IEEE-754 bit pattern 0 <= bits < 2^64 *)
| VDecimal (h l : Z)                 (* primitive.Decimal128 words *)
| VString (s : string)
| VDoc (d : list (string * value))   (* bson.D *)
| VArr (a : list value)              (* bson.A *)
| VBin (subtype : Z) (data : string) (* primitive.Binary *)
| VOid (bytes : string)              (* primitive.ObjectID, 12 bytes *)
| VBool (b : bool)
| VDate (ms : Z)                     (* primitive.DateTime *)
| VTs (t i : Z)                      (* primitive.Timestamp *)
| VRegex (pat opts : string).        (* primitive.Regex *)

Definition doc := list (string * value).

(* bsonkit/inspect.go: Class constants, in declaration (= rank) order *)
Inductive class : Type :=
| CNull | CNumber | CString | CDocument | CArray | CBinary | CObjectID
| CBoolean | CDate | CTimestamp | CRegex.

Definition class_rank (c : class) : Z :=
  match c with
  | CNull => 0 | CNumber => 1 | CString => 2 | CDocument => 3 | CArray => 4
  | CBinary => 5 | CObjectID => 6 | CBoolean => 7 | CDate => 8
  | CTimestamp => 9 | CRegex => 10
  end.

(* BSON element type bytes (bsontype.Type) *)
Definition ty_double := 1.   Definition ty_string := 2.
Definition ty_document := 3. Definition ty_array := 4.
Definition ty_binary := 5.   Definition ty_objectid := 7.
Definition ty_bool := 8.     Definition ty_date := 9.
Definition ty_null := 10.    Definition ty_regex := 11.
Definition ty_int32 := 16.   Definition ty_timestamp := 17.
Definition ty_int64 := 18.   Definition ty_decimal := 19.

(* bsonkit.Inspect *)
Definition inspect (v : value) : class * Z :=
  match v with
  | VNull | VMissing => (CNull, ty_null)
  | VInt32 _ => (CNumber, ty_int32)
  | VInt64 _ => (CNumber, ty_int64)
  | VDouble _ => (CNumber, ty_double)
  | VDecimal _ _ => (CNumber, ty_decimal)
  | VString _ => (CString, ty_string)
  | VDoc _ => (CDocument, ty_document)
  | VArr _ => (CArray, ty_array)
  | VBin _ _ => (CBinary, ty_binary)
  | VOid _ => (CObjectID, ty_objectid)
  | VBool _ => (CBoolean, ty_bool)
  | VDate _ => (CDate, ty_date)
  | VTs _ _ => (CTimestamp, ty_timestamp)
  | VRegex _ _ => (CRegex, ty_regex)
  end.

Definition class_of (v : value) : class := fst (inspect v).
Definition type_of (v : value) : Z := snd (inspect v).

(* ------------------------------------------------------------------ *)
(* Structural equality (= lungo's docsEqual: identical BSON bytes).    *)

Fixpoint value_eqb (a b : value) : bool :=
  match a, b with
  | VNull, VNull => true
  | VMissing, VMissing => true
  | VInt32 x, VInt32 y => x =? y
  | VInt64 x, VInt64 y => x =? y
  | VDouble x, VDouble y => x =? y
  | VDecimal h l, VDecimal h' l' => (h =? h') && (l =? l')
  | VString s, VString t => String.eqb s t
  | VDoc d, VDoc e =>
      (fix go (d e : list (string * value)) : bool :=
         match d, e with
         | [], [] => true
         | (k, v) :: d', (k', v') :: e' => String.eqb k k' && value_eqb v v' && go d' e'
         | _, _ => false
         end) d e
  | VArr x, VArr y =>
      (fix go (x y : list value) : bool :=
         match x, y with
         | [], [] => true
         | v :: x', v' :: y' => value_eqb v v' && go x' y'
         | _, _ => false
         end) x y
  | VBin s d, VBin s' d' => (s =? s') && String.eqb d d'
  | VOid x, VOid y => String.eqb x y
  | VBool x, VBool y => Bool.eqb x y
  | VDate x, VDate y => x =? y
  | VTs t i, VTs t' i' => (t =? t') && (i =? i')
  | VRegex p o, VRegex p' o' => String.eqb p p' && String.eqb o o'
  | _, _ => false
  end.

(* ------------------------------------------------------------------ *)
(* S-expression rendering (must agree with harness/enc.go).            *)

Fixpoint value_to_sexp (v : value) : sexp :=
  match v with
  | VNull => SAtom "N"
  | VMissing => SAtom "M"
  | VInt32 z => SList [SAtom "i"; SAtom (show_Z z)]
  | VInt64 z => SList [SAtom "l"; SAtom (show_Z z)]
  | VDouble b => SList [SAtom "f"; SAtom (show_Z b)]
  | VDecimal h l => SList [SAtom "d"; SAtom (show_Z h); SAtom (show_Z l)]
  | VString s => SList [SAtom "s"; SAtom (hex s)]
  | VDoc d =>
      SList (SAtom "D" ::
             (fix go (d : list (string * value)) : list sexp :=
                match d with
                | [] => []
                | (k, x) :: t => SList [SAtom (hex k); value_to_sexp x] :: go t
                end) d)
  | VArr a =>
      SList (SAtom "A" ::
             (fix go (a : list value) : list sexp :=
                match a with
                | [] => []
                | x :: t => value_to_sexp x :: go t
                end) a)
  | VBin st d => SList [SAtom "b"; SAtom (show_Z st); SAtom (hex d)]
  | VOid b => SList [SAtom "o"; SAtom (hex b)]
  | VBool true => SAtom "T"
  | VBool false => SAtom "F"
  | VDate ms => SList [SAtom "t"; SAtom (show_Z ms)]
  | VTs t i => SList [SAtom "ts"; SAtom (show_Z t); SAtom (show_Z i)]
  | VRegex p o => SList [SAtom "r"; SAtom (hex p); SAtom (hex o)]
  end.

Fixpoint value_of_sexp (x : sexp) : option value :=
  match x with
  | SAtom "N" => Some VNull
  | SAtom "M" => Some VMissing
  | SAtom "T" => Some (VBool true)
  | SAtom "F" => Some (VBool false)
  | SAtom _ => None
  | SList (SAtom tag :: args) =>
      if String.eqb tag "D" then
        option_map VDoc
          ((fix go (l : list sexp) : option (list (string * value)) :=
              match l with
              | [] => Some []
              | SList [SAtom k; v] :: t =>
                  match unhex k, value_of_sexp v, go t with
                  | Some k', Some v', Some t' => Some ((k', v') :: t')
                  | _, _, _ => None
                  end
              | _ => None
              end) args)
      else if String.eqb tag "A" then
        option_map VArr
          ((fix go (l : list sexp) : option (list value) :=
              match l with
              | [] => Some []
              | v :: t =>
                  match value_of_sexp v, go t with
                  | Some v', Some t' => Some (v' :: t')
                  | _, _ => None
                  end
              end) args)
      else
        match tag, args with
        | "i", [SAtom z] => option_map VInt32 (parse_Z z)
        | "l", [SAtom z] => option_map VInt64 (parse_Z z)
        | "f", [SAtom z] => option_map VDouble (parse_Z z)
        | "d", [SAtom h; SAtom l] =>
            match parse_Z h, parse_Z l with
            | Some h', Some l' => Some (VDecimal h' l')
            | _, _ => None
            end
        | "s", [SAtom s] => option_map VString (unhex s)
        | "b", [SAtom st; SAtom d] =>
            match parse_Z st, unhex d with
            | Some st', Some d' => Some (VBin st' d')
            | _, _ => None
            end
        | "o", [SAtom b] => option_map VOid (unhex b)
        | "t", [SAtom ms] => option_map VDate (parse_Z ms)
        | "ts", [SAtom t; SAtom i] =>
            match parse_Z t, parse_Z i with
            | Some t', Some i' => Some (VTs t' i')
            | _, _ => None
            end
        | "r", [SAtom p; SAtom o] =>
            match unhex p, unhex o with
            | Some p', Some o' => Some (VRegex p' o')
            | _, _ => None
            end
        | _, _ => None
        end
  | SList _ => None
  end.

Definition doc_of_sexp (x : sexp) : option doc :=
  match value_of_sexp x with
  | Some (VDoc d) => Some d
  | _ => None
  end.

(* ------------------------------------------------------------------ *)
(* Well-formedness: the values that can exist in a Go program.         *)

Definition two31 := 2147483648.
Definition two32 := 4294967296.
Definition two63 := 9223372036854775808.
Definition two64 := 18446744073709551616.

Fixpoint wf (v : value) : bool :=
  match v with
  | VInt32 z => (- two31 <=? z) && (z <? two31)
  | VInt64 z => (- two63 <=? z) && (z <? two63)
  | VDouble b => (0 <=? b) && (b <? two64)
  | VDecimal h l => (0 <=? h) && (h <? two64) && (0 <=? l) && (l <? two64)
  | VDoc d =>
      (fix go (d : list (string * value)) : bool :=
         match d with [] => true | (_, x) :: t => wf x && go t end) d
  | VArr a =>
      (fix go (a : list value) : bool :=
         match a with [] => true | x :: t => wf x && go t end) a
  | VBin st _ => (0 <=? st) && (st <? 256)
  | VDate ms => (- two63 <=? ms) && (ms <? two63)
  | VTs t i => (0 <=? t) && (t <? two32) && (0 <=? i) && (i <? two32)
  | _ => true
  end.

(* size, used as fuel bound and induction measure *)
Fixpoint vsize (v : value) : nat :=
  match v with
  | VDoc d =>
      S ((fix go (d : list (string * value)) : nat :=
            match d with [] => O | (_, x) :: t => (vsize x + go t)%nat end) d)
  | VArr a =>
      S ((fix go (a : list value) : nat :=
            match a with [] => O | x :: t => (vsize x + go t)%nat end) a)
  | _ => 1%nat
  end.
