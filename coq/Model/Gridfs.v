(* Gridfs.v — executable model of lungo's GridFS bucket (/repo/bucket.go).

   Definitions only (no proofs).  The model mirrors bucket.go statement by
   statement where it matters for C18: the buffer carry of UploadStream.Write
   and upload, the chunk numbering, the length accounting, the validation done
   by Resume, the marker lifecycle of tracked buckets, and the cursor/buffer
   arithmetic of DownloadStream.load/seek/next/Read/Seek/Skip.

   Conventions
   - Go `int` is Z (no overflow modelled), bytes are Z in 0..255, byte slices
     are `list Z`; `zlen` is Go's len().
   - The three collections of a bucket are lists in insertion order; a file id
     is a Z; a marker has an `_id` drawn from the counter `s_next`
     (primitive.NewObjectID()).
   - The upload buffer `s.buffer[0:s.bufLen]` is the list `u_buf`; its capacity
     len(s.buffer) is the parameter `cfg_B` (gridfs.UploadBufferSize = 16 MiB in
     lungo; small through the verif constructor).
   - Every Go panic site is an explicit `..Panic` outcome, the non-terminating
     loop of Write (chunk size > buffer) is the `..Hang` outcome reached when
     the fuel runs out.  The fuel given by the entry points is enough for every
     terminating execution (proved in Proofs/GridfsProofs.v for 0 < cs <= B).
     Since lungo fix ae31d98 a stream can only be opened with 0 < cs <= B
     (`open_upload`), so these outcomes are unreachable through the API; the
     internal functions still model them (theorems `unguarded_*`). *)
From Lungo.Model Require Import Base.
Open Scope Z_scope.
Open Scope list_scope.

Definition zlen {A} (l : list A) : Z := Z.of_nat (List.length l).

(* ------------------------------------------------------------------ *)
(* Collections                                                          *)

Record chunk := mkChunk { c_file : Z; c_n : Z; c_data : list Z }.        (* BucketChunk *)
Record filerec := mkFile { f_id : Z; f_length : Z; f_cs : Z }.           (* BucketFile *)
Inductive mstate := MUploading | MUploaded | MDeleted.
Record marker := mkMarker { m_id : Z; m_file : Z; m_state : mstate; m_length : Z; m_cs : Z }. (* BucketMarker *)

Record store := mkStore {
  s_chunks : list chunk;
  s_files : list filerec;
  s_markers : list marker;
  s_next : Z                         (* next marker _id *)
}.

Definition empty_store : store := mkStore [] [] [] 0.

Record cfg := mkCfg { cfg_B : Z; cfg_tracked : bool }.

Inductive gerr :=
| EClosed        (* gridfs.ErrStreamClosed *)
| EEOF           (* io.EOF *)
| ENeg           (* ErrNegativePosition *)
| ENotFound      (* ErrFileNotFound *)
| ENoDoc         (* mongo.ErrNoDocuments (marker lookup) *)
| EInProgress    (* ErrUploadInProgress *)
| EWrongIndex    (* gridfs.ErrWrongIndex *)
| EWrongSize     (* gridfs.ErrWrongSize *)
| EDup           (* unique index violation *)
| EOther.        (* fmt.Errorf(...) *)

(* outcome of a call that returns only an error *)
Inductive ures := UOk | UErr (e : gerr) | UPanic | UHang.
(* outcome of a call that returns a number and an error *)
Inductive nres := NOk (n : Z) | NErr (e : gerr) | NPanic | NHang.

Definition set_chunks (st : store) (l : list chunk) : store :=
  mkStore l (s_files st) (s_markers st) (s_next st).
Definition set_files (st : store) (l : list filerec) : store :=
  mkStore (s_chunks st) l (s_markers st) (s_next st).
Definition set_markers (st : store) (l : list marker) : store :=
  mkStore (s_chunks st) (s_files st) l (s_next st).
Definition bump (st : store) : store :=
  mkStore (s_chunks st) (s_files st) (s_markers st) (s_next st + 1).

Fixpoint remove_first {A} (p : A -> bool) (l : list A) : list A :=
  match l with
  | [] => []
  | x :: t => if p x then t else x :: remove_first p t
  end.

Fixpoint replace_first {A} (p : A -> bool) (y : A) (l : list A) : list A :=
  match l with
  | [] => []
  | x :: t => if p x then y :: t else x :: replace_first p y t
  end.

Definition is_file (f : Z) (c : chunk) : bool := c_file c =? f.
Definition not_file (f : Z) (c : chunk) : bool := negb (c_file c =? f).

(* chunks.Find({files_id: f}).Sort({n: 1}): stable insertion sort on n *)
Fixpoint insert_by_n (x : chunk) (l : list chunk) : list chunk :=
  match l with
  | [] => [x]
  | y :: t => if c_n x <=? c_n y then x :: y :: t else y :: insert_by_n x t
  end.
Fixpoint sort_by_n (l : list chunk) : list chunk :=
  match l with
  | [] => []
  | x :: t => insert_by_n x (sort_by_n t)
  end.
Definition find_chunks (st : store) (f : Z) : list chunk :=
  sort_by_n (filter (is_file f) (s_chunks st)).

(* chunks.DeleteMany({files_id: f}) *)
Definition delete_chunks (st : store) (f : Z) : store :=
  set_chunks st (filter (not_file f) (s_chunks st)).

Definition find_file (st : store) (f : Z) : option filerec :=
  find (fun r => f_id r =? f) (s_files st).
Definition find_marker (st : store) (f : Z) : option marker :=
  find (fun m => m_file m =? f) (s_markers st).
Definition has_marker_id (st : store) (id : Z) : bool :=
  existsb (fun m => m_id m =? id) (s_markers st).

(* chunks.InsertMany(docs) — ordered (the driver's MergeInsertManyOptions
   defaults Ordered to true): documents are inserted one by one until the
   first violation of the unique index (files_id, n), which is reported; the
   documents before it stay inserted *)
Definition has_chunk (l : list chunk) (f n : Z) : bool :=
  existsb (fun c => (c_file c =? f) && (c_n c =? n)) l.
Fixpoint insert_chunks (cur new : list chunk) : list chunk * bool :=
  match new with
  | [] => (cur, false)
  | c :: t =>
      if has_chunk cur (c_file c) (c_n c)
      then (cur, true)
      else insert_chunks (cur ++ [c]) t
  end.

(* files.InsertOne: unique _id *)
Definition insert_file (st : store) (r : filerec) : option store :=
  match find_file st (f_id r) with
  | Some _ => None
  | None => Some (set_files st (s_files st ++ [r]))
  end.

(* ------------------------------------------------------------------ *)
(* UploadStream                                                         *)

Record ustream := mkU {
  u_file : Z;               (* s.id *)
  u_cs : Z;                 (* s.chunkSize *)
  u_marker : option Z;      (* s.marker (its _id) *)
  u_length : Z;             (* s.length *)
  u_chunks : Z;             (* s.chunks *)
  u_buf : list Z;           (* s.buffer[0:s.bufLen] *)
  u_closed : bool
}.

(* newUploadStream *)
Definition new_upload (f cs : Z) : ustream := mkU f cs None 0 0 [] false.

(* OpenUploadStreamWithID (lines 376-410) / VerifOpenUploadStream: the chunk
   size is validated against the upload buffer before the stream is created
   (fix ae31d98): zero or less would divide by zero in upload, more than the
   buffer would never let Write make progress.  None = the returned error. *)
Definition open_upload (c : cfg) (f cs : Z) : option ustream :=
  if (cs <=? 0) || (cs >? cfg_B c) then None else Some (new_upload f cs).

Definition u_set_marker (u : ustream) (m : option Z) : ustream :=
  mkU (u_file u) (u_cs u) m (u_length u) (u_chunks u) (u_buf u) (u_closed u).
Definition u_set_buf (u : ustream) (b : list Z) : ustream :=
  mkU (u_file u) (u_cs u) (u_marker u) (u_length u) (u_chunks u) b (u_closed u).
Definition u_set_counts (u : ustream) (len chunks : Z) : ustream :=
  mkU (u_file u) (u_cs u) (u_marker u) len chunks (u_buf u) (u_closed u).
Definition u_close (u : ustream) : ustream :=
  mkU (u_file u) (u_cs u) (u_marker u) (u_length u) (u_chunks u) (u_buf u) true.

(* upload, lines 1029-1052: `for i := 0; i < s.bufLen; i += s.chunkSize`.
   `rest` is s.buffer[i:s.bufLen].  Returns the chunk payloads in order and
   the bytes that were not chunked (s.buffer[chunkedBytes:bufLen]).
   Only called with cs > 0. *)
Fixpoint chunk_loop (fuel : nat) (final : bool) (cs : Z) (rest : list Z)
  : option (list (list Z) * list Z) :=
  match fuel with
  | O => None
  | S fuel' =>
      if 0 <? zlen rest then                                   (* i < s.bufLen *)
        let size := if zlen rest >? cs then cs else zlen rest in
        if (size <? cs) && negb final then Some ([], rest)     (* break *)
        else
          match chunk_loop fuel' final cs (skipn (Z.to_nat size) rest) with
          | Some (l, r) => Some (firstn (Z.to_nat size) rest :: l, r)
          | None => None
          end
      else Some ([], rest)
  end.

(* Num: s.chunks + len(chunks) *)
Fixpoint number_from (f k : Z) (l : list (list Z)) : list chunk :=
  match l with
  | [] => []
  | d :: t => mkChunk f k d :: number_from f (k + 1) t
  end.

Definition is_none {A} (o : option A) : bool := match o with None => true | Some _ => false end.

(* upload(final), lines 1024-1101 *)
Definition upload (c : cfg) (final : bool) (st : store) (u : ustream) : store * ustream * ures :=
  let cs := u_cs u in
  let bl := zlen (u_buf u) in
  if cs =? 0 then (st, u, UPanic)                              (* s.bufLen/s.chunkSize: integer divide by zero *)
  else if (cs <? 0) && (0 <? bl) then (st, u, UPanic)          (* make: cap out of range, or slice bounds out of range *)
  else
    match chunk_loop (S (List.length (u_buf u))) final cs (u_buf u) with
    | None => (st, u, UHang)
    | Some (datas, rest) =>
        (* insert upload marker before first write if tracked *)
        let '(st1, u1, merr) :=
          if is_none (u_marker u) && cfg_tracked c then
            let id := s_next st in
            let u1 := u_set_marker u (Some id) in              (* s.marker is set before InsertOne *)
            match find_marker st (u_file u) with
            | Some _ => (bump st, u1, true)                    (* unique index on files_id *)
            | None =>
                (bump (set_markers st (s_markers st ++ [mkMarker id (u_file u) MUploading 0 cs])), u1, false)
            end
          else (st, u, false) in
        if merr then (st1, u1, UErr EDup)
        else
          (* write chunks *)
          let '(chs, cerr) :=
            match datas with
            | [] => (s_chunks st1, false)
            | _ => insert_chunks (s_chunks st1) (number_from (u_file u) (u_chunks u) datas)
            end in
          let st2 := set_chunks st1 chs in
          if cerr then (st2, u1, UErr EDup)
          else
            let chunked := bl - zlen rest in
            (st2, u_set_counts (u_set_buf u1 rest) (u_length u + chunked) (u_chunks u + zlen datas), UOk)
    end.

(* Write, lines 984-1022.  `fuel` bounds the iterations of the `for` loop
   that find data left to write. *)
Fixpoint write_loop (fuel : nat) (c : cfg) (st : store) (u : ustream) (data : list Z) (written : Z)
  : store * ustream * nres :=
  match data with
  | [] => (st, u, NOk written)                                           (* len(data) == 0: break *)
  | _ =>
      match fuel with
      | O => (st, u, NHang)
      | S fuel' =>
          let n := Z.min (cfg_B c - zlen (u_buf u)) (zlen data) in       (* copy(s.buffer[s.bufLen:], data) *)
          let u1 := u_set_buf u (u_buf u ++ firstn (Z.to_nat n) data) in
          let data1 := skipn (Z.to_nat n) data in
          if zlen (u_buf u1) =? cfg_B c then
            match upload c false st u1 with
            | (st2, u2, UOk) => write_loop fuel' c st2 u2 data1 (written + n)
            | (st2, u2, UErr e) => (st2, u2, NErr e)
            | (st2, u2, UPanic) => (st2, u2, NPanic)
            | (st2, u2, UHang) => (st2, u2, NHang)
            end
          else write_loop fuel' c st u1 data1 (written + n)
      end
  end.

(* An iteration that copies nothing happens only with a full buffer; if the
   upload it triggers frees nothing either (chunk size > buffer) the state no
   longer changes and the Go loop spins forever.  Otherwise every later
   iteration consumes at least one byte: 1 + len(data) iterations suffice. *)
Definition write (c : cfg) (st : store) (u : ustream) (data : list Z) : store * ustream * nres :=
  if u_closed u then (st, u, NErr EClosed)
  else write_loop (S (List.length data)) c st u data 0.

(* Suspend, lines 887-914 *)
Definition suspend (c : cfg) (st : store) (u : ustream) : store * ustream * nres :=
  if negb (cfg_tracked c) then (st, u, NErr EOther)
  else if u_closed u then (st, u, NErr EClosed)
  else
    let '(st1, u1, r) := if 0 <? zlen (u_buf u) then upload c false st u else (st, u, UOk) in
    match r with
    | UOk => (st1, u_close u1, NOk (u_length u1))
    | UErr e => (st1, u1, NErr e)
    | UPanic => (st1, u1, NPanic)
    | UHang => (st1, u1, NHang)
    end.

(* Close, lines 920-979 *)
Definition close (c : cfg) (st : store) (u : ustream) : store * ustream * ures :=
  if u_closed u then (st, u, UErr EClosed)
  else
    let '(st1, u1, r) :=
      if (0 <? zlen (u_buf u)) || (cfg_tracked c && is_none (u_marker u))
      then upload c true st u else (st, u, UOk) in
    match r with
    | UOk =>
        if cfg_tracked c then
          match u_marker u1 with
          | None => (st1, u1, UPanic)                         (* s.marker.ID on nil: unreachable *)
          | Some id =>
              if has_marker_id st1 id then
                (set_markers st1 (replace_first (fun m => m_id m =? id)
                                   (mkMarker id (u_file u1) MUploaded (u_length u1) (u_cs u1)) (s_markers st1)),
                 u_close u1, UOk)
              else (st1, u1, UErr EOther)                     (* unable to update marker *)
          end
        else
          match insert_file st1 (mkFile (u_file u1) (u_length u1) (u_cs u1)) with
          | Some st2 => (st2, u_close u1, UOk)
          | None => (st1, u1, UErr EDup)
          end
    | _ => (st1, u1, r)
    end.

(* Abort, lines 848-882 *)
Definition abort (st : store) (u : ustream) : store * ustream * ures :=
  if u_closed u then (st, u, UErr EClosed)
  else
    let st1 := if 0 <? u_chunks u then delete_chunks st (u_file u) else st in
    let st2 := match u_marker u with
               | Some id => set_markers st1 (remove_first (fun m => m_id m =? id) (s_markers st1))
               | None => st1
               end in
    (st2, u_close u, UOk).

(* Resume: the loop over the chunk cursor, lines 814-830 *)
Fixpoint validate_chunks (l : list chunk) (cs expected len : Z) : option (Z * Z) :=
  match l with
  | [] => Some (expected, len)
  | ch :: t =>
      if negb (c_n ch =? expected) || negb (zlen (c_data ch) =? cs) then None
      else validate_chunks t cs (expected + 1) (len + zlen (c_data ch))
  end.

Definition is_uploading (s : mstate) : bool := match s with MUploading => true | _ => false end.
Definition is_uploaded (s : mstate) : bool := match s with MUploaded => true | _ => false end.
Definition is_deleted (s : mstate) : bool := match s with MDeleted => true | _ => false end.

(* Resume, lines 763-843.  Note: no check of s.closed; s.marker stays set
   when a later check fails. *)
Definition resume (c : cfg) (st : store) (u : ustream) : ustream * nres :=
  if negb (cfg_tracked c) then (u, NErr EOther)
  else if negb (is_none (u_marker u)) || (0 <? zlen (u_buf u)) then (u, NErr EOther)
  else
    match find_marker st (u_file u) with
    | None => (u, NErr ENoDoc)
    | Some m =>
        let u1 := u_set_marker u (Some (m_id m)) in
        if negb (is_uploading (m_state m)) then (u1, NErr EOther)
        else if negb (m_cs m =? u_cs u) then (u1, NErr EOther)
        else
          match validate_chunks (find_chunks st (u_file u)) (u_cs u) 0 0 with
          | None => (u1, NErr EOther)
          | Some (expected, len) => (u_set_counts u1 len expected, NOk len)
          end
    end.

(* ------------------------------------------------------------------ *)
(* Bucket operations                                                    *)

(* ClaimUpload, lines 469-511 *)
Definition claim (c : cfg) (st : store) (f : Z) : store * ures :=
  if negb (cfg_tracked c) then (st, UErr EOther)
  else
    match find_marker st f with
    | None => (st, UErr ENoDoc)
    | Some m =>
        if negb (is_uploaded (m_state m)) then (st, UErr EOther)
        else
          match insert_file st (mkFile f (m_length m) (m_cs m)) with
          | None => (st, UErr EDup)
          | Some st1 =>
              (set_markers st1 (remove_first (fun x => m_id x =? m_id m) (s_markers st1)), UOk)
          end
    end.

(* Delete, lines 155-218 *)
Definition delete (c : cfg) (st : store) (f : Z) : store * ures :=
  if cfg_tracked c then
    match find_marker st f with
    | None =>
        (bump (set_markers st (s_markers st ++ [mkMarker (s_next st) f MDeleted 0 0])), UOk)
    | Some m =>
        if is_uploading (m_state m) then (st, UErr EInProgress)
        else
          (set_markers st (replace_first (fun x => m_id x =? m_id m)
                             (mkMarker (m_id m) f MDeleted 0 0) (s_markers st)), UOk)
    end
  else
    let found := match find_file st f with Some _ => true | None => false end in
    let st1 := set_files st (remove_first (fun r => f_id r =? f) (s_files st)) in
    let st2 := delete_chunks st1 f in
    (st2, if found then UOk else UErr ENotFound).

(* Cleanup with an age that every marker satisfies, lines 515-603: the cursor
   is a snapshot of the markers; each one is flagged deleted (skipped when it
   vanished meanwhile), then file, chunks and marker are removed *)
Definition cleanup_one (st : store) (m : marker) : store :=
  if has_marker_id st (m_id m) then
    let st1 := set_files st (remove_first (fun r => f_id r =? m_file m) (s_files st)) in
    let st2 := delete_chunks st1 (m_file m) in
    set_markers st2 (remove_first (fun x => m_id x =? m_id m) (s_markers st2))
  else st.

Definition cleanup (c : cfg) (st : store) : store * ures :=
  if negb (cfg_tracked c) then (st, UErr EOther)
  else (fold_left cleanup_one (s_markers st) st, UOk).

(* ------------------------------------------------------------------ *)
(* DownloadStream                                                       *)

Record dstream := mkD {
  d_file : filerec;              (* s.file *)
  d_chunks : Z;                  (* s.chunks *)
  d_pos : Z;                     (* s.position *)
  d_cursor : option (list chunk);(* s.cursor: the documents not yet consumed *)
  d_chunk : option Z;            (* s.chunk.Num *)
  d_buf : list Z;                (* s.buffer *)
  d_closed : bool
}.

Inductive sres := SOk | SErr (e : gerr) | SPanic.

Definition d_with (d : dstream) (cur : option (list chunk)) (ch : option Z) (buf : list Z) : dstream :=
  mkD (d_file d) (d_chunks d) (d_pos d) cur ch buf (d_closed d).
Definition d_set_pos (d : dstream) (p : Z) : dstream :=
  mkD (d_file d) (d_chunks d) p (d_cursor d) (d_chunk d) (d_buf d) (d_closed d).
Definition d_set_closed (d : dstream) : dstream :=
  mkD (d_file d) (d_chunks d) (d_pos d) (d_cursor d) (d_chunk d) (d_buf d) true.

(* seek, lines 1322-1391 *)
Definition dseek (st : store) (d : dstream) (position : Z) : dstream * sres :=
  if position <? 0 then (d, SErr ENeg)
  else
    let d0 := d_with d None (d_chunk d) (d_buf d) in          (* close the previous cursor *)
    let file := d_file d in
    if position >=? f_length file then (d_with d None None [], SOk)
    else
      let num := Z.quot position (f_cs file) in
      match skipn (Z.to_nat num) (find_chunks st (f_id file)) with
      | [] => (d0, SErr EOther)                               (* expected chunk *)
      | ch :: rest =>
          if negb (c_n ch =? num) then (d0, SErr EWrongIndex)
          else if (num <? d_chunks d - 1) && negb (zlen (c_data ch) =? f_cs file) then (d0, SErr EWrongSize)
          else
            let offset := position - num * f_cs file in
            if offset >? zlen (c_data ch) then (d_with d (Some rest) (Some (c_n ch)) (d_buf d), SPanic)   (* chunk.Data[offset:] *)
            else (d_with d (Some rest) (Some (c_n ch)) (skipn (Z.to_nat offset) (c_data ch)), SOk)
      end.

(* OpenDownloadStream = newDownloadStream + load, lines 326-337 and 1265-1320 *)
Inductive dopen_res := DOpened (d : dstream) | DOpenErr (e : gerr) | DOpenPanic.

Definition dopen (st : store) (f : Z) : dopen_res :=
  match find_file st f with
  | None => DOpenErr ENotFound
  | Some file =>
      if f_cs file <=? 0 then DOpenErr EOther
      else
        let chunks := Z.quot (f_length file) (f_cs file)
                      + (if Z.rem (f_length file) (f_cs file) =? 0 then 0 else 1) in
        match dseek st (mkD file chunks 0 None None [] false) 0 with
        | (d, SOk) => DOpened d
        | (_, SErr e) => DOpenErr e
        | (_, SPanic) => DOpenPanic
        end
  end.

(* next, lines 1393-1428 *)
Inductive next_res := XOk | XEOF | XErr (e : gerr) | XPanic.

Definition dnext (d : dstream) : dstream * next_res :=
  match d_cursor d with
  | None => (d, XEOF)
  | Some [] => (d, XEOF)
  | Some (ch :: rest) =>
      let d1 := d_with d (Some rest) (d_chunk d) (d_buf d) in   (* the cursor advanced *)
      match d_chunk d with
      | None => (d1, XPanic)                                    (* s.chunk.Num on nil: unreachable *)
      | Some prev =>
          if negb (c_n ch =? prev + 1) then (d1, XErr EWrongIndex)
          else if (c_n ch <? d_chunks d - 1) && negb (zlen (c_data ch) =? f_cs (d_file d)) then (d1, XErr EWrongSize)
          else (d_with d (Some rest) (Some (c_n ch)) (c_data ch), XOk)
      end
  end.

(* Read, lines 1184-1238; `want` is len(buf), `read` the loop counter; the
   result carries the bytes appended after `read` *)
Inductive rres := ROk (bytes : list Z) (err : option gerr) | RPanic | RHang.

Definition rcons (piece : list Z) (r : dstream * rres) : dstream * rres :=
  match r with
  | (d, ROk bytes e) => (d, ROk (piece ++ bytes) e)
  | other => other
  end.

Fixpoint read_loop (fuel : nat) (d : dstream) (want read : Z) : dstream * rres :=
  match fuel with
  | O => (d, RHang)
  | S fuel' =>
      if read <? want then
        let copy_step (d : dstream) :=
          let n := Z.min (want - read) (zlen (d_buf d)) in
          let piece := firstn (Z.to_nat n) (d_buf d) in
          let d1 := d_set_pos (d_with d (d_cursor d) (d_chunk d) (skipn (Z.to_nat n) (d_buf d))) (d_pos d + n) in
          rcons piece (read_loop fuel' d1 want (read + n)) in
        match d_buf d with
        | [] =>
            match dnext d with
            | (d1, XOk) => copy_step d1
            | (d1, XEOF) => if read =? 0 then (d1, ROk [] (Some EEOF)) else (d1, ROk [] None)
            | (d1, XErr e) => (d1, ROk [] (Some e))
            | (d1, XPanic) => (d1, RPanic)
            end
        | _ => copy_step d
        end
      else (d, ROk [] None)
  end.

Definition cursor_len (d : dstream) : nat :=
  match d_cursor d with Some l => List.length l | None => O end.

Definition dread (d : dstream) (want : Z) : dstream * rres :=
  if d_closed d then (d, ROk [] (Some EClosed))
  else if d_pos d >=? f_length (d_file d) then (d, ROk [] (Some EEOF))
  else read_loop (S (S (S (2 * cursor_len d)))) d want 0.

(* Seek, lines 1150-1190; an unknown whence is an error (fix ae31d98) *)
Inductive pres := POk (p : Z) | PErr (e : gerr) | PPanic.

Definition dseek_whence (st : store) (d : dstream) (offset whence : Z) : dstream * pres :=
  if d_closed d then (d, PErr EClosed)
  else if (whence <? 0) || (whence >? 2) then (d, PErr EOther)   (* default: invalid whence *)
  else
    let position :=
      if whence =? 0 then offset
      else if whence =? 1 then d_pos d + offset
      else f_length (d_file d) + offset in
    match dseek st d position with
    | (d1, SOk) => (d_set_pos d1 position, POk position)
    | (d1, SErr e) => (d1, PErr e)
    | (d1, SPanic) => (d1, PPanic)
    end.

(* Skip, lines 1136-1138 *)
Definition dskip (st : store) (d : dstream) (n : Z) : dstream * pres := dseek_whence st d n 1.

(* Close, lines 1241-1263 *)
Definition dclose (d : dstream) : dstream * ures :=
  if d_closed d then (d, UErr EClosed) else (d_set_closed d, UOk).

(* ------------------------------------------------------------------ *)
(* Download scripts, and the reference: an in-memory reader (bytes.Reader) *)

Inductive dop := DRead (n : Z) | DSeek (offset whence : Z) | DSkip (n : Z).

Inductive dobs :=
| ORead (bytes : list Z) (err : option gerr)
| OPos (p : Z)
| OErr (e : gerr)
| OPanic
| OHang.

Definition obs_of_pres (r : pres) : dobs :=
  match r with POk p => OPos p | PErr e => OErr e | PPanic => OPanic end.
Definition obs_of_rres (r : rres) : dobs :=
  match r with ROk b e => ORead b e | RPanic => OPanic | RHang => OHang end.

Definition dstep (st : store) (d : dstream) (op : dop) : dstream * dobs :=
  match op with
  | DRead n => let (d1, r) := dread d n in (d1, obs_of_rres r)
  | DSeek o w => let (d1, r) := dseek_whence st d o w in (d1, obs_of_pres r)
  | DSkip n => let (d1, r) := dskip st d n in (d1, obs_of_pres r)
  end.

Fixpoint run_download (st : store) (d : dstream) (script : list dop) : list dobs * dstream :=
  match script with
  | [] => ([], d)
  | op :: t =>
      let (d1, o) := dstep st d op in
      let (os, d2) := run_download st d1 t in
      (o :: os, d2)
  end.

(* bytes.Reader: Read copies from the current index and reports io.EOF when
   the index is at or past the end (also for an empty buffer); Seek computes
   the absolute position, rejects a negative one and an unknown whence *)
Record breader := mkB { br_data : list Z; br_pos : Z }.

Definition br_read (r : breader) (n : Z) : breader * dobs :=
  if br_pos r >=? zlen (br_data r) then (r, ORead [] (Some EEOF))
  else
    let piece := firstn (Z.to_nat n) (skipn (Z.to_nat (br_pos r)) (br_data r)) in
    (mkB (br_data r) (br_pos r + zlen piece), ORead piece None).

Definition br_seek (r : breader) (offset whence : Z) : breader * dobs :=
  if (whence <? 0) || (whence >? 2) then (r, OErr EOther)
  else
    let abs :=
      if whence =? 0 then offset
      else if whence =? 1 then br_pos r + offset
      else zlen (br_data r) + offset in
    if abs <? 0 then (r, OErr ENeg) else (mkB (br_data r) abs, OPos abs).

Definition br_step (r : breader) (op : dop) : breader * dobs :=
  match op with
  | DRead n => br_read r n
  | DSeek o w => br_seek r o w
  | DSkip n => br_seek r n 1
  end.

Fixpoint run_reader (r : breader) (script : list dop) : list dobs * breader :=
  match script with
  | [] => ([], r)
  | op :: t =>
      let (r1, o) := br_step r op in
      let (os, r2) := run_reader r1 t in
      (o :: os, r2)
  end.

Definition bytes_reader (content : list Z) : breader := mkB content 0.

(* ------------------------------------------------------------------ *)
(* The canonical chunking of a content (specification side)             *)

Fixpoint split_fuel (fuel : nat) (cs : nat) (l : list Z) : list (list Z) :=
  match fuel with
  | O => []
  | S fuel' =>
      match l with
      | [] => []
      | _ => firstn cs l :: split_fuel fuel' cs (skipn cs l)
      end
  end.
Definition split (cs : Z) (l : list Z) : list (list Z) := split_fuel (List.length l) (Z.to_nat cs) l.

(* ------------------------------------------------------------------ *)
(* Correspondence runner: family `gridfs`                               *)

Open Scope string_scope.

(* generated content: byte i of the content stream of a case *)
Definition cbyte (seed i : Z) : Z := (seed + 131 * i + i / 251) mod 256.
Fixpoint cbytes (seed off : Z) (n : nat) : list Z :=
  match n with
  | O => []
  | S k => cbyte seed off :: cbytes seed (off + 1) k
  end.

Fixpoint hex_bytes (l : list Z) : string :=
  match l with
  | [] => EmptyString
  | b :: t => String (hex_char (b / 16)) (String (hex_char (b mod 16)) (hex_bytes t))
  end.

Definition checksum (l : list Z) : Z := fold_left (fun a b => (a * 31 + b + 1) mod 65521) l 7.

Definition show_err (e : gerr) : string :=
  match e with
  | EClosed => "ECLOSED"
  | EEOF => "EOF"
  | ENeg => "ENEG"
  | ENotFound => "ENOTFOUND"
  | ENoDoc => "ENODOC"
  | EInProgress => "EINPROGRESS"
  | EWrongIndex => "EWRONGINDEX"
  | EWrongSize => "EWRONGSIZE"
  | EDup => "ERR"
  | EOther => "ERR"
  end.

Definition show_ures (r : ures) : string :=
  match r with UOk => "ok" | UErr e => show_err e | UPanic => "PANIC" | UHang => "HANG" end.
Definition show_nres (r : nres) : string :=
  match r with NOk n => show_Z n | NErr e => show_err e | NPanic => "PANIC" | NHang => "HANG" end.
Definition show_pres (r : pres) : string :=
  match r with POk n => show_Z n | PErr e => show_err e | PPanic => "PANIC" end.
Definition show_rres (r : rres) : string :=
  match r with
  | ROk b None => "x" ++ hex_bytes b ++ ":-"
  | ROk b (Some e) => "x" ++ hex_bytes b ++ ":" ++ show_err e
  | RPanic => "PANIC"
  | RHang => "HANG"
  end.

Definition ures_stops (r : ures) : bool := match r with UPanic | UHang => true | _ => false end.
Definition nres_stops (r : nres) : bool := match r with NPanic | NHang => true | _ => false end.

Definition show_mstate (s : mstate) : string :=
  match s with MUploading => "uploading" | MUploaded => "uploaded" | MDeleted => "deleted" end.

Fixpoint show_chunks (l : list chunk) : string :=
  match l with
  | [] => ""
  | [c] => show_Z (c_n c) ++ ":" ++ show_Z (zlen (c_data c)) ++ ":" ++ show_Z (checksum (c_data c))
  | c :: t => show_Z (c_n c) ++ ":" ++ show_Z (zlen (c_data c)) ++ ":" ++ show_Z (checksum (c_data c)) ++ "," ++ show_chunks t
  end.

(* dump of everything stored for file f: chunks in n order, file record, marker *)
Definition show_dump (st : store) (f : Z) : string :=
  "D[" ++ show_chunks (find_chunks st f) ++ "|file:" ++
  match find_file st f with
  | Some r => show_Z (f_length r) ++ ":" ++ show_Z (f_cs r)
  | None => "-"
  end ++ "|marker:" ++
  match find_marker st f with
  | Some m => show_mstate (m_state m) ++ ":" ++ show_Z (m_length m) ++ ":" ++ show_Z (m_cs m)
  | None => "-"
  end ++ "]".

Record gstate := mkG { g_store : store; g_up : option ustream; g_down : option dstream }.

(* one operation of a case: new state, observable text, stop (panic / hang) *)
Definition gstep (c : cfg) (seed : Z) (g : gstate) (op : sexp) : option (gstate * string * bool) :=
  let st := g_store g in
  match op with
  | SList [SAtom "open"; SAtom f; SAtom cs] =>
      match parse_Z f, parse_Z cs with
      | Some f, Some cs =>
          match open_upload c f cs with
          | Some u => Some (mkG st (Some u) (g_down g), "o", false)
          | None => Some (mkG st None (g_down g), "o:ERR", false)
          end
      | _, _ => None
      end
  | SList [SAtom "w"; SAtom off; SAtom len] =>
      match parse_Z off, parse_Z len with
      | Some off, Some len =>
          match g_up g with
          | None => Some (g, "w:NOSTREAM", false)
          | Some u =>
              let '(st1, u1, r) := write c st u (cbytes seed off (Z.to_nat len)) in
              Some (mkG st1 (Some u1) (g_down g), "w:" ++ show_nres r, nres_stops r)
          end
      | _, _ => None
      end
  | SList [SAtom "close"] =>
      match g_up g with
      | None => Some (g, "c:NOSTREAM", false)
      | Some u =>
          let '(st1, u1, r) := close c st u in
          Some (mkG st1 (Some u1) (g_down g), "c:" ++ show_ures r, ures_stops r)
      end
  | SList [SAtom "suspend"] =>
      match g_up g with
      | None => Some (g, "s:NOSTREAM", false)
      | Some u =>
          let '(st1, u1, r) := suspend c st u in
          Some (mkG st1 (Some u1) (g_down g), "s:" ++ show_nres r, nres_stops r)
      end
  | SList [SAtom "resume"] =>
      match g_up g with
      | None => Some (g, "u:NOSTREAM", false)
      | Some u =>
          let '(u1, r) := resume c st u in
          Some (mkG st (Some u1) (g_down g), "u:" ++ show_nres r, nres_stops r)
      end
  | SList [SAtom "abort"] =>
      match g_up g with
      | None => Some (g, "a:NOSTREAM", false)
      | Some u =>
          let '(st1, u1, r) := abort st u in
          Some (mkG st1 (Some u1) (g_down g), "a:" ++ show_ures r, ures_stops r)
      end
  | SList [SAtom "claim"; SAtom f] =>
      match parse_Z f with
      | Some f => let '(st1, r) := claim c st f in Some (mkG st1 (g_up g) (g_down g), "cl:" ++ show_ures r, false)
      | None => None
      end
  | SList [SAtom "delete"; SAtom f] =>
      match parse_Z f with
      | Some f => let '(st1, r) := delete c st f in Some (mkG st1 (g_up g) (g_down g), "d:" ++ show_ures r, false)
      | None => None
      end
  | SList [SAtom "cleanup"] =>
      let '(st1, r) := cleanup c st in Some (mkG st1 (g_up g) (g_down g), "cu:" ++ show_ures r, false)
  | SList [SAtom "dump"; SAtom f] =>
      match parse_Z f with
      | Some f => Some (g, show_dump st f, false)
      | None => None
      end
  | SList [SAtom "dopen"; SAtom f] =>
      match parse_Z f with
      | Some f =>
          match dopen st f with
          | DOpened d => Some (mkG st (g_up g) (Some d), "do:ok", false)
          | DOpenErr e => Some (mkG st (g_up g) None, "do:" ++ show_err e, false)
          | DOpenPanic => Some (mkG st (g_up g) None, "do:PANIC", true)
          end
      | None => None
      end
  | SList [SAtom "r"; SAtom n] =>
      match parse_Z n with
      | Some n =>
          match g_down g with
          | None => Some (g, "r:NOSTREAM", false)
          | Some d =>
              let '(d1, r) := dread d n in
              Some (mkG st (g_up g) (Some d1), "r:" ++ show_rres r,
                    match r with RPanic | RHang => true | _ => false end)
          end
      | None => None
      end
  | SList [SAtom "seek"; SAtom o; SAtom w] =>
      match parse_Z o, parse_Z w with
      | Some o, Some w =>
          match g_down g with
          | None => Some (g, "k:NOSTREAM", false)
          | Some d =>
              let '(d1, r) := dseek_whence st d o w in
              Some (mkG st (g_up g) (Some d1), "k:" ++ show_pres r, match r with PPanic => true | _ => false end)
          end
      | _, _ => None
      end
  | SList [SAtom "skip"; SAtom n] =>
      match parse_Z n with
      | Some n =>
          match g_down g with
          | None => Some (g, "j:NOSTREAM", false)
          | Some d =>
              let '(d1, r) := dskip st d n in
              Some (mkG st (g_up g) (Some d1), "j:" ++ show_pres r, match r with PPanic => true | _ => false end)
          end
      | None => None
      end
  | SList [SAtom "dclose"] =>
      match g_down g with
      | None => Some (g, "dc:NOSTREAM", false)
      | Some d =>
          let '(d1, r) := dclose d in
          Some (mkG st (g_up g) (Some d1), "dc:" ++ show_ures r, false)
      end
  | _ => None
  end.

Fixpoint grun (c : cfg) (seed : Z) (g : gstate) (ops : list sexp) : option string :=
  match ops with
  | [] => Some ""
  | op :: t =>
      match gstep c seed g op with
      | None => None
      | Some (g1, text, stop) =>
          if stop then Some text
          else
            match t with
            | [] => Some text
            | _ => match grun c seed g1 t with
                   | Some rest => Some (text ++ " " ++ rest)
                   | None => None
                   end
            end
      end
  end.

(* (gridfs B tracked seed op ...) *)
Definition run_gridfs (x : sexp) : option string :=
  match x with
  | SList (SAtom "gridfs" :: SAtom b :: SAtom tr :: SAtom seed :: ops) =>
      match parse_Z b, parse_Z tr, parse_Z seed with
      | Some b, Some tr, Some seed =>
          match grun (mkCfg b (negb (tr =? 0)%Z)) seed (mkG empty_store None None) ops with
          | Some s => Some s
          | None => Some "BAD-CASE"
          end
      | _, _, _ => Some "BAD-CASE"
      end
  | _ => None
  end.
