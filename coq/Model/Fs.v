(* Fs.v — executable POSIX-style crash model of the directory that holds the
   single-file store (mirrors what /repo/dbkit/atomic.go:AtomicWriteFile and
   /repo/store.go:FileStore.Load can observe).  Definitions only.

   THE MODEL, precisely.

   * Two names live in one directory: NPath (the store file) and NTmp (the
     sibling temporary, path ++ ".tmp").  An inode (`file`) has VOLATILE
     contents `vol` (what read() returns: the page cache) and DURABLE contents
     `dur` (what is guaranteed on the platter, i.e. the contents at the last
     successful fsync of the inode).  Contents are `Bytes l` (l : list nat,
     abstract bytes: theorems are parametric in them) or `Garbage` (torn beyond
     recognition).  Inode numbers are positions in the list `inodes`; a new
     inode is appended, so numbers are never reused.
   * The directory has a DURABLE entry table `ddur` and an ordered list `pend`
     of directory operations (link / unlink / rename) that were executed but
     are not yet durable.  The VOLATILE table is `dvol = pend applied to
     ddur`.  fsync of the directory makes all pending operations durable.
     fsync of a FILE makes that inode's data durable and nothing else (not its
     directory entry).
   * `crash fs fs'`: at a process kill / power loss
       - the durable directory becomes ddur with ANY PREFIX of `pend` applied,
         in order (metadata is journalled in order), nothing is pending;
       - independently for every inode: if vol = dur the inode is unchanged;
         otherwise its contents become (both vol and dur) ONE of: the old
         durable contents `dur`, ANY PREFIX of the volatile contents `vol`
         (torn write; the empty and the full prefix included), or `Garbage`;
       - all descriptors are closed.
     `crash_outcomes` enumerates exactly this relation (FsProofs.v:
     crash_outcomes_complete / crash_outcomes_sound).
   * System calls act on the volatile state and are atomic with respect to it,
     except WriteAll (io.Copy: possibly several write(2) calls): its
     intermediate volatile states are "any prefix of the image appended"
     (`mid_states`).
   * A checked statement may FAIL at any step (`fail_states`): the failing call
     has no effect, except that a failing WriteAll may have appended any prefix
     and a failing Close may or may not have released the descriptor.  After a
     failure the deferred clean-up registered so far runs (LIFO); statements in
     mode IgnoreAll swallow every error.
   * `load` is what FileStore.Load would read: Absent (ENOENT: an empty
     catalog), Loaded bytes, or Torn (garbage / dangling). *)
From Lungo.Model Require Import Base.
Open Scope list_scope.

Inductive name : Type := NPath | NTmp.
Definition name_eqb (a b : name) : bool :=
  match a, b with NPath, NPath => true | NTmp, NTmp => true | _, _ => false end.

Definition ino := nat.

Inductive cont : Type := Bytes (l : list nat) | Garbage.

Fixpoint list_nat_eqb (a b : list nat) : bool :=
  match a, b with
  | [], [] => true
  | x :: s, y :: t => Nat.eqb x y && list_nat_eqb s t
  | _, _ => false
  end.

Definition cont_eqb (a b : cont) : bool :=
  match a, b with
  | Bytes x, Bytes y => list_nat_eqb x y
  | Garbage, Garbage => true
  | _, _ => false
  end.

Record file : Type := mkfile { vol : cont; dur : cont }.

Record dir : Type := mkdir { e_path : option ino; e_tmp : option ino }.

Definition dget (d : dir) (n : name) : option ino :=
  match n with NPath => e_path d | NTmp => e_tmp d end.
Definition dset (d : dir) (n : name) (v : option ino) : dir :=
  match n with NPath => mkdir v (e_tmp d) | NTmp => mkdir (e_path d) v end.

Inductive dirop : Type :=
| DLink (n : name) (i : ino)
| DUnlink (n : name)
| DRename (a b : name).

Definition dapply (d : dir) (o : dirop) : dir :=
  match o with
  | DLink n i => dset d n (Some i)
  | DUnlink n => dset d n None
  | DRename a b =>
      match dget d a with
      | Some i => dset (dset d a None) b (Some i)
      | None => d
      end
  end.

Definition dapply_all (ops : list dirop) (d : dir) : dir := fold_left dapply ops d.

Record fs : Type := mkfs {
  inodes : list file;
  ddur : dir;
  pend : list dirop;
  fd : option ino;     (* the one regular-file descriptor of the writer *)
  dfd : bool           (* directory descriptor open *)
}.

Definition dvol (s : fs) : dir := dapply_all (pend s) (ddur s).
(* durable directory if exactly the first k pending operations survive *)
Definition dstate (s : fs) (k : nat) : dir := dapply_all (firstn k (pend s)) (ddur s).

Definition set_inodes (s : fs) (l : list file) : fs := mkfs l (ddur s) (pend s) (fd s) (dfd s).
Definition add_pend (s : fs) (o : dirop) : fs := mkfs (inodes s) (ddur s) (pend s ++ [o]) (fd s) (dfd s).
Definition set_fd (s : fs) (f : option ino) : fs := mkfs (inodes s) (ddur s) (pend s) f (dfd s).
Definition set_dfd (s : fs) (b : bool) : fs := mkfs (inodes s) (ddur s) (pend s) (fd s) b.

Fixpoint upd {A} (l : list A) (i : nat) (x : A) : list A :=
  match l, i with
  | [], _ => []
  | _ :: t, O => x :: t
  | h :: t, S j => h :: upd t j x
  end.

(* ------------------------------------------------------------------ *)
(* System calls.                                                       *)

Inductive sysop : Type :=
| SRemove (n : name)            (* unlink(2) *)
| SOpenExcl (n : name)          (* open O_WRONLY|O_CREAT|O_EXCL *)
| SOpenTrunc (n : name)         (* open O_WRONLY|O_CREAT|O_TRUNC (the non-atomic way) *)
| SWriteAll                     (* append the whole new image to the open file *)
| SFsync
| SClose
| SRename (a b : name)
| SOpenDir
| SFsyncDir
| SCloseDir
| SUnknown.                     (* anything the translator did not recognise *)

Inductive errno : Type := ENOENT | EEXIST | EBADF | EOTHER.

Inductive xres : Type := XOk (s : fs) | XErr (e : errno).

Definition cont_app (c : cont) (l : list nat) : cont :=
  match c with Bytes x => Bytes (x ++ l) | Garbage => Garbage end.

(* append l to the file open on the descriptor *)
Definition write_fd (s : fs) (l : list nat) : xres :=
  match fd s with
  | None => XErr EBADF
  | Some i =>
      match nth_error (inodes s) i with
      | None => XErr EBADF
      | Some f => XOk (set_inodes s (upd (inodes s) i (mkfile (cont_app (vol f) l) (dur f))))
      end
  end.

Definition create_on (s : fs) (n : name) : xres :=
  let t := List.length (inodes s) in
  XOk (mkfs (inodes s ++ [mkfile (Bytes []) (Bytes [])]) (ddur s) (pend s ++ [DLink n t]) (Some t) (dfd s)).

Definition exec (s : fs) (img : list nat) (o : sysop) : xres :=
  match o with
  | SRemove n =>
      match dget (dvol s) n with
      | None => XErr ENOENT
      | Some _ => XOk (add_pend s (DUnlink n))
      end
  | SOpenExcl n =>
      match fd s with
      | Some _ => XErr EOTHER
      | None =>
          match dget (dvol s) n with
          | Some _ => XErr EEXIST
          | None => create_on s n
          end
      end
  | SOpenTrunc n =>
      match fd s with
      | Some _ => XErr EOTHER
      | None =>
          match dget (dvol s) n with
          | Some i =>
              match nth_error (inodes s) i with
              | Some f => XOk (mkfs (upd (inodes s) i (mkfile (Bytes []) (dur f))) (ddur s) (pend s) (Some i) (dfd s))
              | None => XErr EOTHER
              end
          | None => create_on s n
          end
      end
  | SWriteAll => write_fd s img
  | SFsync =>
      match fd s with
      | None => XErr EBADF
      | Some i =>
          match nth_error (inodes s) i with
          | None => XErr EBADF
          | Some f => XOk (set_inodes s (upd (inodes s) i (mkfile (vol f) (vol f))))
          end
      end
  | SClose =>
      match fd s with
      | None => XErr EBADF
      | Some _ => XOk (set_fd s None)
      end
  | SRename a b =>
      match dget (dvol s) a with
      | None => XErr ENOENT
      | Some _ => XOk (add_pend s (DRename a b))
      end
  | SOpenDir => if dfd s then XErr EOTHER else XOk (set_dfd s true)
  | SFsyncDir =>
      if dfd s then XOk (mkfs (inodes s) (dvol s) [] (fd s) (dfd s)) else XErr EBADF
  | SCloseDir => if dfd s then XOk (set_dfd s false) else XErr EBADF
  | SUnknown => XErr EOTHER
  end.

(* how a Go statement treats the error of its call *)
Inductive mode : Type :=
| Check          (* if err != nil { return err } *)
| EnoentOk       (* if err != nil && !os.IsNotExist(err) { return err } *)
| IgnoreAll.     (* _ = call() *)

Definition op : Type := (sysop * mode)%type.

(* one statement: XErr means the function returns that error *)
Definition step (s : fs) (img : list nat) (o : op) : xres :=
  match exec s img (fst o) with
  | XOk s' => XOk s'
  | XErr e =>
      match snd o, e with
      | IgnoreAll, _ => XOk s
      | EnoentOk, ENOENT => XOk s
      | _, _ => XErr e
      end
  end.

Fixpoint runops (t : list op) (s : fs) (img : list nat) : xres :=
  match t with
  | [] => XOk s
  | o :: r => match step s img o with XOk s' => runops r s' img | XErr e => XErr e end
  end.

(* a program: statements and defer registrations, in source order *)
Inductive stmt : Type :=
| Do (o : sysop) (m : mode)
| Defer (body : list op).

Fixpoint body_ops (p : list stmt) : list op :=
  match p with
  | [] => []
  | Do o m :: r => (o, m) :: body_ops r
  | Defer _ :: r => body_ops r
  end.

(* deferred bodies run last-registered first *)
Fixpoint deferred (p : list stmt) : list op :=
  match p with
  | [] => []
  | Do _ _ :: r => deferred r
  | Defer b :: r => deferred r ++ b
  end.

(* the system calls of a run in which every call succeeds *)
Definition success_trace (p : list stmt) : list op := body_ops p ++ deferred p.

(* prefixes of a list, shortest first, the list itself included *)
Fixpoint prefixes {A} (l : list A) : list (list A) :=
  match l with
  | [] => [[]]
  | x :: t => [] :: map (cons x) (prefixes t)
  end.

Definition oks (l : list xres) : list fs :=
  flat_map (fun r => match r with XOk s => [s] | XErr _ => [] end) l.

(* volatile states DURING a system call (only WriteAll has any) *)
Definition mid_states (s : fs) (img : list nat) (o : sysop) : list fs :=
  match o with
  | SWriteAll => oks (map (write_fd s) (prefixes img))
  | _ => []
  end.

(* states in which a FAILING call may leave the file system *)
Definition fail_states (s : fs) (img : list nat) (o : sysop) : list fs :=
  match o with
  | SWriteAll => s :: oks (map (write_fd s) (prefixes img))
  | SClose => [s; set_fd s None]
  | _ => [s]
  end.

(* final states of the run in which statement number k (a checked call) fails:
   the statements before it succeed, it fails, the deferred bodies registered
   before it run. [] when k does not designate a checked call or the prefix
   does not run. *)
Fixpoint split_at (p : list stmt) (k : nat) : option (list stmt * sysop) :=
  match p, k with
  | [], _ => None
  | Do o IgnoreAll :: _, O => None
  | Do o _ :: _, O => Some ([], o)
  | Defer _ :: _, O => None
  | x :: r, S j => match split_at r j with Some (pre, o) => Some (x :: pre, o) | None => None end
  end.

Definition fail_outcomes (p : list stmt) (k : nat) (s : fs) (img : list nat) : list xres :=
  match split_at p k with
  | None => []
  | Some (pre, o) =>
      match runops (body_ops pre) s img with
      | XErr e => [XErr e]
      | XOk s1 => map (fun s2 => runops (deferred pre) s2 img) (fail_states s1 img o)
      end
  end.

(* ------------------------------------------------------------------ *)
(* Crash.                                                              *)

Definition cont_prefixes (c : cont) : list cont :=
  match c with Bytes l => map Bytes (prefixes l) | Garbage => [] end.

Definition file_outcomes (f : file) : list file :=
  if cont_eqb (vol f) (dur f) then [f]
  else map (fun c => mkfile c c) (dur f :: Garbage :: cont_prefixes (vol f)).

Fixpoint choices {A} (l : list (list A)) : list (list A) :=
  match l with
  | [] => [[]]
  | c :: r => flat_map (fun x => map (cons x) (choices r)) c
  end.

Definition crash_outcomes (s : fs) : list fs :=
  flat_map (fun ins =>
    map (fun k => mkfs ins (dstate s k) [] None false) (seq 0 (S (List.length (pend s)))))
    (choices (map file_outcomes (inodes s))).

(* ------------------------------------------------------------------ *)
(* What FileStore.Load reads.                                          *)

Inductive lres : Type := Absent | Loaded (l : list nat) | Torn.

Definition lres_eqb (a b : lres) : bool :=
  match a, b with
  | Absent, Absent => true
  | Loaded x, Loaded y => list_nat_eqb x y
  | Torn, Torn => true
  | _, _ => false
  end.

Definition load_dir (s : fs) (d : dir) : lres :=
  match e_path d with
  | None => Absent
  | Some i =>
      match nth_error (inodes s) i with
      | Some f => match vol f with Bytes l => Loaded l | Garbage => Torn end
      | None => Torn
      end
  end.

Definition load (s : fs) : lres := load_dir s (dvol s).

(* ------------------------------------------------------------------ *)
(* The checker: an abstract interpretation of the protocol.  Its soundness
   (FsProofs.v: well_ordered_sound, fail_sound, history_sound) is proved once,
   for all programs.                                                    *)

Inductive wstate : Type :=
| WEmpty      (* fresh, nothing written *)
| WPartial    (* some of the image written *)
| WDirty      (* whole image written, not synced *)
| WSynced.    (* whole image written and fsynced *)

Inductive atmp : Type :=
| TUnknown               (* a stale temporary may or may not exist; no descriptor *)
| TAbsent                (* no temporary; no descriptor *)
| TOpen (w : wstate)     (* fresh temporary, descriptor open on it *)
| TClosed (w : wstate).  (* fresh temporary, descriptor closed *)

Inductive apath : Type :=
| POld          (* every durable directory state shows a pre-existing image *)
| PNewPending   (* volatile: new image; durable: pre-existing or new *)
| PNewDurable.  (* durable: new image *)

Record astate : Type := mkast { a_tmp : atmp; a_path : apath; a_dir : bool }.

Definition a0 : astate := mkast TUnknown POld false.

Definition astep_ok (a : astate) (o : sysop) : option astate :=
  match o, a_tmp a with
  | SRemove NTmp, TUnknown => Some (mkast TAbsent (a_path a) (a_dir a))
  | SRemove NTmp, TClosed _ => Some (mkast TAbsent (a_path a) (a_dir a))
  | SOpenExcl NTmp, TAbsent =>
      match a_path a with POld => Some (mkast (TOpen WEmpty) POld (a_dir a)) | _ => None end
  | SWriteAll, TOpen WEmpty => Some (mkast (TOpen WDirty) (a_path a) (a_dir a))
  | SFsync, TOpen WDirty => Some (mkast (TOpen WSynced) (a_path a) (a_dir a))
  | SFsync, TOpen _ => Some a
  | SClose, TOpen w => Some (mkast (TClosed w) (a_path a) (a_dir a))
  | SRename NTmp NPath, TClosed WSynced =>
      match a_path a with POld => Some (mkast TAbsent PNewPending (a_dir a)) | _ => None end
  | SOpenDir, _ => if a_dir a then None else Some (mkast (a_tmp a) (a_path a) true)
  | SCloseDir, _ => if a_dir a then Some (mkast (a_tmp a) (a_path a) false) else None
  | SFsyncDir, _ =>
      if a_dir a then
        Some (mkast (a_tmp a) (match a_path a with PNewPending => PNewDurable | x => x end) true)
      else None
  | _, _ => None
  end.

(* does the call certainly fail, with which class of error, leaving the state alone? *)
Definition astep_err (a : astate) (o : sysop) : option errno :=
  match o, a_tmp a with
  | SRemove NTmp, TAbsent => Some ENOENT
  | SClose, TUnknown => Some EBADF
  | SClose, TAbsent => Some EBADF
  | SClose, TClosed _ => Some EBADF
  | SCloseDir, _ => if a_dir a then None else Some EBADF
  | _, _ => None
  end.

(* removing a temporary that may not exist succeeds only if ENOENT is tolerated *)
Definition needs_tolerance (a : astate) (o : sysop) : bool :=
  match o, a_tmp a with SRemove NTmp, TUnknown => true | _, _ => false end.

Definition astep (a : astate) (o : op) : option astate :=
  if needs_tolerance a (fst o) && match snd o with Check => true | _ => false end then None
  else
  match astep_ok a (fst o) with
  | Some a' => Some a'
  | None =>
      match astep_err a (fst o), snd o with
      | Some _, IgnoreAll => Some a
      | Some ENOENT, EnoentOk => Some a
      | _, _ => None
      end
  end.

Fixpoint arun (t : list op) (a : astate) : option astate :=
  match t with
  | [] => Some a
  | o :: r => match astep a o with Some a' => arun r a' | None => None end
  end.

(* abstract states a failing call may leave *)
Definition afail (a : astate) (o : sysop) : list astate :=
  match o, a_tmp a with
  | SWriteAll, TOpen WEmpty => [a; mkast (TOpen WPartial) (a_path a) (a_dir a)]
  | SClose, TOpen w => [a; mkast (TClosed w) (a_path a) (a_dir a)]
  | _, _ => [a]
  end.

(* a quiescent state: no descriptor is left open *)
Definition aquiet (a : astate) : bool :=
  match a_tmp a with TOpen _ => false | _ => negb (a_dir a) end.

Definition renamed (a : astate) : bool :=
  match a_path a with POld => false | _ => true end.

(* every failure point: the deferred clean-up brings the state back to a
   quiescent one *)
Fixpoint fail_ok (pre : list stmt) (rest : list stmt) (a : astate) : bool :=
  match rest with
  | [] => true
  | Defer b :: r => fail_ok (pre ++ [Defer b]) r a
  | Do o m :: r =>
      (match m with
       | IgnoreAll => true
       | _ => forallb (fun af => match arun (deferred pre) af with
                                 | Some a' => aquiet a'
                                 | None => false
                                 end) (afail a o)
       end) &&
      match astep a (o, m) with
      | Some a' => fail_ok (pre ++ [Do o m]) r a'
      | None => false
      end
  end.

Definition well_ordered (p : list stmt) : bool :=
  match arun (success_trace p) a0 with
  | Some a => aquiet a && match a_path a with PNewDurable => true | _ => false end
              && match a_tmp a with TAbsent => true | _ => false end
  | None => false
  end
  && fail_ok [] p a0.

(* ------------------------------------------------------------------ *)
(* Canonical starting states and the exhaustive verdict used by the
   correspondence family and as the counter-example search.            *)

(* path holds `old` durably (or nothing when old = None); an optional stale
   temporary with arbitrary contents, durable or only pending *)
Definition init_fs (old : option (list nat)) (stale : nat) : fs :=
  let ins := match old with Some l => [mkfile (Bytes l) (Bytes l)] | None => [] end in
  let p := match old with Some _ => Some 0 | None => None end in
  let t := List.length ins in
  match stale with
  | 0 => mkfs ins (mkdir p None) [] None false
  | 1 => mkfs (ins ++ [mkfile (Bytes [99]) Garbage]) (mkdir p (Some t)) [] None false
  | _ => mkfs (ins ++ [mkfile (Bytes [98; 97]) (Bytes [98])]) (mkdir p None) [DLink NTmp t] None false
  end.

Definition lres_of (old : option (list nat)) : lres :=
  match old with Some l => Loaded l | None => Absent end.

Definition all_safe (s : fs) (old : lres) (img : list nat) : bool :=
  forallb (fun c => let r := load c in lres_eqb r old || lres_eqb r (Loaded img)) (crash_outcomes s).

(* exhaustive exploration of one trace from one state: index of the first
   instant (0 = before the first call; call boundaries and write-midpoints
   count) at which some crash outcome loads as neither old nor new *)
Inductive verdict : Type :=
| VSafe (s : fs) (n : nat)   (* all instants safe; final state, number of calls *)
| VUnsafe (i : nat)          (* a crash at/inside call number i can load a third thing *)
| VStuck (i : nat).          (* call number i returns an error in the model *)

Fixpoint explore (t : list op) (s : fs) (old : lres) (img : list nat) (i : nat) : verdict :=
  if negb (all_safe s old img) then VUnsafe i
  else
    match t with
    | [] => VSafe s i
    | o :: r =>
        if negb (forallb (fun m => all_safe m old img) (mid_states s img (fst o))) then VUnsafe (S i)
        else
          match step s img o with
          | XOk s' => explore r s' old img (S i)
          | XErr _ => VStuck (S i)
          end
    end.

(* ------------------------------------------------------------------ *)
(* Text forms (shared with the harness and the generated files).       *)
Open Scope string_scope.

Definition name_text (n : name) : string := match n with NPath => "path" | NTmp => "tmp" end.

Definition sysop_text (o : sysop) : string :=
  match o with
  | SRemove n => "unlink:" ++ name_text n
  | SOpenExcl n => "openexcl:" ++ name_text n
  | SOpenTrunc n => "opentrunc:" ++ name_text n
  | SWriteAll => "write"
  | SFsync => "fsync"
  | SClose => "close"
  | SRename a b => "rename:" ++ name_text a ++ ":" ++ name_text b
  | SOpenDir => "opendir"
  | SFsyncDir => "fsyncdir"
  | SCloseDir => "closedir"
  | SUnknown => "unknown"
  end.

Definition sysop_of_text (s : string) : sysop :=
  if String.eqb s "unlink:tmp" then SRemove NTmp
  else if String.eqb s "unlink:path" then SRemove NPath
  else if String.eqb s "openexcl:tmp" then SOpenExcl NTmp
  else if String.eqb s "openexcl:path" then SOpenExcl NPath
  else if String.eqb s "opentrunc:tmp" then SOpenTrunc NTmp
  else if String.eqb s "opentrunc:path" then SOpenTrunc NPath
  else if String.eqb s "write" then SWriteAll
  else if String.eqb s "fsync" then SFsync
  else if String.eqb s "close" then SClose
  else if String.eqb s "rename:tmp:path" then SRename NTmp NPath
  else if String.eqb s "rename:path:tmp" then SRename NPath NTmp
  else if String.eqb s "rename:tmp:tmp" then SRename NTmp NTmp
  else if String.eqb s "rename:path:path" then SRename NPath NPath
  else if String.eqb s "opendir" then SOpenDir
  else if String.eqb s "fsyncdir" then SFsyncDir
  else if String.eqb s "closedir" then SCloseDir
  else SUnknown.
