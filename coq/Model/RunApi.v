(* RunApi.v — runner of family `api`: a history of driver calls is executed by
   Driver.step; after every call the reply, the committed state of the target
   namespace (documents in natural order + every index entry) and the change
   events appended since the previous call are printed.  Parametric in the
   operator semantics; ApiOps.v chooses the instance. *)
From Lungo.Model Require Import Driver DriverExt RunAccess.
Open Scope string_scope.

Section RunApi.
  Variable matchf : doc -> doc -> res bool.
  Variable applyf : doc -> doc -> doc -> bool -> list doc -> Z -> res (doc * list (string * value)).
  Variable extractf : doc -> res doc.
  Variable projectf : doc -> doc -> res doc.

  (* ---------------- parsing ---------------- *)

  Definition z_of (x : sexp) : option Z := match x with SAtom s => parse_Z s | _ => None end.
  Definition str_of (x : sexp) : option string := match x with SAtom s => unhex s | _ => None end.
  Definition optdoc_of (x : sexp) : option (option doc) :=
    match x with
    | SAtom "NIL" => Some None
    | _ => option_map Some (doc_of_sexp x)
    end.
  Definition docs_of (x : sexp) : option (list doc) :=
    match x with SList l => opt_mapM doc_of_sexp l | _ => None end.
  Definition many_of (x : sexp) : option bool :=
    match x with SAtom "many" => Some true | SAtom "one" => Some false | _ => None end.
  Definition optz_of (x : sexp) : option (option Z) :=
    match x with SAtom "NIL" => Some None | _ => option_map Some (z_of x) end.

  Notation "'do' x <- e ; k" := (opt_bind e (fun x => k)) (at level 200, x name, e at level 100, k at level 200).

  Definition handle_of (db coll : sexp) : option handle :=
    do d <- str_of db; do c <- str_of coll; Some (d, c).

  Definition bulk_op_of (x : sexp) : option bulk_op :=
    match x with
    | SList [SAtom "ins"; d] => do d' <- doc_of_sexp d; Some (BInsert d')
    | SList [SAtom "rep"; f; r; u] =>
        do f' <- doc_of_sexp f; do r' <- doc_of_sexp r; do u' <- bool_of_sexp u; Some (BReplace f' r' None u')
    | SList [SAtom "upd"; m; f; u; up; afs] =>
        do m' <- many_of m; do f' <- doc_of_sexp f; do u' <- doc_of_sexp u; do up' <- bool_of_sexp up;
        do afs' <- docs_of afs; Some (BUpdate f' u' None up' 0 (if m' then 0 else 1)%Z afs')
    | SList [SAtom "del"; m; f] =>
        do m' <- many_of m; do f' <- doc_of_sexp f; Some (BDelete f' None 0 (if m' then 0 else 1)%Z)
    | _ => None
    end.

  Definition call_of (x : sexp) : option call :=
    match x with
    | SList [SAtom "insertOne"; s; db; co; d] =>
        do s' <- z_of s; do h <- handle_of db co; do d' <- doc_of_sexp d; Some (CInsertOne s' h d')
    | SList (SAtom "insertMany" :: s :: db :: co :: o :: ds) =>
        do s' <- z_of s; do h <- handle_of db co; do o' <- bool_of_sexp o; do ds' <- opt_mapM doc_of_sexp ds;
        Some (CInsertMany s' h ds' o')
    | SList [SAtom "find"; s; db; co; q; so; pr; sk; li] =>
        do s' <- z_of s; do h <- handle_of db co; do q' <- doc_of_sexp q; do so' <- optdoc_of so;
        do pr' <- optdoc_of pr; do sk' <- z_of sk; do li' <- z_of li; Some (CFind s' h q' so' pr' sk' li')
    | SList [SAtom "findOne"; s; db; co; q; so; pr; sk] =>
        do s' <- z_of s; do h <- handle_of db co; do q' <- doc_of_sexp q; do so' <- optdoc_of so;
        do pr' <- optdoc_of pr; do sk' <- z_of sk; Some (CFindOne s' h q' so' pr' sk')
    | SList [SAtom "count"; s; db; co; q; sk; li] =>
        do s' <- z_of s; do h <- handle_of db co; do q' <- doc_of_sexp q; do sk' <- z_of sk; do li' <- z_of li;
        Some (CCount s' h q' sk' li')
    | SList [SAtom "distinct"; s; db; co; f; q] =>
        do s' <- z_of s; do h <- handle_of db co; do f' <- str_of f; do q' <- doc_of_sexp q;
        Some (CDistinct s' h f' q')
    | SList [SAtom "update"; s; db; co; m; q; u; up; afs] =>
        do s' <- z_of s; do h <- handle_of db co; do m' <- many_of m; do q' <- doc_of_sexp q;
        do u' <- doc_of_sexp u; do up' <- bool_of_sexp up; do afs' <- docs_of afs;
        Some (CUpdate s' h m' q' u' up' afs')
    | SList [SAtom "replace"; s; db; co; q; r; up] =>
        do s' <- z_of s; do h <- handle_of db co; do q' <- doc_of_sexp q; do r' <- doc_of_sexp r;
        do up' <- bool_of_sexp up; Some (CReplace s' h q' r' up')
    | SList [SAtom "delete"; s; db; co; m; q] =>
        do s' <- z_of s; do h <- handle_of db co; do m' <- many_of m; do q' <- doc_of_sexp q;
        Some (CDelete s' h m' q')
    | SList [SAtom "fau"; s; db; co; q; u; so; pr; up; af; afs] =>
        do s' <- z_of s; do h <- handle_of db co; do q' <- doc_of_sexp q; do u' <- doc_of_sexp u;
        do so' <- optdoc_of so; do pr' <- optdoc_of pr; do up' <- bool_of_sexp up; do af' <- bool_of_sexp af;
        do afs' <- docs_of afs; Some (CFindOneAndUpdate s' h q' u' so' pr' up' af' afs')
    | SList [SAtom "far"; s; db; co; q; r; so; pr; up; af] =>
        do s' <- z_of s; do h <- handle_of db co; do q' <- doc_of_sexp q; do r' <- doc_of_sexp r;
        do so' <- optdoc_of so; do pr' <- optdoc_of pr; do up' <- bool_of_sexp up; do af' <- bool_of_sexp af;
        Some (CFindOneAndReplace s' h q' r' so' pr' up' af')
    | SList [SAtom "fad"; s; db; co; q; so; pr] =>
        do s' <- z_of s; do h <- handle_of db co; do q' <- doc_of_sexp q;
        do so' <- optdoc_of so; do pr' <- optdoc_of pr; Some (CFindOneAndDelete s' h q' so' pr')
    | SList [SAtom "bulk"; s; db; co; o; SList ops] =>
        do s' <- z_of s; do h <- handle_of db co; do o' <- bool_of_sexp o; do ops' <- opt_mapM bulk_op_of ops;
        Some (CBulk s' h ops' o')
    | SList [SAtom "createIndex"; s; db; co; n; k; u; p; e] =>
        do s' <- z_of s; do h <- handle_of db co; do n' <- str_of n; do k' <- doc_of_sexp k;
        do u' <- bool_of_sexp u; do p' <- optdoc_of p; do e' <- optz_of e;
        Some (CCreateIndex s' h n' k' u' p' e')
    | SList [SAtom "dropIndex"; s; db; co; n] =>
        do s' <- z_of s; do h <- handle_of db co; do n' <- str_of n; Some (CDropIndex s' h n')
    | SList [SAtom "dropAllIndexes"; s; db; co] =>
        do s' <- z_of s; do h <- handle_of db co; Some (CDropAllIndexes s' h)
    | SList [SAtom "listIndexes"; s; db; co] =>
        do s' <- z_of s; do h <- handle_of db co; Some (CListIndexes s' h)
    | SList [SAtom "dropColl"; s; db; co] =>
        do s' <- z_of s; do h <- handle_of db co; Some (CDropColl s' h)
    | SList [SAtom "dropDb"; s; db] =>
        do s' <- z_of s; do d <- str_of db; Some (CDropDb s' d)
    | SList [SAtom "start"; s] => do s' <- z_of s; Some (CStart s')
    | SList [SAtom "commit"; s] => do s' <- z_of s; Some (CCommit s')
    | SList [SAtom "abort"; s] => do s' <- z_of s; Some (CAbort s')
    | SList [SAtom "end"; s] => do s' <- z_of s; Some (CEnd s')
    | SList [SAtom "trim"; k] => do k' <- z_of k; Some (CTrim k')
    | SList [SAtom "expire"; k] => do k' <- z_of k; Some (CExpire k')
    | _ => None
    end.

  (* the namespace a call targets (for the per-call state dump) *)
  Definition target_of (c : call) : option handle :=
    match c with
    | CInsertOne _ h _ | CInsertMany _ h _ _ | CFind _ h _ _ _ _ _ | CFindOne _ h _ _ _ _
    | CCount _ h _ _ _ | CDistinct _ h _ _ | CUpdate _ h _ _ _ _ _ | CReplace _ h _ _ _
    | CDelete _ h _ _ | CFindOneAndUpdate _ h _ _ _ _ _ _ _ | CFindOneAndReplace _ h _ _ _ _ _ _
    | CFindOneAndDelete _ h _ _ _ | CBulk _ h _ _ | CCreateIndex _ h _ _ _ _ _ | CDropIndex _ h _
    | CDropAllIndexes _ h | CListIndexes _ h | CDropColl _ h => Some h
    | _ => None
    end.

  (* ---------------- printing ---------------- *)

  Definition sp (l : list string) : string := join_with " " l.
  Definition par (l : list string) : string := "(" ++ sp l ++ ")".

  Definition show_ekind (e : ekind) : string :=
    match e with
    | EErr => "ERR" | EDup => "DUP" | EPanic => "PANIC" | EFuel => "FUEL" | EUnmodelled => "UNMODELLED"
    end.

  Definition show_doc (d : doc) : string := show_value (VDoc d).

  Definition show_reply (r : reply) : string :=
    match r with
    | RErr e => show_ekind e
    | ROk => "OK"
    | RId v => par ["id"; show_value v]
    | RMany ids e => par ["many"; par (map show_value ids); match e with Some k => show_ekind k | None => "OK" end]
    | RDocs l => par ("docs" :: map show_doc l)
    | RDoc None => "NODOC"
    | RDoc (Some d) => par ["doc"; show_doc d]
    | RCount n => par ["n"; show_Z n]
    | RVals l => par ("vals" :: map show_value l)
    | RUpdate a b c u => par ["upd"; show_Z a; show_Z b; show_Z c; show_value u]
    | RDelete n => par ["del"; show_Z n]
    | RBulk a b c d e u errs =>
        par ["bulk"; show_Z a; show_Z b; show_Z c; show_Z d; show_Z e;
             par (map (fun iv => par [show_Z (fst iv); show_value (snd iv)]) u);
             par (map (fun ie => par [show_Z (fst ie); show_ekind (snd ie)]) errs)]
    | RName s => par ["name"; hex s]
    end.

  (* position of a document identity in the natural order *)
  Fixpoint pos_of (l : list sdoc) (i : did) (n : Z) : Z :=
    match l with
    | [] => (-1)%Z
    | sd :: t => if (fst sd =? i)%Z then n else pos_of t i (n + 1)%Z
    end.

  (* entries rendered as "(pos key...)" and sorted by (pos, text) *)
  Definition entry_text (docs : list sdoc) (e : list value * did) : Z * string :=
    (pos_of docs (snd e) 0, par (map show_value (fst e))).

  Definition entry_cmp (a b : Z * string) : comparison :=
    match Z.compare (fst a) (fst b) with
    | Eq => str_compare (snd a) (snd b)
    | c => c
    end.

  Definition show_index (docs : list sdoc) (ni : string * index) : string :=
    par (hex (fst ni) ::
         map (fun pe => par [show_Z (fst pe); snd pe])
             (stable_sort entry_cmp (map (entry_text docs) (ix_entries (snd ni))))).

  Definition name_cmp (a b : string * index) : comparison := str_compare (fst a) (fst b).

  Definition show_coll (c : coll) : string :=
    par [par (map (fun sd => show_doc (snd sd)) (c_docs c));
         par (map (show_index (c_docs c)) (stable_sort name_cmp (c_indexes c)))].

  Definition show_ns (cat : catalog) (h : handle) : string :=
    match ns_get (cat_ns cat) h with
    | Some c => show_coll c
    | None => "ABSENT"
    end.

  (* an event without its clock fields (timestamps are compared by rank =
     position; wallTime is not compared) *)
  Definition strip_event (d : doc) : doc :=
    filter (fun kv => negb (String.eqb (fst kv) "_id" || String.eqb (fst kv) "clusterTime"
                            || String.eqb (fst kv) "wallTime")) d.

  Definition is_drop (d : doc) : bool :=
    match lookup d "operationType" with Some (VString "drop") => true | _ => false end.

  Definition ev_cmp (a b : string) : comparison := str_compare a b.

  Definition is_delete (d : doc) : bool :=
    match lookup d "operationType" with Some (VString "delete") => true | _ => false end.

  (* the delete events of one Expire pass come namespace by namespace in Go map
     order: runs of consecutive delete events are grouped by namespace (stable) *)
  Definition ns_text (d : doc) : string :=
    match lookup d "ns" with Some v => show_value v | None => "" end.
  Definition ns_cmp (a b : doc) : comparison := str_compare (ns_text a) (ns_text b).

  (* runs of consecutive `drop` events (one dropDatabase) are sorted; runs of
     consecutive `delete` events are grouped by namespace.  The drop events of
     a dropDatabase come in Go map order, and a later retention pass may cut
     such a run in the middle: the collection names of a drop run that ends in
     its dropDatabase event are not compared (anonymised on both sides). *)
  Definition is_dropdb (d : doc) : bool :=
    match lookup d "operationType" with Some (VString "dropDatabase") => true | _ => false end.

  Definition anon_coll (d : doc) : doc :=
    map (fun kv => if String.eqb (fst kv) "ns"
                   then match snd kv with
                        | VDoc ns => (fst kv, VDoc (map (fun e => if String.eqb (fst e) "coll" then (fst e, VString "*") else e) ns))
                        | v => (fst kv, v)
                        end
                   else kv) d.

  Definition flush_drops (anon : bool) (drops : list doc) : list string :=
    stable_sort ev_cmp (map (fun d => show_doc (strip_event (if anon then anon_coll d else d))) drops).

  Fixpoint canon_events (l : list doc) (drops : list doc) (dels : list doc) : list string :=
    let flush_dels := map (fun d => show_doc (strip_event d)) (stable_sort ns_cmp (rev dels)) in
    match l with
    | [] => (flush_drops false drops ++ flush_dels)%list
    | d :: t =>
        if is_drop d then (flush_dels ++ canon_events t (d :: drops) [])%list
        else if is_delete d then (flush_drops false drops ++ canon_events t [] (d :: dels))%list
        else (flush_drops (is_dropdb d) drops ++ flush_dels ++ show_doc (strip_event d) :: canon_events t [] [])%list
    end.

  Definition oplog_docs (cat : catalog) : list sdoc := c_docs (oplog_of cat).

  (* events appended since `before` (a clock value): those with larger ts *)
  Definition event_clock (d : doc) : Z :=
    match lookup d "clusterTime" with Some (VTs _ k) => k | _ => 0%Z end.

  Definition new_events (cat : catalog) (before : Z) : list doc :=
    filter (fun d => (before <? event_clock d)%Z) (map snd (oplog_docs cat)).

  Definition handle_cmp (a b : handle * coll) : comparison :=
    match str_compare (fst (fst a)) (fst (fst b)) with
    | Eq => str_compare (snd (fst a)) (snd (fst b))
    | c => c
    end.

  Definition show_catalog (cat : catalog) : string :=
    par (map (fun hc => par [hex (fst (fst hc)); hex (snd (fst hc));
                             if handle_eqb (fst hc) oplog_handle
                             then par (canon_events (map snd (c_docs (snd hc))) [] [])
                             else show_coll (snd hc)])
             (stable_sort handle_cmp (cat_ns cat))).

  (* calls whose translation depends on the state: DropOneWithKey *)
  Definition call_in (ds : dstate) (x : sexp) : option call :=
    match x with
    | SList [SAtom "dropIndexKey"; s; db; co; k] =>
        do s' <- z_of s; do h <- handle_of db co; do k' <- doc_of_sexp k;
        Some (drop_by_key_call ds s' h k')
    (* thin wrappers of the driver API, as the calls they delegate to *)
    | SList [SAtom "estCount"; s; db; co] =>            (* EstimatedDocumentCount = CountDocuments({}) *)
        do s' <- z_of s; do h <- handle_of db co; Some (CCount s' h [] 0 0)
    | SList [SAtom "updateById"; s; db; co; i; u; up; afs] =>   (* UpdateByID = UpdateOne({_id: id}, …) *)
        do s' <- z_of s; do h <- handle_of db co; do i' <- value_of_sexp i;
        do u' <- doc_of_sexp u; do up' <- bool_of_sexp up; do afs' <- docs_of afs;
        Some (CUpdate s' h false [("_id", i')] u' up' afs')
    | _ => call_of x
    end.

  (* the catalog-level calls of DriverExt.v *)
  Definition ispec_of (x : sexp) : option ispec :=
    match x with
    | SList [n; k; u; p; e] =>
        do n' <- str_of n; do k' <- doc_of_sexp k; do u' <- bool_of_sexp u; do p' <- optdoc_of p; do e' <- optz_of e;
        Some (mkISpec n' k' u' p' e')
    | _ => None
    end.

  Definition xcall_in (ds : dstate) (x : sexp) : option xcall :=
    match x with
    | SList [SAtom "createColl"; s; db; co] =>
        do s' <- z_of s; do h <- handle_of db co; Some (XCreateColl s' h)
    | SList [SAtom "listColls"; s; db; q] =>
        do s' <- z_of s; do db' <- str_of db; do q' <- doc_of_sexp q; Some (XListColls s' db' q')
    | SList [SAtom "listDbs"; s; q] =>
        do s' <- z_of s; do q' <- doc_of_sexp q; Some (XListDbs s' q')
    | SList (SAtom "createMany" :: s :: db :: co :: specs) =>
        do s' <- z_of s; do h <- handle_of db co; do sp' <- opt_mapM ispec_of specs; Some (XCreateMany s' h sp')
    | _ => option_map XBase (call_in ds x)
    end.

  Definition xtarget_of (x : xcall) : option handle :=
    match x with
    | XBase c => target_of c
    | XCreateColl _ h | XCreateMany _ h _ => Some h
    | _ => None
    end.

  Definition show_xreply (r : xreply) : string :=
    match r with
    | XR r => show_reply r
    | XNames l e => par ["names"; par (map hex l); match e with Some k => show_ekind k | None => "OK" end]
    end.

  Fixpoint run_calls (now : Z) (ds : dstate) (cs : list sexp) : list string :=
    match cs with
    | [] => ["FINAL " ++ show_catalog (ds_cat ds)]
    | x :: t =>
        match xcall_in ds x with
        | None => ["BAD-CALL"]
        | Some c =>
            let before := cat_clock (ds_cat ds) in
            let len_before := len (oplog_docs (ds_cat ds)) in
            let '(ds', r) := xstep matchf applyf extractf projectf now ds c in
            let evs := new_events (ds_cat ds') before in
            let trimmed := (len_before + len evs - len (oplog_docs (ds_cat ds')))%Z in
            let line :=
              sp [show_xreply r;
                  match xtarget_of c with Some h => show_ns (ds_cat ds') h | None => "-" end;
                  par (canon_events evs [] []); show_Z trimmed] in
            line :: run_calls now ds' t
        end
    end.

  Definition run_api (x : sexp) : option string :=
    match x with
    | SList (SAtom "apirel" :: nw :: calls)
    | SList (SAtom "api" :: nw :: calls) =>
        match z_of nw with
        | Some now => Some (join_with " ;; " (run_calls now d_init calls))
        | None => Some "BAD-CASE"
        end
    | _ => None
    end.

End RunApi.
