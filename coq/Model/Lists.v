(* Lists.v — bsonkit/lists.go, bsonkit/sort.go, mongokit/sort.go,
   mongokit/filter.go, mongokit/distinct.go. *)
From Lungo.Model Require Export Access.
Open Scope Z_scope.

(* ------------------------------------------------------------------ *)
(* sort specification: mongokit.Columns *)

Definition column := (string * bool)%type.    (* path, reverse *)

(* float64 -> int conversion as Go does for in-range values: truncation.
   Only the results 1 and -1 matter; NaN/Inf/out-of-range give an
   implementation-specific int that is neither 1 nor -1 on amd64. *)
Definition direction_of (v : value) : option Z :=
  match v with
  | VInt32 z | VInt64 z => Some z
  | VDouble b =>
      match xnum_of_double b with
      | XFin q => Some (Z.quot (Qnum q) (Zpos (Qden q)))
      | _ => Some 0
      end
  | _ => None
  end.

Fixpoint columns (d : doc) : res (list column) :=
  match d with
  | [] => Ok []
  | (k, v) :: t =>
      match direction_of v with
      | None => Err
      | Some dir =>
          if (dir =? 1) || (dir =? -1) then
            let* rest := columns t in Ok ((k, dir =? -1) :: rest)
          else Err
      end
  end.

(* bsonkit.sortKey *)
Definition sort_key (v : value) (reverse : bool) : value :=
  match v with
  | VArr (x :: t) =>
      fold_left (fun best item =>
                   match compare item best with
                   | Gt => if reverse then item else best
                   | Lt => if reverse then best else item
                   | Eq => best
                   end) t x
  | _ => v
  end.

(* bsonkit.Order without the identity tie-break *)
Fixpoint order (l r : doc) (cols : list column) : comparison :=
  match cols with
  | [] => Eq
  | (p, rev) :: t =>
      let a := sort_key (Get l p) rev in
      let b := sort_key (Get r p) rev in
      match compare a b with
      | Eq => order l r t
      | c => if rev then CompOpp c else c
      end
  end.

(* a stable sort (sort.SliceStable): insertion sort, equal elements keep
   their original relative order *)
Section Sort.
  Context {A : Type} (cmp : A -> A -> comparison).

  Fixpoint insert_sorted (x : A) (l : list A) : list A :=
    match l with
    | [] => [x]
    | y :: t =>
        match cmp y x with
        | Lt => y :: insert_sorted x t
        | _ => x :: y :: t
        end
    end.

  Definition stable_sort (l : list A) : list A := fold_right insert_sorted [] l.
End Sort.

(* ------------------------------------------------------------------ *)
(* bsonkit.Select as used by mongokit.Filter: stop at the first matcher
   error, or when the limit (> 0) is reached *)

Section Select.
  Context {A : Type} (sel : A -> res bool).

  Fixpoint select_go (l : list A) (limit : Z) (have : Z) : res (list A) :=
    match l with
    | [] => Ok []
    | x :: t =>
        match sel x with
        | Ok true =>
            if (0 <? limit) && (limit <=? have + 1) then Ok [x]
            else let* rest := select_go t limit (have + 1) in Ok (x :: rest)
        | Ok false => select_go t limit have
        | Err => Err
        | Panic => Panic
        | OutOfFuel => OutOfFuel
        | Unmodelled => Unmodelled
        end
    end.

  Definition select (l : list A) (limit : Z) : res (list A) := select_go l limit 0.
End Select.

Fixpoint drop {A} (n : Z) (l : list A) : list A :=
  match l with
  | [] => []
  | x :: t => if n <=? 0 then l else drop (n - 1) t
  end.

(* bsonkit.Pick *)
Definition pick_path (l : list doc) (p : string) (compact : bool) : list value :=
  flat_map (fun d => let v := Get d p in
                     if compact && is_missing v then [] else [v]) l.

(* bsonkit.Collect (without the final distinct step) *)
Definition collect (l : list doc) (p : string) (compact merge flatten : bool) : list value :=
  flat_map (fun d =>
              let v := fst (All d p compact merge) in
              if compact && is_missing v then []
              else match v with
                   | VArr a => if flatten then a else [v]
                   | _ => [v]
                   end) l.

(* sort + drop every value equal (compare = Eq) to its predecessor.  Go uses
   the unstable sort.Slice: which of several BSON-equal values of different
   type survives is unspecified; observables compare canonical forms. *)
Fixpoint dedupe (l : list value) : list value :=
  match l with
  | [] => []
  | x :: t =>
      match t with
      | [] => [x]
      | y :: _ => match compare x y with
                  | Eq => dedupe t
                  | _ => x :: dedupe t
                  end
      end
  end.

Fixpoint dedupe_keep_first (prev : option value) (l : list value) : list value :=
  match l with
  | [] => []
  | x :: t =>
      match prev with
      | Some p => match compare p x with
                  | Eq => dedupe_keep_first prev t
                  | _ => x :: dedupe_keep_first (Some x) t
                  end
      | None => x :: dedupe_keep_first (Some x) t
      end
  end.

(* mongokit.Distinct *)
Definition distinct (l : list doc) (p : string) : list value :=
  dedupe_keep_first None (stable_sort compare (collect l p true true true)).
