(* SerialRun.v — family `serial` (C04): serial replay of a recorded history.
   Definitions only.

   Case: (serial (seed S) (g G) (n N) (k K) (init v ...) (writes W ...) (reads R ...) (final v ...))
     W, in the order of local.oplog:  (inc I D OLD INV RET) | (xfer I J A VI VJ INV RET)
                                      | (claim T I OLD INV RET): a sorted find-one-and-update
                                        {_id < K/2, v < T} sort {_id: 1}, {$inc: {v: 1}} that returned
                                        counter I with value OLD
     R:                               (read INV RET v ...)
   INV / RET are global ticks taken at invocation and at return.

   The committed writes are applied one at a time in log order to the initial
   contents; every value a write returned must be the value in the state it is
   applied to (no lost update), the log order must respect real time, the
   final contents must be the last state, and every read must equal the state
   after a prefix of the log that includes every write that returned before
   the read was issued and excludes every write issued after it returned. *)
From Lungo.Model Require Import Base.
Open Scope string_scope.

Definition z_of_sexp (x : sexp) : option Z :=
  match x with SAtom a => parse_Z a | _ => None end.

Definition zs_of_sexps (l : list sexp) : option (list Z) := opt_mapM z_of_sexp l.

Inductive swrite :=
| WInc (i : nat) (d old inv ret : Z)
| WXfer (i j : nat) (a vi vj inv ret : Z)
| WClaim (t : Z) (i : nat) (old inv ret : Z).

Definition w_inv (w : swrite) : Z :=
  match w with WInc _ _ _ inv _ => inv | WXfer _ _ _ _ _ inv _ => inv | WClaim _ _ _ inv _ => inv end.
Definition w_ret (w : swrite) : Z :=
  match w with WInc _ _ _ _ ret => ret | WXfer _ _ _ _ _ _ ret => ret | WClaim _ _ _ _ ret => ret end.

Definition write_of_sexp (x : sexp) : option swrite :=
  match x with
  | SList (SAtom "inc" :: args) =>
      match zs_of_sexps args with
      | Some [i; d; old; inv; ret] => Some (WInc (Z.to_nat i) d old inv ret)
      | _ => None
      end
  | SList (SAtom "claim" :: args) =>
      match zs_of_sexps args with
      | Some [t; i; old; inv; ret] => Some (WClaim t (Z.to_nat i) old inv ret)
      | _ => None
      end
  | SList (SAtom "xfer" :: args) =>
      match zs_of_sexps args with
      | Some [i; j; a; vi; vj; inv; ret] => Some (WXfer (Z.to_nat i) (Z.to_nat j) a vi vj inv ret)
      | _ => None
      end
  | _ => None
  end.

Fixpoint zupd (l : list Z) (n : nat) (f : Z -> Z) : list Z :=
  match l, n with
  | [], _ => []
  | h :: t, O => f h :: t
  | h :: t, S n' => h :: zupd t n' f
  end.

Definition znth (l : list Z) (n : nat) : Z := nth n l 0%Z.

Fixpoint zlist_eqb (a b : list Z) : bool :=
  match a, b with
  | [], [] => true
  | x :: s, y :: t => Z.eqb x y && zlist_eqb s t
  | _, _ => false
  end.

(* the first of the counters p, p+1, ... below `half` whose value is below t *)
Fixpoint first_below (st : list Z) (p half : nat) (t : Z) : option nat :=
  match st with
  | [] => None
  | v :: r => if Nat.ltb p half then (if (v <? t)%Z then Some p else first_below r (S p) half t) else None
  end.

(* apply one write; None = it returned a value that is not the one in the state *)
Definition apply_write (half : nat) (st : list Z) (w : swrite) : option (list Z) :=
  match w with
  | WClaim t i old _ _ =>
      (* the sorted find-one-and-update takes the FIRST counter whose value is below t
         in the state it is applied to, and returns that value *)
      match first_below st 0 half t with
      | Some j => if Nat.eqb j i && Z.eqb (znth st i) old then Some (zupd st i (fun v => v + 1)%Z) else None
      | None => None
      end
  | WInc i d old _ _ =>
      if Z.eqb (znth st i) old then Some (zupd st i (fun v => v + d)%Z) else None
  | WXfer i j a vi vj _ _ =>
      if Z.eqb (znth st i) vi && Z.eqb (znth st j) vj
      then Some (zupd (zupd st i (fun v => v - a)%Z) j (fun v => v + a)%Z) else None
  end.

(* replay: the list of states (state after 0, 1, ... writes), or the position that fails *)
Fixpoint replay_writes (half : nat) (st : list Z) (ws : list swrite) (p : nat) (maxinv : Z) (acc : list (list Z))
  : (string * nat) + list (list Z) :=
  match ws with
  | [] => inr (rev (st :: acc))
  | w :: t =>
      if (w_ret w <? maxinv)%Z then inl ("real-time", p)
      else match apply_write half st w with
           | None => inl ("stale-value", p)
           | Some st' => replay_writes half st' t (S p) (Z.max maxinv (w_inv w)) (st :: acc)
           end
  end.

(* lo: 1 + the last position of a write that returned before inv; hi: the first position of a write issued after ret *)
Fixpoint read_bounds (ws : list swrite) (p : nat) (inv ret : Z) (lo : nat) (hi : option nat) : nat * nat :=
  match ws with
  | [] => (lo, match hi with Some h => h | None => p end)
  | w :: t =>
      let lo' := if (w_ret w <? inv)%Z then S p else lo in
      let hi' := match hi with Some _ => hi | None => if (ret <? w_inv w)%Z then Some p else None end in
      read_bounds t (S p) inv ret lo' hi'
  end.

Fixpoint exists_state (states : list (list Z)) (p lo hi : nat) (vals : list Z) : bool :=
  match states with
  | [] => false
  | st :: t => (Nat.leb lo p && Nat.leb p hi && zlist_eqb st vals) || exists_state t (S p) lo hi vals
  end.

Fixpoint check_reads (ws : list swrite) (states : list (list Z)) (rs : list sexp) (n : nat) : option string :=
  match rs with
  | [] => None
  | SList (SAtom "read" :: args) :: t =>
      match zs_of_sexps args with
      | Some (inv :: ret :: vals) =>
          let (lo, hi) := read_bounds ws 0 inv ret 0 None in
          if exists_state states 0 lo hi vals then check_reads ws states t (S n)
          else Some ("reject read " ++ show_Z (Z.of_nat n) ++ " is not the state after a commit prefix in ["
                     ++ show_Z (Z.of_nat lo) ++ "," ++ show_Z (Z.of_nat hi) ++ "]")
      | _ => Some "BAD-CASE"
      end
  | _ => Some "BAD-CASE"
  end.

Fixpoint find_part (tag : string) (l : list sexp) : option (list sexp) :=
  match l with
  | [] => None
  | SList (SAtom t :: args) :: rest => if String.eqb t tag then Some args else find_part tag rest
  | _ :: rest => find_part tag rest
  end.

Definition run_serial (x : sexp) : option string :=
  match x with
  | SList (SAtom "serial" :: parts) =>
      match find_part "init" parts, find_part "writes" parts, find_part "reads" parts, find_part "final" parts with
      | Some i, Some w, Some r, Some f =>
          match zs_of_sexps i, opt_mapM write_of_sexp w, zs_of_sexps f with
          | Some init, Some ws, Some final =>
              match replay_writes (Nat.div2 (List.length init)) init ws 0 (-1)%Z [] with
              | inl (what, p) => Some ("reject " ++ what ++ " at write " ++ show_Z (Z.of_nat p))
              | inr states =>
                  if negb (zlist_eqb (last states []) final) then Some "reject final contents"
                  else match check_reads ws states r 0 with
                       | Some msg => Some msg
                       | None => Some "ok"
                       end
              end
          | _, _, _ => Some "BAD-CASE"
          end
      | _, _, _, _ => Some "BAD-CASE"
      end
  | _ => None
  end.
