(* Cow.v — ownership model for C17: Go values as trees of heap objects with
   identities (locations).  A bson.D / bson.A / binary owns a location; an
   in-place write through a set of locations changes every value that
   contains one of them and nothing else.  Boundary functions (Transform,
   Decode, copyValue: marshal + unmarshal) rebuild a value with fresh
   locations. *)
From Lungo.Model Require Export Base.
Open Scope Z_scope.

Definition loc := Z.

Inductive hv : Type :=
| HScalar (payload : Z)                      (* int, string, ObjectID, ...: no shared memory *)
| HNode (l : loc) (payload : Z) (kids : list hv).   (* document / array / binary *)

Fixpoint locs (v : hv) : list loc :=
  match v with
  | HScalar _ => []
  | HNode l _ kids => l :: flat_map locs kids
  end.

(* rebuild with fresh locations n, n+1, ... ; returns the next free location *)
Fixpoint copy_fresh (n : loc) (v : hv) : hv * loc :=
  match v with
  | HScalar p => (HScalar p, n)
  | HNode _ p kids =>
      let '(kids', n') :=
        (fix go (ks : list hv) (m : loc) : list hv * loc :=
           match ks with
           | [] => ([], m)
           | k :: t => let '(k', m1) := copy_fresh m k in
                       let '(t', m2) := go t m1 in (k' :: t', m2)
           end) kids (n + 1) in
      (HNode n p kids', n')
  end.

(* an in-place write through the locations in L: every object whose location
   is in L gets the payload 0 - 1 (the scribble) *)
Fixpoint mutate (L : list loc) (v : hv) : hv :=
  match v with
  | HScalar p => HScalar p
  | HNode l p kids =>
      HNode l (if existsb (Z.eqb l) L then -1 else p) (map (mutate L) kids)
  end.

(* how a value crosses the API boundary (rows of the table generated from
   /repo by the translator) *)
Inductive crossing : Type :=
| XTransform      (* argument -> bsonkit.Transform / TransformList *)
| XDecode         (* stored document -> bsonkit.Decode (cursor / single result) *)
| XCopy           (* stored value -> copyValue / copyValues *)
| XCount          (* integers *)
| XNone           (* nil *)
| XStoredRef      (* the stored value itself is handed out / kept *)
| XUnknown.

Definition crossing_copies (x : crossing) : bool :=
  match x with
  | XTransform | XDecode | XCopy | XCount | XNone => true
  | XStoredRef | XUnknown => false
  end.

(* bsonkit.Clone — the copy the ENGINE-level write API (Transaction.Insert /
   Replace / Update / Bulk) makes of caller-owned documents: documents and
   arrays are rebuilt with fresh locations, but a primitive.Binary keeps its
   byte slice ("the content of primitive.Binary values is not cloned",
   bsonkit/clone.go) — nodes for which `bin` holds are handed on as they are. *)
Fixpoint clone_share (bin : hv -> bool) (n : loc) (v : hv) : hv * loc :=
  match v with
  | HScalar p => (HScalar p, n)
  | HNode _ p kids =>
      if bin v then (v, n)
      else
        let '(kids', n') :=
          (fix go (ks : list hv) (m : loc) : list hv * loc :=
             match ks with
             | [] => ([], m)
             | k :: t => let '(k', m1) := clone_share bin m k in
                         let '(t', m2) := go t m1 in (k' :: t', m2)
             end) kids (n + 1) in
        (HNode n p kids', n')
  end.

(* no node of the value is a binary *)
Fixpoint no_bin (bin : hv -> bool) (v : hv) : bool :=
  match v with
  | HScalar _ => true
  | HNode _ _ kids => negb (bin v) && forallb (no_bin bin) kids
  end.
