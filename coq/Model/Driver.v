(* Driver.v — the driver-compatible API (collection.go, indexes.go,
   database.go, session.go, utils.go:useTransaction, engine Begin/Commit/Abort
   seen one call at a time): `step : dstate -> call -> dstate * reply`.

   Calls are executed one after another; calls carrying a session context
   (sid > 0) whose session has an open transaction are routed to that
   transaction, everything else runs in its own implicit transaction on the
   committed catalog (useTransaction). *)
From Lungo.Model Require Export Txn.
Open Scope Z_scope.
Local Open Scope list_scope.

Record session : Type := mkSess { s_txn : option catalog; s_ended : bool }.

Record dstate : Type := mkD {
  ds_cat : catalog;                      (* Engine.catalog: the committed catalog *)
  ds_gen : gen;
  ds_sessions : list (Z * session)
}.

Definition d_init : dstate := mkD new_catalog (mkGen 1 1) [].

Inductive call : Type :=
| CInsertOne (sid : Z) (h : handle) (d : doc)
| CInsertMany (sid : Z) (h : handle) (ds : list doc) (ordered : bool)
| CFind (sid : Z) (h : handle) (q : doc) (sort proj : option doc) (skip limit : Z)
| CFindOne (sid : Z) (h : handle) (q : doc) (sort proj : option doc) (skip : Z)
| CCount (sid : Z) (h : handle) (q : doc) (skip limit : Z)
| CDistinct (sid : Z) (h : handle) (field : string) (q : doc)
| CUpdate (sid : Z) (h : handle) (many : bool) (q u : doc) (upsert : bool) (afs : list doc)
| CReplace (sid : Z) (h : handle) (q repl : doc) (upsert : bool)
| CDelete (sid : Z) (h : handle) (many : bool) (q : doc)
| CFindOneAndUpdate (sid : Z) (h : handle) (q u : doc) (sort proj : option doc) (upsert after : bool) (afs : list doc)
| CFindOneAndReplace (sid : Z) (h : handle) (q repl : doc) (sort proj : option doc) (upsert after : bool)
| CFindOneAndDelete (sid : Z) (h : handle) (q : doc) (sort proj : option doc)
| CBulk (sid : Z) (h : handle) (ops : list bulk_op) (ordered : bool)
| CCreateIndex (sid : Z) (h : handle) (name : string) (key : doc) (unique : bool) (partial : option doc) (expire_s : option Z)
| CDropIndex (sid : Z) (h : handle) (name : string)
| CDropAllIndexes (sid : Z) (h : handle)
| CListIndexes (sid : Z) (h : handle)
| CDropColl (sid : Z) (h : handle)
| CDropDb (sid : Z) (db : string)
| CStart (sid : Z)
| CCommit (sid : Z)
| CAbort (sid : Z)
| CEnd (sid : Z)
| CTrim (min_size : Z)
| CExpire (now_ms : Z).

(* replies, already in their canonical printable shape *)
Inductive reply : Type :=
| RErr (e : ekind)
| ROk
| RId (v : value)
| RMany (ids : list value) (e : option ekind)
| RDocs (l : list doc)
| RDoc (d : option doc)                 (* None = ErrNoDocuments *)
| RCount (n : Z)
| RVals (l : list value)
| RUpdate (matched modified upserted : Z) (uid : value)
| RDelete (n : Z)
| RBulk (ins matched modified deleted upserted : Z) (uids : list (Z * value)) (errs : list (Z * ekind))
| RName (s : string).

Section Driver.
  Variable matchf : doc -> doc -> res bool.
  Variable applyf : doc -> doc -> doc -> bool -> list doc -> Z -> res (doc * list (string * value)).
  Variable extractf : doc -> res doc.
  Variable projectf : doc -> doc -> res doc.
  Variable now : Z.      (* clock oracle for $currentDate *)

  Fixpoint sess_get (l : list (Z * session)) (sid : Z) : option session :=
    match l with
    | [] => None
    | (k, s) :: t => if k =? sid then Some s else sess_get t sid
    end.

  Fixpoint sess_set (l : list (Z * session)) (sid : Z) (s : session) : list (Z * session) :=
    match l with
    | [] => [(sid, s)]
    | (k, x) :: t => if k =? sid then (sid, s) :: t else (k, x) :: sess_set t sid s
    end.

  (* the session transaction a call is routed to, if any *)
  Definition routed (ds : dstate) (sid : Z) : option catalog :=
    if sid <=? 0 then None
    else match sess_get (ds_sessions ds) sid with
         | Some s => s_txn s
         | None => None
         end.

  (* Engine.token: held while some session has an open (locked) transaction *)
  Definition token_held (ds : dstate) : bool :=
    existsb (fun ks => match s_txn (snd ks) with Some _ => true | None => false end) (ds_sessions ds).

  (* useTransaction(ctx, engine, lock=true, fn): fn works on a catalog and
     returns the new catalog, generators and Some reply-error when it fails *)
  Definition use_write {A} (ds : dstate) (sid : Z)
             (fn : catalog -> gen -> catalog * gen * (A + ekind)) : dstate * (A + ekind) :=
    match routed ds sid with
    | Some tc =>
        let '(tc', g', r) := fn tc (ds_gen ds) in
        (mkD (ds_cat ds) g' (sess_set (ds_sessions ds) sid (mkSess (Some tc') false)), r)
    | None =>
        if token_held ds then (ds, inr EErr)     (* Begin: token acquisition cancelled / timed out *)
        else
          let '(c', g', r) := fn (ds_cat ds) (ds_gen ds) in
          match r with
          | inl _ => (mkD c' g' (ds_sessions ds), r)        (* Commit publishes txn.Catalog() *)
          | inr _ => (mkD (ds_cat ds) g' (ds_sessions ds), r)  (* deferred Abort *)
          end
    end.

  (* lock=false: a snapshot of the routed / committed catalog *)
  Definition read_cat (ds : dstate) (sid : Z) : catalog :=
    match routed ds sid with Some tc => tc | None => ds_cat ds end.

  (* engine.Begin(ctx, true) used directly (index management, drops): nested
     transaction detection instead of routing *)
  Definition use_direct {A} (ds : dstate) (sid : Z)
             (fn : catalog -> gen -> catalog * gen * (A + ekind)) : dstate * (A + ekind) :=
    match routed ds sid with
    | Some _ => (ds, inr EErr)
    | None =>
        if token_held ds then (ds, inr EErr)
        else
          let '(c', g', r) := fn (ds_cat ds) (ds_gen ds) in
          match r with
          | inl _ => (mkD c' g' (ds_sessions ds), r)
          | inr _ => (mkD (ds_cat ds) g' (ds_sessions ds), r)
          end
    end.

  Definition id_of (sd : sdoc) : value := Get (snd sd) "_id".

  Definition project_opt (proj : option doc) (d : doc) : res doc :=
    match proj with Some p => projectf d p | None => Ok d end.

  Definition first_key_dollar (d : doc) : bool :=
    match d with
    | (String "$"%char _, _) :: _ => true
    | _ => false
    end.

  Definition lift_ekind {A} (r : res A) : A + ekind :=
    match r with Ok x => inl x | _ => inr (ekind_of_res r) end.

  (* FindOneAnd*: which document is returned *)
  Definition pick_doc (tr : tresult) (after : bool) : option doc :=
    match t_upserted tr with
    | Some sd => if after then Some (snd sd) else None
    | None =>
        match t_matched tr with
        | m :: _ =>
            if after then match t_modified tr with n :: _ => Some (snd n) | [] => Some (snd m) end
            else Some (snd m)
        | [] => None
        end
    end.

  Definition reply_doc (proj : option doc) (d : option doc) : reply :=
    match d with
    | None => RDoc None
    | Some dd => match project_opt proj dd with
                 | Ok p => RDoc (Some p)
                 | r => RErr (ekind_of_res r)
                 end
    end.

  (* find-one-and-modify: the document is selected and projected inside the
     transaction callback; a failing projection makes the callback revert the
     transaction to the checkpoint c0 taken before the write and return the
     error (generated identities stay consumed) *)
  Definition project_in_txn (proj : option doc) (after : bool) (c0 : catalog)
             (x : catalog * gen * (tresult + ekind)) : catalog * gen * (reply + ekind) :=
    let '(c', g', r) := x in
    match r with
    | inr e => (c', g', inr e)
    | inl tr =>
        match reply_doc proj (pick_doc tr after) with
        | RErr e => (c0, g', inr e)
        | rp => (c', g', inl rp)
        end
    end.

  Definition upd_reply (tr : tresult) : reply :=
    match t_upserted tr with
    | Some sd => RUpdate 0 0 1 (id_of sd)
    | None => RUpdate (len (t_matched tr)) (len (t_modified tr)) 0 VNull
    end.

  Definition expiry_ns (e : option Z) : Z :=
    match e with
    | None => 0
    | Some 0 => 1
    | Some s => s * 1000000000
    end.

  (* BulkWrite result accumulation *)
  Fixpoint bulk_reply (ops : list bulk_op) (rs : list (tresult + ekind)) (i : Z)
           (acc : reply) : reply :=
    match ops, rs, acc with
    | op :: ops', r :: rs', RBulk a b c d e u errs =>
        let acc' :=
          match r with
          | inr k => RBulk a b c d e u (errs ++ [(i, k)])
          | inl tr =>
              match op with
              | BInsert _ => RBulk (a + len (t_modified tr)) b c d e u errs
              | BDelete _ _ _ _ => RBulk a b c (d + len (t_matched tr)) e u errs
              | _ =>
                  match t_upserted tr with
                  | Some sd => RBulk a (b + len (t_matched tr)) (c + len (t_modified tr)) d (e + 1) (u ++ [(i, id_of sd)]) errs
                  | None => RBulk a (b + len (t_matched tr)) (c + len (t_modified tr)) d e u errs
                  end
              end
          end in
        bulk_reply ops' rs' (i + 1) acc'
    | _, _, _ => acc
    end.

  (* IndexView.DropOneWithKey: Begin, the same handle checks as DropOne, a
     lookup of the index whose key specification compares equal to the given
     one in the transaction's catalog (= the committed catalog: the call is
     never routed to a session), then DropIndex by that name; no such index is
     an error.  So a drop by key IS a drop by name: the call below, to which
     every theorem about `step` and `run` applies.  When no index has the key
     the name is one that no index of the namespace has (longer than each). *)
  Definition resolve_index_key (c : catalog) (h : handle) (key : doc) : option string :=
    match ns_get (cat_ns c) h with
    | Some n =>
        match find (fun ni => match compare (VDoc key) (VDoc (cf_key (ix_config (snd ni)))) with
                              | Eq => true | _ => false end) (c_indexes n) with
        | Some ni => Some (fst ni)
        | None => None
        end
    | None => None
    end.

  Definition fresh_index_name (c : catalog) (h : handle) : string :=
    match ns_get (cat_ns c) h with
    | Some n => (String.concat "" (map fst (c_indexes n)) ++ "!")%string
    | None => "!"
    end.

  Definition drop_by_key_call (ds : dstate) (sid : Z) (h : handle) (key : doc) : call :=
    CDropIndex sid h (match resolve_index_key (ds_cat ds) h key with
                      | Some name => name
                      | None => fresh_index_name (ds_cat ds) h
                      end).

  Definition step (ds : dstate) (c : call) : dstate * reply :=
    match c with
    | CInsertOne sid h d =>
        let '(ds', r) := use_write ds sid (fun cat g => txn_insert matchf cat g h [d] true) in
        (ds', match r with
              | inr e => RErr e
              | inl tr => match t_error tr with
                          | Some e => RErr e
                          | None => match t_modified tr with
                                    | sd :: _ => RId (id_of sd)
                                    | [] => RErr EErr
                                    end
                          end
              end)
    | CInsertMany sid h l ordered =>
        let '(ds', r) := use_write ds sid (fun cat g => txn_insert matchf cat g h l ordered) in
        (ds', match r with
              | inr e => RErr e
              | inl tr => RMany (map id_of (t_modified tr)) (t_error tr)
              end)
    | CFind sid h q sort proj skip limit =>
        (ds, match txn_find matchf (read_cat ds sid) h q sort skip limit with
             | inr e => RErr e
             | inl tr =>
                 match mapM (fun sd => project_opt proj (snd sd)) (t_matched tr) with
                 | Ok l => RDocs l
                 | r => RErr (ekind_of_res r)
                 end
             end)
    | CFindOne sid h q sort proj skip =>
        (ds, match txn_find matchf (read_cat ds sid) h q sort skip 1 with
             | inr e => RErr e
             | inl tr =>
                 match t_matched tr with
                 | [] => RDoc None
                 | l => match mapM (fun sd => project_opt proj (snd sd)) l with
                        | Ok (p :: _) => RDoc (Some p)
                        | Ok [] => RDoc None
                        | r => RErr (ekind_of_res r)
                        end
                 end
             end)
    | CCount sid h q skip limit =>
        (ds, match txn_find matchf (read_cat ds sid) h q None skip limit with
             | inr e => RErr e
             | inl tr => RCount (len (t_matched tr))
             end)
    | CDistinct sid h field q =>
        (ds, match txn_find matchf (read_cat ds sid) h q None 0 0 with
             | inr e => RErr e
             | inl tr => RVals (distinct (map snd (t_matched tr)) field)
             end)
    | CUpdate sid h many q u upsert afs =>
        let '(ds', r) := use_write ds sid (fun cat g =>
            txn_update matchf applyf extractf cat g h q None u 0 (if many then 0 else 1) upsert afs now) in
        (ds', match r with inr e => RErr e | inl tr => upd_reply tr end)
    | CReplace sid h q repl upsert =>
        if first_key_dollar repl then (ds, RErr EErr)
        else
          let '(ds', r) := use_write ds sid (fun cat g =>
              txn_replace matchf applyf extractf cat g h q None repl upsert now) in
          (ds', match r with inr e => RErr e | inl tr => upd_reply tr end)
    | CDelete sid h many q =>
        let '(ds', r) := use_write ds sid (fun cat g =>
            txn_delete matchf cat g h q None 0 (if many then 0 else 1)) in
        (ds', match r with inr e => RErr e | inl tr => RDelete (len (t_matched tr)) end)
    | CFindOneAndUpdate sid h q u sort proj upsert after afs =>
        let '(ds', r) := use_write ds sid (fun cat g =>
            project_in_txn proj after cat (txn_update matchf applyf extractf cat g h q sort u 0 1 upsert afs now)) in
        (ds', match r with inr e => RErr e | inl rp => rp end)
    | CFindOneAndReplace sid h q repl sort proj upsert after =>
        if first_key_dollar repl then (ds, RErr EErr)
        else
          let '(ds', r) := use_write ds sid (fun cat g =>
              project_in_txn proj after cat (txn_replace matchf applyf extractf cat g h q sort repl upsert now)) in
          (ds', match r with inr e => RErr e | inl rp => rp end)
    | CFindOneAndDelete sid h q sort proj =>
        let '(ds', r) := use_write ds sid (fun cat g =>
            project_in_txn proj false cat (txn_delete matchf cat g h q sort 0 1)) in
        (ds', match r with inr e => RErr e | inl rp => rp end)
    | CBulk sid h ops ordered =>
        if existsb (fun op => match op with BReplace _ rp _ _ => first_key_dollar rp | _ => false end) ops
        then (ds, RErr EErr)
        else
          let '(ds', r) := use_write ds sid (fun cat g =>
              txn_bulk matchf applyf extractf cat g h ops ordered now) in
          (ds', match r with
                | inr e => RErr e
                | inl rs => bulk_reply ops rs 0 (RBulk 0 0 0 0 0 [] [])
                end)
    | CCreateIndex sid h name key unique partial expire_s =>
        let cf := mkConfig key unique partial (expiry_ns expire_s) in
        let '(ds', r) := use_direct ds sid (fun cat g =>
            let '(c', r) := txn_create_index matchf cat h name cf in (c', g, r)) in
        (ds', match r with inr e => RErr e | inl n => RName n end)
    | CDropIndex sid h name =>
        let '(ds', r) := use_direct ds sid (fun cat g =>
            let '(c', r) := txn_drop_index cat h name in (c', g, r)) in
        (ds', match r with inr e => RErr e | inl _ => ROk end)
    | CDropAllIndexes sid h =>
        let '(ds', r) := use_direct ds sid (fun cat g =>
            let '(c', r) := txn_drop_index cat h "" in (c', g, r)) in
        (ds', match r with inr e => RErr e | inl _ => ROk end)
    | CListIndexes sid h =>
        (ds, match txn_list_indexes (read_cat ds sid) h with
             | inr e => RErr e
             | inl l => RDocs l
             end)
    | CDropColl sid h =>
        let '(ds', r) := use_direct ds sid (fun cat g => txn_drop cat g h) in
        (ds', match r with inr e => RErr e | inl _ => ROk end)
    | CDropDb sid db =>
        let '(ds', r) := use_direct ds sid (fun cat g => txn_drop cat g (db, "")) in
        (ds', match r with inr e => RErr e | inl _ => ROk end)
    | CStart sid =>
        match sess_get (ds_sessions ds) sid with
        | Some (mkSess _ true) => (ds, RErr EErr)               (* ErrSessionEnded *)
        | Some (mkSess (Some _) false) => (ds, RErr EErr)       (* existing transaction *)
        | _ =>
            if token_held ds then (ds, RErr EErr)
            else (mkD (ds_cat ds) (ds_gen ds) (sess_set (ds_sessions ds) sid (mkSess (Some (ds_cat ds)) false)), ROk)
        end
    | CCommit sid =>
        match sess_get (ds_sessions ds) sid with
        | Some (mkSess _ true) => (ds, RErr EErr)
        | Some (mkSess (Some tc) false) =>
            (mkD tc (ds_gen ds) (sess_set (ds_sessions ds) sid (mkSess None false)), ROk)
        | _ => (ds, RErr EErr)                                  (* missing transaction *)
        end
    | CAbort sid =>
        match sess_get (ds_sessions ds) sid with
        | Some (mkSess _ true) => (ds, RErr EErr)
        | _ => (mkD (ds_cat ds) (ds_gen ds) (sess_set (ds_sessions ds) sid (mkSess None false)), ROk)
        end
    | CEnd sid =>
        (mkD (ds_cat ds) (ds_gen ds) (sess_set (ds_sessions ds) sid (mkSess None true)), ROk)
    | CTrim min_size =>
        (* Begin(lock) ; txn.Clean(min_size, 0, 0, 0) ; Commit — with both ages
           zero every event outside the newest min_size is dropped *)
        if token_held ds then (ds, RErr EErr)
        else
          let cat := ds_cat ds in
          let ol := oplog_of cat in
          let n := len (c_docs ol) in
          let k := Z.max 0 (n - Z.max 0 min_size) in
          if 0 <? k then
            (mkD (mkCat (ns_set (cat_ns cat) oplog_handle (mkColl (drop k (c_docs ol)) (c_indexes ol))) (cat_clock cat))
                 (ds_gen ds) (ds_sessions ds), RCount k)
          else (ds, RCount 0)
    | CExpire now_ms =>
        if token_held ds then (ds, RErr EErr)
        else
          let '(c', g', r) := txn_expire matchf (ds_cat ds) (ds_gen ds) now_ms in
          match r with
          | inl _ => (mkD c' g' (ds_sessions ds), ROk)
          | inr e => (mkD (ds_cat ds) g' (ds_sessions ds), RErr e)
          end
    end.

  Fixpoint run (ds : dstate) (cs : list call) : dstate * list reply :=
    match cs with
    | [] => (ds, [])
    | c :: t =>
        let '(ds1, r) := step ds c in
        let '(ds2, rs) := run ds1 t in
        (ds2, r :: rs)
    end.

End Driver.
