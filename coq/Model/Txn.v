(* Txn.v — catalog.go and transaction.go: the catalog (handle -> collection,
   including local.oplog), and every Transaction method with its
   clone / run / assign-back-only-on-success structure, the per-item cloning
   of Insert and Bulk, Drop, the oplog `append`, Clean (retention) and Expire
   (TTL).

   Clocks: `cat_clock` stands for bsonkit.Now(): event k carries timestamp
   (0, k).  It lives in the catalog, so a discarded (failed / aborted) clone
   also discards the ticks it consumed — exactly the ticks no observer can
   see.  wallTime is canonicalised to date 0. *)
From Lungo.Model Require Export Collection.
Open Scope Z_scope.
Local Open Scope list_scope.

Definition handle := (string * string)%type.
Definition handle_eqb (a b : handle) : bool := String.eqb (fst a) (fst b) && String.eqb (snd a) (snd b).
Definition oplog_handle : handle := ("local", "oplog").

Record catalog : Type := mkCat {
  cat_ns : list (handle * coll);     (* map Handle -> *Collection *)
  cat_clock : Z                      (* number of timestamps handed out *)
}.

(* identity / ObjectID generators *)
Record gen : Type := mkGen { g_did : Z; g_oid : Z }.

Definition new_catalog : catalog := mkCat [(oplog_handle, new_collection false)] 0.

Fixpoint ns_get (l : list (handle * coll)) (h : handle) : option coll :=
  match l with
  | [] => None
  | (k, c) :: t => if handle_eqb k h then Some c else ns_get t h
  end.

Fixpoint ns_set (l : list (handle * coll)) (h : handle) (c : coll) : list (handle * coll) :=
  match l with
  | [] => [(h, c)]
  | (k, d) :: t => if handle_eqb k h then (h, c) :: t else (k, d) :: ns_set t h c
  end.

Definition ns_del (l : list (handle * coll)) (h : handle) : list (handle * coll) :=
  filter (fun kc => negb (handle_eqb (fst kc) h)) l.

(* the ObjectID primitive.NewObjectID() stands for: "gen" ++ 9-byte counter *)
Definition gen_oid (k : Z) : value :=
  VOid ("gen" ++ String (ascii_of_N 0) (String (ascii_of_N 0) (String (ascii_of_N 0)
       (String (ascii_of_N 0) (String (ascii_of_N 0) (String (ascii_of_N 0)
       (String (ascii_of_N (Z.to_N ((k / 65536) mod 256)))
       (String (ascii_of_N (Z.to_N ((k / 256) mod 256)))
       (String (ascii_of_N (Z.to_N (k mod 256))) EmptyString)))))))))%string.

(* result of a Transaction method *)
Record tresult : Type := mkT {
  t_matched : list sdoc;
  t_modified : list sdoc;
  t_upserted : option sdoc;
  t_error : option ekind        (* Result.Error (Insert / Bulk items) *)
}.
Definition t_empty : tresult := mkT [] [] None None.

Section Txn.
  Variable matchf : doc -> doc -> res bool.
  Variable applyf : doc -> doc -> doc -> bool -> list doc -> Z -> res (doc * list (string * value)).
  Variable extractf : doc -> res doc.

  Notation c_insert := (coll_insert matchf).
  Notation c_replace := (coll_replace matchf).
  Notation c_update := (coll_update matchf applyf).
  Notation c_upsert := (coll_upsert matchf applyf extractf).
  Notation c_delete := (coll_delete matchf).
  Notation c_find := (coll_find matchf).

  (* Handle.Validate(true) and the local.* write guard *)
  Definition valid_handle (h : handle) (need_coll : bool) : bool :=
    negb (String.eqb (fst h) "") && (negb need_coll || negb (String.eqb (snd h) "")).
  Definition is_local (h : handle) : bool := String.eqb (fst h) "local".

  (* ---------------------------------------------------------------- *)
  (* Transaction.append: the event document (keys sorted as convertMap does) *)

  Definition ts_of (k : Z) : value := VTs 0 k.

  Fixpoint split_changes (chs : list (string * value)) : list (string * value) * list value :=
    match chs with
    | [] => ([], [])
    | (p, v) :: t =>
        let '(u, r) := split_changes t in
        if is_missing v then (u, VString p :: r) else ((p, v) :: u, r)
    end.

  Definition event_doc (k : Z) (h : handle) (op : string) (d : option doc)
             (chs : option (list (string * value))) : doc :=
    let ns := (if String.eqb (snd h) "" then [] else [("coll", VString (snd h))]) ++ [("db", VString (fst h))] in
    let full := String.eqb op "insert" || String.eqb op "replace" || String.eqb op "update" in
    [("_id", VDoc [("ts", ts_of k)]); ("clusterTime", ts_of k)]
    ++ match d with
       | Some dd => [("documentKey", VDoc [("_id", Get dd "_id")])]
                    ++ (if full then [("fullDocument", VDoc dd)] else [])
       | None => []
       end
    ++ [("ns", VDoc ns); ("operationType", VString op)]
    ++ match chs with
       | Some cs =>
           let '(u, r) := split_changes cs in
           [("updateDescription", VDoc [("removedFields", VArr r); ("truncatedArrays", VArr []);
                                        ("updatedFields", VDoc u)])]
       | None => []
       end
    ++ [("wallTime", VDate 0)].

  (* returns the oplog with the event appended; identity taken from g *)
  Definition append_event (oplog : coll) (clock : Z) (g : gen) (h : handle) (op : string)
             (d : option doc) (chs : option (list (string * value))) : coll * Z * gen :=
    let k := clock + 1 in
    (mkColl (c_docs oplog ++ [(g_did g, event_doc k h op d chs)])%list (c_indexes oplog),
     k, mkGen (g_did g + 1) (g_oid g)).

  (* working state of one operation inside a transaction method *)
  Record wstate : Type := mkW { w_ns : coll; w_oplog : coll; w_clock : Z; w_gen : gen }.

  Definition wres := (wstate * (tresult + ekind))%type.

  Fixpoint append_all (w : wstate) (h : handle) (op : string) (l : list sdoc)
           (chs : option (list (list (string * value)))) : wstate :=
    match l with
    | [] => w
    | sd :: t =>
        let ch := match chs with Some (c :: _) => Some c | _ => None end in
        let cht := match chs with Some (_ :: r) => Some r | _ => chs end in
        let '(ol, k, g) := append_event (w_oplog w) (w_clock w) (w_gen w) h op (Some (snd sd)) ch in
        append_all (mkW (w_ns w) ol k g) h op t cht
    end.

  (* Transaction.insert *)
  Definition t_insert (w : wstate) (h : handle) (d : doc) : wres :=
    let g := w_gen w in
    match c_insert (w_ns w) (g_did g) d (gen_oid (g_oid g)) with
    | (ns', inl r) =>
        let used_oid := if is_missing (Get d "_id") then 1 else 0 in
        let w1 := mkW ns' (w_oplog w) (w_clock w) (mkGen (g_did g + 1) (g_oid g + used_oid)) in
        (append_all w1 h "insert" (r_modified r) None, inl (mkT [] (r_modified r) None None))
    | (ns', inr e) =>
        (* NewObjectID() was called before the index checks *)
        let used_oid := if is_missing (Get d "_id") then 1 else 0 in
        (mkW ns' (w_oplog w) (w_clock w) (mkGen (g_did g) (g_oid g + used_oid)), inr e)
    end.

  (* Transaction.replace *)
  Definition t_replace (w : wstate) (h : handle) (query repl : doc) (sort : option doc) (upsert : bool) (now : Z) : wres :=
    let g := w_gen w in
    match c_replace (w_ns w) (g_did g) query repl sort with
    | (ns', inl r) =>
        let g1 := mkGen (g_did g + 1) (g_oid g) in
        match r_matched r with
        | [] =>
            if upsert then
              let used_oid := if upsert_generates applyf extractf query (Some repl) None [] now then 1 else 0 in
              let g1f := mkGen (g_did g1) (g_oid g1 + used_oid) in
              match c_upsert ns' (g_did g1) query (Some repl) None [] (gen_oid (g_oid g1)) now with
              | (ns'', inl r2) =>
                  match r_upserted r2 with
                  | Some sd =>
                      let w1 := mkW ns'' (w_oplog w) (w_clock w) (mkGen (g_did g1 + 1) (g_oid g1 + used_oid)) in
                      (append_all w1 h "insert" [sd] None, inl (mkT [] [] (Some sd) None))
                  | None => (mkW ns'' (w_oplog w) (w_clock w) g1f, inr EErr)
                  end
              | (ns'', inr e) => (mkW ns'' (w_oplog w) (w_clock w) g1f, inr e)
              end
            else (mkW ns' (w_oplog w) (w_clock w) g1, inl (mkT [] [] None None))
        | _ =>
            let w1 := mkW ns' (w_oplog w) (w_clock w) g1 in
            (append_all w1 h "replace" (firstn 1 (r_modified r)) None,
             inl (mkT (r_matched r) (r_modified r) None None))
        end
    | (ns', inr e) => (mkW ns' (w_oplog w) (w_clock w) g, inr e)
    end.

  (* Transaction.update *)
  Definition t_update (w : wstate) (h : handle) (query update : doc) (sort : option doc) (upsert : bool)
             (skip limit : Z) (afs : list doc) (now : Z) : wres :=
    let g := w_gen w in
    match c_update (w_ns w) (g_did g) query update sort skip limit afs now with
    | (ns', inl r) =>
        let g1 := mkGen (g_did g + len (r_matched r)) (g_oid g) in
        match r_matched r with
        | [] =>
            if upsert then
              let used_oid := if upsert_generates applyf extractf query None (Some update) afs now then 1 else 0 in
              let g1f := mkGen (g_did g1) (g_oid g1 + used_oid) in
              match c_upsert ns' (g_did g1) query None (Some update) afs (gen_oid (g_oid g1)) now with
              | (ns'', inl r2) =>
                  match r_upserted r2 with
                  | Some sd =>
                      let w1 := mkW ns'' (w_oplog w) (w_clock w) (mkGen (g_did g1 + 1) (g_oid g1 + used_oid)) in
                      (append_all w1 h "insert" [sd] None, inl (mkT [] [] (Some sd) None))
                  | None => (mkW ns'' (w_oplog w) (w_clock w) g1f, inr EErr)
                  end
              | (ns'', inr e) => (mkW ns'' (w_oplog w) (w_clock w) g1f, inr e)
              end
            else (mkW ns' (w_oplog w) (w_clock w) g1, inl (mkT [] [] None None))
        | _ =>
            let w1 := mkW ns' (w_oplog w) (w_clock w) g1 in
            (append_all w1 h "update" (r_modified r) (Some (r_changes r)),
             inl (mkT (r_matched r) (r_modified r) None None))
        end
    | (ns', inr e) => (mkW ns' (w_oplog w) (w_clock w) g, inr e)
    end.

  (* Transaction.delete *)
  Definition t_delete (w : wstate) (h : handle) (query : doc) (sort : option doc) (skip limit : Z) : wres :=
    match c_delete (w_ns w) query sort skip limit with
    | (ns', inl r) =>
        let w1 := mkW ns' (w_oplog w) (w_clock w) (w_gen w) in
        (append_all w1 h "delete" (r_matched r) None, inl (mkT (r_matched r) [] None None))
    | (ns', inr e) => (mkW ns' (w_oplog w) (w_clock w) (w_gen w), inr e)
    end.

  (* ---------------------------------------------------------------- *)
  (* the public Transaction methods: (catalog, gen) -> (catalog', gen', reply) *)

  Definition oplog_of (c : catalog) : coll :=
    match ns_get (cat_ns c) oplog_handle with Some o => o | None => new_collection false end.

  Definition ns_or_new (c : catalog) (h : handle) : coll :=
    match ns_get (cat_ns c) h with Some n => n | None => new_collection true end.

  Definition open_w (c : catalog) (g : gen) (h : handle) : wstate :=
    mkW (ns_or_new c h) (oplog_of c) (cat_clock c) g.

  Definition close_w (c : catalog) (h : handle) (w : wstate) : catalog :=
    mkCat (ns_set (ns_set (cat_ns c) h (w_ns w)) oplog_handle (w_oplog w)) (w_clock w).

  (* a failed operation keeps the generators it consumed: identities are never
     reused and every primitive.NewObjectID() call counts (the harness ranks
     generated ObjectIDs by their process-wide counter) *)
  Definition gen_after_fail (g0 g1 : gen) : gen := g1.

  Definition guard_write (h : handle) : option ekind :=
    if negb (valid_handle h true) then Some EErr
    else if is_local h then Some EErr else None.

  (* Transaction.Insert *)
  Fixpoint insert_loop (c : catalog) (g : gen) (h : handle) (l : list doc) (ordered : bool)
           (acc : list sdoc) (err : option ekind) : catalog * gen * list sdoc * option ekind :=
    match l with
    | [] => (c, g, acc, err)
    | d :: t =>
        match t_insert (open_w c g h) h d with
        | (w, inl r) =>
            insert_loop (close_w c h w) (w_gen w) h t ordered (acc ++ t_modified r)%list err
        | (w, inr e) =>
            let err' := match err with Some _ => err | None => Some e end in
            let g' := gen_after_fail g (w_gen w) in
            if ordered then (c, g', acc, err') else insert_loop c g' h t ordered acc err'
        end
    end.

  Definition txn_insert (c : catalog) (g : gen) (h : handle) (l : list doc) (ordered : bool)
    : catalog * gen * (tresult + ekind) :=
    match guard_write h with
    | Some e => (c, g, inr e)
    | None =>
        (* clone.Namespaces[handle] is created if missing, but the clone is
           only assigned when something was inserted *)
        let '(c', g', acc, err) := insert_loop c g h l ordered [] None in
        match acc with
        | [] => (c, g', inl (mkT [] [] None err))
        | _ => (c', g', inl (mkT [] acc None err))
        end
    end.

  Definition finish (c : catalog) (g : gen) (h : handle) (changed : tresult -> bool) (r : wres)
    : catalog * gen * (tresult + ekind) :=
    match r with
    | (w, inl tr) => if changed tr then (close_w c h w, w_gen w, inl tr) else (c, w_gen w, inl tr)
    | (w, inr e) => (c, gen_after_fail g (w_gen w), inr e)
    end.

  Definition changed_mod (tr : tresult) : bool :=
    (0 <? len (t_modified tr)) || match t_upserted tr with Some _ => true | None => false end.

  (* Transaction.Replace *)
  Definition txn_replace (c : catalog) (g : gen) (h : handle) (query : doc) (sort : option doc)
             (repl : doc) (upsert : bool) (now : Z) : catalog * gen * (tresult + ekind) :=
    match guard_write h with
    | Some e => (c, g, inr e)
    | None =>
        match ns_get (cat_ns c) h with
        | None => if upsert then finish c g h changed_mod (t_replace (open_w c g h) h query repl sort upsert now)
                  else (c, g, inl t_empty)
        | Some _ => finish c g h changed_mod (t_replace (open_w c g h) h query repl sort upsert now)
        end
    end.

  (* Transaction.Update *)
  Definition txn_update (c : catalog) (g : gen) (h : handle) (query : doc) (sort : option doc)
             (update : doc) (skip limit : Z) (upsert : bool) (afs : list doc) (now : Z)
    : catalog * gen * (tresult + ekind) :=
    match guard_write h with
    | Some e => (c, g, inr e)
    | None =>
        match ns_get (cat_ns c) h with
        | None => if upsert then finish c g h changed_mod (t_update (open_w c g h) h query update sort upsert skip limit afs now)
                  else (c, g, inl t_empty)
        | Some _ => finish c g h changed_mod (t_update (open_w c g h) h query update sort upsert skip limit afs now)
        end
    end.

  (* Transaction.Delete *)
  Definition txn_delete (c : catalog) (g : gen) (h : handle) (query : doc) (sort : option doc)
             (skip limit : Z) : catalog * gen * (tresult + ekind) :=
    match guard_write h with
    | Some e => (c, g, inr e)
    | None =>
        match ns_get (cat_ns c) h with
        | None => (c, g, inl t_empty)
        | Some _ => finish c g h (fun tr => 0 <? len (t_matched tr)) (t_delete (open_w c g h) h query sort skip limit)
        end
    end.

  (* Transaction.Find *)
  Definition txn_find (c : catalog) (h : handle) (query : doc) (sort : option doc) (skip limit : Z)
    : tresult + ekind :=
    if negb (valid_handle h true) then inr EErr
    else
      match ns_get (cat_ns c) h with
      | None => inl t_empty
      | Some n =>
          match c_find n query sort skip limit with
          | (_, inl r) => inl (mkT (r_matched r) [] None None)
          | (_, inr e) => inr e
          end
      end.

  (* Transaction.Bulk *)
  Inductive bulk_op : Type :=
  | BInsert (d : doc)
  | BReplace (filter repl : doc) (sort : option doc) (upsert : bool)
  | BUpdate (filter update : doc) (sort : option doc) (upsert : bool) (skip limit : Z) (afs : list doc)
  | BDelete (filter : doc) (sort : option doc) (skip limit : Z).

  Definition bulk_changes (op : bulk_op) (tr : tresult) : Z :=
    len (t_modified tr)
    + match t_upserted tr with
      | Some _ => 1
      | None => match op with BDelete _ _ _ _ => len (t_matched tr) | _ => 0 end
      end.

  Fixpoint bulk_loop (c : catalog) (g : gen) (h : handle) (ops : list bulk_op) (ordered : bool) (now : Z)
           (acc : list (tresult + ekind)) (changes : Z)
    : catalog * gen * list (tresult + ekind) * Z :=
    match ops with
    | [] => (c, g, acc, changes)
    | op :: t =>
        let w0 := open_w c g h in
        let r := match op with
                 | BInsert d => t_insert w0 h d
                 | BReplace f rp s u => t_replace w0 h f rp s u now
                 | BUpdate f up s u sk li afs => t_update w0 h f up s u sk li afs now
                 | BDelete f s sk li => t_delete w0 h f s sk li
                 end in
        match r with
        | (w, inl tr) =>
            bulk_loop (close_w c h w) (w_gen w) h t ordered now (acc ++ [inl tr])%list (changes + bulk_changes op tr)
        | (w, inr e) =>
            let g' := gen_after_fail g (w_gen w) in
            if ordered then (c, g', (acc ++ [inr e])%list, changes)
            else bulk_loop c g' h t ordered now (acc ++ [inr e])%list changes
        end
    end.

  Definition txn_bulk (c : catalog) (g : gen) (h : handle) (ops : list bulk_op) (ordered : bool) (now : Z)
    : catalog * gen * (list (tresult + ekind) + ekind) :=
    match guard_write h with
    | Some e => (c, g, inr e)
    | None =>
        let '(c', g', rs, changes) := bulk_loop c g h ops ordered now [] 0 in
        if 0 <? changes then (c', g', inl rs) else (c, g', inl rs)
    end.

  (* Transaction.Drop: handle (db, "") drops the whole database *)
  Definition drop_matches (h k : handle) : bool :=
    handle_eqb k h || (String.eqb (snd h) "" && String.eqb (fst k) (fst h)).

  Fixpoint drop_events (oplog : coll) (clock : Z) (g : gen) (l : list handle) : coll * Z * gen :=
    match l with
    | [] => (oplog, clock, g)
    | k :: t =>
        let '(ol, cl, g') := append_event oplog clock g k "drop" None None in
        drop_events ol cl g' t
    end.

  Definition txn_drop (c : catalog) (g : gen) (h : handle) : catalog * gen * (unit + ekind) :=
    if negb (valid_handle h false) then (c, g, inr EErr)
    else if is_local h then (c, g, inr EErr)
    else
      let victims := map fst (filter (fun kc => drop_matches h (fst kc)) (cat_ns c)) in
      match victims with
      | [] => (c, g, inl tt)
      | _ =>
          let remaining := filter (fun kc => negb (drop_matches h (fst kc))) (cat_ns c) in
          let '(ol, cl, g1) := drop_events (oplog_of c) (cat_clock c) g victims in
          let '(ol2, cl2, g2) :=
            if String.eqb (snd h) "" then append_event ol cl g1 h "dropDatabase" None None
            else (ol, cl, g1) in
          (mkCat (ns_set remaining oplog_handle ol2) cl2, g2, inl tt)
      end.

  (* Transaction.Create *)
  Definition txn_create (c : catalog) (h : handle) : catalog * (unit + ekind) :=
    match guard_write h with
    | Some e => (c, inr e)
    | None =>
        match ns_get (cat_ns c) h with
        | Some _ => (c, inl tt)
        | None => (mkCat (ns_set (cat_ns c) h (new_collection true)) (cat_clock c), inl tt)
        end
    end.

  (* Transaction.CreateIndex: assigns (dirty) even when the index existed *)
  Definition txn_create_index (c : catalog) (h : handle) (name : string) (cf : iconfig)
    : catalog * (string + ekind) :=
    match guard_write h with
    | Some e => (c, inr e)
    | None =>
        match coll_create_index matchf (ns_or_new c h) name cf with
        | (n', inl nm) => (mkCat (ns_set (cat_ns c) h n') (cat_clock c), inl nm)
        | (_, inr e) => (c, inr e)
        end
    end.

  (* Transaction.DropIndex *)
  Definition txn_drop_index (c : catalog) (h : handle) (name : string) : catalog * (unit + ekind) :=
    match guard_write h with
    | Some e => (c, inr e)
    | None =>
        match ns_get (cat_ns c) h with
        | None => (c, inr EErr)
        | Some n =>
            match coll_drop_index n name with
            | (n', inl []) => (c, inl tt)
            | (n', inl _) => (mkCat (ns_set (cat_ns c) h n') (cat_clock c), inl tt)
            | (_, inr e) => (c, inr e)
            end
        end
    end.

  (* Transaction.DropIndexByKey *)
  Definition txn_drop_index_by_key (c : catalog) (h : handle) (key : doc) : catalog * (unit + ekind) :=
    match guard_write h with
    | Some e => (c, inr e)
    | None =>
        match ns_get (cat_ns c) h with
        | None => (c, inr EErr)
        | Some n =>
            match filter (fun ni => match compare (VDoc (cf_key (ix_config (snd ni)))) (VDoc key) with
                                    | Eq => true | _ => false end) (c_indexes n) with
            | [] => (c, inr EErr)
            | (nm, _) :: _ =>
                if String.eqb nm "" then (c, inr EErr) else txn_drop_index c h nm
            end
        end
    end.

  (* Transaction.ListIndexes: the specification documents, sorted by name *)
  Definition index_spec (ni : string * index) : doc :=
    let cf := ix_config (snd ni) in
    [("v", VInt32 2); ("key", VDoc (cf_key cf)); ("name", VString (fst ni))]
    ++ (if cf_unique cf && negb (String.eqb (fst ni) "_id_") then [("unique", VBool true)] else [])
    ++ match cf_partial cf with Some p => [("partialFilterExpression", VDoc p)] | None => [] end
    ++ (if 0 <? cf_expiry cf then [("expireAfterSeconds", VInt32 (cf_expiry cf / 1000000000))] else []).

  Definition txn_list_indexes (c : catalog) (h : handle) : list doc + ekind :=
    if negb (valid_handle h true) then inr EErr
    else
      match ns_get (cat_ns c) h with
      | None => inl []
      | Some n => inl (stable_sort (fun a b => order a b [("name", false)]) (map index_spec (c_indexes n)))
      end.

  (* ---------------------------------------------------------------- *)
  (* Transaction.Clean: retention.  Timestamps are (seconds, counter); `now`
     is the timestamp bsonkit.Now() returns, ages are in whole seconds. *)

  Definition ts_lt (a b : Z * Z) : bool :=
    (fst a <? fst b) || ((fst a =? fst b) && (snd a <? snd b)).

  Definition wrap_u32 (z : Z) : Z := z mod 4294967296.

  (* how many events from the start are dropped; events carry (T, I) *)
  Fixpoint clean_count (evs : list (Z * Z)) (i : Z) (min_index max_index : Z) (min_age : Z)
           (min_ts max_ts : Z * Z) : Z :=
    match evs with
    | [] => 0
    | ts :: t =>
        let after_min := (i <? min_index) && ((min_age =? 0) || ts_lt ts min_ts) in
        let beyond_max := (i <? max_index) || ts_lt ts max_ts in
        if after_min && beyond_max then 1 + clean_count t (i + 1) min_index max_index min_age min_ts max_ts
        else 0
    end.

  Definition clean_events (evs : list (Z * Z)) (now : Z * Z) (min_size max_size min_age_ns max_age_ns : Z) : Z :=
    let n := len evs in
    let sec := 1000000000 in
    let min_ts := (wrap_u32 (fst now - wrap_u32 (Z.quot min_age_ns sec)), 0) in
    let max_ts := (wrap_u32 (fst now - wrap_u32 (Z.quot max_age_ns sec)), snd now) in
    clean_count evs 0 (n - min_size) (n - max_size) min_age_ns min_ts max_ts.

  (* ---------------------------------------------------------------- *)
  (* Transaction.Expire: per namespace with TTL indexes, delete through the
     logging delete path with {$or: [{field: {$lt: now - expiry}} ...]} *)

  Definition ttl_condition (now_ms : Z) (ix : index) : option value :=
    let cf := ix_config ix in
    if 0 <? cf_expiry cf then
      match cf_key cf with
      | (field, _) :: _ =>
          (* time.Now().Add(-expiry) converted to a BSON date: milliseconds, floor *)
          Some (VDoc [(field, VDoc [("$lt", VDate (now_ms - cf_expiry cf / 1000000))])])
      | [] => None
      end
    else None.

  Fixpoint opt_list {A} (l : list (option A)) : list A :=
    match l with
    | [] => []
    | Some x :: t => x :: opt_list t
    | None :: t => opt_list t
    end.

  Fixpoint expire_loop (c : catalog) (g : gen) (l : list (handle * coll)) (now_ms : Z) (deleted : Z)
    : (catalog * gen * Z) + ekind :=
    match l with
    | [] => inl (c, g, deleted)
    | (h, n) :: t =>
        match opt_list (map (fun ni => ttl_condition now_ms (snd ni)) (c_indexes n)) with
        | [] => expire_loop c g t now_ms deleted
        | conds =>
            match t_delete (open_w c g h) h [("$or", VArr conds)] None 0 0 with
            | (w, inl tr) => expire_loop (close_w c h w) (w_gen w) t now_ms (deleted + len (t_matched tr))
            | (_, inr e) => inr e
            end
        end
    end.

  Definition txn_expire (c : catalog) (g : gen) (now_ms : Z) : catalog * gen * (unit + ekind) :=
    match expire_loop c g (cat_ns c) now_ms 0 with
    | inl (c', g', d) => if 0 <? d then (c', g', inl tt) else (c, g', inl tt)
    | inr e => (c, g, inr e)
    end.

End Txn.
