(* Match.v — mongokit/match.go (all query operators) and the part of
   mongokit/process.go that Match uses (Process / ProcessExpression with
   SkipMissing = MultiTopLevel = false).

   Every Go Operator returns `error`; the model returns `res bool`:
     Ok true  = nil (matched)          Ok false = ErrNotMatched
     Err      = any other error        Unmodelled = see Schema.v / parse_bit_pos
   Structural recursion on the filter value (no fuel).  Definitions only. *)
From Lungo.Model Require Export Schema.
Open Scope Z_scope.
Open Scope string_scope.

(* ------------------------------------------------------------------ *)
(* match.go:26-54 init(): the two operator tables.  The model dispatches on
   the Go function registered under a key, so the tables below are compared
   with the ones regenerated from the source (Proofs/GenMatchOps.v, G2).   *)

Inductive top_fn := FAnd | FOr | FNor | FJSONSchema.
Inductive expr_fn :=
| FComp | FNe | FNot | FIn | FNin | FExists | FType | FAll | FSize | FElem | FBits | FMod.

Definition top_table : list (string * top_fn) :=
  [("$and", FAnd); ("$or", FOr); ("$nor", FNor); ("$jsonSchema", FJSONSchema)].

Definition expr_table : list (string * expr_fn) :=
  [("", FComp); ("$eq", FComp); ("$gt", FComp); ("$lt", FComp); ("$gte", FComp);
   ("$lte", FComp); ("$ne", FNe); ("$not", FNot); ("$in", FIn); ("$nin", FNin);
   ("$exists", FExists); ("$type", FType); ("$all", FAll); ("$size", FSize);
   ("$elemMatch", FElem); ("$bitsAllClear", FBits); ("$bitsAllSet", FBits);
   ("$bitsAnyClear", FBits); ("$bitsAnySet", FBits); ("$mod", FMod)].

Definition top_fn_name (f : top_fn) : string :=
  match f with
  | FAnd => "matchAnd" | FOr => "matchOr" | FNor => "matchNor" | FJSONSchema => "matchJSONSchema"
  end.

Definition expr_fn_name (f : expr_fn) : string :=
  match f with
  | FComp => "matchComp" | FNe => "matchNe" | FNot => "matchNot" | FIn => "matchIn"
  | FNin => "matchNin" | FExists => "matchExists" | FType => "matchType" | FAll => "matchAll"
  | FSize => "matchSize" | FElem => "matchElem" | FBits => "matchBits" | FMod => "matchMod"
  end.

(* (operator, Go function) as registered — compared with Gen.MatchOps *)
Definition query_top_table : list (string * string) :=
  map (fun p => (fst p, top_fn_name (snd p))) top_table.
Definition query_expr_table : list (string * string) :=
  map (fun p => (fst p, expr_fn_name (snd p))) expr_table.

Definition lookup_top (k : string) : option top_fn := assoc k top_table.
Definition lookup_expr (k : string) : option expr_fn := assoc k expr_table.

(* ------------------------------------------------------------------ *)
(* match.go matchLeaf(value, op): the elements of an array first, then the
   value itself *)
Definition leaf_match (op : value -> res bool) (v : value) : res bool :=
  match v with
  | VArr arr => first_ok op arr (op v)
  | _ => op v
  end.

(* match.go matchUnwind(doc, path, yieldAll, op): without fan-out the value at
   the path is matched as a leaf; under fan-out (multi) every value found is,
   and with yieldAll the list of the values found as one array as well *)
Definition unwind (d : doc) (path : string) (yield_all : bool)
           (op : value -> res bool) : res bool :=
  let '(value, multi) := All d path true false in
  if multi then
    let rest := if yield_all then op value else Ok false in
    match value with
    | VArr leaves => first_ok (leaf_match op) leaves rest
    | _ => rest
    end
  else leaf_match op value.

Definition leaf_candidates (v : value) : list value :=
  ((match v with VArr arr => arr | _ => [] end) ++ [v])%list.

(* the values matchUnwind offers to op, in order *)
Definition unwind_candidates (d : doc) (path : string) (yield_all : bool) : list value :=
  let '(value, multi) := All d path true false in
  if multi then
    ((match value with VArr leaves => flat_map leaf_candidates leaves | _ => [] end)
      ++ (if yield_all then [value] else []))%list
  else leaf_candidates value.

(* the candidates of the comparison family, $in, $type, $mod, $bits* *)
Definition candidates (d : doc) (path : string) : list value :=
  unwind_candidates d path false.

(* ------------------------------------------------------------------ *)
(* match.go:143 matchComp: type bracketing + bsonkit.Compare *)

Definition cmp_holds (op : string) (field v : value) : option bool :=
  let comp := class_eqb (class_of field) (class_of v) in
  let c := compare field v in
  if String.eqb op "" || String.eqb op "$eq" then Some (comp && is_eq c)
  else if String.eqb op "$gt" then Some (comp && is_gt c)
  else if String.eqb op "$gte" then Some (comp && negb (is_lt c))
  else if String.eqb op "$lt" then Some (comp && is_lt c)
  else if String.eqb op "$lte" then Some (comp && negb (is_gt c))
  else None.   (* "unknown comparison operator" *)

Definition comp_test (op : string) (v field : value) : res bool :=
  match cmp_holds op field v with Some b => Ok b | None => Err end.

Definition match_comp (d : doc) (op path : string) (v : value) : res bool :=
  unwind d path false (comp_test op v).

(* match.go:204 matchIn: the array check happens inside the callback *)
Definition in_test (v field : value) : res bool :=
  match v with
  | VArr items => Ok (existsb (fun item => is_eq (compare field item)) items)
  | _ => Err
  end.

Definition match_in (d : doc) (path : string) (v : value) : res bool :=
  unwind d path false (in_test v).

(* match.go:237 matchExists *)
Definition truthy (v : value) : bool :=
  match v with
  | VBool b => b
  | VNull => false
  | VInt32 n | VInt64 n => negb (n =? 0)%Z
  | VDouble bits => negb (dbl_is_zero bits)
  | _ => true
  end.

Definition match_exists (d : doc) (path : string) (v : value) : res bool :=
  let '(value, multi) := All d path true false in
  let found :=
    if multi then
      match value with
      | VArr arr => negb (len arr =? 0)%Z
      | _ => negb (is_missing value)
      end
    else negb (is_missing value) in
  Ok (Bool.eqb (truthy v) found).

(* match.go:317 resolveType: Ok (numberClass, type) *)
Definition resolve_type (v : value) : res (bool * Z) :=
  let of_number (n : Z) : res (bool * Z) :=
    if (n <? 0)%Z || (255 <? n)%Z then Err
    else match number2type n with Some t => Ok (false, t) | None => Err end in
  match v with
  | VString s =>
      if String.eqb s "number" then Ok (true, 0%Z)
      else match assoc s alias2type with Some t => Ok (false, t) | None => Err end
  | VInt32 n | VInt64 n => of_number n
  | VDouble bits =>
      match dbl_int64_exact bits with
      | Some n => of_number n
      | None => Err
      end
  | _ => Err
  end.

(* match.go:303-318 the callback of matchType: a missing field has no type *)
Definition type_test (number_class : bool) (want : list Z) (field : value) : res bool :=
  if is_missing field then Ok false
  else
    Ok ((number_class && class_eqb (class_of field) CNumber)
        || existsb (fun t => (t =? type_of field)%Z) want).

(* match.go:276 matchType *)
Definition match_type (d : doc) (path : string) (v : value) : res bool :=
  let operands := match v with VArr arr => arr | _ => [v] end in
  match v with
  | VArr [] => Err
  | _ =>
      match mapM resolve_type operands with
      | Ok rs =>
          unwind d path false
                 (type_test (existsb fst rs)
                            (map snd (filter (fun r => negb (fst r)) rs)))
      | Err => Err | Panic => Panic | OutOfFuel => OutOfFuel | Unmodelled => Unmodelled
      end
  end.

(* match.go:373 matchAll *)
Definition all_test (v field : value) : res bool :=
  match v with
  | VArr [] => Ok false
  | VArr array =>
      let contains :=
        match field with
        | VArr arr =>
            (* a value matches the whole array or one of its elements *)
            forallb (fun value => is_eq (compare value field)
                                  || existsb (fun element => is_eq (compare value element)) arr) array
        | _ => false
        end in
      Ok (contains || forallb (fun item => is_eq (compare field item)) array)
  | _ => Err
  end.

Definition match_all (d : doc) (path : string) (v : value) : res bool :=
  unwind d path true (all_test v).

(* match.go:416 matchSize *)
Definition size_arg (v : value) : res Z :=
  match v with
  | VInt32 n | VInt64 n => if (n <? 0)%Z then Err else Ok n
  | VDouble bits =>
      match dbl_int64_exact bits with
      | Some n => if (n <? 0)%Z then Err else Ok n
      | None => Err
      end
  | _ => Err
  end.

Definition has_len (size : Z) (v : value) : bool :=
  match v with VArr a => (len a =? size)%Z | _ => false end.

Definition match_size (d : doc) (path : string) (v : value) : res bool :=
  match size_arg v with
  | Ok size =>
      let '(value, multi) := All d path true false in
      if multi then
        match value with
        | VArr arr => Ok (existsb (has_len size) arr)
        | _ => Ok false
        end
      else Ok (has_len size value)
  | Err => Err | Panic => Panic | OutOfFuel => OutOfFuel | Unmodelled => Unmodelled
  end.

(* match.go:548 modOperandToInt64 *)
Definition mod_operand (v : value) : res Z :=
  match v with
  | VInt32 n | VInt64 n => Ok n
  | VDouble bits =>
      if dbl_finite bits && dbl_in_int64 bits then Ok (dbl_trunc bits) else Err
  | _ => Err
  end.

(* match.go:572 numberToInt64 *)
Definition number_to_int64 (v : value) : option Z :=
  match v with
  | VInt32 n | VInt64 n => Some n
  | VDouble bits =>
      if dbl_finite bits && dbl_in_int64 bits then Some (dbl_trunc bits) else None
  | _ => None
  end.

Definition mod_test (divisor remainder : Z) (field : value) : res bool :=
  match number_to_int64 field with
  | Some n => Ok (Z.rem n divisor =? remainder)%Z
  | None => Ok false
  end.

(* match.go:508 matchMod *)
Definition match_mod (d : doc) (path : string) (v : value) : res bool :=
  match v with
  | VArr [a; b] =>
      match mod_operand a with
      | Ok divisor =>
          match mod_operand b with
          | Ok remainder =>
              if (divisor =? 0)%Z then Err
              else unwind d path false (mod_test divisor remainder)
          | Err => Err | Panic => Panic | OutOfFuel => OutOfFuel | Unmodelled => Unmodelled
          end
      | Err => Err | Panic => Panic | OutOfFuel => OutOfFuel | Unmodelled => Unmodelled
      end
  | _ => Err
  end.

(* match.go:708 uint64ToPositions: the set bits of v, ascending *)
Fixpoint bit_positions_from (n : nat) (i : Z) (v : Z) : list Z :=
  match n with
  | O => []
  | S k => (if Z.testbit v i then [i] else []) ++ bit_positions_from k (i + 1)%Z v
  end.
Definition uint64_positions (v : Z) : list Z := bit_positions_from 64 0%Z v.

(* match.go:668-677 the set bits of a binary, byte by byte *)
Fixpoint bin_positions (data : string) (base : Z) : list Z :=
  match data with
  | EmptyString => []
  | String c t => map (fun i => (base + i)%Z) (bit_positions_from 8 0%Z (byte_of c)) ++ bin_positions t (base + 8)%Z
  end.

(* match.go:683 bitPosition.  uint(n) of a float64 >= 2^64 is
   implementation-defined in Go (0 on amd64, saturating on arm64): Unmodelled *)
Definition parse_bit_pos (v : value) : res Z :=
  match v with
  | VInt32 n | VInt64 n => if (n <? 0)%Z then Err else Ok n
  | VDouble bits =>
      if negb (dbl_integral bits) then Err
      else if dbl_negative bits then Err
      else if (two64 <=? dbl_trunc bits)%Z then Unmodelled
      else Ok (dbl_trunc bits)
  | _ => Err
  end.

(* match.go:635 parseBitMask *)
Definition parse_bit_mask (v : value) : res (list Z) :=
  match v with
  | VInt32 m | VInt64 m => if (m <? 0)%Z then Err else Ok (uint64_positions m)
  | VDouble bits =>
      if negb (dbl_integral bits) then Err
      else if dbl_negative bits then Err
      else if (two63 <? dbl_trunc bits)%Z then Err        (* m > math.MaxInt64 (= 2^63 as float64) *)
      else Ok (uint64_positions (dbl_trunc bits))
  | VArr items => mapM parse_bit_pos items
  | VBin _ data => Ok (bin_positions data 0%Z)
  | _ => Err
  end.

(* match.go:718 bitAccessor *)
Definition int_bit (v : Z) (pos : Z) : bool :=
  if (64 <=? pos)%Z then false else Z.testbit v pos.

Fixpoint nth_byte (s : string) (i : Z) : option Z :=
  match s with
  | EmptyString => None
  | String c t => if (i =? 0)%Z then Some (byte_of c) else nth_byte t (i - 1)%Z
  end.

Definition bit_accessor (field : value) : option (Z -> bool) :=
  match field with
  | VInt32 f | VInt64 f => Some (int_bit f)
  | VDouble bits =>
      if dbl_integral bits && dbl_in_int64 bits then Some (int_bit (dbl_trunc bits)) else None
  | VBin _ data =>
      Some (fun pos => match nth_byte data (pos / 8)%Z with
                       | Some b => Z.testbit b (pos mod 8)%Z
                       | None => false
                       end)
  | _ => None
  end.

Definition bits_test (op : string) (positions : list Z) (field : value) : res bool :=
  match bit_accessor field with
  | None => Ok false
  | Some bit_at =>
      let n := len positions in
      let set := len (filter bit_at positions) in
      let clear := (n - set)%Z in
      if String.eqb op "$bitsAllSet" then Ok (set =? n)%Z
      else if String.eqb op "$bitsAllClear" then Ok (clear =? n)%Z
      else if String.eqb op "$bitsAnySet" then Ok (0 <? set)%Z
      else if String.eqb op "$bitsAnyClear" then Ok (0 <? clear)%Z
      else Err
  end.

(* match.go:591 matchBits *)
Definition match_bits (d : doc) (op path : string) (v : value) : res bool :=
  match parse_bit_mask v with
  | Ok positions => unwind d path false (bits_test op positions)
  | Err => Err | Panic => Panic | OutOfFuel => OutOfFuel | Unmodelled => Unmodelled
  end.

(* match.go:355 matchJSONSchema *)
Definition match_json_schema (d : doc) (v : value) : res bool :=
  match v with
  | VDoc _ => sch v (VDoc d)
  | _ => Err
  end.

(* ------------------------------------------------------------------ *)
(* process.go:59 ProcessExpression with root = false, generic in the
   expression-operator evaluator `ev v op d path` (= look `op` up in the
   expression table and call it with argument v). *)

Definition join_prefix (prefix key : string) : string :=
  if String.eqb prefix "" then key else prefix ++ "." ++ key.

Section Process.
  Variable ev : value -> string -> doc -> string -> res bool.

  (* process.go:114-144: a document whose first key is an operator *)
  Definition ops_loop (exps : list (string * value)) (d : doc) (path : string) : res bool :=
    (fix loop (exps : list (string * value)) : res bool :=
       match exps with
       | [] => Ok true
       | (k, v) :: t =>
           if is_op k then and_then (ev v k d path) (loop t)
           else Err    (* "expected operator" *)
       end) exps.

  (* process.go:110-163: the value of a field condition *)
  Definition field_cond (x : value) (d : doc) (path : string) : res bool :=
    match x with
    | VDoc ((k0, x0) :: rest) =>
        if is_op k0 then ops_loop ((k0, x0) :: rest) d path
        else ev x "" d path
    | _ => ev x "" d path        (* the default operator ctx.Expression[""] *)
    end.

  (* process.go:59-102 with root = false *)
  Definition pexpr_nr (x : value) (k : string) (d : doc) (prefix : string) : res bool :=
    if is_op k then ev x k d prefix
    else field_cond x d (join_prefix prefix k).

  (* process.go:45 Process with root = false *)
  Definition process_nr (q : list (string * value)) (d : doc) (prefix : string) : res bool :=
    (fix go (q : list (string * value)) : res bool :=
       match q with
       | [] => Ok true
       | (k, x) :: t => and_then (pexpr_nr x k d prefix) (go t)
       end) q.
End Process.

(* the expression operator registered under `op`, applied to argument v *)
Fixpoint eval_op (v : value) (op : string) (d : doc) (path : string) {struct v} : res bool :=
  match lookup_expr op with
  | None => Err                      (* "unknown expression operator" *)
  | Some f =>
      match f with
      | FComp => match_comp d op path v
      | FNe => negate (match_comp d "$eq" path v)                 (* match.go:231 *)
      | FIn => match_in d path v
      | FNin => negate (match_in d path v)                        (* match.go:225 *)
      | FExists => match_exists d path v
      | FType => match_type d path v
      | FAll => match_all d path v
      | FSize => match_size d path v
      | FBits => match_bits d op path v
      | FMod => match_mod d path v
      | FNot =>                                                   (* match.go:177 *)
          match v with
          | VDoc [] => Err
          | VDoc query =>
              (fix loop (q : list (string * value)) : res bool :=
                 match q with
                 | [] => Ok false
                 | (k, x) :: t =>
                     match pexpr_nr eval_op x k d path with
                     | Ok false => Ok true
                     | Ok true => loop t
                     | e => e
                     end
                 end) query
          | _ => Err
          end
      | FElem =>                                                  (* match.go:464 *)
          match v with
          | VDoc [] => Ok false
          | VDoc query =>
              match fst (All d path true true) with
              | VArr array =>
                  first_ok (fun item => process_nr eval_op query [("item", item)] "item")
                           array (Ok false)
              | _ => Ok false
              end
          | _ => Err
          end
      end
  end.

(* process.go:45 Process(ctx, doc, query, "", true) and process.go:59 with
   root = true; match.go:73-141 matchAnd / matchOr / matchNor *)
Fixpoint top_eval (v : value) (k : string) (d : doc) {struct v} : res bool :=
  if is_op k then
    match lookup_top k with
    | None => Err                    (* "unknown top level operator" *)
    | Some f =>
        let sub (item : value) : res bool :=
          match item with
          | VDoc q =>
              (fix go (q : list (string * value)) : res bool :=
                 match q with
                 | [] => Ok true
                 | (k', x) :: t => and_then (top_eval x k' d) (go t)
                 end) q
          | _ => Err
          end in
        let any_of :=
          match v with
          | VArr [] => Err
          | VArr items =>
              (fix any (l : list value) : res bool :=
                 match l with
                 | [] => Ok false
                 | item :: t => or_else (sub item) (any t)
                 end) items
          | _ => Err
          end in
        match f with
        | FAnd =>
            match v with
            | VArr [] => Err
            | VArr items =>
                (fix all (l : list value) : res bool :=
                   match l with
                   | [] => Ok true
                   | item :: t => and_then (sub item) (all t)
                   end) items
            | _ => Err
            end
        | FOr => any_of
        | FNor => negate any_of
        | FJSONSchema => match_json_schema d v
        end
    end
  else field_cond eval_op v d k.

Definition process_top (q : list (string * value)) (d : doc) : res bool :=
  (fix go (q : list (string * value)) : res bool :=
     match q with
     | [] => Ok true
     | (k, x) :: t => and_then (top_eval x k d) (go t)
     end) q.

(* match.go:58 Match(doc, query) *)
Definition Match (d : doc) (f : doc) : res bool := process_top f d.
