(* RunSpec.v — executable comparison of the implementation model (Driver.step)
   with the reference model (SpecDb.s_step) on one history: used to TEST the
   refinement statement before/alongside proving it.  Case: (specdiff call...)
   -> "OK" or the index of the first call whose reply or contents differ. *)
From Lungo.Model Require Import Driver RunAccess RunApi ApiOps.
From Lungo.Model Require Import DriverExt.
From Lungo.Spec Require Import SpecDb SpecDbExt.
Open Scope string_scope.

Section RunSpec.
  Variable matchf : doc -> doc -> res bool.
  Variable applyf : doc -> doc -> doc -> bool -> list doc -> Z -> res (doc * list (string * value)).
  Variable extractf : doc -> res doc.
  Variable projectf : doc -> doc -> res doc.

  (* abstraction: forget identities, entries, the oplog *)
  Definition abs_coll (c : coll) : scoll :=
    mkSColl (map snd (c_docs c))
            (map (fun ni => mkDef (fst ni) (ix_config (snd ni)) (ix_cols (snd ni))) (c_indexes c)).

  Definition show_scoll (c : scoll) : string :=
    par [par (map show_doc (sc_docs c));
         par (map (fun df => par [hex (d_name df); show_doc (cf_key (d_config df));
                                  show_bool (cf_unique (d_config df));
                                  match cf_partial (d_config df) with Some p => show_doc p | None => "NIL" end;
                                  show_Z (cf_expiry (d_config df))]) (sc_defs c))].

  Definition hs_cmp (a b : handle * string) : comparison :=
    match str_compare (fst (fst a)) (fst (fst b)) with
    | Eq => str_compare (snd (fst a)) (snd (fst b))
    | c => c
    end.

  Definition show_abs (l : list (handle * scoll)) : string :=
    par (map (fun hs => par [hex (fst (fst hs)); hex (snd (fst hs)); snd hs])
             (stable_sort hs_cmp (map (fun hc => (fst hc, show_scoll (snd hc))) l))).

  Definition abs_state (ds : dstate) : string :=
    show_abs (map (fun hc => (fst hc, abs_coll (snd hc)))
                  (filter (fun hc => negb (handle_eqb (fst hc) oplog_handle)) (cat_ns (ds_cat ds)))).

  Fixpoint diff_go (ds : dstate) (s : sstate) (cs : list sexp) (i : Z) : string :=
    match cs with
    | [] => "OK"
    | x :: t =>
        match xcall_in ds x with
        | None => "BAD-CALL"
        | Some c =>
            let '(ds', r1) := xstep matchf applyf extractf projectf 0 ds c in
            let '(s', r2) := xs_step matchf applyf extractf projectf 0 s c in
            if String.eqb (show_xreply r1) (show_xreply r2) &&
               String.eqb (abs_state ds') (show_abs (ss_colls s')) &&
               (g_oid (ds_gen ds') =? ss_oid s')%Z
            then diff_go ds' s' t (i + 1)%Z
            else "DIFF " ++ show_Z i ++ " impl=" ++ show_xreply r1 ++ " spec=" ++ show_xreply r2
                 ++ " implstate=" ++ abs_state ds' ++ " specstate=" ++ show_abs (ss_colls s')
        end
    end.

  Definition run_specdiff (x : sexp) : option string :=
    match x with
    | SList (SAtom "specdiff" :: calls) => Some (diff_go d_init s_init calls 0)
    | _ => None
    end.
End RunSpec.

Definition run_specdiff_inst := run_specdiff api_match api_apply api_extract api_project.
