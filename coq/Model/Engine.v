(* Engine.v — executable small-step labelled transition system of lungo's
   locking / transaction protocol.  Definitions only (proofs live in
   Proofs/EngineProofs.v).

   Mirrors, statement by statement at lock granularity:
     /repo/engine.go      Begin (l.132-190), Commit (l.195-246), Abort (l.250-270),
                          Watch (l.273-369, lock + alive check + registration only),
                          Close (l.372-409), expire (l.411-452)
     /repo/dbkit/semaphore.go  Acquire (l.25-44), Release (l.48-54)
     /repo/session.go     startTransaction (l.141-186), CommitTransaction (l.82-108),
                          AbortTransaction (l.40-57), EndSession (l.111-129),
                          WithTransaction (l.189-231), Transaction (l.235-241)
     /repo/utils.go       useTransaction (l.62-102)

   One step = one lock acquisition, one lock release, one token operation or
   the straight-line code up to the next verif hook point.  A thread's control
   state is a program counter whose constructor carries the locals of the
   running call and the continuation of its caller (so the deferred calls of
   useTransaction / WithTransaction are part of the thread program).

   Not modelled as state: Transaction.mutex and Stream.mutex (leaf locks; see
   the lock-order theorem and Gen/Locks.v), the contents of documents (a write
   is an abstract operation id), wall-clock time (the Acquire timeout is a
   step that is always enabled). *)
From Lungo.Model Require Import Base.
Open Scope string_scope.
Open Scope list_scope.

Definition tid := nat.
Definition sid := nat.
Definition txid := nat.
Definition wop := nat.      (* an abstract write operation *)

(* the two variants of Engine.Begin: [sess_under_lock = true] is the code
   that calls sess.Transaction() while holding Engine.mutex (engine.go
   l.151-157 of the unpatched tree); [false] reads it before locking. *)
Record config := { sess_under_lock : bool }.
Definition cfg_fixed : config := {| sess_under_lock := false |}.
Definition cfg_inverted : config := {| sess_under_lock := true |}.

Inductive result :=
| ROk | RClosed | RCtxErr | RTimeout | RNested | RExisting | RNoActive
| RMismatch | RStoreErr | RSessEnded | RMissing | RCbErr | RPanic | RSkip.

(* outcome of a callback passed to WithTransaction / useTransaction *)
Inductive cb := CbOk | CbErr | CbPanic.

(* thread programs *)
Inductive op :=
| OBegin (lock : bool) (cs : option sid)   (* cur, err = engine.Begin(ctx [carrying session cs], lock) *)
| OWrite (w : wop)                         (* if cur != nil { cur.Insert(...) } *)
| OCommit                                  (* if cur != nil { engine.Commit(cur); cur = nil } *)
| OAbort                                   (* if cur != nil { engine.Abort(cur); cur = nil } *)
| OSStart (s : sid)                        (* sess.StartTransaction() *)
| OSCommit (s : sid)                       (* sess.CommitTransaction(ctx) *)
| OSAbort (s : sid)                        (* sess.AbortTransaction(ctx) *)
| OSEnd (s : sid)                          (* sess.EndSession(ctx) *)
| OSWrite (s : sid) (w : wop)              (* if t := sess.Transaction(); t != nil { t.Insert(...) } *)
| OWtx (s : sid) (w : wop) (c : cb)        (* sess.WithTransaction(ctx, fn): fn = OSWrite then c *)
| OUse (cs : option sid) (w : wop) (c : cb)(* useTransaction(ctx, engine, true, fn): fn = write then c *)
| OWatch                                   (* engine.Watch(...) *)
| OUnwatch                                 (* stream.cancel(): lock, delete, unlock (engine.go l.359-363) *)
| OClose.                                  (* engine.Close() *)

(* who called a Session method (continuation after its deferred Unlock) *)
Inductive scont :=
| STop                                     (* the script *)
| SWtxStart (w : wop) (c : cb)             (* WithTransaction l.205 *)
| SWtxCommit                               (* WithTransaction l.225 *)
| SWtxDefer (r : result).                  (* WithTransaction l.211-213 (deferred), r = pending result *)

(* who called an Engine method *)
Inductive cont :=
| KTop                                     (* the script *)
| KSessStart (s : sid) (k : scont)         (* session.go l.170 (no mutex held) *)
| KSessStartAbort (s : sid) (k : scont)    (* session.go l.180 (Session.mutex held) *)
| KSessCommit (s : sid) (k : scont)        (* session.go l.102 (held) *)
| KSessAbort (s : sid) (k : scont)         (* session.go l.52 (held) *)
| KSessEnd (s : sid)                       (* session.go l.123 (held) *)
| KUseBegin (w : wop) (c : cb)             (* utils.go l.76 *)
| KUseCommit (x : txid)                    (* utils.go l.96 *)
| KUseDefer (r : result)                   (* utils.go l.87 (deferred), r = pending result *)
| KCancelStream.                           (* stream.go l.50: s.cancel() inside Stream.Close (Stream.mutex held) *)

(* why sess.Transaction() is being called *)
Inductive rdkind :=
| RdScript                                 (* script operation OSWrite *)
| RdWtx (c : cb)                           (* the WithTransaction callback, outcome c *)
| RdUse (c : cb).                          (* useTransaction with a session context, utils.go l.67-73 *)

Inductive pc :=
| PIdle                                    (* between two script operations *)
| PExited                                  (* background goroutine returned *)
(* --- Engine.Begin --- *)
| PBeginPre (cs : sid) (k : cont)          (* fixed variant: about to sess.Transaction() before the engine lock *)
| PBegin0 (lock : bool) (cs : option sid) (nested : bool) (k : cont)  (* about to e.mutex.Lock() l.134 *)
| PBeginSess (s : sid) (k : cont)          (* inverted variant: holds E, about to sess.Transaction() l.153 *)
| PBeginUnl (k : cont)                     (* holds E, about to e.mutex.Unlock() l.161 *)
| PBeginAcq (k : cont)                     (* hook begin.unlocked; about to token.Acquire l.162 *)
| PBeginWoke (ok : bool) (k : cont)        (* hook begin.acquired; about to e.mutex.Lock() l.163 *)
| PBeginInst (x : txid) (k : cont)         (* hook begin.return; holds E, e.txn = x l.187-189 *)
| PRetE (r : result) (x : option txid) (k : cont)  (* holds E; deferred e.mutex.Unlock() of Begin/Commit/Abort *)
(* --- Engine.Commit --- *)
| PCommit0 (x : txid) (k : cont)           (* about to e.mutex.Lock() l.197 *)
| PCommitL (x : txid) (k : cont)           (* hook commit.locked; holds E *)
| PCommitStore (x : txid) (k : cont)       (* hook commit.store; holds E and the token, e.txn = nil *)
| PCommitPub (x : txid) (k : cont)         (* hook commit.publish *)
| PCommitBcast (x : txid) (k : cont)       (* hook commit.broadcast *)
| PCommitRel (r : result) (k : cont)       (* deferred token.Release() l.214 *)
(* --- Engine.Abort --- *)
| PAbort0 (x : txid) (k : cont)            (* about to e.mutex.Lock() l.252 *)
| PAbortL (x : txid) (k : cont)            (* hook abort.locked; holds E *)
| PAbortRel (k : cont)                     (* hook abort.released; holds E *)
(* --- Engine.Close --- *)
| PClose0                                  (* about to e.mutex.Lock() l.374 *)
| PCloseK                                  (* hook close.killed; holds E, tomb dead l.392 *)
| PCloseS                                  (* closing the snapshotted streams l.398-405 *)
| PCloseW                                  (* hook close.wait; about to tomb.Wait() l.408 *)
(* --- Engine.Watch / stream.cancel --- *)
| PWatch0                                  (* about to e.mutex.Lock() l.275 *)
| PUnwatch0                                (* Stream.Close: about to s.mutex.Lock() stream.go l.41 *)
| PUnwatchL                                (* hook stream.close.locked; holds the stream's mutex *)
| PUnwatchC                                (* about to e.mutex.Lock() in s.cancel() engine.go l.360 *)
(* --- Session --- *)
| PSStart0 (s : sid) (k : scont)           (* about to s.mutex.Lock() l.157 *)
| PSStartL (s : sid) (k : scont)           (* hook session.start.locked; holds S *)
| PSStartF (s : sid) (r : result) (x : option txid) (k : scont)   (* Begin returned; about to s.mutex.Lock() l.173 *)
| PSStartFL (s : sid) (r : result) (x : option txid) (k : scont)  (* hook session.start.final; holds S *)
| PSCommit0 (s : sid) (k : scont)          (* about to s.mutex.Lock() l.84 *)
| PSCommitL (s : sid) (k : scont)          (* hook session.commit.locked; holds S *)
| PSAbort0 (s : sid) (k : scont)           (* about to s.mutex.Lock() l.42 *)
| PSAbortL (s : sid) (k : scont)           (* hook session.abort.locked; holds S *)
| PSEnd0 (s : sid)                         (* about to s.mutex.Lock() l.113 *)
| PSEndL (s : sid)                         (* hook session.end.locked; holds S *)
| PSUnl (s : sid) (r : result) (k : scont) (* holds S; deferred s.mutex.Unlock() *)
(* --- sess.Transaction() from a callback / useTransaction l.69 --- *)
| PSRead (s : sid) (w : wop) (rk : rdkind).
   (* about to s.mutex.Lock() in Transaction() (l.237); the transaction, if
      any, then receives the write w *)

Record thread := {
  th_pc : pc;
  th_prog : list op;
  th_cur : option txid;        (* the script's transaction variable *)
  th_cancelled : bool;         (* the script's context has been cancelled *)
  th_bg : bool;                (* the expiry goroutine (tomb.Go) *)
  th_inv : nat;                (* time of invocation of the running operation *)
  th_pub : option txid;        (* the running operation published this transaction *)
  th_read : option (nat * nat);  (* the running operation took a snapshot at (version, time) *)
  th_results : list result;    (* results of finished operations, newest first *)
  th_streams : nat             (* open streams created by this script *)
}.

Record session := {
  s_mutex : option tid;
  s_txn : option txid;
  s_starting : bool;
  s_ended : bool
}.

(* TOpen: installed in e.txn; TCommitting: Commit has unset e.txn and not yet stored/published *)
Inductive tstatus := TOpen | TCommitting | TCommitted | TAborted | TFailed | TSnapshot.

Record txn := {
  t_base_ver : nat;            (* version of the catalog NewTransaction cloned *)
  t_base_cat : list wop;       (* that catalog *)
  t_ops : list wop;            (* operations applied to the clone, oldest first *)
  t_status : tstatus
}.

(* one entry of the change log *)
Record commit := {
  c_txn : txid;
  c_base : nat;                (* the writer's base version *)
  c_ops : list wop;
  c_result : list wop;         (* the published catalog *)
  c_time : nat
}.

(* a finished script operation *)
Record call := {
  k_tid : tid;
  k_inv : nat;
  k_ret : nat;
  k_pub : option txid;
  k_read : option (nat * nat);
  k_res : result
}.

Record globals := {
  emutex : option tid;         (* Engine.mutex *)
  token_free : bool;           (* len(token.tokens) = 1 *)
  etxn : option txid;          (* Engine.txn *)
  alive : bool;                (* tomb.Alive() *)
  catalog : list wop;          (* Engine.catalog, as the list of applied operations *)
  version : nat;               (* number of publications *)
  log : list commit;           (* newest first *)
  stored : list wop;           (* what the Store holds *)
  store_fail : bool;           (* the next Store returns an error *)
  store_panic : bool;          (* the next Store panics *)
  sessions : list session;
  txns : list txn;
  nstreams : nat;              (* len(e.streams) *)
  stream_locks : nat;          (* number of Stream.mutex instances currently held by Stream.Close callers *)
  streams_closed : bool;       (* Engine.Close has closed the registered streams (l.398-405) *)
  sem_panic : bool;            (* Release panicked with "semaphore full" *)
  now : nat;                   (* number of steps so far *)
  calls : list call            (* newest first *)
}.

Record state := { st_g : globals; st_threads : list thread }.

Inductive action := ATau | AAcqOk | AAcqCancel | AAcqTimeout.

Inductive label :=
| LThread (t : tid) (a : action)
| LCancel (t : tid)            (* fault: the context of thread t is cancelled *)
| LFailStore                   (* fault: arm an error of the next Store *)
| LPanicStore.                 (* fault: arm a panic of the next Store *)

(* ------------------------------------------------------------------ *)
(* Field updates.                                                      *)

Definition th_set_pc (th : thread) (v : pc) : thread :=
  {| th_pc := v; th_prog := th_prog th; th_cur := th_cur th; th_cancelled := th_cancelled th; th_bg := th_bg th; th_inv := th_inv th; th_pub := th_pub th; th_read := th_read th; th_results := th_results th; th_streams := th_streams th |}.

Definition th_set_prog (th : thread) (v : list op) : thread :=
  {| th_pc := th_pc th; th_prog := v; th_cur := th_cur th; th_cancelled := th_cancelled th; th_bg := th_bg th; th_inv := th_inv th; th_pub := th_pub th; th_read := th_read th; th_results := th_results th; th_streams := th_streams th |}.

Definition th_set_cur (th : thread) (v : option txid) : thread :=
  {| th_pc := th_pc th; th_prog := th_prog th; th_cur := v; th_cancelled := th_cancelled th; th_bg := th_bg th; th_inv := th_inv th; th_pub := th_pub th; th_read := th_read th; th_results := th_results th; th_streams := th_streams th |}.

Definition th_set_cancelled (th : thread) (v : bool) : thread :=
  {| th_pc := th_pc th; th_prog := th_prog th; th_cur := th_cur th; th_cancelled := v; th_bg := th_bg th; th_inv := th_inv th; th_pub := th_pub th; th_read := th_read th; th_results := th_results th; th_streams := th_streams th |}.

Definition th_set_inv (th : thread) (v : nat) : thread :=
  {| th_pc := th_pc th; th_prog := th_prog th; th_cur := th_cur th; th_cancelled := th_cancelled th; th_bg := th_bg th; th_inv := v; th_pub := th_pub th; th_read := th_read th; th_results := th_results th; th_streams := th_streams th |}.

Definition th_set_pub (th : thread) (v : option txid) : thread :=
  {| th_pc := th_pc th; th_prog := th_prog th; th_cur := th_cur th; th_cancelled := th_cancelled th; th_bg := th_bg th; th_inv := th_inv th; th_pub := v; th_read := th_read th; th_results := th_results th; th_streams := th_streams th |}.

Definition th_set_read (th : thread) (v : option (nat * nat)) : thread :=
  {| th_pc := th_pc th; th_prog := th_prog th; th_cur := th_cur th; th_cancelled := th_cancelled th; th_bg := th_bg th; th_inv := th_inv th; th_pub := th_pub th; th_read := v; th_results := th_results th; th_streams := th_streams th |}.

Definition th_set_results (th : thread) (v : list result) : thread :=
  {| th_pc := th_pc th; th_prog := th_prog th; th_cur := th_cur th; th_cancelled := th_cancelled th; th_bg := th_bg th; th_inv := th_inv th; th_pub := th_pub th; th_read := th_read th; th_results := v; th_streams := th_streams th |}.

Definition th_set_streams (th : thread) (v : nat) : thread :=
  {| th_pc := th_pc th; th_prog := th_prog th; th_cur := th_cur th; th_cancelled := th_cancelled th; th_bg := th_bg th; th_inv := th_inv th; th_pub := th_pub th; th_read := th_read th; th_results := th_results th; th_streams := v |}.

Definition g_set_emutex (g : globals) (v : option tid) : globals :=
  {| emutex := v; token_free := token_free g; etxn := etxn g; alive := alive g; catalog := catalog g; version := version g; log := log g; stored := stored g; store_fail := store_fail g; store_panic := store_panic g; sessions := sessions g; txns := txns g; nstreams := nstreams g; stream_locks := stream_locks g; streams_closed := streams_closed g; sem_panic := sem_panic g; now := now g; calls := calls g |}.

Definition g_set_token (g : globals) (v : bool) : globals :=
  {| emutex := emutex g; token_free := v; etxn := etxn g; alive := alive g; catalog := catalog g; version := version g; log := log g; stored := stored g; store_fail := store_fail g; store_panic := store_panic g; sessions := sessions g; txns := txns g; nstreams := nstreams g; stream_locks := stream_locks g; streams_closed := streams_closed g; sem_panic := sem_panic g; now := now g; calls := calls g |}.

Definition g_set_etxn (g : globals) (v : option txid) : globals :=
  {| emutex := emutex g; token_free := token_free g; etxn := v; alive := alive g; catalog := catalog g; version := version g; log := log g; stored := stored g; store_fail := store_fail g; store_panic := store_panic g; sessions := sessions g; txns := txns g; nstreams := nstreams g; stream_locks := stream_locks g; streams_closed := streams_closed g; sem_panic := sem_panic g; now := now g; calls := calls g |}.

Definition g_set_alive (g : globals) (v : bool) : globals :=
  {| emutex := emutex g; token_free := token_free g; etxn := etxn g; alive := v; catalog := catalog g; version := version g; log := log g; stored := stored g; store_fail := store_fail g; store_panic := store_panic g; sessions := sessions g; txns := txns g; nstreams := nstreams g; stream_locks := stream_locks g; streams_closed := streams_closed g; sem_panic := sem_panic g; now := now g; calls := calls g |}.

Definition g_set_stored (g : globals) (v : list wop) : globals :=
  {| emutex := emutex g; token_free := token_free g; etxn := etxn g; alive := alive g; catalog := catalog g; version := version g; log := log g; stored := v; store_fail := store_fail g; store_panic := store_panic g; sessions := sessions g; txns := txns g; nstreams := nstreams g; stream_locks := stream_locks g; streams_closed := streams_closed g; sem_panic := sem_panic g; now := now g; calls := calls g |}.

Definition g_set_store_fail (g : globals) (v : bool) : globals :=
  {| emutex := emutex g; token_free := token_free g; etxn := etxn g; alive := alive g; catalog := catalog g; version := version g; log := log g; stored := stored g; store_fail := v; store_panic := store_panic g; sessions := sessions g; txns := txns g; nstreams := nstreams g; stream_locks := stream_locks g; streams_closed := streams_closed g; sem_panic := sem_panic g; now := now g; calls := calls g |}.

Definition g_set_store_panic (g : globals) (v : bool) : globals :=
  {| emutex := emutex g; token_free := token_free g; etxn := etxn g; alive := alive g; catalog := catalog g; version := version g; log := log g; stored := stored g; store_fail := store_fail g; store_panic := v; sessions := sessions g; txns := txns g; nstreams := nstreams g; stream_locks := stream_locks g; streams_closed := streams_closed g; sem_panic := sem_panic g; now := now g; calls := calls g |}.

Definition g_set_sessions (g : globals) (v : list session) : globals :=
  {| emutex := emutex g; token_free := token_free g; etxn := etxn g; alive := alive g; catalog := catalog g; version := version g; log := log g; stored := stored g; store_fail := store_fail g; store_panic := store_panic g; sessions := v; txns := txns g; nstreams := nstreams g; stream_locks := stream_locks g; streams_closed := streams_closed g; sem_panic := sem_panic g; now := now g; calls := calls g |}.

Definition g_set_txns (g : globals) (v : list txn) : globals :=
  {| emutex := emutex g; token_free := token_free g; etxn := etxn g; alive := alive g; catalog := catalog g; version := version g; log := log g; stored := stored g; store_fail := store_fail g; store_panic := store_panic g; sessions := sessions g; txns := v; nstreams := nstreams g; stream_locks := stream_locks g; streams_closed := streams_closed g; sem_panic := sem_panic g; now := now g; calls := calls g |}.

Definition g_set_nstreams (g : globals) (v : nat) : globals :=
  {| emutex := emutex g; token_free := token_free g; etxn := etxn g; alive := alive g; catalog := catalog g; version := version g; log := log g; stored := stored g; store_fail := store_fail g; store_panic := store_panic g; sessions := sessions g; txns := txns g; nstreams := v; stream_locks := stream_locks g; streams_closed := streams_closed g; sem_panic := sem_panic g; now := now g; calls := calls g |}.

Definition g_set_stream_locks (g : globals) (v : nat) : globals :=
  {| emutex := emutex g; token_free := token_free g; etxn := etxn g; alive := alive g; catalog := catalog g; version := version g; log := log g; stored := stored g; store_fail := store_fail g; store_panic := store_panic g; sessions := sessions g; txns := txns g; nstreams := nstreams g; stream_locks := v; streams_closed := streams_closed g; sem_panic := sem_panic g; now := now g; calls := calls g |}.

Definition g_set_streams_closed (g : globals) (v : bool) : globals :=
  {| emutex := emutex g; token_free := token_free g; etxn := etxn g; alive := alive g; catalog := catalog g; version := version g; log := log g; stored := stored g; store_fail := store_fail g; store_panic := store_panic g; sessions := sessions g; txns := txns g; nstreams := nstreams g; stream_locks := stream_locks g; streams_closed := v; sem_panic := sem_panic g; now := now g; calls := calls g |}.

Definition g_set_sem_panic (g : globals) (v : bool) : globals :=
  {| emutex := emutex g; token_free := token_free g; etxn := etxn g; alive := alive g; catalog := catalog g; version := version g; log := log g; stored := stored g; store_fail := store_fail g; store_panic := store_panic g; sessions := sessions g; txns := txns g; nstreams := nstreams g; stream_locks := stream_locks g; streams_closed := streams_closed g; sem_panic := v; now := now g; calls := calls g |}.

Definition g_set_now (g : globals) (v : nat) : globals :=
  {| emutex := emutex g; token_free := token_free g; etxn := etxn g; alive := alive g; catalog := catalog g; version := version g; log := log g; stored := stored g; store_fail := store_fail g; store_panic := store_panic g; sessions := sessions g; txns := txns g; nstreams := nstreams g; stream_locks := stream_locks g; streams_closed := streams_closed g; sem_panic := sem_panic g; now := v; calls := calls g |}.

Definition g_set_calls (g : globals) (v : list call) : globals :=
  {| emutex := emutex g; token_free := token_free g; etxn := etxn g; alive := alive g; catalog := catalog g; version := version g; log := log g; stored := stored g; store_fail := store_fail g; store_panic := store_panic g; sessions := sessions g; txns := txns g; nstreams := nstreams g; stream_locks := stream_locks g; streams_closed := streams_closed g; sem_panic := sem_panic g; now := now g; calls := v |}.

Definition g_publish (g : globals) (cat : list wop) (e : commit) : globals :=
  {| emutex := emutex g; token_free := token_free g; etxn := etxn g; alive := alive g; catalog := cat; version := S (version g); log := e :: log g; stored := stored g; store_fail := store_fail g; store_panic := store_panic g; sessions := sessions g; txns := txns g; nstreams := nstreams g; stream_locks := stream_locks g; streams_closed := streams_closed g; sem_panic := sem_panic g; now := now g; calls := calls g |}.

Fixpoint upd {A} (l : list A) (n : nat) (x : A) : list A :=
  match l, n with
  | [], _ => []
  | _ :: t, O => x :: t
  | h :: t, S n' => h :: upd t n' x
  end.

Definition s_set_mutex (s : session) (v : option tid) : session :=
  {| s_mutex := v; s_txn := s_txn s; s_starting := s_starting s; s_ended := s_ended s |}.
Definition s_set_txn (s : session) (v : option txid) : session :=
  {| s_mutex := s_mutex s; s_txn := v; s_starting := s_starting s; s_ended := s_ended s |}.
Definition s_set_starting (s : session) (v : bool) : session :=
  {| s_mutex := s_mutex s; s_txn := s_txn s; s_starting := v; s_ended := s_ended s |}.
Definition s_set_ended (s : session) (v : bool) : session :=
  {| s_mutex := s_mutex s; s_txn := s_txn s; s_starting := s_starting s; s_ended := v |}.

Definition g_upd_session (g : globals) (i : sid) (f : session -> session) : globals :=
  g_set_sessions g (match nth_error (sessions g) i with
                    | Some s => upd (sessions g) i (f s)
                    | None => sessions g
                    end).

Definition t_add_op (x : txn) (w : wop) : txn :=
  {| t_base_ver := t_base_ver x; t_base_cat := t_base_cat x; t_ops := t_ops x ++ [w]; t_status := t_status x |}.
Definition t_set_status (x : txn) (v : tstatus) : txn :=
  {| t_base_ver := t_base_ver x; t_base_cat := t_base_cat x; t_ops := t_ops x; t_status := v |}.

Definition g_upd_txn (g : globals) (i : txid) (f : txn -> txn) : globals :=
  g_set_txns g (match nth_error (txns g) i with
                | Some x => upd (txns g) i (f x)
                | None => txns g
                end).

(* NewTransaction(e.catalog): catalog.go Clone; the new id is the table length *)
Definition new_txn (g : globals) (st : tstatus) : globals * txid :=
  (g_set_txns g (txns g ++ [{| t_base_ver := version g; t_base_cat := catalog g; t_ops := []; t_status := st |}]),
   List.length (txns g)).

Definition txn_cat (g : globals) (x : txid) : list wop :=
  match nth_error (txns g) x with
  | Some t => t_base_cat t ++ t_ops t
  | None => []
  end.
Definition txn_ops (g : globals) (x : txid) : list wop :=
  match nth_error (txns g) x with Some t => t_ops t | None => [] end.
Definition txn_base (g : globals) (x : txid) : nat :=
  match nth_error (txns g) x with Some t => t_base_ver t | None => 0 end.

(* dbkit/semaphore.go Release l.48-54: panics when the channel is full *)
Definition release (g : globals) : globals :=
  g_set_sem_panic (g_set_token g true) (sem_panic g || token_free g).

Definition is_txn (o : option txid) (x : txid) : bool :=
  match o with Some y => Nat.eqb y x | None => false end.
Definition is_some {A} (o : option A) : bool :=
  match o with Some _ => true | None => false end.
Definition is_ok (r : result) : bool := match r with ROk => true | _ => false end.

Definition sess_free (g : globals) (s : sid) : bool :=
  match nth_error (sessions g) s with
  | Some x => negb (is_some (s_mutex x))
  | None => false
  end.
Definition sess_txn (g : globals) (s : sid) : option txid :=
  match nth_error (sessions g) s with Some x => s_txn x | None => None end.
Definition sess_ended (g : globals) (s : sid) : bool :=
  match nth_error (sessions g) s with Some x => s_ended x | None => false end.
Definition sess_starting (g : globals) (s : sid) : bool :=
  match nth_error (sessions g) s with Some x => s_starting x | None => false end.
Definition valid_sid (g : globals) (s : sid) : bool := is_some (nth_error (sessions g) s).
Definition valid_osid (g : globals) (s : option sid) : bool :=
  match s with Some x => valid_sid g x | None => true end.

Definition lockS (g : globals) (t : tid) (s : sid) : globals := g_upd_session g s (fun x => s_set_mutex x (Some t)).
Definition unlockS (g : globals) (s : sid) : globals := g_upd_session g s (fun x => s_set_mutex x None).

(* the operation of the script is finished with result r *)
Definition finish (t : tid) (g : globals) (th : thread) (r : result) : globals * thread :=
  (g_set_calls g ({| k_tid := t; k_inv := th_inv th; k_ret := now g; k_pub := th_pub th; k_read := th_read th; k_res := r |} :: calls g),
   th_set_read (th_set_pub (th_set_results (th_set_pc th PIdle) (r :: th_results th)) None) None).

Definition goto (g : globals) (th : thread) (p : pc) : option (globals * thread) := Some (g, th_set_pc th p).

(* Begin's context: StartTransaction() passes nil (session.go l.138), every
   other caller passes the script's context *)
Definition cancellable (k : cont) : bool :=
  match k with KSessStart _ STop => false | _ => true end.

(* entry of Engine.Begin; the fixed variant reads the session first (only for locked begins) *)
Definition begin_entry (c : config) (lock : bool) (cs : option sid) (k : cont) : pc :=
  match cs with
  | Some s => if lock && negb (sess_under_lock c) then PBeginPre s k else PBegin0 lock cs false k
  | None => PBegin0 lock None false k
  end.

Definition cb_result (c : cb) : result :=
  match c with CbOk => ROk | CbErr => RCbErr | CbPanic => RPanic end.

(* return from a Session method, after its Unlock *)
Definition sreturn (t : tid) (g : globals) (th : thread) (s : sid) (r : result) (k : scont) : globals * thread :=
  match k with
  | STop => finish t g th r
  | SWtxStart w c =>                      (* session.go l.205-219 *)
      if is_ok r then (g, th_set_pc th (PSRead s w (RdWtx c)))
      else finish t g th r
  | SWtxCommit => (g, th_set_pc th (PSAbort0 s (SWtxDefer r)))     (* l.225-228 then the deferred l.211 *)
  | SWtxDefer r0 => finish t g th r0
  end.

(* return from an Engine method, after its Unlock *)
Definition ereturn (t : tid) (g : globals) (th : thread) (r : result) (x : option txid) (k : cont) : globals * thread :=
  match k with
  | KTop => finish t g (match x with Some _ => th_set_cur th x | None => th end) r
  | KSessStart s sk => (g, th_set_pc th (PSStartF s r x sk))                     (* session.go l.170-173 *)
  | KSessStartAbort s sk => (g, th_set_pc th (PSUnl s RSessEnded sk))             (* l.180-181 *)
  | KSessCommit s sk => (g, th_set_pc th (PSUnl s r sk))                          (* l.102-107 *)
  | KSessAbort s sk => (g_upd_session g s (fun z => s_set_txn z None), th_set_pc th (PSUnl s ROk sk))   (* l.53-56 *)
  | KSessEnd s => (g_upd_session g s (fun z => s_set_ended (s_set_txn z None) true), th_set_pc th (PSUnl s ROk STop)) (* l.124-128 *)
  | KUseBegin w c =>                                                             (* utils.go l.76-96 *)
      match x with
      | Some y =>
          if is_ok r then
            let g1 := g_upd_txn g y (fun z => t_add_op z w) in
            match c with
            | CbOk => (g1, th_set_pc th (PCommit0 y (KUseCommit y)))
            | _ => (g1, th_set_pc th (PAbort0 y (KUseDefer (cb_result c))))
            end
          else finish t g th r
      | None => finish t g th r
      end
  | KUseCommit y => (g, th_set_pc th (PAbort0 y (KUseDefer r)))                  (* l.96-99 then the deferred l.87 *)
  | KUseDefer r0 => finish t g th r0
  | KCancelStream =>                       (* stream.go l.51-62 and the deferred s.mutex.Unlock() *)
      finish t (g_set_stream_locks g (pred (stream_locks g))) th ROk
  end.

(* ------------------------------------------------------------------ *)
(* The step of one thread.  [bgs]: every background goroutine has exited
   (the guard of tomb.Wait()).                                          *)

Definition efree (g : globals) : bool := negb (is_some (emutex g)).

Definition dispatch (c : config) (t : tid) (g : globals) (th0 : thread) (o : op) (rest : list op) : option (globals * thread) :=
  let th := th_set_inv (th_set_prog th0 rest) (now g) in
  match o with
  | OBegin lock cs =>
      if valid_osid g cs then goto g th (begin_entry c lock cs KTop) else Some (finish t g th RSkip)
  | OWrite w =>
      match th_cur th with
      | Some x => Some (finish t (g_upd_txn g x (fun z => t_add_op z w)) th ROk)
      | None => Some (finish t g th RSkip)
      end
  | OCommit =>
      match th_cur th with
      | Some x => goto g (th_set_cur th None) (PCommit0 x KTop)
      | None => Some (finish t g th RSkip)
      end
  | OAbort =>
      match th_cur th with
      | Some x => goto g (th_set_cur th None) (PAbort0 x KTop)
      | None => Some (finish t g th RSkip)
      end
  | OSStart s => if valid_sid g s then goto g th (PSStart0 s STop) else Some (finish t g th RSkip)
  | OSCommit s => if valid_sid g s then goto g th (PSCommit0 s STop) else Some (finish t g th RSkip)
  | OSAbort s => if valid_sid g s then goto g th (PSAbort0 s STop) else Some (finish t g th RSkip)
  | OSEnd s => if valid_sid g s then goto g th (PSEnd0 s) else Some (finish t g th RSkip)
  | OSWrite s w => if valid_sid g s then goto g th (PSRead s w RdScript) else Some (finish t g th RSkip)
  | OWtx s w cbk => if valid_sid g s then goto g th (PSStart0 s (SWtxStart w cbk)) else Some (finish t g th RSkip)
  | OUse cs w cbk =>
      match cs with
      | Some s => if valid_sid g s then goto g th (PSRead s w (RdUse cbk)) else Some (finish t g th RSkip)
      | None => goto g th (begin_entry c true None (KUseBegin w cbk))
      end
  | OWatch => goto g th PWatch0
  | OUnwatch =>
      match th_streams th with
      | O => Some (finish t g th RSkip)
      | S n => goto g (th_set_streams th n) PUnwatch0
      end
  | OClose => goto g th PClose0
  end.

(* one iteration of Engine.expire (engine.go l.425-450) as a script *)
Definition expire_iteration : list op := [OBegin true None; OWrite 0; OCommit].

Definition tau (c : config) (t : tid) (bgs : bool) (g : globals) (th : thread) : option (globals * thread) :=
  match th_pc th with
  | PIdle =>
      match th_prog th with
      | o :: rest => dispatch c t g th o rest
      | [] =>
          if th_bg th then
            (* engine.go l.418-422: select on tomb.Dying() / ticker *)
            if alive g then Some (g, th_set_prog th expire_iteration) else goto g th PExited
          else None
      end
  | PExited => None
  (* ---- Engine.Begin ---- *)
  | PBeginPre s k =>                       (* fixed variant: sess.Transaction() without the engine lock *)
      if sess_free g s then goto g th (PBegin0 true (Some s) (is_some (sess_txn g s)) k) else None
  | PBegin0 lock cs nested k =>            (* l.134-157 *)
      if efree g then
        let g1 := g_set_emutex g (Some t) in
        if negb (alive g) then goto g1 th (PRetE RClosed None k)
        else if negb lock then
          let (g2, x) := new_txn g1 TSnapshot in
          goto g2 (th_set_read th (Some (version g, now g))) (PRetE ROk (Some x) k)
        else match cs with
             | Some s => if sess_under_lock c then goto g1 th (PBeginSess s k)
                         else if nested then goto g1 th (PRetE RNested None k) else goto g1 th (PBeginUnl k)
             | None => goto g1 th (PBeginUnl k)
             end
      else None
  | PBeginSess s k =>                      (* inverted variant l.151-157: Session.mutex under Engine.mutex *)
      if sess_free g s then
        if is_some (sess_txn g s) then goto g th (PRetE RNested None k) else goto g th (PBeginUnl k)
      else None
  | PBeginUnl k => goto (g_set_emutex g None) th (PBeginAcq k)      (* l.161 *)
  | PBeginAcq _ => None                    (* l.162: see acquire below *)
  | PBeginWoke ok k =>                     (* l.163-189 *)
      if efree g then
        let g1 := g_set_emutex g (Some t) in
        if negb ok then
          goto g1 th (PRetE (if negb (alive g) then RClosed
                             else if th_cancelled th && cancellable k then RCtxErr else RTimeout) None k)
        else if negb (alive g) then goto (release g1) th (PRetE RClosed None k)
        else if is_some (etxn g) then goto (release g1) th (PRetE RExisting None k)
        else
          let (g2, x) := new_txn g1 TOpen in
          goto (g_set_etxn g2 (Some x)) th (PBeginInst x k)
      else None
  | PBeginInst x k => goto g th (PRetE ROk (Some x) k)
  | PRetE r x k => Some (ereturn t (g_set_emutex g None) th r x k)
  (* ---- Engine.Commit ---- *)
  | PCommit0 x k => if efree g then goto (g_set_emutex g (Some t)) th (PCommitL x k) else None   (* l.197 *)
  | PCommitL x k =>                        (* l.201-225 *)
      if negb (alive g) then goto g th (PRetE RClosed None k)
      else match etxn g with
           | None => goto g th (PRetE RNoActive None k)
           | Some y =>
               if negb (Nat.eqb y x) then goto g th (PRetE RMismatch None k)
               else
                 let g1 := g_set_etxn g None in
                 match txn_ops g x with
                 | [] => goto (g_upd_txn g1 x (fun z => t_set_status z TCommitted)) th (PCommitRel ROk k)
                 | _ :: _ => goto (g_upd_txn g1 x (fun z => t_set_status z TCommitting)) th (PCommitStore x k)
                 end
           end
  | PCommitStore x k =>                    (* l.228-231 *)
      if store_panic g then
        goto (g_upd_txn (g_set_store_panic g false) x (fun z => t_set_status z TFailed)) th (PCommitRel RPanic k)
      else if store_fail g then
        goto (g_upd_txn (g_set_store_fail g false) x (fun z => t_set_status z TFailed)) th (PCommitRel RStoreErr k)
      else goto (g_set_stored g (txn_cat g x)) th (PCommitPub x k)
  | PCommitPub x k =>                      (* l.234 *)
      let cat := txn_cat g x in
      let e := {| c_txn := x; c_base := txn_base g x; c_ops := txn_ops g x; c_result := cat; c_time := now g |} in
      goto (g_upd_txn (g_publish g cat e) x (fun z => t_set_status z TCommitted)) (th_set_pub th (Some x)) (PCommitBcast x k)
  | PCommitBcast x k => goto g th (PCommitRel ROk k)      (* l.237-243 *)
  | PCommitRel r k => goto (release g) th (PRetE r None k) (* l.214 deferred *)
  (* ---- Engine.Abort ---- *)
  | PAbort0 x k => if efree g then goto (g_set_emutex g (Some t)) th (PAbortL x k) else None     (* l.252 *)
  | PAbortL x k =>                         (* l.256-269 *)
      if negb (alive g) then goto g th (PRetE ROk None k)
      else if negb (is_txn (etxn g) x) then goto g th (PRetE ROk None k)
      else goto (release (g_upd_txn (g_set_etxn g None) x (fun z => t_set_status z TAborted))) th (PAbortRel k)
  | PAbortRel k => goto g th (PRetE ROk None k)
  (* ---- Engine.Close ---- *)
  | PClose0 =>                             (* l.374-392 *)
      if efree g then
        let g1 := g_set_emutex g (Some t) in
        if negb (alive g) then goto g1 th (PRetE ROk None KTop) else goto (g_set_alive g1 false) th PCloseK
      else None
  | PCloseK => goto (g_set_emutex g None) th PCloseS       (* l.393 *)
  | PCloseS =>                             (* l.398-405: needs every snapshotted stream's mutex *)
      match stream_locks g with
      | O => goto (g_set_streams_closed g true) th PCloseW
      | S _ => None
      end
  | PCloseW => if bgs then Some (finish t g th ROk) else None   (* l.408 tomb.Wait() *)
  (* ---- Engine.Watch, stream.cancel ---- *)
  | PWatch0 =>
      if efree g then
        let g1 := g_set_emutex g (Some t) in
        if negb (alive g) then goto g1 th (PRetE RClosed None KTop)
        else goto (g_set_nstreams g1 (S (nstreams g))) (th_set_streams th (S (th_streams th))) (PRetE ROk None KTop)
      else None
  (* ---- Stream.Close (stream.go l.39-63): the stream's mutex is only contended by Engine.Close ---- *)
  | PUnwatch0 => goto (g_set_stream_locks g (S (stream_locks g))) th PUnwatchL
  | PUnwatchL =>
      if streams_closed g then Some (finish t (g_set_stream_locks g (pred (stream_locks g))) th ROk)   (* l.45-47 *)
      else goto g th PUnwatchC
  | PUnwatchC =>                           (* engine.go l.359-363 *)
      if efree g then goto (g_set_nstreams (g_set_emutex g (Some t)) (pred (nstreams g))) th (PRetE ROk None KCancelStream) else None
  (* ---- Session.startTransaction ---- *)
  | PSStart0 s k => if sess_free g s then goto (lockS g t s) th (PSStartL s k) else None     (* l.157 *)
  | PSStartL s k =>                        (* l.158-170 *)
      if sess_ended g s then Some (sreturn t (unlockS g s) th s RSessEnded k)
      else if is_some (sess_txn g s) || sess_starting g s then Some (sreturn t (unlockS g s) th s RExisting k)
      else goto (unlockS (g_upd_session g s (fun z => s_set_starting z true)) s) th (begin_entry c true None (KSessStart s k))
  | PSStartF s r x k => if sess_free g s then goto (lockS g t s) th (PSStartFL s r x k) else None   (* l.173 *)
  | PSStartFL s r x k =>                   (* l.175-185 *)
      let g1 := g_upd_session g s (fun z => s_set_starting z false) in
      match x with
      | Some y =>
          if negb (is_ok r) then goto g1 th (PSUnl s r k)
          else if sess_ended g s then goto g1 th (PAbort0 y (KSessStartAbort s k))
          else goto (g_upd_session g1 s (fun z => s_set_txn z (Some y))) th (PSUnl s ROk k)
      | None => goto g1 th (PSUnl s (if is_ok r then RMissing else r) k)
      end
  (* ---- Session.CommitTransaction ---- *)
  | PSCommit0 s k => if sess_free g s then goto (lockS g t s) th (PSCommitL s k) else None   (* l.84 *)
  | PSCommitL s k =>                       (* l.88-102 *)
      if sess_ended g s then goto g th (PSUnl s RSessEnded k)
      else match sess_txn g s with
           | None => goto g th (PSUnl s RMissing k)
           | Some y => goto (g_upd_session g s (fun z => s_set_txn z None)) th (PCommit0 y (KSessCommit s k))
           end
  (* ---- Session.AbortTransaction ---- *)
  | PSAbort0 s k => if sess_free g s then goto (lockS g t s) th (PSAbortL s k) else None     (* l.42 *)
  | PSAbortL s k =>                        (* l.46-56 *)
      if sess_ended g s then goto g th (PSUnl s RSessEnded k)
      else match sess_txn g s with
           | None => goto g th (PSUnl s ROk k)
           | Some y => goto g th (PAbort0 y (KSessAbort s k))
           end
  (* ---- Session.EndSession ---- *)
  | PSEnd0 s => if sess_free g s then goto (lockS g t s) th (PSEndL s) else None             (* l.113 *)
  | PSEndL s =>                            (* l.117-128 *)
      if sess_ended g s then goto g th (PSUnl s ROk STop)
      else match sess_txn g s with
           | None => goto (g_upd_session g s (fun z => s_set_ended z true)) th (PSUnl s ROk STop)
           | Some y => goto g th (PAbort0 y (KSessEnd s))
           end
  | PSUnl s r k => Some (sreturn t (unlockS g s) th s r k)   (* deferred s.mutex.Unlock() *)
  (* ---- Session.Transaction() l.235-241 (lock; read; unlock) and the caller's use of it ---- *)
  | PSRead s w rk =>
      if sess_free g s then
        let g1 := match sess_txn g s with Some y => g_upd_txn g y (fun z => t_add_op z w) | None => g end in
        match rk with
        | RdScript => Some (finish t g1 th (if is_some (sess_txn g s) then ROk else RSkip))
        | RdWtx cbk =>                     (* session.go l.216-225 *)
            match cbk with
            | CbOk => goto g1 th (PSCommit0 s SWtxCommit)
            | _ => goto g1 th (PSAbort0 s (SWtxDefer (cb_result cbk)))
            end
        | RdUse cbk =>                     (* utils.go l.67-76 *)
            match sess_txn g s with
            | Some _ => Some (finish t g1 th (cb_result cbk))
            | None => goto g th (begin_entry c true (Some s) (KUseBegin w cbk))
            end
        end
      else None
  end.

(* dbkit/semaphore.go Acquire l.36-43: the select over token / cancel / deadline.
   The cancel channel is tomb.Context(ctx).Done(): closed when the caller's
   context is cancelled or the tomb is dying. *)
Definition acquire (g : globals) (th : thread) (a : action) : option (globals * thread) :=
  match th_pc th with
  | PBeginAcq k =>
      match a with
      | AAcqOk => if token_free g then goto (g_set_token g false) th (PBeginWoke true k) else None
      | AAcqCancel => if (th_cancelled th && cancellable k) || negb (alive g) then goto g th (PBeginWoke false k) else None
      | AAcqTimeout => goto g th (PBeginWoke false k)
      | ATau => None
      end
  | _ => None
  end.

Definition tstep (c : config) (t : tid) (bgs : bool) (g : globals) (th : thread) (a : action) : option (globals * thread) :=
  match a with
  | ATau => tau c t bgs g th
  | _ => acquire g th a
  end.

Definition is_exited (p : pc) : bool := match p with PExited => true | _ => false end.
Definition bg_stopped (ths : list thread) : bool :=
  forallb (fun th => negb (th_bg th) || is_exited (th_pc th)) ths.

Definition step (c : config) (s : state) (l : label) : option state :=
  let g := st_g s in
  let tick (g' : globals) := g_set_now g' (S (now g')) in
  match l with
  | LThread t a =>
      match nth_error (st_threads s) t with
      | Some th =>
          match tstep c t (bg_stopped (st_threads s)) g th a with
          | Some (g', th') => Some {| st_g := tick g'; st_threads := upd (st_threads s) t th' |}
          | None => None
          end
      | None => None
      end
  | LCancel t =>
      match nth_error (st_threads s) t with
      | Some th => Some {| st_g := tick g; st_threads := upd (st_threads s) t (th_set_cancelled th true) |}
      | None => None
      end
  | LFailStore => Some {| st_g := tick (g_set_store_fail g true); st_threads := st_threads s |}
  | LPanicStore => Some {| st_g := tick (g_set_store_panic g true); st_threads := st_threads s |}
  end.

(* ------------------------------------------------------------------ *)
(* Initial states: any number of threads with any programs, any number of
   sessions; thread programs are arbitrary.                             *)

Definition init_thread (bg : bool) (p : list op) : thread :=
  {| th_pc := PIdle; th_prog := p; th_cur := None; th_cancelled := false; th_bg := bg;
     th_inv := 0; th_pub := None; th_read := None; th_results := []; th_streams := 0 |}.

Definition init_session : session :=
  {| s_mutex := None; s_txn := None; s_starting := false; s_ended := false |}.

Definition init_globals (nsess : nat) : globals :=
  {| emutex := None; token_free := true; etxn := None; alive := true; catalog := []; version := 0;
     log := []; stored := []; store_fail := false; store_panic := false;
     sessions := repeat init_session nsess; txns := []; nstreams := 0; stream_locks := 0;
     streams_closed := false; sem_panic := false;
     now := 0; calls := [] |}.

(* progs: (is background goroutine, program) per thread *)
Definition init_state (nsess : nat) (progs : list (bool * list op)) : state :=
  {| st_g := init_globals nsess; st_threads := map (fun bp => init_thread (fst bp) (snd bp)) progs |}.

Fixpoint run_labels (c : config) (s : state) (ls : list label) : option state :=
  match ls with
  | [] => Some s
  | l :: t => match step c s l with Some s' => run_labels c s' t | None => None end
  end.
