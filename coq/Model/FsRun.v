(* FsRun.v — (1) the mapping from the plain-data rendering of
   dbkit.AtomicWriteFile produced by the translator (coq/Gen/Atomic.v, G4) to
   programs of Model/Fs.v; (2) the runner of correspondence family `fs`.
   Definitions only. *)
From Lungo.Model Require Import Base Fs.
Open Scope string_scope.

(* ------------------------------------------------------------------ *)
(* G4 items: (statement kind, arguments).  Symbols are resolved by the
   translator: "path" (the function argument), "tmp" (path + constant suffix,
   a sibling in the same directory), "dir" (filepath.Dir(path)), handles
   "h:<what was opened>". *)

Definition item : Type := (string * list string)%type.

Definition name_of_text (s : string) : option name :=
  if String.eqb s "path" then Some NPath
  else if String.eqb s "tmp" then Some NTmp
  else None.

Definition mode_of_text (s : string) : option mode :=
  if String.eqb s "check" then Some Check
  else if String.eqb s "enoent-ok" then Some EnoentOk
  else if String.eqb s "ignore" then Some IgnoreAll
  else None.

Definition file_handle (s : string) : bool :=
  String.eqb s "h:tmp" || String.eqb s "h:path".

Definition unknown_op : op := (SUnknown, Check).

Definition with_mode (o : sysop) (m : string) : op :=
  match mode_of_text m with Some md => (o, md) | None => unknown_op end.

(* a call item; [] for items without a system call *)
Definition translate_call (it : item) : list op :=
  let (k, args) := it in
  if String.eqb k "Guard" || String.eqb k "Pure" || String.eqb k "Let" then []
  else if String.eqb k "Remove" then
    match args with
    | [n; m] => match name_of_text n with Some x => [with_mode (SRemove x) m] | None => [unknown_op] end
    | _ => [unknown_op]
    end
  else if String.eqb k "OpenFile" then
    match args with
    | [n; fl; m] =>
        match name_of_text n with
        | Some x =>
            if String.eqb fl "O_CREATE|O_EXCL|O_WRONLY" then [with_mode (SOpenExcl x) m]
            else if String.eqb fl "O_CREATE|O_TRUNC|O_WRONLY" then [with_mode (SOpenTrunc x) m]
            else [unknown_op]
        | None => [unknown_op]
        end
    | _ => [unknown_op]
    end
  else if String.eqb k "Copy" then
    match args with
    | [h; m] => if file_handle h then [with_mode SWriteAll m] else [unknown_op]
    | _ => [unknown_op]
    end
  else if String.eqb k "Sync" then
    match args with
    | [h; m] => if file_handle h then [with_mode SFsync m]
                else if String.eqb h "h:dir" then [with_mode SFsyncDir m] else [unknown_op]
    | _ => [unknown_op]
    end
  else if String.eqb k "Close" then
    match args with
    | [h; m] => if file_handle h then [with_mode SClose m]
                else if String.eqb h "h:dir" then [with_mode SCloseDir m] else [unknown_op]
    | _ => [unknown_op]
    end
  else if String.eqb k "Rename" then
    match args with
    | [a; b; m] =>
        match name_of_text a, name_of_text b with
        | Some x, Some y => [with_mode (SRename x y) m]
        | _, _ => [unknown_op]
        end
    | _ => [unknown_op]
    end
  else if String.eqb k "Open" then
    match args with
    | [d; m] => if String.eqb d "dir" then [with_mode SOpenDir m] else [unknown_op]
    | _ => [unknown_op]
    end
  else [unknown_op].

Definition nat_of_text (s : string) : option nat :=
  match parse_Z s with Some z => if (z <? 0)%Z then None else Some (Z.to_nat z) | None => None end.

(* the program: "Defer [n]" refers to the n-th deferred body; "Return [nil]"
   is accepted only as the last item *)
Fixpoint translate_atomic (defers : list (list item)) (l : list item) : list stmt :=
  match l with
  | [] => []
  | (k, args) :: r =>
      if String.eqb k "Defer" then
        match args with
        | [n] =>
            match nat_of_text n with
            | Some i =>
                match nth_error defers i with
                | Some b => Defer (flat_map translate_call b) :: translate_atomic defers r
                | None => Do SUnknown Check :: translate_atomic defers r
                end
            | None => Do SUnknown Check :: translate_atomic defers r
            end
        | _ => Do SUnknown Check :: translate_atomic defers r
        end
      else if String.eqb k "Return" then
        match args, r with
        | [v], [] => if String.eqb v "nil" then [] else [Do SUnknown Check]
        | _, _ => Do SUnknown Check :: translate_atomic defers r
        end
      else map (fun o => Do (fst o) (snd o)) (translate_call (k, args)) ++ translate_atomic defers r
  end.

(* ------------------------------------------------------------------ *)
(* Runner of family `fs`.                                              *)

Definition old_image : list nat := [1; 2]%nat.
Definition new_image : list nat := [3; 4; 5]%nat.

Definition errno_text (e : errno) : string :=
  match e with ENOENT => "ENOENT" | EEXIST => "EEXIST" | EBADF => "EBADF" | EOTHER => "EOTHER" end.

Fixpoint join (sep : string) (l : list string) : string :=
  match l with
  | [] => ""
  | [x] => x
  | x :: t => x ++ sep ++ join sep t
  end.

Definition show_nat (n : nat) : string := show_Z (Z.of_nat n).

Definition cont_text (c : cont) : string :=
  match c with
  | Bytes [] => "empty"
  | Bytes l => join "." (map show_nat l)
  | Garbage => "garbage"
  end.

Definition entry_text (s : fs) (n : name) : string :=
  match dget (dvol s) n with
  | None => "absent"
  | Some i => match nth_error (inodes s) i with Some f => cont_text (vol f) | None => "dangling" end
  end.

(* fsx: run raw system calls, report each result and the final volatile view *)
Fixpoint run_raw (t : list sysop) (s : fs) (acc : list string) : list string * fs :=
  match t with
  | [] => (rev acc, s)
  | o :: r =>
      match exec s new_image o with
      | XOk s' => run_raw r s' ("ok" :: acc)
      | XErr e => run_raw r s (errno_text e :: acc)
      end
  end.

Definition atoms (l : list sexp) : option (list string) :=
  opt_mapM (fun x => match x with SAtom a => Some a | SList _ => None end) l.

Definition scen_of (a b : string) : option (option (list nat) * nat) :=
  match nat_of_text a, nat_of_text b with
  | Some o, Some st => Some ((if Nat.eqb o 0 then None else Some old_image), st)
  | _, _ => None
  end.

(* the system calls the model expects a program to make, in the strace
   vocabulary: a call on a closed handle makes no system call (os.File
   returns ErrClosed); a tolerated ENOENT shows as ":ENOENT" *)
Fixpoint expected_trace (t : list op) (s : fs) (acc : list string) : list string :=
  match t with
  | [] => rev acc
  | o :: r =>
      match exec s new_image (fst o) with
      | XOk s' => expected_trace r s' (sysop_text (fst o) :: acc)
      | XErr EBADF =>
          match snd o with
          | IgnoreAll => expected_trace r s acc
          | _ => rev (("ERR:" ++ sysop_text (fst o)) :: acc)
          end
      | XErr ENOENT =>
          match snd o with
          | Check => rev (("ERR:" ++ sysop_text (fst o)) :: acc)
          | _ => expected_trace r s ((sysop_text (fst o) ++ ":ENOENT") :: acc)
          end
      | XErr _ =>
          match snd o with
          | IgnoreAll => expected_trace r s ((sysop_text (fst o) ++ ":ERR") :: acc)
          | _ => rev (("ERR:" ++ sysop_text (fst o)) :: acc)
          end
      end
  end.

(* consecutive write(2) calls of one io.Copy are one WriteAll *)
Fixpoint collapse_writes (l : list string) : list string :=
  match l with
  | a :: ((b :: _) as t) => if String.eqb a "write" && String.eqb b "write" then collapse_writes t else a :: collapse_writes t
  | _ => l
  end.

Definition strip_suffix (suf s : string) : option string :=
  let n := String.length s in
  let m := String.length suf in
  if Nat.leb m n && String.eqb (substring (n - m) m s) suf then Some (substring 0 (n - m) s) else None.

(* an observed token as a statement of the model *)
Definition op_of_token (t : string) : op :=
  match strip_suffix ":ENOENT" t with
  | Some b => (sysop_of_text b, EnoentOk)
  | None => (sysop_of_text t, Check)
  end.

Fixpoint first_diff (a b : list string) (i : nat) : option nat :=
  match a, b with
  | [], [] => None
  | x :: s, y :: t => if String.eqb x y then first_diff s t (S i) else Some i
  | _, _ => Some i
  end.

Definition item_of_sexp (x : sexp) : option item :=
  match x with
  | SList (SAtom k :: args) =>
      match atoms args with
      | Some l =>
          match unhex k, opt_mapM unhex l with
          | Some k', Some l' => Some (k', l')
          | _, _ => None
          end
      | None => None
      end
  | _ => None
  end.

Definition items_of_sexp (l : list sexp) : option (list item) := opt_mapM item_of_sexp l.

Definition bodies_of_sexp (l : list sexp) : option (list (list item)) :=
  opt_mapM (fun x => match x with SList b => items_of_sexp b | SAtom _ => None end) l.

Definition final_durable (s : fs) : bool :=
  forallb (fun c => lres_eqb (load c) (Loaded new_image)) (crash_outcomes s).

Definition verdict_text (v : verdict) : string :=
  match v with
  | VSafe s _ => "crash=safe final=" ++ (if final_durable s then "durable" else "volatile")
                 ++ " fds=" ++ (match fd s with None => if dfd s then "leak" else "closed" | Some _ => "leak" end)
  | VUnsafe i => "crash=UNSAFE@" ++ show_nat i
  | VStuck i => "crash=STUCK@" ++ show_nat i
  end.

Definition run_fs (x : sexp) : option string :=
  match x with
  | SList [SAtom "fsx"; SList [SAtom "init"; SAtom a; SAtom b]; SList (SAtom "ops" :: toks)] =>
      match scen_of a b, atoms toks with
      | Some (old, st), Some ts =>
          let (rs, s) := run_raw (map sysop_of_text ts) (init_fs old st) [] in
          Some (join "," rs ++ " path=" ++ entry_text s NPath ++ " tmp=" ++ entry_text s NTmp)
      | _, _ => Some "BAD-CASE"
      end
  | SList [SAtom "fstrace"; SList [SAtom "scen"; SAtom a; SAtom b];
           SList (SAtom "prog" :: its); SList (SAtom "defers" :: bods); SList (SAtom "obs" :: toks)] =>
      match scen_of a b, items_of_sexp its, bodies_of_sexp bods, atoms toks with
      | Some (old, st), Some prog, Some defers, Some obs =>
          let p := translate_atomic defers prog in
          let s0 := init_fs old st in
          let want := expected_trace (success_trace p) s0 [] in
          let got := collapse_writes obs in
          let tr := match first_diff want got 0 with
                    | None => "trace=match"
                    | Some i => "trace=DIFF@" ++ show_nat i ++ ":want=" ++ join "," want
                    end in
          let v := explore (map op_of_token got) s0 (lres_of old) new_image 0 in
          Some (tr ++ " wo=" ++ (if well_ordered p then "1" else "0") ++ " " ++ verdict_text v)
      | _, _, _, _ => Some "BAD-CASE"
      end
  | _ => None
  end.
