(* MatchAux.v — helpers shared by Model/Schema.v and Model/Match.v:
   the three-valued result of a mongokit Operator (nil / ErrNotMatched / other
   error), association lists, exact readings of float64 values (math.Trunc,
   math.Floor tests, int64 range tests, int64 -> float64 rounding, math.Mod
   zero test) and utf8.RuneCountInString.  Definitions only. *)
From Lungo.Model Require Export Access.
Open Scope Z_scope.

(* ------------------------------------------------------------------ *)
(* An Operator returns `error`:  nil = Ok true, ErrNotMatched /
   ErrValidationFailed = Ok false, any other error = Err.              *)

(* Go: err := X; if err != nil { return err }; K *)
Definition and_then (r k : res bool) : res bool :=
  match r with Ok true => k | _ => r end.

(* Go: err := X; if err == ErrNotMatched { continue with K } else return err *)
Definition or_else (r k : res bool) : res bool :=
  match r with Ok false => k | _ => r end.

(* mongokit/match.go:791 matchNegate *)
Definition negate (r : res bool) : res bool :=
  match r with Ok b => Ok (negb b) | _ => r end.

Definition is_true (r : res bool) : bool :=
  match r with Ok true => true | _ => false end.

(* the loop "for item: err := op(item); ErrNotMatched -> continue; else return" followed by `rest` *)
Fixpoint first_ok (op : value -> res bool) (l : list value) (rest : res bool) : res bool :=
  match l with
  | [] => rest
  | x :: t => or_else (op x) (first_ok op t rest)
  end.

Fixpoint assoc {A} (k : string) (l : list (string * A)) : option A :=
  match l with
  | [] => None
  | (k', x) :: t => if String.eqb k' k then Some x else assoc k t
  end.

Definition class_eqb (a b : class) : bool := class_rank a =? class_rank b.

Definition is_eq (c : comparison) : bool := match c with Eq => true | _ => false end.
Definition is_lt (c : comparison) : bool := match c with Lt => true | _ => false end.
Definition is_gt (c : comparison) : bool := match c with Gt => true | _ => false end.

(* len(key) > 0 && key[0] == '$' (mongokit/process.go:61,117,122) *)
Definition is_op (k : string) : bool :=
  match k with
  | String c _ => Ascii.eqb c "$"%char
  | EmptyString => false
  end.

(* ------------------------------------------------------------------ *)
(* float64 read exactly from its bit pattern *)

Definition two52 := 4503599627370496.

Definition dbl_is_nan (bits : Z) : bool := (dbl_exp bits =? 2047) && negb (dbl_man bits =? 0).
Definition dbl_is_inf (bits : Z) : bool := (dbl_exp bits =? 2047) && (dbl_man bits =? 0).
Definition dbl_finite (bits : Z) : bool := negb (dbl_exp bits =? 2047).
(* n == 0 (both zeros) *)
Definition dbl_is_zero (bits : Z) : bool := (dbl_exp bits =? 0) && (dbl_man bits =? 0).

(* a finite double is (-1)^s * m * 2^e *)
Definition dbl_parts (bits : Z) : bool * Z * Z :=
  let e := dbl_exp bits in
  let m := dbl_man bits in
  if e =? 0 then (dbl_sign bits, m, -1074) else (dbl_sign bits, two52 + m, e - 1075).

(* floor of the magnitude, and whether the magnitude is an integer *)
Definition dbl_mag_floor (bits : Z) : Z :=
  let '(_, m, e) := dbl_parts bits in
  if 0 <=? e then m * zpow 2 e else m / zpow 2 (- e).
Definition dbl_mag_integral (bits : Z) : bool :=
  let '(_, m, e) := dbl_parts bits in
  if 0 <=? e then true else m mod zpow 2 (- e) =? 0.

(* math.Trunc(f) of a finite double, as an exact integer *)
Definition dbl_trunc (bits : Z) : Z :=
  if dbl_sign bits then - dbl_mag_floor bits else dbl_mag_floor bits.

(* !(IsNaN || IsInf || f != math.Floor(f)) *)
Definition dbl_integral (bits : Z) : bool := dbl_finite bits && dbl_mag_integral bits.

(* finite f with  f < 0  (strictly; -0.0 is not) *)
Definition dbl_negative (bits : Z) : bool :=
  dbl_sign bits && negb (dbl_is_zero bits).

(* for a finite f: !(f < float64(math.MinInt64) || f >= -float64(math.MinInt64)) *)
Definition dbl_in_int64 (bits : Z) : bool :=
  if dbl_sign bits
  then (dbl_mag_floor bits <? two63) || ((dbl_mag_floor bits =? two63) && dbl_mag_integral bits)
  else dbl_mag_floor bits <? two63.

(* the test `n != float64(int64(n))` negated.  int64(n) of a NaN, an infinity
   or an out-of-range double is implementation-defined in Go; on amd64 it is
   MinInt64, so the test passes exactly for the integral doubles inside
   [-2^63, 2^63).  (On arm64 the conversion saturates and 2^63 would pass.) *)
Definition dbl_int64_exact (bits : Z) : option Z :=
  if dbl_integral bits && dbl_in_int64 bits then Some (dbl_trunc bits) else None.

(* float64(z) for an int32/int64 z: round to nearest, ties to even; the result
   is an integer, returned exactly *)
Definition rne53 (z : Z) : Z :=
  let a := Z.abs z in
  let k := Z.log2 a - 52 in
  if (a =? 0) || (k <=? 0) then z
  else
    let p := zpow 2 k in
    let q := a / p in
    let r := a mod p in
    let half := p / 2 in
    let q' := if (half <? r) || ((r =? half) && Z.odd q) then q + 1 else q in
    Z.sgn z * (q' * p).

(* the value of an int32/int64/float64 operand after conversion to float64 *)
Definition as_double (v : value) : option xnum :=
  match v with
  | VInt32 z | VInt64 z => Some (XFin (rne53 z # 1))
  | VDouble b => Some (xnum_of_double b)
  | _ => None
  end.

Definition q_is_integer (q : Q) : bool := Z.rem (Qnum q) (Zpos (Qden q)) =? 0.

(* math.Mod(x, y) == 0 for y > 0 (possibly +Inf): math.Mod is exact, so the
   result is zero iff x/y is an integer; Mod(NaN|Inf, y) = NaN; Mod(x, Inf) = x *)
Definition fmod_is_zero (x y : xnum) : bool :=
  match x, y with
  | XFin qx, XFin qy => q_is_integer (Qmult qx (Qinv qy))
  | XFin qx, XPosInf => Qnum qx =? 0
  | _, _ => false
  end.

(* bsonkit/math.go:177 Mod(num, div), then Compare(result, int32(0)) == 0, for
   div > 0.  None: a Decimal128 operand (shopspring/decimal is not modelled). *)
Definition mod_is_zero (num div : value) : option bool :=
  match num, div with
  | (VInt32 a | VInt64 a), (VInt32 b | VInt64 b) => Some (Z.rem a b =? 0)
  | VDecimal _ _, _ | _, VDecimal _ _ => None
  | _, _ =>
      match as_double num, as_double div with
      | Some x, Some y => Some (fmod_is_zero x y)
      | _, _ => Some false    (* Mod returns Missing: Compare(Missing, 0) != 0 *)
      end
  end.

(* ------------------------------------------------------------------ *)
(* utf8.RuneCountInString: every valid sequence counts one, every other byte one *)

Definition byte_of (c : ascii) : Z := Z.of_N (N_of_ascii c).
Definition cont (b : Z) : bool := (128 <=? b) && (b <=? 191).

(* (size, lo, hi) for the first byte: size 1 = ASCII or invalid *)
Definition utf8_first (b : Z) : Z * Z * Z :=
  if b <? 194 then (1, 0, 0)
  else if b <=? 223 then (2, 128, 191)
  else if b =? 224 then (3, 160, 191)
  else if b <=? 236 then (3, 128, 191)
  else if b =? 237 then (3, 128, 159)
  else if b <=? 239 then (3, 128, 191)
  else if b =? 240 then (4, 144, 191)
  else if b <=? 243 then (4, 128, 191)
  else if b =? 244 then (4, 128, 143)
  else (1, 0, 0).

(* how many bytes the rune starting at s occupies *)
Definition rune_width (s : string) : nat :=
  match s with
  | EmptyString => 1%nat
  | String c0 t =>
      let '(size, lo, hi) := utf8_first (byte_of c0) in
      if size =? 1 then 1%nat else
      match t with
      | String c1 t1 =>
          let b1 := byte_of c1 in
          if (b1 <? lo) || (hi <? b1) then 1%nat
          else if size =? 2 then 2%nat
          else match t1 with
               | String c2 t2 =>
                   if negb (cont (byte_of c2)) then 1%nat
                   else if size =? 3 then 3%nat
                   else match t2 with
                        | String c3 _ => if cont (byte_of c3) then 4%nat else 1%nat
                        | EmptyString => 1%nat
                        end
               | EmptyString => 1%nat
               end
      | EmptyString => 1%nat
      end
  end.

(* skip = bytes of the current rune still to be consumed *)
Fixpoint rune_count_go (s : string) (skip : nat) : Z :=
  match s with
  | EmptyString => 0
  | String _ t =>
      match skip with
      | S k => rune_count_go t k
      | O => 1 + rune_count_go t (pred (rune_width s))
      end
  end.
Definition rune_count (s : string) : Z := rune_count_go s 0.
