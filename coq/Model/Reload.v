(* Reload.v — the bridge between the data-layer model (Txn.catalog: documents
   with identities, indexes with their ENTRY sets; Collection.v / Txn.v /
   Driver.v) and the file-image model (File.catalog: documents and index
   DEFINITIONS; File.v).  Executable definitions only.

   image          ~ what BuildFile keeps of a catalog: per handle the documents
                    in natural order WITHOUT their identities (Go pointers are
                    not stored) and name -> IndexConfig; entries are dropped
   build_ok_real  ~ the instance of File.v's parameter `build_ok` made of the
                    REAL index builder: mongokit.CreateIndex (new_index) +
                    Index.Build over the documents (build)
   load           ~ the mongokit side of File.BuildCatalog: fresh collections
                    (NewCollection(false)), bsonkit.NewSet(documents) — every
                    document a new object, identities numbered in order —,
                    CreateIndex + Build per stored definition
   reopen         ~ lungo.Open on the file a running engine stored: Store.Load,
                    BuildCatalog, a fresh engine without sessions.  The
                    ObjectID counter and the event clock continue: both are
                    compared by RANK in every tie to the real code *)
From Lungo.Model Require Import File.
From Lungo.Model Require Import Driver.
Open Scope Z_scope.
Local Open Scope list_scope.

Definition image_cfg (cf : iconfig) : File.index_cfg :=
  {| File.ix_key := cf_key cf; File.ix_unique := cf_unique cf;
     File.ix_partial := cf_partial cf; File.ix_expiry := cf_expiry cf |}.

Definition config_of (ic : File.index_cfg) : iconfig :=
  mkConfig (File.ix_key ic) (File.ix_unique ic) (File.ix_partial ic) (File.ix_expiry ic).

Definition image_index (ni : string * index) : string * File.index_cfg :=
  (fst ni, image_cfg (ix_config (snd ni))).

Definition image_coll (c : Collection.coll) : File.coll :=
  {| File.c_docs := map snd (Collection.c_docs c);
     File.c_indexes := map image_index (Collection.c_indexes c) |}.

Definition image_ns (hc : Txn.handle * Collection.coll) : File.handle * File.coll :=
  (fst hc, image_coll (snd hc)).

Definition image (c : Txn.catalog) : File.catalog := map image_ns (cat_ns c).

(* bsonkit.NewSet(list): identities s, s+1, ... in natural order *)
Fixpoint number (s : Z) (l : list doc) : list sdoc :=
  match l with
  | [] => []
  | d :: t => (s, d) :: number (s + 1) t
  end.

Section Reload.
  Variable matchf : doc -> doc -> res bool.

  (* mongokit.CreateIndex(config) ; index.Build(documents) — None when the
     definition is rejected, the partial filter fails on a document, or two
     documents clash under a unique index *)
  Definition rebuild (ic : File.index_cfg) (docs : list sdoc) : option index :=
    match new_index (config_of ic) with
    | Ok ix0 =>
        match build matchf ix0 docs with
        | (ix, None) => Some ix
        | (_, Some _) => None
        end
    | _ => None
    end.

  Definition build_ok_real (ic : File.index_cfg) (docs : list doc) : bool :=
    match rebuild ic (number 1 docs) with Some _ => true | None => false end.

  (* the stored definitions come from a Go map: names are distinct *)
  Fixpoint load_indexes (ixs : list (string * File.index_cfg)) (docs : list sdoc)
    : option (list (string * index)) :=
    match ixs with
    | [] => Some []
    | (n, ic) :: t =>
        match rebuild ic docs, load_indexes t docs with
        | Some ix, Some r => Some ((n, ix) :: r)
        | _, _ => None
        end
    end.

  Definition load_coll (start : Z) (fc : File.coll) : option Collection.coll :=
    let docs := number start (File.c_docs fc) in
    match load_indexes (File.c_indexes fc) docs with
    | Some ixs => Some (mkColl docs ixs)
    | None => None
    end.

  Fixpoint load_nss (start : Z) (l : File.catalog) : option (list (Txn.handle * Collection.coll)) :=
    match l with
    | [] => Some []
    | (h, fc) :: t =>
        match load_coll start fc, load_nss (start + len (File.c_docs fc)) t with
        | Some c, Some r => Some ((h, c) :: r)
        | _, _ => None
        end
    end.

  Fixpoint doc_count (l : File.catalog) : Z :=
    match l with
    | [] => 0
    | (_, fc) :: t => len (File.c_docs fc) + doc_count t
    end.

  Definition first_did : Z := 1.
  Definition next_did (l : File.catalog) : Z := first_did + doc_count l.

  Definition load (clock : Z) (l : File.catalog) : option Txn.catalog :=
    match load_nss first_did l with
    | Some nss => Some (mkCat nss clock)
    | None => None
    end.

  (* Store (BuildFile, bson.Marshal), then Open on those bytes *)
  Definition reopen (nilp : string -> bool) (ds : dstate) : option dstate :=
    match reload_g build_ok_real nilp (image (ds_cat ds)) with
    | Some l =>
        match load (cat_clock (ds_cat ds)) l with
        | Some c => Some (mkD c (mkGen (next_did l) (g_oid (ds_gen ds))) [])
        | None => None
        end
    | None => None
    end.

End Reload.
