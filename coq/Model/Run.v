(* Run.v — entry point of the executable model: one case (an S-expression
   line written by the Go harness) to the canonical text of the model's
   observable.  Used identically by the extracted OCaml driver and by the
   in-Coq vm_compute evaluation. *)
From Lungo.Model Require Import Compare.
Open Scope string_scope.

Definition bad : string := "BAD-CASE".

Definition run_sexp (x : sexp) : string :=
  match x with
  | SList [SAtom "cmp"; a; b] =>
      match value_of_sexp a, value_of_sexp b with
      | Some a', Some b' => show_Z (sign_of (compare a' b'))
      | _, _ => bad
      end
  | SList [SAtom "echo"; a] =>
      match value_of_sexp a with
      | Some a' => show_sexp (value_to_sexp a')
      | None => bad
      end
  | _ => bad
  end.

Definition run_case (line : string) : string :=
  match parse_sexp line with
  | Some x => run_sexp x
  | None => bad
  end.

(* in-Coq evaluation of a list of (case, observed) pairs: the mismatches *)
Fixpoint mismatches (cases : list (string * string)) : list (string * string * string) :=
  match cases with
  | [] => []
  | (c, o) :: t =>
      let m := run_case c in
      if String.eqb m o then mismatches t else (c, o, m) :: mismatches t
  end.
