(* Run.v — entry point of the executable model: one case (an S-expression
   line written by the Go harness) to the canonical text of the model's
   observable.  Used identically by the extracted OCaml driver and by the
   in-Coq vm_compute evaluation. *)
From Lungo.Model Require Import Compare RunAccess ApiOps RunOplog RunSpec RunSort File RunMatch Fs FsRun Stream Gridfs Project Arith RunApply RunReload EngineRun SerialRun.
From Lungo.Spec Require Import RunRef.
Open Scope string_scope.

Definition bad : string := "BAD-CASE".

(* each family contributes one runner: Some text when the case is its own *)
Definition run_cmp (x : sexp) : option string :=
  match x with
  | SList [SAtom "cmp"; a; b] =>
      match value_of_sexp a, value_of_sexp b with
      | Some a', Some b' => Some (show_Z (sign_of (Lungo.Model.Compare.compare a' b')))
      | _, _ => Some bad
      end
  | SList [SAtom "echo"; a] =>
      match value_of_sexp a with
      | Some a' => Some (show_sexp (value_to_sexp a'))
      | None => Some bad
      end
  | _ => None
  end.

Definition runners : list (sexp -> option string) :=
  [ run_cmp
  ; run_access
  ; run_api_inst
  ; run_oplog
  ; run_specdiff_inst
  ; run_sort
  ; run_codec
  ; run_file
  ; run_reload
  ; run_match
  ; run_matchref
  ; run_fs
  ; run_stream
  ; run_sched
  ; run_gridfs
  ; run_project
  ; run_num
  ; run_apply
  ; run_engine
  ; run_serial
  ].

Fixpoint first_some (rs : list (sexp -> option string)) (x : sexp) : string :=
  match rs with
  | [] => bad
  | r :: t => match r x with Some s => s | None => first_some t x end
  end.

Definition run_sexp (x : sexp) : string := first_some runners x.

Definition run_case (line : string) : string :=
  match parse_sexp line with
  | Some x => run_sexp x
  | None => bad
  end.

(* in-Coq evaluation of a list of (case, observed) pairs: the mismatches *)
Fixpoint mismatches (cases : list (string * string)) : list (string * string * string) :=
  match cases with
  | [] => []
  | (c, o) :: t =>
      let m := run_case c in
      if String.eqb m o then mismatches t else (c, o, m) :: mismatches t
  end.
