(* Arith.v — bsonkit/math.go: Add / Mul / Mod on the four BSON numeric types,
   exactly as the Go code computes them.

   int32 / int64  : Add / Mul compute the exact integer: an int32 op int32
                    result that does not fit int32 is promoted to int64
                    (narrowInt32); an int64 result that does not fit is
                    rejected (addInt64 / mulInt64 -> Missing, which Increment /
                    Multiply turn into an error).  Mod still uses Go's wrapping
                    arithmetic (wrap32, wrap64) and the truncated remainder.
   float64        : Coq.Floats.SpecFloat (pure Gallina) with prec 53, emax 1024;
                    values travel as raw bit patterns.  int -> float conversion
                    is round-to-nearest-even (binary_normalize).  math.Mod is
                    the exact fmod.  NaN bit patterns follow amd64/SSE2: an
                    invalid operation (Inf-Inf, 0*Inf) yields the "real
                    indefinite" 0xFFF8000000000000, a NaN operand is propagated
                    quieted (the left one first), math.Mod returns math.NaN() =
                    0x7FF8000000000001.
   Decimal128     : shopspring/decimal's exact (coefficient, exponent)
                    arithmetic (Add aligns to the smaller exponent, Mul adds
                    exponents, Mod is QuoRem with precision 0), then decToD128 =
                    primitive.ParseDecimal128FromBigInt.  Add / Mul use
                    decResult (failure -> Missing); Mod still uses decToD128
                    whose failure is IGNORED and yields the zero value
                    Decimal128{} (bits 0,0).
                    In Add / Mul a NaN / infinite operand next to a Decimal128
                    gives the IEEE 754 special value (nonFinite); in Mod
                    non-finite operands still collapse to the zero Decimal
                    (safeD128ToDec / safeFloatToDec).
   double x decimal: decimal.NewFromFloat (shortest round-trip rendering) is
                    not modelled: Unmodelled unless the double is zero or
                    non-finite. *)
From Coq Require Import Floats.SpecFloat.
From Lungo.Model Require Export Compare.
Open Scope Z_scope.

(* ------------------------------------------------------------------ *)
(* integers *)

Definition wrap32 (z : Z) : Z := (z + two31) mod two32 - two31.
Definition wrap64 (z : Z) : Z := (z + two63) mod two64 - two63.

(* ------------------------------------------------------------------ *)
(* float64 *)

Definition fprec := 53.
Definition femax := 1024.

Definition two52 := 4503599627370496.
Definition two51 := 2251799813685248.
Definition sign_bits (s : bool) : Z := if s then two63 else 0.
Definition inf_bits := 9218868437227405312.            (* 0x7FF0000000000000 *)
Definition nan_indefinite := 18444492273895866368.     (* 0xFFF8000000000000 *)
Definition nan_go := 9221120237041090561.              (* math.NaN(): 0x7FF8000000000001 *)

Definition sf_of_bits (b : Z) : spec_float :=
  let s := dbl_sign b in
  let e := dbl_exp b in
  let m := dbl_man b in
  if e =? 2047 then (if m =? 0 then S754_infinity s else S754_nan)
  else if e =? 0 then
    match m with
    | Zpos p => S754_finite s p (-1074)
    | _ => S754_zero s
    end
  else
    match two52 + m with
    | Zpos p => S754_finite s p (e - 1075)
    | _ => S754_nan
    end.

(* the argument is a result of binary_round: canonical mantissa *)
Definition bits_of_sf (x : spec_float) : Z :=
  match x with
  | S754_zero s => sign_bits s
  | S754_infinity s => sign_bits s + inf_bits
  | S754_nan => nan_indefinite
  | S754_finite s m e =>
      sign_bits s + (if Zpos m <? two52 then Zpos m else (e + 1075) * two52 + (Zpos m - two52))
  end.

Definition is_nan_bits (b : Z) : bool := (dbl_exp b =? 2047) && negb (dbl_man b =? 0).
Definition is_inf_bits (b : Z) : bool := (dbl_exp b =? 2047) && (dbl_man b =? 0).
Definition is_zero_bits (b : Z) : bool := (dbl_exp b =? 0) && (dbl_man b =? 0).
Definition quiet (b : Z) : Z := if (b / two51) mod 2 =? 1 then b else b + two51.

Definition fbinop (op : spec_float -> spec_float -> spec_float) (a b : Z) : Z :=
  if is_nan_bits a then quiet a
  else if is_nan_bits b then quiet b
  else bits_of_sf (op (sf_of_bits a) (sf_of_bits b)).

Definition fadd : Z -> Z -> Z := fbinop (SFadd fprec femax).
Definition fmul : Z -> Z -> Z := fbinop (SFmul fprec femax).

(* float64(int64) *)
Definition float_of_int (z : Z) : Z := bits_of_sf (binary_normalize fprec femax z 0 false).

(* math.Mod *)
Definition fmod (a b : Z) : Z :=
  if is_zero_bits b || is_inf_bits a || is_nan_bits a || is_nan_bits b then nan_go
  else
    match sf_of_bits a, sf_of_bits b with
    | S754_finite sx mx ex, S754_finite _ my ey =>
        let e := Z.min ex ey in
        let x := Zpos mx * zpow 2 (ex - e) in
        let y := Zpos my * zpow 2 (ey - e) in
        match x mod y with
        | Zpos r => bits_of_sf (binary_round fprec femax sx r e)
        | _ => sign_bits sx
        end
    | _, _ => a       (* x = +-0, or y = +-Inf : the dividend *)
    end.

(* ------------------------------------------------------------------ *)
(* shopspring/decimal: value * 10^exp *)

Definition dec : Type := Z * Z.
Definition dec_zero : dec := (0, 0).                 (* decimal.Decimal{} *)
Definition dec_of_int (z : Z) : dec := (z, 0).       (* decimal.NewFromInt *)

(* safeD128ToDec *)
Definition dec_of_d128 (h l : Z) : dec :=
  match dec_decode h l with
  | DFin c e => (c, e)
  | _ => dec_zero
  end.

(* safeFloatToDec; None: decimal.NewFromFloat of a finite non-zero double *)
Definition dec_of_float (b : Z) : option dec :=
  if is_nan_bits b || is_inf_bits b then Some dec_zero
  else if is_zero_bits b then Some (0, 0)
  else None.

(* Decimal.Add via RescalePair *)
Definition dec_add (a b : dec) : dec :=
  let '(c1, e1) := a in
  let '(c2, e2) := b in
  let e := Z.min e1 e2 in
  (c1 * zpow 10 (e1 - e) + c2 * zpow 10 (e2 - e), e).

Definition dec_mul (a b : dec) : dec :=
  let '(c1, e1) := a in
  let '(c2, e2) := b in
  (c1 * c2, e1 + e2).

(* safeDecMod: Decimal.Mod = QuoRem(d2, 0) remainder; zero divisor -> Decimal{} *)
Definition dec_mod (a b : dec) : dec :=
  let '(c1, e1) := a in
  let '(c2, e2) := b in
  if c2 =? 0 then dec_zero
  else
    let e := e1 - e2 in
    if e <? 0 then (Z.rem c1 (c2 * zpow 10 (- e)), e1)
    else (Z.rem (c1 * zpow 10 e) c2, e2).

Definition d128_maxS := 9999999999999999999999999999999999.
Definition d128_max_exp := 6111.
Definition d128_min_exp := -6176.

(* first loop of ParseDecimal128FromBigInt: too many digits *)
Fixpoint d128_shrink (fuel : nat) (bi e : Z) : res (Z * Z) :=
  if Z.abs bi <=? d128_maxS then Ok (bi, e)
  else
    match fuel with
    | O => OutOfFuel
    | S f =>
        if Z.rem bi 10 =? 0 then
          if d128_max_exp <? e + 1 then Err else d128_shrink f (Z.quot bi 10) (e + 1)
        else Err
    end.

(* second loop: subnormal exponent *)
Fixpoint d128_raise (fuel : nat) (bi e : Z) : res (Z * Z) :=
  if d128_min_exp <=? e then Ok (bi, e)
  else
    match fuel with
    | O => OutOfFuel
    | S f => if Z.rem bi 10 =? 0 then d128_raise f (Z.quot bi 10) (e + 1) else Err
    end.

(* third loop: clamped exponent *)
Fixpoint d128_clamp (fuel : nat) (bi e : Z) : res (Z * Z) :=
  if e <=? d128_max_exp then Ok (bi, e)
  else
    match fuel with
    | O => OutOfFuel
    | S f =>
        let bi' := bi * 10 in
        if d128_maxS <? Z.abs bi' then Err else d128_clamp f bi' (e - 1)
    end.

Definition digits_fuel (bi : Z) : nat := S (Z.to_nat (Z.log2 (Z.abs bi))).

(* primitive.ParseDecimal128FromBigInt: Ok words | Err (the `false` result) *)
Definition d128_of_bigint (bi e : Z) : res (Z * Z) :=
  let e0 := if bi =? 0 then Z.max d128_min_exp (Z.min d128_max_exp e) else e in
  let* (b1, e1) := d128_shrink (digits_fuel bi) bi e0 in
  let* (b2, e2) := d128_raise (digits_fuel b1) b1 e1 in
  let* (b3, e3) := d128_clamp 40 b2 e2 in
  let m := Z.abs b3 in
  Ok ((m / two64) + (e3 - d128_min_exp) * 2 ^ 49 + (if b3 <? 0 then two63 else 0), m mod two64).

(* decToD128: the error is dropped, the zero value is returned *)
Definition dec_to_d128 (d : dec) : res value :=
  match d128_of_bigint (fst d) (snd d) with
  | Ok (h, l) => Ok (VDecimal h l)
  | Err => Ok (VDecimal 0 0)
  | Panic => Panic
  | OutOfFuel => OutOfFuel
  | Unmodelled => Unmodelled
  end.

(* decResult: a result that is not representable is Missing *)
Definition dec_result (d : dec) : res value :=
  match d128_of_bigint (fst d) (snd d) with
  | Ok (h, l) => Ok (VDecimal h l)
  | Err => Ok VMissing
  | Panic => Panic
  | OutOfFuel => OutOfFuel
  | Unmodelled => Unmodelled
  end.

(* narrowInt32 / addInt64 / mulInt64 on the exact integer *)
Definition in_int32 (z : Z) : bool := (- two31 <=? z) && (z <? two31).
Definition in_int64 (z : Z) : bool := (- two63 <=? z) && (z <? two63).
Definition narrow_int32 (z : Z) : value := if in_int32 z then VInt32 z else VInt64 z.
Definition checked_int64 (z : Z) : value := if in_int64 z then VInt64 z else VMissing.

(* ------------------------------------------------------------------ *)
(* nonFinite: IEEE 754 special values in Add / Mul when a Decimal128 takes part *)

Definition d128_nan : value := VDecimal 8935141660703064064 0.        (* ParseDecimal128("NaN")       0x7C00.. *)
Definition d128_pos_inf : value := VDecimal 8646911284551352320 0.    (* ParseDecimal128("Infinity")  0x7800.. *)
Definition d128_neg_inf : value := VDecimal 17870283321406128128 0.   (* ParseDecimal128("-Infinity") 0xF800.. *)

Record shape : Type := { sh_nan : bool; sh_inf : bool; sh_neg : bool; sh_zero : bool }.

(* numberShape: None for values that are not numbers *)
Definition number_shape (v : value) : option shape :=
  match v with
  | VInt32 z | VInt64 z => Some {| sh_nan := false; sh_inf := false; sh_neg := z <? 0; sh_zero := z =? 0 |}
  | VDouble b => Some {| sh_nan := is_nan_bits b; sh_inf := is_inf_bits b; sh_neg := dbl_sign b; sh_zero := is_zero_bits b |}
  | VDecimal h l =>
      match dec_decode h l with
      | DNaN => Some {| sh_nan := true; sh_inf := false; sh_neg := false; sh_zero := false |}
      | DInf neg => Some {| sh_nan := false; sh_inf := true; sh_neg := neg; sh_zero := false |}
      | DFin c _ => Some {| sh_nan := false; sh_inf := false; sh_neg := 1 <=? h / 2 ^ 63; sh_zero := c =? 0 |}
      end
  | _ => None
  end.

Definition is_decimal_value (v : value) : bool := match v with VDecimal _ _ => true | _ => false end.

(* nonFinite(a, b, mul): Some result when a Decimal128 takes part and an
   operand is NaN or infinite *)
Definition non_finite (a b : value) (mul : bool) : option value :=
  if negb (is_decimal_value a || is_decimal_value b) then None
  else
    match number_shape a, number_shape b with
    | Some sa, Some sb =>
        if negb (sh_nan sa || sh_nan sb || sh_inf sa || sh_inf sb) then None
        else if sh_nan sa || sh_nan sb then Some d128_nan
        else if mul then
          if sh_zero sa || sh_zero sb then Some d128_nan
          else Some (if xorb (sh_neg sa) (sh_neg sb) then d128_neg_inf else d128_pos_inf)
        else
          if sh_inf sa && sh_inf sb && xorb (sh_neg sa) (sh_neg sb) then Some d128_nan
          else Some (if (sh_inf sa && sh_neg sa) || (sh_inf sb && sh_neg sb) then d128_neg_inf else d128_pos_inf)
    | _, _ => None
    end.

(* ------------------------------------------------------------------ *)
(* Add / Mul / Mod *)

Definition dec_operand (v : value) : option (option dec) :=
  (* None: not a number; Some None: unmodelled double *)
  match v with
  | VInt32 z | VInt64 z => Some (Some (dec_of_int z))
  | VDouble b => Some (dec_of_float b)
  | VDecimal h l => Some (Some (dec_of_d128 h l))
  | _ => None
  end.

Definition dec_binop (conv : dec -> res value) (op : dec -> dec -> dec) (a b : value) : res value :=
  match dec_operand a, dec_operand b with
  | Some (Some x), Some (Some y) => conv (op x y)
  | Some _, Some _ => Unmodelled
  | _, _ => Ok VMissing
  end.

(* bsonkit.Add below the nonFinite test *)
Definition add_finite (a b : value) : res value :=
  match a, b with
  | VInt32 x, VInt32 y => Ok (narrow_int32 (x + y))
  | VInt32 x, VInt64 y | VInt64 x, VInt32 y | VInt64 x, VInt64 y => Ok (checked_int64 (x + y))
  | VInt32 x, VDouble y | VInt64 x, VDouble y => Ok (VDouble (fadd (float_of_int x) y))
  | VDouble x, VInt32 y | VDouble x, VInt64 y => Ok (VDouble (fadd x (float_of_int y)))
  | VDouble x, VDouble y => Ok (VDouble (fadd x y))
  | VDecimal _ _, _ | _, VDecimal _ _ => dec_binop dec_result dec_add a b
  | _, _ => Ok VMissing
  end.

(* bsonkit.Add *)
Definition Add (a b : value) : res value :=
  match non_finite a b false with
  | Some r => Ok r
  | None => add_finite a b
  end.

(* bsonkit.Mul below the nonFinite test *)
Definition mul_finite (a b : value) : res value :=
  match a, b with
  | VInt32 x, VInt32 y => Ok (narrow_int32 (x * y))
  | VInt32 x, VInt64 y | VInt64 x, VInt32 y | VInt64 x, VInt64 y => Ok (checked_int64 (x * y))
  | VInt32 x, VDouble y | VInt64 x, VDouble y => Ok (VDouble (fmul (float_of_int x) y))
  | VDouble x, VInt32 y | VDouble x, VInt64 y => Ok (VDouble (fmul x (float_of_int y)))
  | VDouble x, VDouble y => Ok (VDouble (fmul x y))
  | VDecimal _ _, _ | _, VDecimal _ _ => dec_binop dec_result dec_mul a b
  | _, _ => Ok VMissing
  end.

(* bsonkit.Mul *)
Definition Mul (a b : value) : res value :=
  match non_finite a b true with
  | Some r => Ok r
  | None => mul_finite a b
  end.

(* the zero-divisor guard at the top of bsonkit.Mod *)
Definition zero_divisor (b : value) : bool :=
  match b with
  | VInt32 y | VInt64 y => y =? 0
  | VDecimal h l => match dec_decode h l with DFin c _ => c =? 0 | _ => false end
  | _ => false
  end.

(* bsonkit.Mod *)
Definition Mod (a b : value) : res value :=
  if zero_divisor b then Ok VMissing
  else
    match a, b with
    | VInt32 x, VInt32 y => Ok (VInt32 (wrap32 (Z.rem x y)))
    | VInt32 x, VInt64 y | VInt64 x, VInt32 y | VInt64 x, VInt64 y => Ok (VInt64 (wrap64 (Z.rem x y)))
    | VInt32 x, VDouble y | VInt64 x, VDouble y => Ok (VDouble (fmod (float_of_int x) y))
    | VDouble x, VInt32 y | VDouble x, VInt64 y => Ok (VDouble (fmod x (float_of_int y)))
    | VDouble x, VDouble y => Ok (VDouble (fmod x y))
    | VDecimal _ _, _ | _, VDecimal _ _ => dec_binop dec_to_d128 dec_mod a b
    | _, _ => Ok VMissing
    end.

(* ------------------------------------------------------------------ *)
(* runner of family `num` *)

Definition show_res_value (r : res value) : string :=
  match r with
  | Ok v => show_sexp (value_to_sexp v)
  | Err => "ERR"
  | Panic => "PANIC"
  | OutOfFuel => "OUT-OF-FUEL"
  | Unmodelled => "UNMODELLED"
  end.

Definition run_num (x : sexp) : option string :=
  match x with
  | SList [SAtom tag; a; b] =>
      let go (f : value -> value -> res value) :=
        match value_of_sexp a, value_of_sexp b with
        | Some a', Some b' => Some (show_res_value (f a' b'))
        | _, _ => Some "BAD-CASE"
        end in
      if String.eqb tag "add" then go Add
      else if String.eqb tag "mul" then go Mul
      else if String.eqb tag "mod" then go Mod
      else None
  | _ => None
  end.
