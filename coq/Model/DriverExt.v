(* DriverExt.v — the catalog-level calls of the driver API that are not part of
   `Driver.call`: Database.CreateCollection, Database.ListCollections /
   ListCollectionNames, Client.ListDatabases / ListDatabaseNames
   (database.go, client.go, Transaction.ListCollections / ListDatabases /
   Create in transaction.go) and IndexView.CreateMany (indexes.go: a loop of
   CreateOne calls that stops at the first error).

   They are added as a layer over `Driver.step` (`xstep`): an `XBase` call is
   a `Driver.call`, so every theorem about `step` carries over, and the
   invariants are lifted to histories of extended calls in
   Proofs/DriverExtProofs.v.  Definitions only. *)
From Coq Require Import List ZArith String Bool.
From Lungo.Model Require Export Driver.
Import ListNotations.
Open Scope Z_scope.
Local Open Scope list_scope.

(* one IndexModel of CreateMany *)
Record ispec : Type := mkISpec {
  is_name : string; is_key : doc; is_unique : bool; is_partial : option doc; is_expire : option Z }.

Inductive xcall : Type :=
| XBase (c : call)
| XCreateColl (sid : Z) (h : handle)
| XListColls (sid : Z) (db : string) (q : doc)
| XListDbs (sid : Z) (q : doc)
| XCreateMany (sid : Z) (h : handle) (specs : list ispec).

Inductive xreply : Type :=
| XR (r : reply)
| XNames (names : list string) (e : option ekind).   (* CreateMany: the names created before the first error *)

(* Handle.String *)
Definition handle_string (h : handle) : string := (fst h ++ "." ++ snd h)%string.

(* the specification document Transaction.ListCollections builds for a namespace *)
Definition coll_spec (h : handle) : doc :=
  [("name", VString (snd h));
   ("type", VString "collection");
   ("options", VDoc []);
   ("info", VDoc [("uuid", VString (handle_string h)); ("readOnly", VBool false)]);
   ("idIndex", VDoc [("v", VInt32 2);
                     ("key", VDoc [("_id", VInt32 1)]);
                     ("name", VString "_id_");
                     ("namespace", VString (handle_string h))])].

(* the distinct database names of a namespace list, in order of first appearance *)
Fixpoint db_names (l : list (handle * coll)) (seen : list string) : list string :=
  match l with
  | [] => []
  | (h, _) :: t =>
      if existsb (String.eqb (fst h)) seen then db_names t seen
      else fst h :: db_names t (fst h :: seen)
  end.

Definition db_empty (l : list (handle * coll)) (db : string) : bool :=
  forallb (fun hc => negb (String.eqb (fst (fst hc)) db) || match c_docs (snd hc) with [] => true | _ => false end) l.

Definition db_spec (l : list (handle * coll)) (db : string) : doc :=
  [("name", VString db); ("sizeOnDisk", VInt64 0); ("empty", VBool (db_empty l db))].

Definition by_name (a b : doc) : comparison := order a b [("name", false)].

(* Templates of specification documents as the translator reads them from the
   bson.D literals of transaction.go (Gen/Listing.v): literal leaves carry
   their BSON type, any other Go expression is kept as source text (TExpr)
   and given its value by an environment; TUnknown marks what the translator
   could not classify — in particular an untyped Go integer literal, which is
   not a BSON value. *)
Inductive tval : Type :=
| TStr (s : string)
| TBool (b : bool)
| TInt32 (z : Z)
| TInt64 (z : Z)
| TDoc (l : list (string * tval))
| TExpr (src : string)
| TUnknown (src : string).

Fixpoint inst (env : string -> option value) (t : tval) : option value :=
  match t with
  | TStr s => Some (VString s)
  | TBool b => Some (VBool b)
  | TInt32 z => Some (VInt32 z)
  | TInt64 z => Some (VInt64 z)
  | TDoc l =>
      option_map VDoc
        ((fix go (l : list (string * tval)) : option doc :=
            match l with
            | [] => Some []
            | (k, t) :: r =>
                match inst env t, go r with
                | Some v, Some d => Some ((k, v) :: d)
                | _, _ => None
                end
            end) l)
  | TExpr src => env src
  | TUnknown _ => None
  end.

Definition inst_doc (env : string -> option value) (l : list (string * tval)) : option doc :=
  match inst env (TDoc l) with Some (VDoc d) => Some d | _ => None end.

(* every leaf of a template is a BSON-typed literal or a named expression *)
Fixpoint tval_typed (t : tval) : bool :=
  match t with
  | TDoc l => (fix go (l : list (string * tval)) : bool :=
                 match l with [] => true | (_, t) :: r => tval_typed t && go r end) l
  | TUnknown _ => false
  | _ => true
  end.

(* the Go expressions of the two loops and what they evaluate to *)
Definition coll_env (h : handle) (src : string) : option value :=
  if String.eqb src "ns[1]" then Some (VString (snd h))
  else if String.eqb src "ns.String()" then Some (VString (handle_string h))
  else None.

Definition db_env (l : list (handle * coll)) (db : string) (src : string) : option value :=
  if String.eqb src "name" then Some (VString db)
  else if String.eqb src "empty" then Some (VBool (db_empty l db))
  else None.

Section DriverExt.
  Variable matchf : doc -> doc -> res bool.
  Variable applyf : doc -> doc -> doc -> bool -> list doc -> Z -> res (doc * list (string * value)).
  Variable extractf : doc -> res doc.
  Variable projectf : doc -> doc -> res doc.
  Variable now : Z.

  Notation step := (step matchf applyf extractf projectf now).

  (* mongokit.Filter(list, query, 0) followed by bsonkit.Sort on "name" *)
  Definition filter_sorted (l : list doc) (q : doc) : list doc + ekind :=
    match select (fun d => matchf d q) l 0 with
    | Ok sel => inl (stable_sort by_name sel)
    | r => inr (ekind_of_res r)
    end.

  (* Transaction.ListCollections *)
  Definition txn_list_collections (c : catalog) (db : string) (q : doc) : list doc + ekind :=
    if negb (valid_handle (db, ""%string) false) then inr EErr
    else filter_sorted (map (fun hc => coll_spec (fst hc))
                            (filter (fun hc => String.eqb (fst (fst hc)) db) (cat_ns c))) q.

  (* Transaction.ListDatabases *)
  Definition txn_list_databases (c : catalog) (q : doc) : list doc + ekind :=
    filter_sorted (map (db_spec (cat_ns c)) (db_names (cat_ns c) [])) q.

  Definition create_index_call (sid : Z) (h : handle) (sp : ispec) : call :=
    CCreateIndex sid h (is_name sp) (is_key sp) (is_unique sp) (is_partial sp) (is_expire sp).

  (* IndexView.CreateMany: CreateOne per model, each in its own transaction *)
  Fixpoint create_many (ds : dstate) (sid : Z) (h : handle) (specs : list ispec) (acc : list string)
    : dstate * xreply :=
    match specs with
    | [] => (ds, XNames acc None)
    | sp :: t =>
        let '(ds', r) := step ds (create_index_call sid h sp) in
        match r with
        | RName n => create_many ds' sid h t (acc ++ [n])
        | RErr e => (ds', XNames acc (Some e))
        | _ => (ds', XNames acc (Some EErr))
        end
    end.

  Definition xstep (ds : dstate) (x : xcall) : dstate * xreply :=
    match x with
    | XBase c => let '(ds', r) := step ds c in (ds', XR r)
    | XCreateColl sid h =>
        (* engine.Begin(ctx, true) directly: a session transaction is "nested" *)
        let '(ds', r) := use_direct ds sid (fun cat g =>
            let '(c', r) := txn_create cat h in (c', g, r)) in
        (ds', XR (match r with inr e => RErr e | inl _ => ROk end))
    | XListColls sid db q =>
        (ds, XR (match txn_list_collections (read_cat ds sid) db q with
                 | inr e => RErr e
                 | inl l => RDocs l
                 end))
    | XListDbs sid q =>
        (ds, XR (match txn_list_databases (read_cat ds sid) q with
                 | inr e => RErr e
                 | inl l => RDocs l
                 end))
    | XCreateMany sid h specs => create_many ds sid h specs []
    end.

  Fixpoint xrun (ds : dstate) (xs : list xcall) : dstate * list xreply :=
    match xs with
    | [] => (ds, [])
    | x :: t =>
        let '(ds1, r) := xstep ds x in
        let '(ds2, rs) := xrun ds1 t in
        (ds2, r :: rs)
    end.

  (* the calls of a history as extended calls *)
  Definition lift_calls (cs : list call) : list xcall := map XBase cs.

  (* listings are reads *)
  Definition x_is_listing (x : xcall) : bool :=
    match x with XListColls _ _ _ | XListDbs _ _ => true | _ => false end.

  (* the names a listing reply carries (ListCollectionNames / ListDatabaseNames) *)
  Definition names_of (l : list doc) : list value := map (fun d => Get d "name") l.
End DriverExt.
