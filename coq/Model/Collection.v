(* Collection.v — bsonkit/index.go, mongokit/index.go, bsonkit/set.go and
   mongokit/collection.go: the document set with identities, the indexes as
   sets of (key tuple, document identity) entries, and Find / Insert /
   Replace / Update / Upsert / Delete / CreateIndex / DropIndex with the exact
   order of checks.  A failing operation returns the HALF-APPLIED collection
   together with the error, as the Go code leaves it (mongokit.Collection does
   not roll back; the transaction layer must discard it).

   The operator semantics (Match, Apply, Extract) are parameters of the
   section: everything here, and every theorem about it, holds for any
   operator semantics. *)
From Lungo.Model Require Export Lists.
Open Scope Z_scope.

(* error kinds of the data layer *)
Inductive ekind : Type :=
| EErr           (* ordinary error *)
| EDup           (* "duplicate document for index": lungo.IsUniquenessError *)
| EPanic
| EFuel
| EUnmodelled.

Definition ekind_of_res {A} (r : res A) : ekind :=
  match r with
  | Ok _ => EErr | Err => EErr | Panic => EPanic | OutOfFuel => EFuel | Unmodelled => EUnmodelled
  end.

(* document identity: stands for the Go pointer *bson.D *)
Definition did := Z.
Definition sdoc := (did * doc)%type.

Record iconfig : Type := mkConfig {
  cf_key : doc;
  cf_unique : bool;
  cf_partial : option doc;
  cf_expiry : Z                 (* time.Duration in nanoseconds *)
}.

Record index : Type := mkIndex {
  ix_config : iconfig;
  ix_cols : list column;
  ix_entries : list (list value * did)   (* the btree as a set of entries *)
}.

Record coll : Type := mkColl {
  c_docs : list sdoc;                    (* bsonkit.Set: insertion order *)
  c_indexes : list (string * index)      (* map name -> index, in creation order *)
}.

(* result of a collection operation (mongokit.Result) *)
Record cresult : Type := mkResult {
  r_matched : list sdoc;
  r_modified : list sdoc;
  r_upserted : option sdoc;
  r_changes : list (list (string * value))
}.
Definition empty_result : cresult := mkResult [] [] None [].

(* ------------------------------------------------------------------ *)
(* bsonkit.Index *)

(* bsonkit.Index.tuples: Cartesian product over the columns *)
Definition column_values (d : doc) (c : column) : list value :=
  match fst (All d (fst c) true true) with
  | VArr [] => [VArr []]
  | VArr a => a
  | v => [v]
  end.

Fixpoint tuples_go (d : doc) (cols : list column) (acc : list (list value)) : list (list value) :=
  match cols with
  | [] => acc
  | c :: t =>
      let vals := column_values d c in
      tuples_go d t (flat_map (fun tp => map (fun v => tp ++ [v])%list vals) acc)
  end.

Definition tuples (cols : list column) (d : doc) : list (list value) := tuples_go d cols [[]].

Fixpoint tuple_eq (a b : list value) : bool :=
  match a, b with
  | [], [] => true
  | x :: a', y :: b' => match compare x y with Eq => tuple_eq a' b' | _ => false end
  | _, _ => false
  end.

Definition entry_eq (e f : list value * did) : bool :=
  (snd e =? snd f) && tuple_eq (fst e) (fst f).

Definition has_entry (es : list (list value * did)) (e : list value * did) : bool :=
  existsb (entry_eq e) es.

Definition has_key (es : list (list value * did)) (t : list value) : bool :=
  existsb (fun e => tuple_eq t (fst e)) es.

(* btree.Set: replace the entry that is equal under the order, else insert *)
Fixpoint set_entry (es : list (list value * did)) (e : list value * did) : list (list value * did) :=
  match es with
  | [] => [e]
  | f :: t => if entry_eq e f then e :: t else f :: set_entry t e
  end.

Definition del_entry (es : list (list value * did)) (e : list value * did) : list (list value * did) :=
  filter (fun f => negb (entry_eq e f)) es.

Definition first_tuple (ts : list (list value)) : list value :=
  match ts with t :: _ => t | [] => [] end.

(* bsonkit.Index.Add *)
Definition base_add (ix : index) (sd : sdoc) : bool * index :=
  let ts := tuples (ix_cols ix) (snd sd) in
  if has_entry (ix_entries ix) (first_tuple ts, fst sd) then (false, ix)
  else if cf_unique (ix_config ix) && existsb (has_key (ix_entries ix)) ts then (false, ix)
  else (true, mkIndex (ix_config ix) (ix_cols ix)
                      (fold_left (fun es t => set_entry es (t, fst sd)) ts (ix_entries ix))).

(* bsonkit.Index.Remove *)
Definition base_remove (ix : index) (sd : sdoc) : bool * index :=
  let ts := tuples (ix_cols ix) (snd sd) in
  if negb (has_entry (ix_entries ix) (first_tuple ts, fst sd)) then (false, ix)
  else (true, mkIndex (ix_config ix) (ix_cols ix)
                      (fold_left (fun es t => del_entry es (t, fst sd)) ts (ix_entries ix))).

Section Ops.
  Variable matchf : doc -> doc -> res bool.
  (* Apply doc query update upsert arrayFilters now *)
  Variable applyf : doc -> doc -> doc -> bool -> list doc -> Z -> res (doc * list (string * value)).
  Variable extractf : doc -> res doc.

  (* outcome of an operation: new (possibly half-applied) state + result *)
  Definition outcome (A : Type) : Type := (coll * (A + ekind))%type.

  (* mongokit.Index.Add / Remove with the partial filter gate.
     inl true/false = the Go bool; inr = error from Match *)
  Definition covered (ix : index) (d : doc) : res bool :=
    match cf_partial (ix_config ix) with
    | None => Ok true
    | Some f => matchf d f
    end.

  Definition index_add (ix : index) (sd : sdoc) : (bool * index) + ekind :=
    match covered ix (snd sd) with
    | Ok true => inl (base_add ix sd)
    | Ok false => inl (true, ix)
    | r => inr (ekind_of_res r)
    end.

  Definition index_remove (ix : index) (sd : sdoc) : (bool * index) + ekind :=
    match covered ix (snd sd) with
    | Ok true => inl (base_remove ix sd)
    | Ok false => inl (true, ix)
    | r => inr (ekind_of_res r)
    end.

  (* for name, index := range c.Indexes { index.Add(doc) }: stops at the first
     failure, keeping the indexes already touched *)
  Fixpoint add_all (ixs : list (string * index)) (sd : sdoc)
    : list (string * index) * option ekind :=
    match ixs with
    | [] => ([], None)
    | (n, ix) :: t =>
        match index_add ix sd with
        | inr e => (ixs, Some e)
        | inl (false, ix') => ((n, ix') :: t, Some EDup)
        | inl (true, ix') =>
            let '(t', e) := add_all t sd in ((n, ix') :: t', e)
        end
    end.

  Fixpoint remove_all (ixs : list (string * index)) (sd : sdoc)
    : list (string * index) * option ekind :=
    match ixs with
    | [] => ([], None)
    | (n, ix) :: t =>
        match index_remove ix sd with
        | inr e => (ixs, Some e)
        | inl (false, ix') => ((n, ix') :: t, Some EErr)
        | inl (true, ix') =>
            let '(t', e) := remove_all t sd in ((n, ix') :: t', e)
        end
    end.

  (* Replace: per index remove old, add new *)
  Fixpoint swap_all (ixs : list (string * index)) (old new : sdoc)
    : list (string * index) * option ekind :=
    match ixs with
    | [] => ([], None)
    | (n, ix) :: t =>
        match index_remove ix old with
        | inr e => (ixs, Some e)
        | inl (false, ix') => ((n, ix') :: t, Some EErr)
        | inl (true, ix') =>
            match index_add ix' new with
            | inr e => ((n, ix') :: t, Some e)
            | inl (false, ix'') => ((n, ix'') :: t, Some EDup)
            | inl (true, ix'') =>
                let '(t', e) := swap_all t old new in ((n, ix'') :: t', e)
            end
        end
    end.

  (* for _, doc := range list { for each index ... } *)
  Fixpoint remove_docs (ixs : list (string * index)) (l : list sdoc)
    : list (string * index) * option ekind :=
    match l with
    | [] => (ixs, None)
    | sd :: t =>
        match remove_all ixs sd with
        | (ixs', Some e) => (ixs', Some e)
        | (ixs', None) => remove_docs ixs' t
        end
    end.

  Fixpoint add_docs (ixs : list (string * index)) (l : list sdoc)
    : list (string * index) * option ekind :=
    match l with
    | [] => (ixs, None)
    | sd :: t =>
        match add_all ixs sd with
        | (ixs', Some e) => (ixs', Some e)
        | (ixs', None) => add_docs ixs' t
        end
    end.

  (* ---------------------------------------------------------------- *)
  (* bsonkit.Set *)

  Definition set_has (l : list sdoc) (i : did) : bool := existsb (fun sd => fst sd =? i) l.

  Definition set_replace (l : list sdoc) (old : did) (new : sdoc) : list sdoc :=
    map (fun sd => if fst sd =? old then new else sd) l.

  Definition set_remove (l : list sdoc) (i : did) : list sdoc :=
    filter (fun sd => negb (fst sd =? i)) l.

  (* ---------------------------------------------------------------- *)
  (* mongokit.Collection.Find and the shared sort/filter/skip pipeline *)

  Definition sdoc_order (cols : list column) (a b : sdoc) : comparison := order (snd a) (snd b) cols.

  Definition find_list (l : list sdoc) (query : doc) (sort : option doc) (skip limit : Z)
    : res (list sdoc) :=
    if skip <? 0 then Err else    (* collection.go:85 / :232 / :421 "skip must not be negative" (since /repo dfe0c95) *)
    let sorted_r : res (list sdoc) :=
      match sort with
      | Some s =>
          match s with
          | [] => Ok l
          | _ => bind (columns s) (fun cols => Ok (stable_sort (sdoc_order cols) l))
          end
      | None => Ok l
      end in
    let* sorted := sorted_r in
    let limit' := if 0 <? limit then limit + skip else limit in
    let* sel := select (fun sd => matchf (snd sd) query) sorted limit' in
    Ok (drop skip sel).

  Definition fail {A} (c : coll) (e : ekind) : outcome A := (c, inr e).
  Definition failr {A B} (c : coll) (r : res B) : outcome A := (c, inr (ekind_of_res r)).

  Definition coll_find (c : coll) (query : doc) (sort : option doc) (skip limit : Z)
    : outcome cresult :=
    match find_list (c_docs c) query sort skip limit with
    | Ok l => (c, inl (mkResult l [] None []))
    | r => failr c r
    end.

  (* ---------------------------------------------------------------- *)
  (* Insert.  `fresh` is the identity of the document object being inserted,
     `oid` the ObjectID primitive.NewObjectID() would produce. *)

  Definition ensure_id (d : doc) (oid : value) : res doc :=
    if is_missing (Get d "_id") then
      let* r := Put d "_id" oid true in Ok (snd r)
    else Ok d.

  Definition coll_insert (c : coll) (fresh : did) (d : doc) (oid : value) : outcome cresult :=
    match ensure_id d oid with
    | Ok d' =>
        let sd := (fresh, d') in
        match add_all (c_indexes c) sd with
        | (ixs, Some e) => fail (mkColl (c_docs c) ixs) e
        | (ixs, None) =>
            if set_has (c_docs c) fresh then fail (mkColl (c_docs c) ixs) EErr
            else (mkColl (c_docs c ++ [sd])%list ixs, inl (mkResult [] [sd] None []))
        end
    | r => failr c r
    end.

  (* ---------------------------------------------------------------- *)
  (* Replace *)

  Definition coll_replace (c : coll) (fresh : did) (query repl : doc) (sort : option doc)
    : outcome cresult :=
    match find_list (c_docs c) query sort 0 1 with
    | Ok [] => (c, inl empty_result)
    | Ok ((old :: _) as matched) =>
        let rid := Get repl "_id" in
        let prepared :=
          if is_missing rid then let* r := Put repl "_id" (Get (snd old) "_id") true in Ok (snd r)
          else if value_eqb rid (Get (snd old) "_id") then Ok repl
          else Err in
        match prepared with
        | Ok repl' =>
            let new := (fresh, repl') in
            match swap_all (c_indexes c) old new with
            | (ixs, Some e) => fail (mkColl (c_docs c) ixs) e
            | (ixs, None) =>
                if set_has (c_docs c) fresh then fail (mkColl (c_docs c) ixs) EErr
                else
                  let modified := if value_eqb (VDoc (snd old)) (VDoc repl') then [] else [new] in
                  (mkColl (set_replace (c_docs c) (fst old) new) ixs,
                   inl (mkResult matched modified None []))
            end
        | r => failr c r
        end
    | r => failr c r
    end.

  (* ---------------------------------------------------------------- *)
  (* Update.  `fresh` is the first identity for the cloned documents
     (bsonkit.CloneList allocates one new object per matched document). *)

  Fixpoint apply_list (l : list sdoc) (fresh : did) (query update : doc) (afs : list doc) (now : Z)
    : res (list sdoc * list (list (string * value))) :=
    match l with
    | [] => Ok ([], [])
    | sd :: t =>
        let* r := applyf (snd sd) query update false afs now in
        let* rest := apply_list t (fresh + 1) query update afs now in
        Ok ((fresh, fst r) :: fst rest, snd r :: snd rest)
    end.

  Fixpoint ids_unchanged (old new : list sdoc) : bool :=
    match old, new with
    | o :: old', n :: new' =>
        value_eqb (Get (snd n) "_id") (Get (snd o) "_id") && ids_unchanged old' new'
    | _, _ => true
    end.

  Fixpoint replace_docs (docs : list sdoc) (old new : list sdoc) : list sdoc :=
    match old, new with
    | o :: old', n :: new' => replace_docs (set_replace docs (fst o) n) old' new'
    | _, _ => docs
    end.

  Fixpoint modified_only (old new : list sdoc) (chs : list (list (string * value)))
    : list sdoc * list (list (string * value)) :=
    match old, new, chs with
    | o :: old', n :: new', ch :: chs' =>
        let '(m, cs) := modified_only old' new' chs' in
        if value_eqb (VDoc (snd o)) (VDoc (snd n)) then (m, cs) else (n :: m, ch :: cs)
    | _, _, _ => ([], [])
    end.

  Definition coll_update (c : coll) (fresh : did) (query update : doc) (sort : option doc)
             (skip limit : Z) (afs : list doc) (now : Z) : outcome cresult :=
    match find_list (c_docs c) query sort skip limit with
    | Ok [] => (c, inl empty_result)
    | Ok matched =>
        match apply_list matched fresh query update afs now with
        | Ok (newl, chs) =>
            if negb (ids_unchanged matched newl) then fail c EErr
            else
              match remove_docs (c_indexes c) matched with
              | (ixs, Some e) => fail (mkColl (c_docs c) ixs) e
              | (ixs, None) =>
                  match add_docs ixs newl with
                  | (ixs', Some e) => fail (mkColl (c_docs c) ixs') e
                  | (ixs', None) =>
                      let '(m, cs) := modified_only matched newl chs in
                      (mkColl (replace_docs (c_docs c) matched newl) ixs',
                       inl (mkResult matched m None cs))
                  end
              end
        | r => failr c r
        end
    | r => failr c r
    end.

  (* ---------------------------------------------------------------- *)
  (* Upsert *)

  (* the document Upsert builds before an ObjectID is generated for it *)
  Definition upsert_doc (query : doc) (repl update : option doc) (afs : list doc) (now : Z) : res doc :=
    let* seed := extractf query in
    match repl, update with
    | Some _, Some _ => Err
    | _, _ =>
        let* d1 :=
          match repl with
          | Some rp =>
              let qid := Get seed "_id" in
              let rid := Get rp "_id" in
              if negb (is_missing qid) && negb (is_missing rid) &&
                 negb (match compare rid qid with Eq => true | _ => false end)
              then Err
              else if negb (is_missing rid) then bind (Put rp "_id" rid true) (fun r => Ok (snd r))
              else if negb (is_missing qid) then bind (Put rp "_id" qid true) (fun r => Ok (snd r))
              else Ok rp
          | None => Ok seed
          end in
        match update with
        | Some u => bind (applyf d1 query u true afs now) (fun r => Ok (fst r))
        | None => Ok d1
        end
    end.

  Definition coll_upsert (c : coll) (fresh : did) (query : doc) (repl update : option doc)
             (afs : list doc) (oid : value) (now : Z) : outcome cresult :=
    match bind (upsert_doc query repl update afs now) (fun d2 => ensure_id d2 oid) with
    | Ok d3 =>
        let sd := (fresh, d3) in
        match add_all (c_indexes c) sd with
        | (ixs, Some e) => fail (mkColl (c_docs c) ixs) e
        | (ixs, None) =>
            if set_has (c_docs c) fresh then fail (mkColl (c_docs c) ixs) EErr
            else (mkColl (c_docs c ++ [sd])%list ixs, inl (mkResult [] [] (Some sd) []))
        end
    | r => failr c r
    end.

  (* whether Upsert called primitive.NewObjectID() (also when it failed later) *)
  Definition upsert_generates (query : doc) (repl update : option doc) (afs : list doc) (now : Z) : bool :=
    match upsert_doc query repl update afs now with
    | Ok d2 => is_missing (Get d2 "_id")
    | _ => false
    end.

  (* ---------------------------------------------------------------- *)
  (* Delete *)

  Definition coll_delete (c : coll) (query : doc) (sort : option doc) (skip limit : Z)
    : outcome cresult :=
    match find_list (c_docs c) query sort skip limit with
    | Ok matched =>
        match remove_docs (c_indexes c) matched with
        | (ixs, Some e) => fail (mkColl (c_docs c) ixs) e
        | (ixs, None) =>
            (mkColl (fold_left (fun docs sd => set_remove docs (fst sd)) matched (c_docs c)) ixs,
             inl (mkResult matched [] None []))
        end
    | r => failr c r
    end.

  (* ---------------------------------------------------------------- *)
  (* indexes *)

  Definition dir_text (rev : bool) : string := if rev then "-1" else "1".

  (* IndexConfig.Name *)
  Fixpoint name_segments (cols : list column) : list string :=
    match cols with
    | [] => []
    | (p, rev) :: t => p :: dir_text rev :: name_segments t
    end.

  Fixpoint join_with (sep : string) (l : list string) : string :=
    match l with
    | [] => ""
    | [s] => s
    | s :: t => s ++ sep ++ join_with sep t
    end.

  Definition config_name (cf : iconfig) : res string :=
    let* cols := columns (cf_key cf) in Ok (join_with "_" (name_segments cols)).

  Definition partial_doc (p : option doc) : doc := match p with Some d => d | None => [] end.

  (* IndexConfig.Equal *)
  Definition config_equal (a b : iconfig) : bool :=
    match compare (VDoc (cf_key a)) (VDoc (cf_key b)) with
    | Eq =>
        Bool.eqb (cf_unique a) (cf_unique b) &&
        match compare (VDoc (partial_doc (cf_partial a))) (VDoc (partial_doc (cf_partial b))) with
        | Eq => cf_expiry a =? cf_expiry b
        | _ => false
        end
    | _ => false
    end.

  (* mongokit.CreateIndex *)
  (* a key path with a segment that starts with '$' is rejected *)
  Definition dollar_segment (k : string) : bool :=
    existsb (fun s => match s with String "$" _ => true | _ => false end) (split_path k).

  Definition new_index (cf : iconfig) : res index :=
    match cf_key cf with
    | [] => Err
    | _ =>
        let* cols := columns (cf_key cf) in
        if existsb (fun col => dollar_segment (fst col)) cols then Err
        else if (0 <? cf_expiry cf) && (1 <? len (cf_key cf)) then Err
        else Ok (mkIndex cf cols [])
    end.

  Fixpoint find_index (ixs : list (string * index)) (n : string) : option index :=
    match ixs with
    | [] => None
    | (m, ix) :: t => if String.eqb m n then Some ix else find_index t n
    end.

  Fixpoint set_index (ixs : list (string * index)) (n : string) (ix : index) : list (string * index) :=
    match ixs with
    | [] => [(n, ix)]
    | (m, jx) :: t => if String.eqb m n then (n, ix) :: t else (m, jx) :: set_index t n ix
    end.

  (* Index.Build *)
  Fixpoint build (ix : index) (l : list sdoc) : index * option ekind :=
    match l with
    | [] => (ix, None)
    | sd :: t =>
        match index_add ix sd with
        | inr e => (ix, Some e)
        | inl (false, ix') => (ix', Some EDup)
        | inl (true, ix') => build ix' t
        end
    end.

  Definition coll_create_index (c : coll) (name : string) (cf : iconfig) : outcome string :=
    let named : res string := match name with EmptyString => config_name cf | _ => Ok name end in
    match named with
    | Ok n =>
        match find_index (c_indexes c) n with
        | Some ix =>
            if config_equal cf (ix_config ix) then (c, inl n) else fail c EErr
        | None =>
            if existsb (fun ni => match compare (VDoc (cf_key cf)) (VDoc (cf_key (ix_config (snd ni)))) with
                                  | Eq => true | _ => false end) (c_indexes c)
            then fail c EErr
            else
              match new_index cf with
              | Ok ix =>
                  match build ix (c_docs c) with
                  | (ix', Some e) => fail (mkColl (c_docs c) (set_index (c_indexes c) n ix')) e
                  | (ix', None) => (mkColl (c_docs c) (set_index (c_indexes c) n ix'), inl n)
                  end
              | r => failr c r
              end
        end
    | r => failr c r
    end.

  (* DropIndex: the list of dropped names *)
  Definition coll_drop_index (c : coll) (name : string) : outcome (list string) :=
    match name with
    | EmptyString =>
        let keep := filter (fun ni => String.eqb (fst ni) "_id_") (c_indexes c) in
        let dropped := filter (fun ni => negb (String.eqb (fst ni) "_id_")) (c_indexes c) in
        (mkColl (c_docs c) keep, inl (map fst dropped))
    | _ =>
        if String.eqb name "_id_" then fail c EErr
        else
          match find_index (c_indexes c) name with
          | None => fail c EErr
          | Some _ =>
              (mkColl (c_docs c) (filter (fun ni => negb (String.eqb (fst ni) name)) (c_indexes c)),
               inl [name])
          end
    end.

  (* NewCollection(idIndex) *)
  Definition id_config : iconfig := mkConfig [("_id", VInt32 1)] true None 0.
  Definition id_index : index := mkIndex id_config [("_id", false)] [].
  Definition new_collection (id_idx : bool) : coll :=
    mkColl [] (if id_idx then [("_id_", id_index)] else []).

End Ops.
