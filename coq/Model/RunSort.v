(* RunSort.v — runner of family `sortdist` (C13): mongokit.Sort,
   mongokit.Distinct and Collection.Find on a list of documents.

     (sort (<doc>…) <sortspec>)                 -> positions of the sorted list | ERR
     (distinct (<doc>…) xPATH)                  -> the distinct values, canonical form
     (find (<doc>…) <filter> <sortspec|NIL> skip limit)
                                                -> positions of the result | ERR | PANIC

   A document is identified by its position in the input list (the Go side
   maps result pointers back to positions).

   Distinct values are printed in a CANONICAL form: Go's sort.Slice is
   unstable, so which of several BSON-equal values of different numeric type
   survives de-duplication is unspecified.  Numbers are printed as their
   exact reduced rational `(q num den)` / `NaN` / `+Inf` / `-Inf`, recursively
   inside arrays and documents; Missing prints as null.

   The matcher is the full model Model/Match.v. *)
From Lungo.Model Require Import Collection Match.
Open Scope string_scope.

Definition sort_match := Match.

(* ---------------- canonical form of a value ---------------- *)

Definition canon_num (x : xnum) : sexp :=
  match x with
  | XNaN => SAtom "NaN"
  | XNegInf => SAtom "-Inf"
  | XPosInf => SAtom "+Inf"
  | XFin q => let r := Qred q in
              SList [SAtom "q"; SAtom (show_Z (Qnum r)); SAtom (show_Z (Zpos (Qden r)))]
  end.

Fixpoint canon (v : value) : sexp :=
  match v with
  | VMissing => SAtom "N"
  | VDoc d =>
      SList (SAtom "D" ::
             (fix go (d : list (string * value)) : list sexp :=
                match d with
                | [] => []
                | (k, x) :: t => SList [SAtom (hex k); canon x] :: go t
                end) d)
  | VArr a =>
      SList (SAtom "A" ::
             (fix go (a : list value) : list sexp :=
                match a with
                | [] => []
                | x :: t => canon x :: go t
                end) a)
  | _ =>
      match numval v with
      | Some x => canon_num x
      | None => value_to_sexp v
      end
  end.

(* ---------------- parsing ---------------- *)

Definition sd_docs_of (x : sexp) : option (list doc) :=
  match x with SList l => opt_mapM doc_of_sexp l | _ => None end.

Definition sd_z_of (x : sexp) : option Z := match x with SAtom s => parse_Z s | _ => None end.

Definition sd_optdoc_of (x : sexp) : option (option doc) :=
  match x with
  | SAtom "NIL" => Some None
  | _ => option_map Some (doc_of_sexp x)
  end.

Fixpoint number_from (i : Z) (l : list doc) : list sdoc :=
  match l with
  | [] => []
  | d :: t => (i, d) :: number_from (i + 1)%Z t
  end.

Definition show_ids (l : list sdoc) : string :=
  show_sexp (SList (map (fun sd => SAtom (show_Z (fst sd))) l)).

Definition show_outcome {A} (show : A -> string) (r : res A) : string :=
  match r with
  | Ok x => show x
  | Err => "ERR"
  | Panic => "PANIC"
  | OutOfFuel => "FUEL"
  | Unmodelled => "UNMODELLED"
  end.

(* mongokit.Sort: Columns, then the stable sort *)
Definition sort_list (l : list sdoc) (spec : doc) : res (list sdoc) :=
  let* cols := columns spec in Ok (stable_sort (sdoc_order cols) l).

Definition run_sort (x : sexp) : option string :=
  match x with
  | SList [SAtom "sort"; ds; spec] =>
      match sd_docs_of ds, doc_of_sexp spec with
      | Some ds', Some spec' => Some (show_outcome show_ids (sort_list (number_from 0 ds') spec'))
      | _, _ => Some "BAD-CASE"
      end
  | SList [SAtom "distinct"; ds; SAtom p] =>
      match sd_docs_of ds, unhex p with
      | Some ds', Some p' => Some (show_sexp (SList (map canon (distinct ds' p'))))
      | _, _ => Some "BAD-CASE"
      end
  | SList [SAtom "find"; ds; q; so; sk; li] =>
      match sd_docs_of ds, doc_of_sexp q, sd_optdoc_of so, sd_z_of sk, sd_z_of li with
      | Some ds', Some q', Some so', Some sk', Some li' =>
          Some (show_outcome show_ids (find_list sort_match (number_from 0 ds') q' so' sk' li'))
      | _, _, _, _, _ => Some "BAD-CASE"
      end
  | _ => None
  end.
