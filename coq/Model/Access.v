(* Access.v — bsonkit/path.go and bsonkit/access.go: paths, Get/All/Put/Unset,
   Increment/Multiply/Push/Pop.

   A Go path string is modelled by its list of dot-separated segments
   (split_path).  bsonkit.PathEnd ("\x00") corresponds to the empty list; the
   Go check `path == ""` (an empty trailing segment, e.g. "a." or "") to the
   list [""].  Path strings containing a NUL byte are outside the model. *)
From Lungo.Model Require Export Compare.
Open Scope Z_scope.

(* ------------------------------------------------------------------ *)
(* paths *)

(* split at every '.' : "a.b" -> ["a";"b"], "" -> [""], "a." -> ["a";""] *)
Fixpoint split_go (s : string) (cur : string) : list string :=
  match s with
  | EmptyString => [string_rev cur]
  | String c t =>
      if Ascii.eqb c "."%char then string_rev cur :: split_go t EmptyString
      else split_go t (String c cur)
  end.

Definition path := list string.
Definition split_path (s : string) : path := split_go s EmptyString.

Fixpoint join_path (p : path) : string :=
  match p with
  | [] => ""
  | [s] => s
  | s :: t => s ++ "." ++ join_path t
  end.

Definition is_digit (c : ascii) : bool :=
  let n := N_of_ascii c in (48 <=? n)%N && (n <=? 57)%N.

Fixpoint all_digits (s : string) : bool :=
  match s with
  | EmptyString => true
  | String c t => is_digit c && all_digits t
  end.

(* strconv.Atoi on a string of digits: fails on int64 overflow *)
Definition atoi_digits (s : string) : option Z :=
  match s with
  | EmptyString => None
  | _ =>
      if all_digits s then
        match parse_nat_go s 0 with
        | Some n => if n <? two63 then Some n else None
        | None => None
        end
      else None
  end.

(* bsonkit.ParseIndex: begins with a digit and Atoi succeeds *)
Definition parse_index (s : string) : option Z := atoi_digits s.

(* strconv.Atoi as used by put on arrays: optional sign *)
Definition atoi (s : string) : option Z :=
  match s with
  | String "+"%char t => atoi_digits t
  | String "-"%char t => option_map Z.opp (atoi_digits t)
  | _ => atoi_digits s
  end.

(* bsonkit.IndexedPath: some segment parses as an index *)
Definition indexed_path (p : path) : bool :=
  existsb (fun s => match parse_index s with Some _ => true | None => false end) p.

(* the Go check `path == ""` *)
Definition empty_path (p : path) : bool :=
  match p with
  | [EmptyString] => true
  | _ => false
  end.

(* ------------------------------------------------------------------ *)
(* get / All *)

Definition is_missing (v : value) : bool :=
  match v with VMissing => true | _ => false end.

Fixpoint lookup (d : list (string * value)) (k : string) : option value :=
  match d with
  | [] => None
  | (k', v) :: t => if String.eqb k' k then Some v else lookup t k
  end.

(* bsonkit.get(v, path, collect, compact) : (value, nested) *)
Fixpoint get (v : value) (p : path) (collect compact : bool) {struct v} : value * bool :=
  match p with
  | [] => (v, false)
  | key :: rest =>
      if empty_path p then (VMissing, false) else
      match v with
      | VDoc d =>
          (fix find (d : list (string * value)) : value * bool :=
             match d with
             | [] => (VMissing, false)
             | (k, x) :: t => if String.eqb k key then get x rest collect compact else find t
             end) d
      | VArr a =>
          let indexed :=
            match parse_index key with
            | Some i =>
                (fix nth (l : list value) (i : Z) : option (value * bool) :=
                   match l with
                   | [] => None
                   | x :: t => if i =? 0 then Some (get x rest collect compact) else nth t (i - 1)
                   end) a i
            | None => None
            end in
          match indexed with
          | Some r => r
          | None =>
              if collect then
                (VArr ((fix coll (l : list value) : list value :=
                          match l with
                          | [] => []
                          | x :: t =>
                              let '(val, nested) := get x p collect compact in
                              if is_missing val then
                                if compact then coll t else val :: coll t
                              else
                                match val with
                                | VArr inner => if nested && compact then (inner ++ coll t)%list else val :: coll t
                                | _ => val :: coll t
                                end
                          end) a), true)
              else (VMissing, false)
          end
      | _ => (VMissing, false)
      end
  end.

(* bsonkit.Get *)
Definition get_path (d : doc) (p : path) : value := fst (get (VDoc d) p false false).
Definition Get (d : doc) (ps : string) : value := get_path d (split_path ps).

(* bsonkit.All *)
Definition all_path (d : doc) (p : path) (compact merge : bool) : value * bool :=
  let '(v, nested) := get (VDoc d) p true compact in
  if negb nested || negb merge then (v, nested)
  else
    match v with
    | VArr a =>
        (VArr (flat_map (fun item => match item with VArr x => x | _ => [item] end) a), nested)
    | _ => (v, nested)
    end.
Definition All (d : doc) (ps : string) (compact merge : bool) : value * bool :=
  all_path d (split_path ps) compact merge.

(* ------------------------------------------------------------------ *)
(* put / Unset *)

(* put(Missing, path, value): the chain of fresh embedded documents *)
Fixpoint put_new (p : path) (nv : value) : option value :=
  match p with
  | [] => Some nv
  | key :: rest =>
      if empty_path p then None else
      match put_new rest nv with
      | Some inner => Some (VDoc [(key, inner)])
      | None => None
      end
  end.

Fixpoint replace_nth (l : list value) (i : Z) (x : value) : list value :=
  match l with
  | [] => []
  | y :: t => if i =? 0 then x :: t else y :: replace_nth t (i - 1) x
  end.

Definition len {A} (l : list A) : Z := Z.of_nat (List.length l).

Fixpoint repeat_null (n : nat) : list value :=
  match n with O => [] | S k => VNull :: repeat_null k end.

(* access.go:113 maxArrayBackfill: Put appends at most this many nulls to reach
   an index beyond the end of an array *)
Definition max_array_backfill : Z := 1500000.

(* bsonkit.put(v, path, value, prepend, set): None = (_, false); Some (old, v')
   where v' is what `set` receives for this position (VMissing = removed).
   `value = VMissing` is Unset. *)
Fixpoint put (v : value) (p : path) (nv : value) (prepend : bool) {struct v}
  : option (value * value) :=
  match p with
  | [] => Some (v, nv)
  | key :: rest =>
      if empty_path p then None else
      match v with
      | VDoc d =>
          let existing :=
            (fix upd (d : list (string * value)) : option (option (value * list (string * value))) :=
               (* None: key absent; Some None: nested put failed; Some (Some (old, d')) *)
               match d with
               | [] => None
               | (k, x) :: t =>
                   if String.eqb k key then
                     match put x rest nv prepend with
                     | None => Some None
                     | Some (old, x') =>
                         if is_missing x' then Some (Some (old, t))
                         else Some (Some (old, (k, x') :: t))
                     end
                   else
                     match upd t with
                     | None => None
                     | Some None => Some None
                     | Some (Some (old, t')) => Some (Some (old, (k, x) :: t'))
                     end
               end) d in
          match existing with
          | Some None => None
          | Some (Some (old, d')) => Some (old, VDoc d')
          | None =>
              if is_missing nv then None
              else
                match put_new rest nv with
                | None => None
                | Some inner =>
                    if prepend then Some (VMissing, VDoc ((key, inner) :: d))
                    else Some (VMissing, VDoc (d ++ [(key, inner)])%list)
                end
          end
      | VArr a =>
          match atoi key with
          | None => None
          | Some index =>
              if index <? 0 then None
              else if index <? len a then
                let r :=
                  (fix nth (l : list value) (i : Z) : option (value * value) :=
                     match l with
                     | [] => None
                     | x :: t => if i =? 0 then put x rest nv prepend else nth t (i - 1)
                     end) a index in
                match r with
                | None => None
                | Some (old, x') =>
                    Some (old, VArr (replace_nth a index (if is_missing x' then VNull else x')))
                end
              else if is_missing nv then None
              else if max_array_backfill <? index - len a then None   (* access.go:238 (since /repo ba43a99) *)
              else
                match put_new rest nv with
                | None => None
                | Some inner =>
                    Some (VMissing, VArr (a ++ repeat_null (Z.to_nat (index - len a)) ++ [inner])%list)
                end
          end
      | VMissing =>
          if is_missing nv then None
          else
            match put_new rest nv with
            | None => None
            | Some inner => Some (VMissing, VDoc [(key, inner)])
            end
      | _ => None
      end
  end.

(* bsonkit.Put: Err when the value is Missing or the path cannot be created;
   Ok (previous value, new document) otherwise *)
Definition put_path (d : doc) (p : path) (v : value) (prepend : bool) : res (value * doc) :=
  if is_missing v then Err
  else
    match put (VDoc d) p v prepend with
    | Some (old, VDoc d') => Ok (old, d')
    | Some (_, _) => Panic        (* top-level setter asserts bson.D *)
    | None => Err
    end.
Definition Put (d : doc) (ps : string) (v : value) (prepend : bool) : res (value * doc) :=
  put_path d (split_path ps) v prepend.

(* bsonkit.Unset: returns the removed value (Missing if nothing was removed) *)
Definition unset_path (d : doc) (p : path) : value * doc :=
  match put (VDoc d) p VMissing false with
  | Some (old, VDoc d') => (old, d')
  | _ => (VMissing, d)
  end.
Definition Unset (d : doc) (ps : string) : value * doc := unset_path d (split_path ps).
