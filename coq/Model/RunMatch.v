(* RunMatch.v — runner of family `match`: case (match <doc> <filter-doc>) ->
   T | F | ERR | UNMODELLED.  UNMODELLED is decided syntactically, by the same
   rule as harness/fam_match.go:unmodelledSyn, before the model is run. *)
From Lungo.Model Require Import Match.
Open Scope string_scope.

(* does any (key, value) entry of a document nested anywhere in v satisfy p *)
Fixpoint any_entry (p : string -> value -> bool) (v : value) : bool :=
  match v with
  | VDoc d =>
      (fix go (d : list (string * value)) : bool :=
         match d with
         | [] => false
         | (k, x) :: t => p k x || any_entry p x || go t
         end) d
  | VArr a =>
      (fix go (a : list value) : bool :=
         match a with
         | [] => false
         | x :: t => any_entry p x || go t
         end) a
  | _ => false
  end.

Fixpoint has_decimal (v : value) : bool :=
  match v with
  | VDecimal _ _ => true
  | VDoc d =>
      (fix go (d : list (string * value)) : bool :=
         match d with [] => false | (_, x) :: t => has_decimal x || go t end) d
  | VArr a =>
      (fix go (a : list value) : bool :=
         match a with [] => false | x :: t => has_decimal x || go t end) a
  | _ => false
  end.

Definition huge_double (v : value) : bool :=
  match v with
  | VDouble bits => dbl_finite bits && (two64 <=? dbl_mag_floor bits)%Z
  | _ => false
  end.

Definition unmodelled_syn (d f : value) : bool :=
  any_entry (fun k x =>
               String.eqb k "pattern" || String.eqb k "patternProperties"
               || (String.eqb k "multipleOf"
                   && (match x with VDecimal _ _ => true | _ => false end || has_decimal d))
               || (String.prefix "$bits" k
                   && match x with VArr items => existsb huge_double items | _ => false end))
            f.

Definition run_match (x : sexp) : option string :=
  match x with
  | SList [SAtom "match"; d; f] =>
      match doc_of_sexp d, doc_of_sexp f with
      | Some d', Some f' =>
          if unmodelled_syn (VDoc d') (VDoc f') then Some "UNMODELLED"
          else
            match Match d' f' with
            | Ok true => Some "T"
            | Ok false => Some "F"
            | Err => Some "ERR"
            | Panic => Some "PANIC"
            | OutOfFuel => Some "OUT-OF-FUEL"
            | Unmodelled => Some "UNMODELLED-DYNAMIC"
            end
      | _, _ => Some "BAD-CASE"
      end
  | _ => None
  end.
