(* RunAccess.v — runners of family `access` (bsonkit Get/All/Put/Unset). *)
From Lungo.Model Require Import Access.
Open Scope string_scope.

Definition bool_of_sexp (x : sexp) : option bool :=
  match x with
  | SAtom "T" => Some true
  | SAtom "F" => Some false
  | _ => None
  end.

Definition show_bool (b : bool) : string := if b then "T" else "F".
Definition show_value (v : value) : string := show_sexp (value_to_sexp v).

Definition run_access (x : sexp) : option string :=
  match x with
  | SList [SAtom "get"; d; SAtom p] =>
      match doc_of_sexp d, unhex p with
      | Some d', Some p' => Some (show_value (Get d' p'))
      | _, _ => Some "BAD-CASE"
      end
  | SList [SAtom "all"; d; SAtom p; c; m] =>
      match doc_of_sexp d, unhex p, bool_of_sexp c, bool_of_sexp m with
      | Some d', Some p', Some c', Some m' =>
          let '(v, n) := All d' p' c' m' in
          Some ("(" ++ show_value v ++ " " ++ show_bool n ++ ")")
      | _, _, _, _ => Some "BAD-CASE"
      end
  | SList [SAtom "put"; d; SAtom p; v; pre] =>
      match doc_of_sexp d, unhex p, value_of_sexp v, bool_of_sexp pre with
      | Some d', Some p', Some v', Some pre' =>
          match Put d' p' v' pre' with
          | Ok (old, nd) => Some ("(" ++ show_value old ++ " " ++ show_value (VDoc nd) ++ ")")
          | Err => Some "ERR"
          | Panic => Some "PANIC"
          | _ => Some "UNMODELLED"
          end
      | _, _, _, _ => Some "BAD-CASE"
      end
  | SList [SAtom "unset"; d; SAtom p] =>
      match doc_of_sexp d, unhex p with
      | Some d', Some p' =>
          let '(old, nd) := Unset d' p' in
          Some ("(" ++ show_value old ++ " " ++ show_value (VDoc nd) ++ ")")
      | _, _ => Some "BAD-CASE"
      end
  | _ => None
  end.
