(* Commit.v — small executable model of /repo/engine.go:Engine.Commit as an
   interpreter for the ordered list of its significant statements (the list is
   regenerated from the source by the translator, G5), and the checker
   `commit_ok` whose soundness is proved in Proofs/CommitProofs.v.
   Definitions only. *)
From Lungo.Model Require Import Base.
Open Scope list_scope.

Inductive commit_stmt : Type :=
| CLock              (* e.mutex.Lock() *)
| CDeferUnlock       (* defer e.mutex.Unlock() *)
| CCheckAlive        (* if !e.tomb.Alive() { return ErrEngineClosed } *)
| CCheckTxnNil       (* if e.txn == nil { return error } *)
| CCheckTxnMatch     (* if e.txn != txn { return error } *)
| CDeferRelease      (* defer e.token.Release() *)
| CUnsetTxn          (* e.txn = nil *)
| CCheckDirty        (* if !txn.Dirty() { return nil } *)
| CClean             (* txn.Clean(...): touches the transaction's own catalog only *)
| CStore             (* err := e.store.Store(txn.Catalog()) *)
| CReturnOnStoreErr  (* if err != nil { return err } *)
| CPublish           (* e.catalog = txn.Catalog() *)
| CBroadcast         (* signal every stream *)
| CReturnNil         (* return nil *)
| CUnknown.          (* anything the translator did not recognise *)

(* what the rest of the system can see happen *)
Inductive cev : Type :=
| EvStore (cat seen : nat)   (* Store(cat) called while the committed catalog was `seen` *)
| EvPublish (cat : nat)
| EvBroadcast
| EvRelease.

Record eng : Type := mkeng {
  alive : bool;
  etxn : option nat;     (* identity of the active transaction *)
  token : bool;          (* the write token is held *)
  committed : nat;       (* identity of the catalog visible to all clients *)
  locked : bool;         (* e.mutex *)
  elog : list cev
}.

Record cin : Type := mkcin {
  c_txn : nat;           (* the transaction passed to Commit *)
  c_cat : nat;           (* txn.Catalog() *)
  c_dirty : bool;
  c_store_ok : bool      (* does Store return nil? *)
}.

Inductive cres : Type := RNil | RClosed | RNoTxn | RMismatch | RStoreErr | RStuck.

Inductive cdefer : Type := DUnlock | DRelease.

Fixpoint run_defers (ds : list cdefer) (e : eng) : eng :=
  match ds with
  | [] => e
  | DUnlock :: r => run_defers r (mkeng (alive e) (etxn e) (token e) (committed e) false (elog e))
  | DRelease :: r => run_defers r (mkeng (alive e) (etxn e) false (committed e) (locked e) (elog e ++ [EvRelease]))
  end.

Definition add_log (e : eng) (x : cev) : eng :=
  mkeng (alive e) (etxn e) (token e) (committed e) (locked e) (elog e ++ [x]).

(* ds: deferred calls, most recent first; err: the variable `err` is non-nil *)
Fixpoint crun (l : list commit_stmt) (i : cin) (e : eng) (ds : list cdefer) (err : bool) : cres * eng :=
  match l with
  | [] => (RNil, run_defers ds e)
  | s :: r =>
      match s with
      | CLock =>
          if locked e then (RStuck, e)
          else crun r i (mkeng (alive e) (etxn e) (token e) (committed e) true (elog e)) ds err
      | CDeferUnlock => crun r i e (DUnlock :: ds) err
      | CCheckAlive => if alive e then crun r i e ds err else (RClosed, run_defers ds e)
      | CCheckTxnNil =>
          match etxn e with
          | None => (RNoTxn, run_defers ds e)
          | Some _ => crun r i e ds err
          end
      | CCheckTxnMatch =>
          match etxn e with
          | Some t => if Nat.eqb t (c_txn i) then crun r i e ds err else (RMismatch, run_defers ds e)
          | None => (RMismatch, run_defers ds e)
          end
      | CDeferRelease => crun r i e (DRelease :: ds) err
      | CUnsetTxn => crun r i (mkeng (alive e) None (token e) (committed e) (locked e) (elog e)) ds err
      | CCheckDirty => if c_dirty i then crun r i e ds err else (RNil, run_defers ds e)
      | CClean => crun r i e ds err
      | CStore => crun r i (add_log e (EvStore (c_cat i) (committed e))) ds (negb (c_store_ok i))
      | CReturnOnStoreErr => if err then (RStoreErr, run_defers ds e) else crun r i e ds err
      | CPublish =>
          crun r i (mkeng (alive e) (etxn e) (token e) (c_cat i) (locked e) (elog e ++ [EvPublish (c_cat i)])) ds err
      | CBroadcast => crun r i (add_log e EvBroadcast) ds err
      | CReturnNil => (RNil, run_defers ds e)
      | CUnknown => (RStuck, e)
      end
  end.

Definition commit (l : list commit_stmt) (i : cin) (e : eng) : cres * eng := crun l i e [] false.

(* Engine.Begin, as far as the token is concerned *)
Definition begin_txn (e : eng) (t : nat) : option eng :=
  if alive e && negb (token e) && match etxn e with None => true | Some _ => false end
  then Some (mkeng (alive e) (Some t) true (committed e) (locked e) (elog e))
  else None.

(* ------------------------------------------------------------------ *)
(* The checker: phases of the accepted statement order.                *)

Inductive cphase : Type :=
| K0          (* entry *)
| K1          (* mutex held *)
| K2          (* unlock deferred *)
| K3          (* engine known alive *)
| K3n         (* ... and e.txn known non-nil *)
| K4          (* e.txn known to be the transaction being committed *)
| K5r         (* token release deferred, e.txn still set *)
| K5u         (* e.txn unset, release not yet deferred *)
| K6          (* release deferred and e.txn unset *)
| K7          (* ... and the transaction is known dirty *)
| K9          (* Store called, result unchecked *)
| K10         (* Store returned nil *)
| K11         (* catalog published *)
| K12         (* streams signalled *)
| KEnd.       (* returned nil after publishing *)

Definition cnext (k : cphase) (s : commit_stmt) : option cphase :=
  match k, s with
  | K0, CLock => Some K1
  | K1, CDeferUnlock => Some K2
  | K2, CCheckAlive => Some K3
  | K3, CCheckTxnNil => Some K3n
  | K3, CCheckTxnMatch => Some K4
  | K3n, CCheckTxnMatch => Some K4
  | K4, CDeferRelease => Some K5r
  | K4, CUnsetTxn => Some K5u
  | K5r, CUnsetTxn => Some K6
  | K5u, CDeferRelease => Some K6
  | K6, CCheckDirty => Some K7
  | K6, CClean => Some K6
  | K7, CClean => Some K7
  | K6, CStore => Some K9
  | K7, CStore => Some K9
  | K9, CReturnOnStoreErr => Some K10
  | K10, CPublish => Some K11
  | K11, CBroadcast => Some K12
  | K11, CReturnNil => Some KEnd
  | K12, CReturnNil => Some KEnd
  | _, _ => None
  end.

Fixpoint cwalk (l : list commit_stmt) (k : cphase) : option cphase :=
  match l with
  | [] => Some k
  | s :: r => match cnext k s with Some k' => cwalk r k' | None => None end
  end.

Definition commit_ok (l : list commit_stmt) : bool :=
  match cwalk l K0 with
  | Some K11 => true | Some K12 => true | Some KEnd => true
  | _ => false
  end.

(* ------------------------------------------------------------------ *)
Open Scope string_scope.

Definition commit_stmt_of_text (s : string) : commit_stmt :=
  if String.eqb s "Lock" then CLock
  else if String.eqb s "DeferUnlock" then CDeferUnlock
  else if String.eqb s "CheckAlive" then CCheckAlive
  else if String.eqb s "CheckTxnNil" then CCheckTxnNil
  else if String.eqb s "CheckTxnMatch" then CCheckTxnMatch
  else if String.eqb s "DeferRelease" then CDeferRelease
  else if String.eqb s "UnsetTxn" then CUnsetTxn
  else if String.eqb s "CheckDirty" then CCheckDirty
  else if String.eqb s "Clean" then CClean
  else if String.eqb s "Store" then CStore
  else if String.eqb s "ReturnOnStoreErr" then CReturnOnStoreErr
  else if String.eqb s "Publish" then CPublish
  else if String.eqb s "Broadcast" then CBroadcast
  else if String.eqb s "ReturnNil" then CReturnNil
  else CUnknown.

(* "Hook:<name>" items are calls of verifPoint, an empty function unless the
   verification build tag is on (the translator checks its body): no statement *)
Definition is_hook (s : string) : bool := String.eqb (substring 0 5 s) "Hook:".

Definition translate_commit (l : list string) : list commit_stmt :=
  map commit_stmt_of_text (filter (fun s => negb (is_hook s)) l).
