(* ApiOps.v — the operator semantics the api family is instantiated with.
   The matcher is Model/Match.v; update/extract/projection are PROVISIONAL (MiniOps) until Apply.v / Project.v are merged. *)
From Lungo.Model Require Import Driver RunApi MiniOps Match.

Definition api_match := Match.
Definition api_apply := mini_apply.
Definition api_extract := mini_extract.
Definition api_project := mini_project.

Definition run_api_inst : sexp -> option string :=
  run_api api_match api_apply api_extract api_project.
