(* ApiOps.v — the operator semantics the api family is instantiated with:
   the full models of mongokit.Match / Apply / Extract / Project. *)
From Lungo.Model Require Import Driver RunApi Match Apply Project.

Definition api_match := Match.
Definition api_apply := Apply.
Definition api_extract := Extract.
Definition api_project := Project.

Definition run_api_inst : sexp -> option string :=
  run_api api_match api_apply api_extract api_project.
