(* Base.v — shared basics of the lungo model: outcomes, S-expressions (the
   neutral case format shared by the Go harness, the extracted OCaml driver and
   the in-Coq evaluation), decimal / hex rendering.  Executable definitions
   only; no proofs live here. *)
From Coq Require Export List ZArith NArith Bool String Ascii.
Export ListNotations.
Open Scope string_scope.

(* ------------------------------------------------------------------ *)
(* Outcome of a modelled Go call.                                      *)

Inductive res (A : Type) : Type :=
| Ok (x : A)
| Err            (* the Go function returned a non-nil error *)
| Panic          (* the Go function would panic *)
| OutOfFuel      (* model recursion ran out of fuel: excluded by theorems *)
| Unmodelled.    (* input uses a feature the model does not cover *)
Arguments Ok {A} x.
Arguments Err {A}.
Arguments Panic {A}.
Arguments OutOfFuel {A}.
Arguments Unmodelled {A}.

Definition bind {A B} (r : res A) (f : A -> res B) : res B :=
  match r with
  | Ok x => f x
  | Err => Err
  | Panic => Panic
  | OutOfFuel => OutOfFuel
  | Unmodelled => Unmodelled
  end.

Notation "'let*' x ':=' r 'in' k" := (bind r (fun x => k))
  (at level 200, x pattern, r at level 100, k at level 200, right associativity).

Definition rmap {A B} (f : A -> B) (r : res A) : res B :=
  bind r (fun x => Ok (f x)).

Fixpoint mapM {A B} (f : A -> res B) (l : list A) : res (list B) :=
  match l with
  | [] => Ok []
  | x :: t => let* y := f x in let* ys := mapM f t in Ok (y :: ys)
  end.

(* ------------------------------------------------------------------ *)
(* S-expressions.                                                      *)

Inductive sexp : Type :=
| SAtom (s : string)
| SList (l : list sexp).

Definition is_space (c : ascii) : bool :=
  match c with
  | " "%char => true
  | "009"%char => true
  | "010"%char => true
  | "013"%char => true
  | _ => false
  end.

Fixpoint string_rev_app (s acc : string) : string :=
  match s with
  | EmptyString => acc
  | String c t => string_rev_app t (String c acc)
  end.
Definition string_rev (s : string) : string := string_rev_app s EmptyString.

(* parser state: the atom being read (reversed), the stack of open lists
   (each reversed), innermost first. *)
Definition flush (atom : string) (top : list sexp) : list sexp :=
  match atom with
  | EmptyString => top
  | _ => SAtom (string_rev atom) :: top
  end.

Fixpoint parse_go (s : string) (atom : string) (top : list sexp)
         (stack : list (list sexp)) : option (list sexp) :=
  match s with
  | EmptyString =>
      match stack with
      | [] => Some (rev (flush atom top))
      | _ => None
      end
  | String c t =>
      if Ascii.eqb c "("%char then
        parse_go t EmptyString [] (flush atom top :: stack)
      else if Ascii.eqb c ")"%char then
        match stack with
        | [] => None
        | parent :: rest =>
            parse_go t EmptyString (SList (rev (flush atom top)) :: parent) rest
        end
      else if is_space c then
        parse_go t EmptyString (flush atom top) stack
      else
        parse_go t (String c atom) top stack
  end.

(* a line holds exactly one S-expression *)
Definition parse_sexp (s : string) : option sexp :=
  match parse_go s EmptyString [] [] with
  | Some [x] => Some x
  | _ => None
  end.

Fixpoint show_sexp (x : sexp) : string :=
  match x with
  | SAtom s => s
  | SList l =>
      "(" ++ (fix go (l : list sexp) : string :=
                match l with
                | [] => ""
                | [y] => show_sexp y
                | y :: t => show_sexp y ++ " " ++ go t
                end) l ++ ")"
  end.

(* ------------------------------------------------------------------ *)
(* Numbers as text.                                                    *)

Definition digit_of (c : ascii) : option Z :=
  let n := Z.of_N (N_of_ascii c) in
  if (48 <=? n)%Z && (n <=? 57)%Z then Some (n - 48)%Z else None.

Fixpoint parse_nat_go (s : string) (acc : Z) : option Z :=
  match s with
  | EmptyString => Some acc
  | String c t =>
      match digit_of c with
      | Some d => parse_nat_go t (acc * 10 + d)%Z
      | None => None
      end
  end.

Definition parse_Z (s : string) : option Z :=
  match s with
  | EmptyString => None
  | String "-"%char EmptyString => None
  | String "-"%char t => option_map Z.opp (parse_nat_go t 0%Z)
  | _ => parse_nat_go s 0%Z
  end.

Definition digit_char (d : Z) : ascii := ascii_of_N (Z.to_N (48 + d)).

(* positive -> decimal digits, fuel = number of binary digits (enough) *)
Fixpoint show_pos_go (fuel : nat) (n : Z) (acc : string) : string :=
  match fuel with
  | O => acc
  | S f =>
      if (n <? 10)%Z then String (digit_char n) acc
      else show_pos_go f (n / 10)%Z (String (digit_char (n mod 10)%Z) acc)
  end.

Definition show_Z (z : Z) : string :=
  match z with
  | Z0 => "0"
  | Zpos p => show_pos_go (S (Pos.size_nat p)) z EmptyString
  | Zneg p => String "-"%char (show_pos_go (S (Pos.size_nat p)) (Zpos p) EmptyString)
  end.

Definition hex_val (c : ascii) : option Z :=
  let n := Z.of_N (N_of_ascii c) in
  if (48 <=? n)%Z && (n <=? 57)%Z then Some (n - 48)%Z
  else if (97 <=? n)%Z && (n <=? 102)%Z then Some (n - 87)%Z
  else None.

Definition hex_char (d : Z) : ascii :=
  if (d <? 10)%Z then ascii_of_N (Z.to_N (48 + d)) else ascii_of_N (Z.to_N (87 + d)).

(* "x6162" <-> "ab" ; the leading x keeps the empty string a visible atom *)
Fixpoint unhex_go (s : string) : option string :=
  match s with
  | EmptyString => Some EmptyString
  | String a (String b t) =>
      match hex_val a, hex_val b, unhex_go t with
      | Some h, Some l, Some r => Some (String (ascii_of_N (Z.to_N (h * 16 + l))) r)
      | _, _, _ => None
      end
  | _ => None
  end.

Definition unhex (s : string) : option string :=
  match s with
  | String "x"%char t => unhex_go t
  | _ => None
  end.

Fixpoint hex_go (s : string) : string :=
  match s with
  | EmptyString => EmptyString
  | String c t =>
      let n := Z.of_N (N_of_ascii c) in
      String (hex_char (n / 16)) (String (hex_char (n mod 16)) (hex_go t))
  end.

Definition hex (s : string) : string := String "x"%char (hex_go s).

(* bytewise string comparison = Go's strings.Compare / bytes.Compare *)
Fixpoint str_compare (a b : string) : comparison :=
  match a, b with
  | EmptyString, EmptyString => Eq
  | EmptyString, _ => Lt
  | _, EmptyString => Gt
  | String x s, String y t =>
      match N.compare (N_of_ascii x) (N_of_ascii y) with
      | Eq => str_compare s t
      | c => c
      end
  end.

Definition opt_bind {A B} (o : option A) (f : A -> option B) : option B :=
  match o with Some x => f x | None => None end.

Fixpoint opt_mapM {A B} (f : A -> option B) (l : list A) : option (list B) :=
  match l with
  | [] => Some []
  | x :: t =>
      match f x, opt_mapM f t with
      | Some y, Some ys => Some (y :: ys)
      | _, _ => None
      end
  end.
