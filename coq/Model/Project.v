(* Project.v — mongokit/project.go (Project, projectCondition, projectSlice,
   projectSliceInt, projectElemMatch) and the part of mongokit/process.go
   (Process, ProcessExpression) they run on.  Executable definitions only.
   Comments name the Go lines (project.go unless prefixed `process.go:`).

   Paths are Go strings here exactly as in the Go code; bsonkit.Get/Put/Unset
   are the validated definitions of Access.v.

   Values vs. memory.  `Project` is the VALUE model: documents are values, so
   the source document cannot change.  The Go code shares memory between the
   source document and the result (inclusion stores the bson.D / bson.A
   headers returned by bsonkit.Get; merge values are sub-slices of the
   source's arrays), and the merge step (lines 107-112) writes through that
   sharing.  `project_src` adds the source document after the call; see the
   comment at `alias_roots`.

   Map iteration.  project.go:107 ranges over the Go map state.merge; the
   model applies the overlays in order of first insertion (= order of first
   appearance of the operator path in the projection).  The outcome of the Go
   code is independent of that order exactly when no two merge paths overlap
   (see `order_dependent`), up to the position of fields the merge step
   creates; the runner canonicalises accordingly (`run_project`). *)
From Lungo.Model Require Export Access.
Open Scope Z_scope.

(* ------------------------------------------------------------------ *)
(* process.go: Process / ProcessExpression, generic in the state S that the
   Go code reaches through ctx.Value.                                      *)

Definition is_operator_key (k : string) : bool :=   (* len(k) > 0 && k[0] == '$' *)
  match k with
  | String "$"%char _ => true
  | _ => false
  end.

Section Process.
  Variable S : Type.

  (* mongokit.Operator: func(ctx Context, doc, op, path string, v) error *)
  Definition operator : Type := S -> doc -> string -> string -> value -> res S.

  (* mongokit.Context (process.go:17-41); a nil map is the empty table *)
  Record context : Type := {
    ctx_top_level : list (string * operator);
    ctx_expression : list (string * operator);
    ctx_skip_missing : bool;
    ctx_multi_top_level : bool
  }.

  Fixpoint op_lookup (t : list (string * operator)) (k : string) : option operator :=
    match t with
    | [] => None
    | (k', o) :: t' => if String.eqb k' k then Some o else op_lookup t' k
    end.

  (* process.go:104-108 *)
  Definition join_prefix (prefix key : string) : string :=
    if String.eqb prefix "" then key else prefix ++ "." ++ key.

  (* process.go:114-144, entered when exps[0] looks like an operator *)
  Fixpoint process_ops (ctx : context) (st : S) (d : doc) (path : string)
           (exps : list (string * value)) : res S :=
    match exps with
    | [] => Ok st                                            (* :141 last one done *)
    | (k, v) :: t =>
        if negb (is_operator_key k) then Err                 (* :122-124 *)
        else
          match op_lookup (ctx_expression ctx) k with        (* :127 *)
          | None => if ctx_skip_missing ctx then Ok st else Err   (* :128-132 *)
          | Some op =>
              let* st' := op st d k path v in                (* :135-138 *)
              process_ops ctx st' d path t
          end
    end.

  (* process.go:59-164 ProcessExpression *)
  Definition process_expression (ctx : context) (st : S) (d : doc) (prefix : string)
             (pair : string * value) (root : bool) : res S :=
    let '(key, v) := pair in
    if is_operator_key key then                              (* :61 *)
      match op_lookup (if root then ctx_top_level ctx else ctx_expression ctx) key with
      | None => if ctx_skip_missing ctx then Ok st else Err  (* :65-77 *)
      | Some op =>
          if negb (root && ctx_multi_top_level ctx) then op st d key prefix v   (* :81-83 *)
          else Unmodelled                                    (* :85-101 Resolve: not used by projections *)
      end
    else
      let path := join_prefix prefix key in                  (* :105-108 *)
      let simple :=                                          (* :150-161 default operator *)
        match op_lookup (ctx_expression ctx) "" with
        | None => if ctx_skip_missing ctx then Ok st else Err
        | Some op => op st d "" path v
        end in
      match v with
      | VDoc ((k0, v0) :: t) =>                              (* :112 *)
          if is_operator_key k0 then process_ops ctx st d path ((k0, v0) :: t)
          else simple                                        (* :117-119 break *)
      | _ => simple                                          (* not a document, or an empty one *)
      end.

  (* process.go:45-55 Process *)
  Fixpoint process (ctx : context) (st : S) (d : doc) (query : doc) (prefix : string)
           (root : bool) : res S :=
    match query with
    | [] => Ok st
    | exp :: t =>
        let* st' := process_expression ctx st d prefix exp root in
        process ctx st' d t prefix root
    end.
End Process.

Arguments process_expression {S}.
Arguments process_ops {S}.
Arguments process {S}.
Arguments Build_context {S}.
Arguments ctx_expression {S}.
Arguments ctx_top_level {S}.

(* ------------------------------------------------------------------ *)
(* Go integer behaviour used by projectSlice                            *)

(* int64 wrap-around of +, - *)
Definition wrap64 (z : Z) : Z := (z + two63) mod two64 - two63.

(* int(float64): truncation toward zero when the result fits int64.  NaN,
   infinities and out-of-range values are implementation-specific in Go:
   Unmodelled (the harness prints UNMODELLED for them by the same test). *)
Definition int_of_double (bits : Z) : res Z :=
  match xnum_of_double bits with
  | XFin q =>
      let t := Z.quot (Qnum q) (Zpos (Qden q)) in
      if (- two63 <=? t) && (t <? two63) then Ok t else Unmodelled
  | _ => Unmodelled
  end.

(* the Go slice expression a[lo:hi] on a slice whose capacity is not
   exceeded by hi at any call site of projectSlice (hi <= len or hi < 0) *)
Definition go_slice (a : list value) (lo hi : Z) : res (list value) :=
  if (0 <=? lo) && (lo <=? hi) && (hi <=? len a)
  then Ok (firstn (Z.to_nat (hi - lo)) (skipn (Z.to_nat lo) a))
  else Panic.

(* ------------------------------------------------------------------ *)
(* project.go                                                           *)

(* :21-27 projectState; the two Go maps are association lists / sets.
   ps_merge keeps the position of the first insertion of a key. *)
Record pstate : Type := {
  ps_hide_id : bool;
  ps_include : list string;
  ps_exclude : list string;
  ps_merge : list (string * value);
  ps_skip : list string
}.

Definition pstate0 : pstate :=                               (* :46-49 *)
  {| ps_hide_id := false; ps_include := []; ps_exclude := []; ps_merge := []; ps_skip := [] |}.

Fixpoint str_mem (k : string) (l : list string) : bool :=
  match l with
  | [] => false
  | x :: t => String.eqb x k || str_mem k t
  end.

(* state.merge[path] = v *)
Fixpoint merge_set (m : list (string * value)) (k : string) (v : value) : list (string * value) :=
  match m with
  | [] => [(k, v)]
  | (k', v') :: t => if String.eqb k' k then (k', v) :: t else (k', v') :: merge_set t k v
  end.

Definition set_merge (st : pstate) (path : string) (v : value) : pstate :=
  {| ps_hide_id := ps_hide_id st; ps_include := ps_include st; ps_exclude := ps_exclude st;
     ps_merge := merge_set (ps_merge st) path v; ps_skip := ps_skip st |}.

Definition add_include (st : pstate) (path : string) : pstate :=
  {| ps_hide_id := ps_hide_id st; ps_include := (ps_include st ++ [path])%list;
     ps_exclude := ps_exclude st; ps_merge := ps_merge st; ps_skip := ps_skip st |}.

Definition add_exclude (st : pstate) (path : string) : pstate :=
  {| ps_hide_id := ps_hide_id st; ps_include := ps_include st;
     ps_exclude := (ps_exclude st ++ [path])%list; ps_merge := ps_merge st; ps_skip := ps_skip st |}.

Definition set_hide_id (st : pstate) : pstate :=
  {| ps_hide_id := true; ps_include := ps_include st; ps_exclude := ps_exclude st;
     ps_merge := ps_merge st; ps_skip := ps_skip st |}.

Definition add_skip (st : pstate) (path : string) : pstate :=
  {| ps_hide_id := ps_hide_id st; ps_include := ps_include st; ps_exclude := ps_exclude st;
     ps_merge := ps_merge st;
     ps_skip := if str_mem path (ps_skip st) then ps_skip st else (ps_skip st ++ [path])%list |}.

(* :126-139 inclusion (Ok true) or exclusion (Ok false): bools, and numbers
   of all four numeric types that compare equal to 1 / 0 *)
Definition condition_value (v : value) : res bool :=
  match v with
  | VBool b => Ok b                                          (* :129-130 *)
  | _ =>
      match compare v (VInt64 1) with                        (* :132 *)
      | Eq => Ok true
      | _ =>
          match compare v (VInt64 0) with                    (* :134 *)
          | Eq => Ok false
          | _ => Err                                         (* :137 *)
          end
      end
  end.

(* :122-151 projectCondition *)
Definition project_condition : operator pstate := fun st _ _ path v =>
  let* include := condition_value v in
  if include then Ok (add_include st path)                   (* :142-143 *)
  else if String.eqb path "_id" then Ok (set_hide_id st)     (* :144-145 *)
  else Ok (add_exclude st path).                             (* :147 *)

(* :241-252 projectSliceInt; None = (0, false) *)
Definition project_slice_int (v : value) : res (option Z) :=
  match v with
  | VInt32 z => Ok (Some z)
  | VInt64 z => Ok (Some z)
  | VDouble b => let* z := int_of_double b in Ok (Some z)
  | _ => Ok None
  end.

(* :196-216 the [skip, limit] window of an array of length n *)
Definition slice_skip_limit (a : list value) (skip limit : Z) : res (list value) :=
  let n := len a in
  let start :=
    if skip <? 0 then (if n + skip <? 0 then 0 else n + skip)          (* :200-204 *)
    else (if n <? skip then n else skip) in                            (* :206-209 *)
  let end_ := wrap64 (start + limit) in                                (* :211 *)
  let end_ := if n <? end_ then n else end_ in                         (* :212-214 *)
  go_slice a start end_.                                               (* :215 *)

(* :219-236 the limit-only window *)
Definition slice_limit (a : list value) (limit : Z) : res (list value) :=
  if 0 <? limit then                                                   (* :221 *)
    if limit <? len a then go_slice a 0 limit else Ok a                (* :222-226 *)
  else if limit <? 0 then                                              (* :227 *)
    let n := wrap64 (- limit) in                                       (* :228 *)
    if n <? len a then go_slice a (wrap64 (len a - n)) (len a)         (* :229-230 *)
    else Ok a                                                          (* :232 *)
  else Ok [].                                                          (* :235 *)

(* :153-239 projectSlice *)
Definition project_slice : operator pstate := fun st d _ path v =>
  let* arg :=                                                (* (skip, limit, hasSkip) *)
    match v with
    | VInt32 z => Ok (0, z, false)                           (* :162-165 *)
    | VInt64 z => Ok (0, z, false)
    | VDouble b => let* z := int_of_double b in Ok (0, z, false)   (* :166-167 *)
    | VArr nn =>                                             (* :168 *)
        match nn with
        | [x; y] =>
            let* s := project_slice_int x in                 (* :172 *)
            match s with
            | None => Err                                    (* :173-175 *)
            | Some s =>
                let* l := project_slice_int y in             (* :176 *)
                match l with
                | None => Err                                (* :177-179 *)
                | Some l => if l <? 0 then Err else Ok (s, l, true)   (* :180-185 *)
                end
            end
        | _ => Err                                           (* :169-171 *)
        end
    | _ => Err                                               (* :186-187 *)
    end in
  let '(skip, limit, has_skip) := arg in
  match Get d path with                                      (* :191 *)
  | VArr a =>
      let* w := if has_skip then slice_skip_limit a skip limit else slice_limit a limit in
      Ok (set_merge st path (VArr w))
  | _ => Ok st                                               (* :192-194 *)
  end.

(* :80-94 copy included fields *)
Fixpoint copy_included (d : doc) (skip : list string) (paths : list string) (r : doc) : res doc :=
  match paths with
  | [] => Ok r
  | path :: t =>
      if str_mem path skip then copy_included d skip t r   (* :84-86 *)
      else
        let v := Get d path in                             (* :87 *)
        if is_missing v then copy_included d skip t r      (* :88 *)
        else
          let* (_, r') := Put r path v false in            (* :89-92 *)
          copy_included d skip t r'
  end.

(* :101-103 *)
Fixpoint apply_exclusions (paths : list string) (r : doc) : doc :=
  match paths with
  | [] => r
  | path :: t => apply_exclusions t (snd (Unset r path))
  end.

(* :107-112, in list order (the Go code: map order) *)
Fixpoint apply_merges (m : list (string * value)) (r : doc) : res doc :=
  match m with
  | [] => Ok r
  | (path, v) :: t =>
      let* (_, r') := Put r path v false in
      apply_merges t r'
  end.

(* :60-119 everything after Process *)
Definition project_state (st : pstate) (d : doc) : res doc :=
  match ps_include st, ps_exclude st with
  | _ :: _, _ :: _ => Err                                  (* :61-63 *)
  | inc, exc =>
      let* r :=
        match inc with
        | _ :: _ =>                                        (* :69 *)
            let* (_, r0) := Put [] "_id" (Get d "_id") false in   (* :71-77 *)
            copy_included d (ps_skip st) inc r0
        | [] =>                                            (* :95-104: Clone is the identity on values *)
            Ok (apply_exclusions exc d)
        end in
      let* r := apply_merges (ps_merge st) r in            (* :107-112 *)
      Ok (if ps_hide_id st then snd (Unset r "_id") else r)   (* :115-117 *)
  end.

(* ---------------------------------------------------------------- *)
(* The source document after the call.

   Memory sharing in the Go code: bsonkit.Get returns the stored bson.D /
   bson.A header, and Put(res, p, Get(doc, p)) stores that header, so the
   node of `res` at p IS the node of `doc` at p (an "alias root").  A later
   Put(res, q, v) whose path runs through an alias root p, |p| < |q|, makes
   its final assignment (access.go:180 / :223) inside the shared node,
   i.e. in the source document, at q.  A Put AT an alias root replaces the
   header in the fresh parent and does not touch the source.  During the
   inclusion phase such writes store the value that is already there
   (Get(doc, q) itself), so only the merge step changes the source.

   alias_roots: the alias roots of `res` after lines 71-94, as segment
   lists.  Valid when no two merge paths overlap (then the merge step
   neither removes a root another merge runs through nor reads what
   another merge wrote) and no two projection paths name the same array
   element by different spellings ("0" / "00"); the runner excludes both
   (`order_dependent`, `spelling_clash`). *)

Fixpoint is_prefix (p q : path) : bool :=
  match p, q with
  | [], _ => true
  | _ :: _, [] => false
  | x :: p', y :: q' => String.eqb x y && is_prefix p' q'
  end.

Definition proper_prefix (p q : path) : bool :=
  is_prefix p q && negb (Nat.eqb (List.length p) (List.length q)).

Definition add_root (roots : list path) (p : path) : list path :=
  if existsb (fun r => proper_prefix r p) roots then roots       (* the Put lands inside a shared node *)
  else p :: filter (fun r => negb (is_prefix p r)) roots.        (* the Put replaces what was below p *)

Fixpoint include_roots (d : doc) (skip : list string) (paths : list string) (roots : list path) : list path :=
  match paths with
  | [] => roots
  | path :: t =>
      if str_mem path skip then include_roots d skip t roots
      else if is_missing (Get d path) then include_roots d skip t roots
      else include_roots d skip t (add_root roots (split_path path))
  end.

Definition alias_roots (st : pstate) (d : doc) : list path :=
  match ps_include st with
  | [] => []                                               (* exclusion: res is a deep clone *)
  | inc => include_roots d (ps_skip st) inc [["_id"]]      (* :74 copies _id first *)
  end.

Definition writes_through (roots : list path) (q : string) : bool :=
  existsb (fun r => proper_prefix r (split_path q)) roots.

Fixpoint source_after (roots : list path) (m : list (string * value)) (src : doc) : doc :=
  match m with
  | [] => src
  | (q, v) :: t =>
      if writes_through roots q then
        match Put src q v false with
        | Ok (_, src') => source_after roots t src'
        | _ => source_after roots t src
        end
      else source_after roots t src
  end.

Section WithMatch.
  (* the query matcher: mongokit.Match(doc, query) = Process(query context,
     doc, query, "", true): Ok true = nil, Ok false = ErrNotMatched *)
  Variable matchf : doc -> doc -> res bool.

  (* :283-287: Process(queryCtx, &bson.D{{"item", item}}, query, "item", false).
     With prefix "item" and root = false, a pair whose key is an operator
     calls Expression[key] with path "item" (process.go:72-82) and any other
     pair is a field condition on "item."+key (process.go:105-108).  The same
     calls, in the same order, are made by a ROOT-level Process (= Match) of
     the query below on the same virtual document. *)
  Definition elem_query (q : doc) : doc :=
    map (fun kv : string * value =>
           let '(k, v) := kv in
           if is_operator_key k then ("item", VDoc [(k, v)])
           else ("item." ++ k, v)) q.

  Definition elem_matches (item : value) (q : doc) : res bool :=
    matchf [("item", item)] (elem_query q).

  (* :283-298 find first matching element *)
  Fixpoint first_match (a : list value) (q : doc) : res (option value) :=
    match a with
    | [] => Ok None
    | item :: t =>
        let* m := elem_matches item q in
        if m then Ok (Some item) else first_match t q        (* :288-289 continue *)
    end.

  (* :254-301 projectElemMatch *)
  Definition project_elem_match : operator pstate := fun st d _ path v =>
    match v with
    | VDoc query =>                                          (* :259 *)
        let st1 := add_skip (add_include st path) path in    (* :267-268 *)
        match Get d path with                                (* :271 *)
        | VArr a =>
            let* m := first_match a query in
            match m with
            | Some item => Ok (set_merge st1 path (VArr [item]))   (* :295 *)
            | None => Ok st1                                 (* :300 *)
            end
        | _ => Ok st1                                        (* :272-274 *)
        end
    | _ => Err                                               (* :260-262 *)
    end.

  (* :14-19 init(): ProjectionExpressionOperators *)
  Definition projection_operator_names : list string := [""; "$slice"; "$elemMatch"].

  Definition projection_operators : list (string * operator pstate) :=
    [ ("", project_condition)
    ; ("$slice", project_slice)
    ; ("$elemMatch", project_elem_match) ].

  (* :52-55 Context{Expression: ProjectionExpressionOperators, Value: &state} *)
  Definition projection_context : context pstate :=
    Build_context [] projection_operators false false.

  Definition project_process (d pr : doc) : res pstate :=
    process projection_context pstate0 d pr "" true.

  (* :44-120 Project *)
  Definition project_with (d pr : doc) : res doc :=
    let* st := project_process d pr in
    project_state st d.

  (* (result, source document after the call) *)
  Definition project_src_with (d pr : doc) : res (doc * doc) :=
    let* st := project_process d pr in
    let* r := project_state st d in
    Ok (r, source_after (alias_roots st d) (ps_merge st) d).
End WithMatch.

(* ------------------------------------------------------------------ *)
(* Instantiation point.  Until Model/Match.v exists the matcher is a stub;
   replace `stub_match` by the real matcher here (and drop `has_elem_match`
   from `pr_unmodelled` below and `projUnmodelled` in harness/fam_project.go). *)

Definition stub_match (_ _ : doc) : res bool := Unmodelled.

Definition Project : doc -> doc -> res doc := project_with stub_match.
Definition project_src : doc -> doc -> res (doc * doc) := project_src_with stub_match.

(* ------------------------------------------------------------------ *)
(* Runner of family `project`.                                          *)

(* operator-bearing entries: the value is a document whose first key looks
   like an operator (process.go:112-119) *)
Definition operator_entry (kv : string * value) : bool :=
  match snd kv with
  | VDoc ((k0, _) :: _) => is_operator_key k0
  | _ => false
  end.

Fixpoint has_key (k : string) (d : list (string * value)) : bool :=
  match d with
  | [] => false
  | (k', _) :: t => String.eqb k' k || has_key k t
  end.

Definition has_elem_match (pr : doc) : bool :=
  existsb (fun kv => match snd kv with
                     | VDoc e => operator_entry kv && has_key "$elemMatch" e
                     | _ => false
                     end) pr.

(* a $slice argument holding a double whose int conversion is not modelled *)
Definition bad_double (v : value) : bool :=
  match v with
  | VDouble b => match int_of_double b with Ok _ => false | _ => true end
  | _ => false
  end.

Definition has_bad_slice_arg (pr : doc) : bool :=
  existsb (fun kv => match snd kv with
                     | VDoc e =>
                         operator_entry kv &&
                         existsb (fun kv' =>
                                    String.eqb (fst kv') "$slice" &&
                                    match snd kv' with
                                    | VArr l => existsb bad_double l
                                    | x => bad_double x
                                    end) e
                     | _ => false
                     end) pr.

Definition pr_unmodelled (pr : doc) : bool := has_elem_match pr || has_bad_slice_arg pr.

(* normalised segment: all-digit segments by their numeric value *)
Fixpoint strip_zeros (s : string) : string :=
  match s with
  | String c t =>
      match t with
      | EmptyString => s
      | _ => if Ascii.eqb c "0"%char then strip_zeros t else s
      end
  | EmptyString => s
  end.

Definition norm_seg (s : string) : string :=
  match s with
  | EmptyString => s
  | _ => if all_digits s then strip_zeros s else s
  end.

Definition norm_path (ps : string) : path := map norm_seg (split_path ps).

Definition overlap (p q : path) : bool := is_prefix p q || is_prefix q p.

Definition operator_keys (pr : doc) : list string := map fst (filter operator_entry pr).

Fixpoint dedup_str (l : list string) : list string :=
  match l with
  | [] => []
  | x :: t => x :: filter (fun y => negb (String.eqb x y)) (dedup_str t)
  end.

(* two operator paths, different as strings, one running through the other
   (array indices compared by value): the Go outcome depends on the
   iteration order of the Go map state.merge *)
Definition order_dependent (pr : doc) : bool :=
  let ks := dedup_str (operator_keys pr) in
  existsb (fun k1 => existsb (fun k2 => negb (String.eqb k1 k2) &&
                                        overlap (norm_path k1) (norm_path k2)) ks) ks.

(* more than one operator path: fields created by the merge step appear in
   map order; the result is compared with field names sorted *)
Definition multi_operator (pr : doc) : bool :=
  match dedup_str (operator_keys pr) with
  | _ :: _ :: _ => true
  | _ => false
  end.

(* the same array element named with two spellings at the first position
   where two projection paths differ *)
Fixpoint spelling_diff (p q : path) : bool :=
  match p, q with
  | x :: p', y :: q' =>
      if String.eqb x y then spelling_diff p' q'
      else String.eqb (norm_seg x) (norm_seg y)
  | _, _ => false
  end.

Definition spelling_clash (pr : doc) : bool :=
  let ks := map (fun kv => split_path (fst kv)) pr in
  existsb (fun p => existsb (fun q => spelling_diff p q) ks) ks.

(* does v count as an inclusion / exclusion for projectCondition *)
Definition is_inclusion_value (v : value) : bool :=
  match condition_value v with Ok true => true | _ => false end.

Definition is_exclusion_value (v : value) : bool :=
  match condition_value v with Ok false => true | _ => false end.

(* syntactic form of the colliding-paths situation: an included path, or _id
   (always copied by an inclusion), is a proper prefix of an operator path *)
Definition included_keys (pr : doc) : list string :=
  map fst (filter (fun kv => negb (operator_entry kv) && is_inclusion_value (snd kv)) pr).

Definition colliding_paths (pr : doc) : bool :=
  let ops := map split_path (operator_keys pr) in
  let inc := included_keys pr in
  let has_incl := match inc with [] => has_elem_match pr | _ => true end in
  let shared := map split_path (if has_incl then "_id" :: inc else inc) in
  existsb (fun p => existsb (fun q => proper_prefix p q) ops) shared.

Definition no_colliding_paths (pr : doc) : Prop := colliding_paths pr = false.

(* stable sort of field names, recursively *)
Fixpoint insert_field (kv : string * value) (l : list (string * value)) : list (string * value) :=
  match l with
  | [] => [kv]
  | x :: t =>
      match str_compare (fst kv) (fst x) with
      | Gt => x :: insert_field kv t
      | _ => kv :: l
      end
  end.

Fixpoint sort_keys (v : value) : value :=
  match v with
  | VDoc d =>
      VDoc ((fix go (d : list (string * value)) : list (string * value) :=
               match d with
               | [] => []
               | (k, x) :: t => insert_field (k, sort_keys x) (go t)
               end) d)
  | VArr a =>
      VArr ((fix go (a : list value) : list value :=
               match a with
               | [] => []
               | x :: t => sort_keys x :: go t
               end) a)
  | _ => v
  end.

Definition show_val (v : value) : string := show_sexp (value_to_sexp v).

(* (project <doc> <projection>)    : result and source under the VALUE model
                                     (the source must be unchanged)
   (project-wt <doc> <projection>) : result and source under project_src; the
                                     harness uses this tag for the cases in
                                     which the real code exhibits the known
                                     colliding-paths write-through
   (projectdb <op> (<doc>...) <projection>) : through the driver on a fresh
       collection holding the documents: op = find | findone | fau
       (FindOneAndUpdate {} {$set: {zz: 1}}, ReturnDocument After), then
       Find({}) and Find({}) with the projection again:
       (<results> <stored documents> <results again>) *)
Definition precheck (pr : doc) : option string :=
  if pr_unmodelled pr then Some "UNMODELLED"
  else if order_dependent pr then Some "ORDER-DEPENDENT"
  else if colliding_paths pr && spelling_clash pr then Some "UNMODELLED"
  else None.

Definition canon_result (pr : doc) (r : doc) : value :=
  if multi_operator pr then sort_keys (VDoc r) else VDoc r.

Definition show_outcome {A} (r : res A) (f : A -> string) : string :=
  match r with
  | Ok x => f x
  | Err => "ERR"
  | Panic => "PANIC"
  | OutOfFuel => "OUT-OF-FUEL"
  | Unmodelled => "UNMODELLED"
  end.

Fixpoint show_values (l : list value) : string :=
  match l with
  | [] => ""
  | [v] => show_val v
  | v :: t => show_val v ++ " " ++ show_values t
  end.

Definition run_project (x : sexp) : option string :=
  match x with
  | SList [SAtom tag; d; pr] =>
      let wt := String.eqb tag "project-wt" in
      if String.eqb tag "project" || wt then
        match doc_of_sexp d, doc_of_sexp pr with
        | Some d', Some pr' =>
            match precheck pr' with
            | Some s => Some s
            | None =>
                Some (show_outcome (project_src d' pr')
                        (fun rs => "(" ++ show_val (canon_result pr' (fst rs)) ++ " " ++
                                   show_val (VDoc (if wt then snd rs else d')) ++ ")"))
            end
        | _, _ => Some "BAD-CASE"
        end
      else None
  | SList [SAtom "projectdb"; SAtom op; SList ds; pr] =>
      match opt_mapM doc_of_sexp ds, doc_of_sexp pr with
      | Some docs, Some pr' =>
          match precheck pr' with
          | Some s => Some s
          | None =>
              let stored :=
                match docs with
                | d0 :: t => if String.eqb op "fau" then (d0 ++ [("zz", VInt32 1)])%list :: t else docs
                | [] => docs
                end in
              let srcs := if String.eqb op "find" then stored else firstn 1 stored in
              Some (show_outcome (mapM (fun d => Project d pr') srcs)
                      (fun r1 =>
                         match mapM (fun d => Project d pr') stored with
                         | Ok r2 =>
                             "((" ++ show_values (map (canon_result pr') r1) ++ ") (" ++
                             show_values (map VDoc stored) ++ ") (" ++
                             show_values (map (canon_result pr') r2) ++ "))"
                         | Panic => "PANIC"
                         | _ => "ERR2"
                         end))
          end
      | _, _ => Some "BAD-CASE"
      end
  | _ => None
  end.
