(* Project.v — mongokit/project.go (Project, projectCondition, projectSlice,
   projectSliceInt, projectElemMatch) and the part of mongokit/process.go
   (Process, ProcessExpression) they run on.  Executable definitions only.
   Comments name the Go lines (project.go unless prefixed `process.go:`).

   Paths are Go strings here exactly as in the Go code; bsonkit.Get/Put/Unset
   are the validated definitions of Access.v.

   Values vs. memory.  Documents are values here.  Since /repo 878ebea every
   value that Project stores in its result is a private deep copy
   (cloneProjected, lines 76, 95, 118), so the result shares no memory with
   the source document and no Put on the result can reach it; `project_src`
   returns the source document after the call on that basis (see
   `alias_roots`).  Before 878ebea inclusion stored the source's own bson.D /
   bson.A headers and the merge step wrote through them (the recorded, now
   fixed, findings C14:colliding-paths-write-through and
   C14:nested-operator-paths-write-through).

   Map iteration.  project.go:117 ranges over the Go map state.merge; the
   model applies the overlays in order of first insertion (= order of first
   appearance of the operator path in the projection).  The outcome of the Go
   code is independent of that order exactly when no two merge paths overlap
   (see `order_dependent`), up to the position of fields the merge step
   creates; the runner canonicalises accordingly (`run_project`). *)
From Lungo.Model Require Export Access.
From Lungo.Model Require Import Match RunMatch.
Open Scope string_scope.
Open Scope Z_scope.

(* ------------------------------------------------------------------ *)
(* process.go: Process / ProcessExpression, generic in the state S that the
   Go code reaches through ctx.Value.                                      *)

Definition is_operator_key (k : string) : bool :=   (* len(k) > 0 && k[0] == '$' *)
  match k with
  | String "$"%char _ => true
  | _ => false
  end.

Section Process.
  Variable S : Type.

  (* mongokit.Operator: func(ctx Context, doc, op, path string, v) error *)
  Definition operator : Type := S -> doc -> string -> string -> value -> res S.

  (* mongokit.Context (process.go:17-41); a nil map is the empty table *)
  Record context : Type := {
    ctx_top_level : list (string * operator);
    ctx_expression : list (string * operator);
    ctx_skip_missing : bool;
    ctx_multi_top_level : bool
  }.

  Fixpoint op_lookup (t : list (string * operator)) (k : string) : option operator :=
    match t with
    | [] => None
    | (k', o) :: t' => if String.eqb k' k then Some o else op_lookup t' k
    end.

  (* process.go:104-108 *)
  Definition join_prefix (prefix key : string) : string :=
    if String.eqb prefix "" then key else prefix ++ "." ++ key.

  (* process.go:114-144, entered when exps[0] looks like an operator *)
  Fixpoint process_ops (ctx : context) (st : S) (d : doc) (path : string)
           (exps : list (string * value)) : res S :=
    match exps with
    | [] => Ok st                                            (* :141 last one done *)
    | (k, v) :: t =>
        if negb (is_operator_key k) then Err                 (* :122-124 *)
        else
          match op_lookup (ctx_expression ctx) k with        (* :127 *)
          | None => if ctx_skip_missing ctx then Ok st else Err   (* :128-132 *)
          | Some op =>
              let* st' := op st d k path v in                (* :135-138 *)
              process_ops ctx st' d path t
          end
    end.

  (* process.go:59-164 ProcessExpression *)
  Definition process_expression (ctx : context) (st : S) (d : doc) (prefix : string)
             (pair : string * value) (root : bool) : res S :=
    let '(key, v) := pair in
    if is_operator_key key then                              (* :61 *)
      match op_lookup (if root then ctx_top_level ctx else ctx_expression ctx) key with
      | None => if ctx_skip_missing ctx then Ok st else Err  (* :65-77 *)
      | Some op =>
          if negb (root && ctx_multi_top_level ctx) then op st d key prefix v   (* :81-83 *)
          else Unmodelled                                    (* :85-101 Resolve: not used by projections *)
      end
    else
      let path := join_prefix prefix key in                  (* :105-108 *)
      let simple :=                                          (* :150-161 default operator *)
        match op_lookup (ctx_expression ctx) "" with
        | None => if ctx_skip_missing ctx then Ok st else Err
        | Some op => op st d "" path v
        end in
      match v with
      | VDoc ((k0, v0) :: t) =>                              (* :112 *)
          if is_operator_key k0 then process_ops ctx st d path ((k0, v0) :: t)
          else simple                                        (* :117-119 break *)
      | _ => simple                                          (* not a document, or an empty one *)
      end.

  (* process.go:45-55 Process *)
  Fixpoint process (ctx : context) (st : S) (d : doc) (query : doc) (prefix : string)
           (root : bool) : res S :=
    match query with
    | [] => Ok st
    | exp :: t =>
        let* st' := process_expression ctx st d prefix exp root in
        process ctx st' d t prefix root
    end.
End Process.

Arguments process_expression {S}.
Arguments process_ops {S}.
Arguments process {S}.
Arguments Build_context {S}.
Arguments ctx_expression {S}.
Arguments ctx_top_level {S}.

(* ------------------------------------------------------------------ *)
(* Go integer behaviour used by projectSlice                            *)

(* int64 wrap-around of +, - *)
Definition wrap64 (z : Z) : Z := (z + two63) mod two64 - two63.

(* the Go slice expression a[lo:hi] on a slice whose capacity is not
   exceeded by hi at any call site of projectSlice (hi <= len or hi < 0) *)
Definition go_slice (a : list value) (lo hi : Z) : res (list value) :=
  if (0 <=? lo) && (lo <=? hi) && (hi <=? len a)
  then Ok (firstn (Z.to_nat (hi - lo)) (skipn (Z.to_nat lo) a))
  else Panic.

(* ------------------------------------------------------------------ *)
(* project.go                                                           *)

(* :21-27 projectState; the two Go maps are association lists / sets.
   ps_merge keeps the position of the first insertion of a key. *)
Record pstate : Type := {
  ps_hide_id : bool;
  ps_include : list string;
  ps_exclude : list string;
  ps_merge : list (string * value);
  ps_skip : list string
}.

Definition pstate0 : pstate :=                               (* :46-49 *)
  {| ps_hide_id := false; ps_include := []; ps_exclude := []; ps_merge := []; ps_skip := [] |}.

Fixpoint str_mem (k : string) (l : list string) : bool :=
  match l with
  | [] => false
  | x :: t => String.eqb x k || str_mem k t
  end.

(* state.merge[path] = v *)
Fixpoint merge_set (m : list (string * value)) (k : string) (v : value) : list (string * value) :=
  match m with
  | [] => [(k, v)]
  | (k', v') :: t => if String.eqb k' k then (k', v) :: t else (k', v') :: merge_set t k v
  end.

Definition set_merge (st : pstate) (path : string) (v : value) : pstate :=
  {| ps_hide_id := ps_hide_id st; ps_include := ps_include st; ps_exclude := ps_exclude st;
     ps_merge := merge_set (ps_merge st) path v; ps_skip := ps_skip st |}.

Definition add_include (st : pstate) (path : string) : pstate :=
  {| ps_hide_id := ps_hide_id st; ps_include := (ps_include st ++ [path])%list;
     ps_exclude := ps_exclude st; ps_merge := ps_merge st; ps_skip := ps_skip st |}.

Definition add_exclude (st : pstate) (path : string) : pstate :=
  {| ps_hide_id := ps_hide_id st; ps_include := ps_include st;
     ps_exclude := (ps_exclude st ++ [path])%list; ps_merge := ps_merge st; ps_skip := ps_skip st |}.

Definition set_hide_id (st : pstate) : pstate :=
  {| ps_hide_id := true; ps_include := ps_include st; ps_exclude := ps_exclude st;
     ps_merge := ps_merge st; ps_skip := ps_skip st |}.

Definition add_skip (st : pstate) (path : string) : pstate :=
  {| ps_hide_id := ps_hide_id st; ps_include := ps_include st; ps_exclude := ps_exclude st;
     ps_merge := ps_merge st;
     ps_skip := if str_mem path (ps_skip st) then ps_skip st else (ps_skip st ++ [path])%list |}.

(* :126-139 inclusion (Ok true) or exclusion (Ok false): bools, and numbers
   of all four numeric types that compare equal to 1 / 0 *)
Definition condition_value (v : value) : res bool :=
  match v with
  | VBool b => Ok b                                          (* :129-130 *)
  | _ =>
      match compare v (VInt64 1) with                        (* :132 *)
      | Eq => Ok true
      | _ =>
          match compare v (VInt64 0) with                    (* :134 *)
          | Eq => Ok false
          | _ => Err                                         (* :137 *)
          end
      end
  end.

(* :122-151 projectCondition *)
Definition project_condition : operator pstate := fun st _ _ path v =>
  let* include := condition_value v in
  if include then Ok (add_include st path)                   (* :142-143 *)
  else if String.eqb path "_id" then Ok (set_hide_id st)     (* :144-145 *)
  else Ok (add_exclude st path).                             (* :147 *)

(* :270-294 projectSliceInt; None = (0, false).  int64 and float64 arguments
   are clamped to +-math.MaxInt32, NaN is not a number; int(n) truncates
   toward zero. *)
Definition max_int32 : Z := 2147483647.

Definition clamp_int32 (z : Z) : Z :=
  if max_int32 <? z then max_int32                            (* :276-277, :285-286 *)
  else if z <? - max_int32 then - max_int32                   (* :278-279, :287-288 *)
  else z.

Definition project_slice_int (v : value) : option Z :=
  match v with
  | VInt32 z => Some z                                       (* :273-274 *)
  | VInt64 z => Some (clamp_int32 z)                         (* :275-281 *)
  | VDouble b =>                                             (* :282-290 *)
      match xnum_of_double b with
      | XNaN => None                                         (* :283-284 *)
      | XPosInf => Some max_int32
      | XNegInf => Some (- max_int32)
      | XFin q =>
          if Qle_bool q (max_int32 # 1) then
            if Qle_bool ((- max_int32) # 1) q then Some (Z.quot (Qnum q) (Zpos (Qden q)))
            else Some (- max_int32)
          else Some max_int32
      end
  | _ => None                                                (* :291-292 *)
  end.

(* :222-243 the [skip, limit] window of an array of length n *)
Definition slice_skip_limit (a : list value) (skip limit : Z) : res (list value) :=
  let n := len a in
  let start :=
    if skip <? 0 then (if n + skip <? 0 then 0 else n + skip)          (* :226-230 *)
    else (if n <? skip then n else skip) in                            (* :232-235 *)
  let end_ := wrap64 (start + limit) in                                (* :237 *)
  let end_ := if n <? end_ then n else end_ in                         (* :238-240 *)
  go_slice a start end_.                                               (* :241 *)

(* :245-262 the limit-only window *)
Definition slice_limit (a : list value) (limit : Z) : res (list value) :=
  if 0 <? limit then                                                   (* :247 *)
    if limit <? len a then go_slice a 0 limit else Ok a                (* :248-252 *)
  else if limit <? 0 then                                              (* :253 *)
    let n := wrap64 (- limit) in                                       (* :254 *)
    if n <? len a then go_slice a (wrap64 (len a - n)) (len a)         (* :255-256 *)
    else Ok a                                                          (* :258 *)
  else Ok [].                                                          (* :261 *)

(* The lists of the model are unbounded; a Go slice is not: len(a) is an int,
   and a slice of 16-byte interface values cannot even come close to 2^63
   elements.  The window arithmetic of projectSlice (start + limit, both int)
   cannot overflow on a real slice; on a model list of 2^63 - 2^31 or more
   elements it would.  Such lists are outside the model. *)
Definition max_slice_len : Z := two63 - two31.

(* :179-265 projectSlice *)
Definition project_slice : operator pstate := fun st d _ path v =>
  let* arg :=                                                (* (skip, limit, hasSkip) *)
    match v with
    | VInt32 _ | VInt64 _ | VDouble _ =>                     (* :188 *)
        match project_slice_int v with                       (* :189 *)
        | Some l => Ok (0, l, false)                         (* :193 *)
        | None => Err                                        (* :190-192 *)
        end
    | VArr nn =>                                             (* :194 *)
        match nn with
        | [x; y] =>
            match project_slice_int x with                   (* :198 *)
            | None => Err                                    (* :199-201 *)
            | Some s =>
                match project_slice_int y with               (* :202 *)
                | None => Err                                (* :203-205 *)
                | Some l => if l <? 0 then Err else Ok (s, l, true)   (* :206-211 *)
                end
            end
        | _ => Err                                           (* :195-197 *)
        end
    | _ => Err                                               (* :212-213 *)
    end in
  let '(skip, limit, has_skip) := arg in
  match Get d path with                                      (* :217 *)
  | VArr a =>
      if max_slice_len <=? len a then Unmodelled             (* not a Go slice: outside the model *)
      else
      let* w := if has_skip then slice_skip_limit a skip limit else slice_limit a limit in
      Ok (set_merge st path (VArr w))
  | _ => Ok st                                               (* :218-220 *)
  end.

(* :136-146 cloneProjected: a private deep copy (bsonkit.ConvertValue rebuilds
   every bson.D / bson.A); the identity on values.  ConvertValue fails only
   on Go types outside the BSON universe of Bson.v. *)
Definition clone_projected (v : value) : res value := Ok v.

(* :87-105 copy included fields *)
Fixpoint copy_included (d : doc) (skip : list string) (paths : list string) (r : doc) : res doc :=
  match paths with
  | [] => Ok r
  | path :: t =>
      if str_mem path skip then copy_included d skip t r   (* :91-93 *)
      else
        let v := Get d path in                             (* :94 *)
        if is_missing v then copy_included d skip t r      (* :95 *)
        else
          let* (_, r') := Put r path v false in            (* :89-92 *)
          copy_included d skip t r'
  end.

(* :111-113 *)
Fixpoint apply_exclusions (paths : list string) (r : doc) : doc :=
  match paths with
  | [] => r
  | path :: t => apply_exclusions t (snd (Unset r path))
  end.

(* :117-126, in list order (the Go code: map order) *)
Fixpoint apply_merges (m : list (string * value)) (r : doc) : res doc :=
  match m with
  | [] => Ok r
  | (path, v) :: t =>
      let* (_, r') := Put r path v false in
      apply_merges t r'
  end.

(* :61-133 everything after Process *)
Definition project_state (st : pstate) (d : doc) : res doc :=
  match ps_include st, ps_exclude st with
  | _ :: _, _ :: _ => Err                                  (* :62-64 *)
  | inc, exc =>
      let* r :=
        match inc with
        | _ :: _ =>                                        (* :70 *)
            let* (_, r0) := Put [] "_id" (Get d "_id") false in   (* :71-77 *)
            copy_included d (ps_skip st) inc r0
        | [] =>                                            (* :106-114: Clone is the identity on values *)
            Ok (apply_exclusions exc d)
        end in
      let* r := apply_merges (ps_merge st) r in            (* :117-126 *)
      Ok (if ps_hide_id st then snd (Unset r "_id") else r)   (* :129-131 *)
  end.

(* ---------------------------------------------------------------- *)
(* The source document after the call.

   Memory sharing in the Go code: bsonkit.Get returns the stored bson.D /
   bson.A header.  If Put(res, p, v) stores that header itself (provenance
   Shared), the node of `res` at p IS the node of `doc` at p (an "alias
   root"), and a later Put(res, q, w) whose path runs through an alias root
   p, |p| < |q|, makes its final assignment (access.go:180 / :223) inside the
   shared node, i.e. in the source document, at q.  A Put AT an alias root
   replaces the header in the fresh parent and does not touch the source.
   If the value is first copied (provenance Copied: cloneProjected) no alias
   root arises.

   /repo since 878ebea copies at all three places (lines 76, 95, 118):
   `stored_provenance = Copied`, there are no alias roots and the source is
   never written.  With Shared the same definitions give the behaviour
   before 878ebea (the write-through of the merge step; valid when no two
   merge paths overlap), kept as a history lemma in Proofs/ProjectProofs.v. *)

Inductive provenance : Type := Shared | Copied.

Definition stored_provenance : provenance := Copied.

Fixpoint is_prefix (p q : path) : bool :=
  match p, q with
  | [], _ => true
  | _ :: _, [] => false
  | x :: p', y :: q' => String.eqb x y && is_prefix p' q'
  end.

Definition proper_prefix (p q : path) : bool :=
  is_prefix p q && negb (Nat.eqb (List.length p) (List.length q)).

Definition add_root (roots : list path) (p : path) : list path :=
  if existsb (fun r => proper_prefix r p) roots then roots       (* the Put lands inside a shared node *)
  else p :: filter (fun r => negb (is_prefix p r)) roots.        (* the Put replaces what was below p *)

Fixpoint include_roots (prov : provenance) (d : doc) (skip : list string) (paths : list string)
         (roots : list path) : list path :=
  match paths with
  | [] => roots
  | path :: t =>
      if str_mem path skip then include_roots prov d skip t roots
      else if is_missing (Get d path) then include_roots prov d skip t roots
      else include_roots prov d skip t
             (match prov with
              | Shared => add_root roots (split_path path)
              | Copied => roots
              end)
  end.

Definition alias_roots (prov : provenance) (st : pstate) (d : doc) : list path :=
  match ps_include st with
  | [] => []                                               (* exclusion: res is a deep clone *)
  | inc =>
      include_roots prov d (ps_skip st) inc
        (match prov with Shared => [["_id"]] | Copied => [] end)   (* :76-83 copies _id first *)
  end.

Definition writes_through (roots : list path) (q : string) : bool :=
  existsb (fun r => proper_prefix r (split_path q)) roots.

Fixpoint source_after (roots : list path) (m : list (string * value)) (src : doc) : doc :=
  match m with
  | [] => src
  | (q, v) :: t =>
      if writes_through roots q then
        match Put src q v false with
        | Ok (_, src') => source_after roots t src'
        | _ => source_after roots t src
        end
      else source_after roots t src
  end.

Section WithMatch.
  (* the query matcher: mongokit.Match(doc, query) = Process(query context,
     doc, query, "", true): Ok true = nil, Ok false = ErrNotMatched *)
  Variable matchf : doc -> doc -> res bool.

  (* :326-329: Process(queryCtx, &bson.D{{"item", item}}, query, "item", false).
     With prefix "item" and root = false, a pair whose key is an operator
     calls Expression[key] with path "item" (process.go:72-82) and any other
     pair is a field condition on "item."+key (process.go:105-108).  The same
     calls, in the same order, are made by a ROOT-level Process (= Match) of
     the query below on the same virtual document. *)
  Definition elem_query (q : doc) : doc :=
    map (fun kv : string * value =>
           let '(k, v) := kv in
           if is_operator_key k then ("item", VDoc [(k, v)])
           else ("item." ++ k, v)) q.

  Definition elem_matches (item : value) (q : doc) : res bool :=
    matchf [("item", item)] (elem_query q).

  (* :325-340 find first matching element *)
  Fixpoint first_match (a : list value) (q : doc) : res (option value) :=
    match a with
    | [] => Ok None
    | item :: t =>
        let* m := elem_matches item q in
        if m then Ok (Some item) else first_match t q        (* :330-331 continue *)
    end.

  (* :296-343 projectElemMatch *)
  Definition project_elem_match : operator pstate := fun st d _ path v =>
    match v with
    | VDoc query =>                                          (* :301 *)
        let st1 := add_skip (add_include st path) path in    (* :309-310 *)
        match Get d path with                                (* :313 *)
        | VArr a =>
            let* m := first_match a query in
            match m with
            | Some item => Ok (set_merge st1 path (VArr [item]))   (* :337 *)
            | None => Ok st1                                 (* :342 *)
            end
        | _ => Ok st1                                        (* :314-316 *)
        end
    | _ => Err                                               (* :302-304 *)
    end.

  (* :15-20 init(): ProjectionExpressionOperators *)
  Definition projection_operator_names : list string := [""; "$slice"; "$elemMatch"].

  Definition projection_operators : list (string * operator pstate) :=
    [ ("", project_condition)
    ; ("$slice", project_slice)
    ; ("$elemMatch", project_elem_match) ].

  (* :53-56 Context{Expression: ProjectionExpressionOperators, Value: &state} *)
  Definition projection_context : context pstate :=
    Build_context [] projection_operators false false.

  Definition project_process (d pr : doc) : res pstate :=
    process projection_context pstate0 d pr "" true.

  (* :45-134 Project *)
  Definition project_with (d pr : doc) : res doc :=
    let* st := project_process d pr in
    project_state st d.

  (* (result, source document after the call), for either provenance of the
     values stored in the result *)
  Definition project_src_gen (prov : provenance) (d pr : doc) : res (doc * doc) :=
    let* st := project_process d pr in
    let* r := project_state st d in
    Ok (r, source_after (alias_roots prov st d) (ps_merge st) d).

  Definition project_src_with : doc -> doc -> res (doc * doc) :=
    project_src_gen stored_provenance.
End WithMatch.

(* ------------------------------------------------------------------ *)
(* Instantiation: the matcher is Model/Match.v (mongokit.Match).  What
   projectElemMatch calls is Process(ctx, {item: e}, q, "item", false);
   elem_query turns it into the root-level call Match {item: e} (elem_query q)
   (Proofs/ProjectProofs.v, elem_matches_process_nr: equal to Match.v's own
   model of that non-root call, process_nr). *)

Definition Project : doc -> doc -> res doc := project_with Match.
Definition project_src : doc -> doc -> res (doc * doc) := project_src_with Match.

(* ------------------------------------------------------------------ *)
(* Runner of family `project`.                                          *)

(* operator-bearing entries: the value is a document whose first key looks
   like an operator (process.go:112-119) *)
Definition operator_entry (kv : string * value) : bool :=
  match snd kv with
  | VDoc ((k0, _) :: _) => is_operator_key k0
  | _ => false
  end.

Fixpoint has_key (k : string) (d : list (string * value)) : bool :=
  match d with
  | [] => false
  | (k', _) :: t => String.eqb k' k || has_key k t
  end.

(* the $elemMatch queries of a projection *)
Definition elem_match_queries (pr : doc) : list value :=
  flat_map (fun kv => match snd kv with
                      | VDoc e =>
                          if operator_entry kv
                          then flat_map (fun kv' => if String.eqb (fst kv') "$elemMatch" then [snd kv'] else []) e
                          else []
                      | _ => []
                      end) pr.

(* the matcher's syntactic UNMODELLED rule (RunMatch.unmodelled_syn: schema
   patterns, decimal multipleOf, huge $bits positions) applied to every
   $elemMatch query against every document of the case *)
Definition pr_unmodelled (docs : list doc) (pr : doc) : bool :=
  existsb (fun q => existsb (fun d => unmodelled_syn (VDoc d) q) docs) (elem_match_queries pr).

(* normalised segment: all-digit segments by their numeric value *)
Fixpoint strip_zeros (s : string) : string :=
  match s with
  | String c t =>
      match t with
      | EmptyString => s
      | _ => if Ascii.eqb c "0"%char then strip_zeros t else s
      end
  | EmptyString => s
  end.

Definition norm_seg (s : string) : string :=
  match s with
  | EmptyString => s
  | _ => if all_digits s then strip_zeros s else s
  end.

Definition norm_path (ps : string) : path := map norm_seg (split_path ps).

Definition overlap (p q : path) : bool := is_prefix p q || is_prefix q p.

Definition operator_keys (pr : doc) : list string := map fst (filter operator_entry pr).

Fixpoint dedup_str (l : list string) : list string :=
  match l with
  | [] => []
  | x :: t => x :: filter (fun y => negb (String.eqb x y)) (dedup_str t)
  end.

(* two operator paths, different as strings, one running through the other
   (array indices compared by value): the Go outcome depends on the
   iteration order of the Go map state.merge *)
Definition order_dependent (pr : doc) : bool :=
  let ks := dedup_str (operator_keys pr) in
  existsb (fun k1 => existsb (fun k2 => negb (String.eqb k1 k2) &&
                                        overlap (norm_path k1) (norm_path k2)) ks) ks.

(* more than one operator path: fields created by the merge step appear in
   map order; the result is compared with field names sorted *)
Definition multi_operator (pr : doc) : bool :=
  match dedup_str (operator_keys pr) with
  | _ :: _ :: _ => true
  | _ => false
  end.

(* does v count as an inclusion / exclusion for projectCondition *)
Definition is_inclusion_value (v : value) : bool :=
  match condition_value v with Ok true => true | _ => false end.

Definition is_exclusion_value (v : value) : bool :=
  match condition_value v with Ok false => true | _ => false end.

(* the keys of the plain inclusion entries *)
Definition included_keys (pr : doc) : list string :=
  map fst (filter (fun kv => negb (operator_entry kv) && is_inclusion_value (snd kv)) pr).

(* stable sort of field names, recursively *)
Fixpoint insert_field (kv : string * value) (l : list (string * value)) : list (string * value) :=
  match l with
  | [] => [kv]
  | x :: t =>
      match str_compare (fst kv) (fst x) with
      | Gt => x :: insert_field kv t
      | _ => kv :: l
      end
  end.

Fixpoint sort_keys (v : value) : value :=
  match v with
  | VDoc d =>
      VDoc ((fix go (d : list (string * value)) : list (string * value) :=
               match d with
               | [] => []
               | (k, x) :: t => insert_field (k, sort_keys x) (go t)
               end) d)
  | VArr a =>
      VArr ((fix go (a : list value) : list value :=
               match a with
               | [] => []
               | x :: t => sort_keys x :: go t
               end) a)
  | _ => v
  end.

Definition show_val (v : value) : string := show_sexp (value_to_sexp v).

(* (project <doc> <projection>) : (<result> <source after the call>)
   (projectdb <op> (<doc>...) <projection>) : through the driver on a fresh
       collection holding the documents: op = find | findone | fau
       (FindOneAndUpdate {} {$set: {zz: 1}}, ReturnDocument After), then
       Find({}) and Find({}) with the projection again:
       (<results> <stored documents> <results again>) *)
Definition precheck (docs : list doc) (pr : doc) : option string :=
  if pr_unmodelled docs pr then Some "UNMODELLED"
  else if order_dependent pr then Some "ORDER-DEPENDENT"
  else None.

Definition canon_result (pr : doc) (r : doc) : value :=
  if multi_operator pr then sort_keys (VDoc r) else VDoc r.

Definition show_outcome {A} (r : res A) (f : A -> string) : string :=
  match r with
  | Ok x => f x
  | Err => "ERR"
  | Panic => "PANIC"
  | OutOfFuel => "OUT-OF-FUEL"
  | Unmodelled => "UNMODELLED-DYNAMIC"
  end.

Fixpoint show_values (l : list value) : string :=
  match l with
  | [] => ""
  | [v] => show_val v
  | v :: t => show_val v ++ " " ++ show_values t
  end.

Definition run_project (x : sexp) : option string :=
  match x with
  | SList [SAtom "project"; d; pr] =>
      match doc_of_sexp d, doc_of_sexp pr with
      | Some d', Some pr' =>
          match precheck [d'] pr' with
          | Some s => Some s
          | None =>
              Some (show_outcome (project_src d' pr')
                      (fun rs => "(" ++ show_val (canon_result pr' (fst rs)) ++ " " ++
                                 show_val (VDoc (snd rs)) ++ ")"))
          end
      | _, _ => Some "BAD-CASE"
      end
  | SList [SAtom "projectdb"; SAtom op; SList ds; pr] =>
      match opt_mapM doc_of_sexp ds, doc_of_sexp pr with
      | Some docs, Some pr' =>
          match precheck docs pr' with
          | Some s => Some s
          | None =>
              let stored :=
                match docs with
                | d0 :: t => if String.eqb op "fau" then (d0 ++ [("zz", VInt32 1)])%list :: t else docs
                | [] => docs
                end in
              let srcs := if String.eqb op "find" then stored else firstn 1 stored in
              Some (show_outcome (mapM (fun d => Project d pr') srcs)
                      (fun r1 =>
                         match mapM (fun d => Project d pr') stored with
                         | Ok r2 =>
                             "((" ++ show_values (map (canon_result pr') r1) ++ ") (" ++
                             show_values (map VDoc stored) ++ ") (" ++
                             show_values (map (canon_result pr') r2) ++ "))"
                         | Panic => "PANIC"
                         | _ => "ERR2"
                         end))
          end
      | _, _ => Some "BAD-CASE"
      end
  | _ => None
  end.
