(* Stream.v — executable model of lungo's change streams (C09).

   Mirrors /repo/stream.go (Stream.next, Stream.Close), /repo/engine.go
   (Engine.Watch, the publish + broadcast tail of Engine.Commit, Engine.Close)
   and, for the retention scripts of the correspondence family, the prefix
   computation of /repo/transaction.go Transaction.Clean.

   Events are abstract: {id; db; coll; op}.  The id is the rank of the event's
   `_id.ts` timestamp; ids are strictly increasing in commit order (C08).  The
   oplog is the list of retained events in commit order.  A stream's position
   (`Stream.last`) is the id of the last event it has passed; the catalog
   records in `Catalog.Trimmed` the id of the newest event retention has ever
   removed (ts_zero when none).

   Definitions only; the proofs are in Proofs/StreamProofs.v. *)
From Lungo.Model Require Export Base.
Local Open Scope string_scope.

(* ------------------------------------------------------------------ *)
(* Events, handles, scope                                              *)

Inductive optype : Type :=
| OpInsert | OpReplace | OpUpdate | OpDelete | OpDrop | OpDropDatabase.

(* transaction.go:681-743 (append): _id.ts / clusterTime -> eid (rank),
   ns.db -> edb, ns.coll -> ecoll ("" when absent: dropDatabase), operationType *)
Record event : Type := mkEvent { eid : Z; edb : string; ecoll : string; eop : optype }.

Definition oplog := list event.

(* lungo.Handle: ("","") client scope, (db,"") database scope, (db,coll) collection scope *)
Definition handle := (string * string)%type.

Definition is_drop (o : optype) : bool := match o with OpDrop => true | _ => false end.
Definition is_dropdb (o : optype) : bool := match o with OpDropDatabase => true | _ => false end.
Definition nonempty (s : string) : bool := negb (String.eqb s "").

(* stream.go:199-211 — the two `continue` branches negated.  A dropDatabase
   event carries only ns.db and is let through to collection-scoped streams. *)
Definition in_scope (h : handle) (e : event) : bool :=
  if nonempty (fst h) && negb (String.eqb (fst h) (edb e)) then false
  else if nonempty (snd h) && negb (String.eqb (snd h) (ecoll e)) && negb (is_dropdb (eop e)) then false
  else true.

(* stream.go:213-218 — does delivering e invalidate the stream? *)
Definition drops (h : handle) (e : event) : bool :=
  if nonempty (fst h) && nonempty (snd h) && is_drop (eop e) then true
  else if nonempty (fst h) && is_dropdb (eop e) then true
  else false.

(* ------------------------------------------------------------------ *)
(* Stream state                                                        *)

Inductive serr : Type := ELost | ECtx.          (* ErrLostOplogPosition | ctx.Err() *)
Inductive token : Type := TokEvent (id : Z) | TokInvalidate.   (* event _id | {ts:"drop"} *)
Inductive cur : Type := CurEvent (e : event) | CurInvalidate.  (* s.event *)

(* the zero primitive.Timestamp: below every event id *)
Definition ts_zero : Z := (-1)%Z.

Record sstate : Type := mkS {
  sh : handle;             (* s.handle *)
  slast : Z;               (* s.last: id timestamp of the last passed event *)
  sdropped : bool;         (* s.dropped *)
  sclosed : bool;          (* s.closed *)
  serror : option serr;    (* s.error *)
  scur : option cur;       (* s.event *)
  stok : option token      (* s.token *)
}.

Definition is_some {A} (o : option A) : bool := match o with Some _ => true | None => false end.

(* ------------------------------------------------------------------ *)
(* Engine.Watch (engine.go:273-369)                                    *)

Fixpoint last_event (l : oplog) : option event :=
  match l with
  | [] => None
  | [e] => Some e
  | _ :: t => last_event t
  end.

(* the resumeAfter / startAfter loops: first event whose _id equals the token *)
Fixpoint find_event (id : Z) (l : oplog) : option event :=
  match l with
  | [] => None
  | e :: t => if Z.eqb (eid e) id then Some e else find_event id t
  end.

Definition resolve_token (t : option token) (l : oplog) (cur : Z) : option Z :=
  match t with
  | None => Some cur
  | Some (TokEvent id) =>
      match find_event id l with
      | Some e => Some (eid e)
      | None => None                       (* "unable to resume change stream" *)
      end
  | Some TokInvalidate => None             (* {ts:"drop"} equals no event _id *)
  end.

Record wopts : Type := mkW { w_resume : option token; w_after : option token; w_at : option Z }.

Definition watch_now : wopts := mkW None None None.

(* trimmed = e.catalog.Trimmed.  Default position: the newest event, or — empty
   oplog — the newest event retention has removed.  StartAtOperationTime z:
   timestampBefore(z), the greatest timestamp below z. *)
Definition watch (h : handle) (o : wopts) (log : oplog) (trimmed : Z) : option sstate :=
  let last0 := match last_event log with Some e => eid e | None => trimmed end in
  match resolve_token (w_resume o) log last0 with
  | None => None
  | Some last1 =>
      match resolve_token (w_after o) log last1 with
      | None => None
      | Some last2 =>
          let last3 := match w_at o with
                       | None => last2
                       | Some z => (z - 1)%Z
                       end in
          Some (mkS h last3 false false None None None)
      end
  end.

(* ------------------------------------------------------------------ *)
(* Stream.next (stream.go:142-265)                                     *)

Inductive outcome : Type :=
| Event (e : event)   (* returned true, s.event = e *)
| Invalidate          (* returned true, s.event = invalidate event *)
| Lost                (* returned false, s.error = ErrLostOplogPosition *)
| Nothing             (* TryNext: returned false, nothing to deliver *)
| Closed.             (* returned false: stream closed or in error state *)

(* result of ONE iteration of the `for` loop *)
Inductive iter : Type :=
| Return (o : outcome)
| Continue            (* event out of scope: s.last advanced, `continue` *)
| Park.               (* blocking call, nothing available: mutex released, goes to `select` *)

(* `sort.Search(first event with id > s.last)` and `oplog.List[index+1:]`: the
   events ahead of the stream.  The oplog is sorted by id, so the binary search
   finds what this linear scan finds. *)
Fixpoint after (last : Z) (l : oplog) : oplog :=
  match l with
  | [] => []
  | e :: t => if Z.leb (eid e) last then after last t else l
  end.

Definition pending (s : sstate) (log : oplog) : oplog := after (slast s) log.

Definition set_error (s : sstate) (e : serr) : sstate :=
  mkS (sh s) (slast s) (sdropped s) (sclosed s) (Some e) (scur s) (stok s).

(* one pass through the loop body (everything done while s.mutex is held; log
   and trimmed are the snapshot returned by s.oplog()).
   block: Next (true) or TryNext (false); ctxerr: ctx.Err() != nil *)
Definition next_iter (block ctxerr : bool) (s : sstate) (log : oplog) (trimmed : Z) : sstate * iter :=
  (* check validity *)
  if is_some (serror s) || sclosed s then (s, Return Closed)
  (* dropped -> synthesize invalidate, cancel, close *)
  else if sdropped s then
    (mkS (sh s) (slast s) (sdropped s) true (serror s) (Some CurInvalidate) (Some TokInvalidate),
     Return Invalidate)
  (* an event after the position has been removed by retention *)
  else if Z.ltb (slast s) trimmed then
    (mkS (sh s) (slast s) (sdropped s) true (Some ELost) (scur s) (stok s), Return Lost)
  else
    match pending s log with
    | e :: _ =>
        if in_scope (sh s) e then
          (mkS (sh s) (eid e) (sdropped s || drops (sh s) e) (sclosed s) (serror s)
               (Some (CurEvent e)) (Some (TokEvent (eid e))),
           Return (Event e))
        else
          (mkS (sh s) (eid e) (sdropped s) (sclosed s) (serror s) (scur s) (stok s), Continue)
    | [] =>
        if block then (s, Park)
        else ((if ctxerr then set_error s ECtx else s), Return Nothing)
    end.

(* the whole call without blocking: iterate while `continue` *)
Fixpoint next_fuel (fuel : nat) (ctxerr : bool) (s : sstate) (log : oplog) (trimmed : Z) : sstate * res outcome :=
  match fuel with
  | O => (s, OutOfFuel)
  | S f =>
      match next_iter false ctxerr s log trimmed with
      | (s', Return o) => (s', Ok o)
      | (s', Continue) => next_fuel f ctxerr s' log trimmed
      | (s', Park) => (s', Unmodelled)        (* not reachable with block = false *)
      end
  end.

(* TryNext.  Every `continue` consumes one event, so length log + 1 passes suffice
   (StreamProofs.next_total). *)
Definition next (s : sstate) (log : oplog) (trimmed : Z) : sstate * res outcome :=
  next_fuel (S (List.length log)) false s log trimmed.

(* TryNext with a context that is already cancelled *)
Definition next_cancelled (s : sstate) (log : oplog) (trimmed : Z) : sstate * res outcome :=
  next_fuel (S (List.length log)) true s log trimmed.

(* the three ways out of the `select` (stream.go:245-263) *)
Definition wake_chan_closed (s : sstate) : sstate :=     (* engine closed the channel *)
  mkS (sh s) (slast s) (sdropped s) true (serror s) (scur s) (stok s).
Definition wake_ctx (s : sstate) : sstate :=             (* <-ctx.Done() *)
  match serror s with None => set_error s ECtx | Some _ => s end.

(* Stream.Close (stream.go:39-63), the part done before the send *)
Definition close_stream (s : sstate) : sstate :=
  if sclosed s then s
  else mkS (sh s) (slast s) (sdropped s) true None None (stok s).

(* retention removes a prefix (Transaction.Clean) ... *)
Definition trim (k : nat) (log : oplog) : oplog := skipn k log.
(* ... and records the id of the newest removed event in Catalog.Trimmed *)
Definition trimmed_after (k : nat) (log : oplog) (trimmed : Z) : Z :=
  match last_event (firstn k log) with
  | Some e => eid e
  | None => trimmed
  end.

(* ------------------------------------------------------------------ *)
(* Concurrent model: one stream, its consumer, committers, Close,      *)
(* context cancellation, Engine.Close.  Atomic steps are the critical  *)
(* sections of s.mutex / e.mutex and the channel operations.           *)

Inductive cpc : Type :=           (* consumer goroutine *)
| CIdle                           (* between calls *)
| CRunning (block : bool)         (* inside next(), about to lock and check *)
| CParked                         (* mutex released after a fruitless check: before or in `select` *)
| CDone (o : outcome).            (* call returned *)

Inductive wpc : Type :=           (* a goroutine in Engine.Commit *)
| WPending (evs : list event) (k : nat)  (* has not yet reached `e.catalog = txn.Catalog()`; its transaction appends evs and Clean removes k *)
| WPublished                      (* catalog replaced, broadcast not yet done *)
| WDone.

Inductive kpc : Type :=           (* a goroutine in Stream.Close *)
| KIdle
| KMarked                         (* closed := true done, send not yet done *)
| KDone.

Record cstate : Type := mkC {
  c_log : oplog;                  (* e.catalog's oplog *)
  c_trimmed : Z;                  (* e.catalog.Trimmed *)
  c_st : sstate;
  c_sig : bool;                   (* the 1-slot buffer of s.signal holds a value *)
  c_chclosed : bool;              (* s.signal closed by Engine.Close *)
  c_ctx : bool;                   (* the consumer's context is cancelled *)
  c_reg : bool;                   (* stream is in e.streams *)
  c_alive : bool;                 (* e.tomb.Alive() *)
  c_cons : cpc;
  c_writers : list wpc;
  c_closer : kpc
}.

Inductive label : Type :=
| LCall (block : bool)   (* consumer calls Next / TryNext *)
| LCheck                 (* consumer: lock; one loop pass; unlock *)
| LWake                  (* consumer: select receives from s.signal (value, or closed channel) *)
| LWakeCtx               (* consumer: select receives from ctx.Done() *)
| LReturn                (* consumer: back to the caller *)
| LPublish (i : nat)     (* committer i: Clean + store + e.catalog = ... *)
| LSignal (i : nat)      (* committer i: broadcast (non-blocking send) *)
| LCloseMark             (* Stream.Close: cancel, closed = true, ... *)
| LCloseSend             (* Stream.Close: non-blocking send *)
| LCancel                (* somebody cancels the consumer's context *)
| LEngineClose.          (* Engine.Close: kill, mark streams closed, close channels *)

Fixpoint set_nth {A} (n : nat) (x : A) (l : list A) : list A :=
  match l, n with
  | [], _ => []
  | _ :: t, O => x :: t
  | y :: t, S m => y :: set_nth m x t
  end.

Definition is_published (w : wpc) : bool := match w with WPublished => true | _ => false end.
Definition is_marked (k : kpc) : bool := match k with KMarked => true | _ => false end.

Definition with_cons (s : cstate) (st : sstate) (reg : bool) (p : cpc) : cstate :=
  mkC (c_log s) (c_trimmed s) st (c_sig s) (c_chclosed s) (c_ctx s) reg (c_alive s) p (c_writers s) (c_closer s).

Definition cstep (l : label) (s : cstate) : option cstate :=
  match l with
  | LCall b =>
      match c_cons s with
      | CIdle => Some (with_cons s (c_st s) (c_reg s) (CRunning b))
      | _ => None
      end
  | LCheck =>
      match c_cons s with
      | CRunning b =>
          match next_iter b (c_ctx s) (c_st s) (c_log s) (c_trimmed s) with
          | (st', Return o) =>
              (* Invalidate and Lost call s.cancel(): the stream leaves e.streams *)
              let reg' := match o with Invalidate | Lost => false | _ => c_reg s end in
              Some (with_cons s st' reg' (CDone o))
          | (st', Continue) => Some (with_cons s st' (c_reg s) (CRunning b))
          | (st', Park) => Some (with_cons s st' (c_reg s) CParked)
          end
      | _ => None
      end
  | LWake =>
      match c_cons s with
      | CParked =>
          if c_sig s then
            (* a buffered value is received first, also on a closed channel *)
            Some (mkC (c_log s) (c_trimmed s) (c_st s) false (c_chclosed s) (c_ctx s) (c_reg s) (c_alive s)
                      (CRunning true) (c_writers s) (c_closer s))
          else if c_chclosed s then
            Some (with_cons s (wake_chan_closed (c_st s)) false (CDone Closed))
          else None                                    (* blocked *)
      | _ => None
      end
  | LWakeCtx =>
      match c_cons s with
      | CParked =>
          if c_ctx s then Some (with_cons s (wake_ctx (c_st s)) (c_reg s) (CDone Closed))
          else None
      | _ => None
      end
  | LReturn =>
      match c_cons s with
      | CDone _ => Some (with_cons s (c_st s) (c_reg s) CIdle)
      | _ => None
      end
  | LPublish i =>
      (* e.mutex is held from the Alive check to the end of the broadcast:
         no other committer is between publish and broadcast *)
      if c_alive s && negb (existsb is_published (c_writers s)) then
        match nth_error (c_writers s) i with
        | Some (WPending evs k) =>
            Some (mkC (trim k (List.app (c_log s) evs)) (trimmed_after k (List.app (c_log s) evs) (c_trimmed s)) (c_st s) (c_sig s) (c_chclosed s) (c_ctx s) (c_reg s)
                      (c_alive s) (c_cons s) (set_nth i WPublished (c_writers s)) (c_closer s))
        | _ => None
        end
      else None
  | LSignal i =>
      match nth_error (c_writers s) i with
      | Some WPublished =>
          (* select { case stream.signal <- struct{}{}: default: } for the streams in e.streams *)
          Some (mkC (c_log s) (c_trimmed s) (c_st s) (c_sig s || c_reg s) (c_chclosed s) (c_ctx s) (c_reg s)
                    (c_alive s) (c_cons s) (set_nth i WDone (c_writers s)) (c_closer s))
      | _ => None
      end
  | LCloseMark =>
      match c_closer s with
      | KIdle =>
          if sclosed (c_st s) then
            Some (mkC (c_log s) (c_trimmed s) (c_st s) (c_sig s) (c_chclosed s) (c_ctx s) (c_reg s) (c_alive s)
                      (c_cons s) (c_writers s) KDone)
          else
            Some (mkC (c_log s) (c_trimmed s) (close_stream (c_st s)) (c_sig s) (c_chclosed s) (c_ctx s) false
                      (c_alive s) (c_cons s) (c_writers s) KMarked)
      | _ => None
      end
  | LCloseSend =>
      match c_closer s with
      | KMarked =>
          Some (mkC (c_log s) (c_trimmed s) (c_st s) true (c_chclosed s) (c_ctx s) (c_reg s) (c_alive s)
                    (c_cons s) (c_writers s) KDone)
      | _ => None
      end
  | LCancel =>
      Some (mkC (c_log s) (c_trimmed s) (c_st s) (c_sig s) (c_chclosed s) true (c_reg s) (c_alive s)
                (c_cons s) (c_writers s) (c_closer s))
  | LEngineClose =>
      (* Kill needs e.mutex (no committer mid-broadcast); marking the stream
         needs s.mutex (Stream.Close holds it from mark to send) *)
      if c_alive s && negb (existsb is_published (c_writers s)) && negb (is_marked (c_closer s)) then
        if c_reg s && negb (sclosed (c_st s)) then
          Some (mkC (c_log s) (c_trimmed s) (wake_chan_closed (c_st s)) (c_sig s) true (c_ctx s) (c_reg s) false
                    (c_cons s) (c_writers s) (c_closer s))
        else
          Some (mkC (c_log s) (c_trimmed s) (c_st s) (c_sig s) (c_chclosed s) (c_ctx s) (c_reg s) false
                    (c_cons s) (c_writers s) (c_closer s))
      else None
  end.

(* initial state: a stream just returned by Watch on oplog `log`, nobody running *)
Definition cinit (log : oplog) (trimmed : Z) (st : sstate) (writers : list (list event * nat)) : cstate :=
  mkC log trimmed st false false false true true CIdle
      (map (fun w => WPending (fst w) (snd w)) writers) KIdle.

(* run a schedule; None when a step is not enabled *)
Fixpoint crun (ls : list label) (s : cstate) : option cstate :=
  match ls with
  | [] => Some s
  | l :: t => match cstep l s with Some s' => crun t s' | None => None end
  end.

(* ------------------------------------------------------------------ *)
(* Retention as seen by the scripts of the correspondence family:      *)
(* Transaction.Clean (transaction.go:1084-1138) with ages abstracted   *)
(* to epochs (wall-clock seconds): MinOplogAge = 1ns protects exactly  *)
(* the events of the current second; MaxOplogAge = 1ns makes every     *)
(* event "older than maxAge", MaxOplogAge = 1h none.                   *)

Local Open Scope Z_scope.

Fixpoint clean_count (len minS maxS : Z) (max_always : bool) (now : Z) (i : Z)
         (l : list (event * Z)) : nat :=
  match l with
  | [] => O
  | (_, ep) :: t =>
      let after_min := (i <? len - minS) && (ep <? now) in
      let beyond_max := (i <? len - maxS) || max_always in
      if after_min && beyond_max then S (clean_count len minS maxS max_always now (i + 1) t) else O
  end.

Definition clean (minS maxS : Z) (max_always : bool) (now : Z) (l : list (event * Z)) (trimmed : Z)
  : list (event * Z) * Z :=
  let k := clean_count (Z.of_nat (List.length l)) minS maxS max_always now 0 l in
  (skipn k l, trimmed_after k (map fst l) trimmed).

(* ------------------------------------------------------------------ *)
(* Script runner of family `stream`                                    *)

Record rworld : Type := mkR {
  r_log : list (event * Z);          (* retained events with their epoch *)
  r_trimmed : Z;                     (* Catalog.Trimmed *)
  r_count : Z;                       (* events committed so far = next rank *)
  r_epoch : Z;
  r_streams : list (option sstate);  (* in the order of the watch steps; None = Watch failed *)
  r_min : Z; r_max : Z; r_always : bool
}.

Definition rlog (w : rworld) : oplog := map fst (r_log w).

Definition parse_op (s : string) : option optype :=
  if String.eqb s "insert" then Some OpInsert
  else if String.eqb s "replace" then Some OpReplace
  else if String.eqb s "update" then Some OpUpdate
  else if String.eqb s "delete" then Some OpDelete
  else if String.eqb s "drop" then Some OpDrop
  else if String.eqb s "dropDatabase" then Some OpDropDatabase
  else None.

(* (ev xDB xCOLL op) ... with ranks assigned from n *)
Fixpoint parse_events (n : Z) (epoch : Z) (l : list sexp) : option (list (event * Z)) :=
  match l with
  | [] => Some []
  | SList [SAtom "ev"; SAtom d; SAtom c; SAtom o] :: t =>
      match unhex d, unhex c, parse_op o, parse_events (n + 1) epoch t with
      | Some d', Some c', Some o', Some r => Some ((mkEvent n d' c' o', epoch) :: r)
      | _, _, _, _ => None
      end
  | _ => None
  end.

Definition parse_scope (x : sexp) : option handle :=
  match x with
  | SList [SAtom "client"] => Some ("", "")
  | SList [SAtom "db"; SAtom d] => option_map (fun d' => (d', "")) (unhex d)
  | SList [SAtom "coll"; SAtom d; SAtom c] =>
      match unhex d, unhex c with
      | Some d', Some c' => Some (d', c')
      | _, _ => None
      end
  | _ => None
  end.

Definition nat_of_atom (s : string) : option nat :=
  match parse_Z s with
  | Some z => if z <? 0 then None else Some (Z.to_nat z)
  | None => None
  end.

(* a token reference: (tok S) = ResumeToken() of stream S (absent -> option not
   set), (id R) = the _id of the event of rank R *)
Definition parse_tok (w : rworld) (x : sexp) : option (option token) :=
  match x with
  | SList [SAtom "tok"; SAtom s] =>
      match nat_of_atom s with
      | Some i =>
          match nth_error (r_streams w) i with
          | Some (Some st) => Some (stok st)
          | _ => Some None
          end
      | None => None
      end
  | SList [SAtom "id"; SAtom r] => option_map (fun z => Some (TokEvent z)) (parse_Z r)
  | _ => None
  end.

Fixpoint parse_wopts (w : rworld) (l : list sexp) (o : wopts) : option wopts :=
  match l with
  | [] => Some o
  | SList [SAtom "resume"; t] :: r =>
      match parse_tok w t with
      | Some t' => parse_wopts w r (mkW t' (w_after o) (w_at o))
      | None => None
      end
  | SList [SAtom "after"; t] :: r =>
      match parse_tok w t with
      | Some t' => parse_wopts w r (mkW (w_resume o) t' (w_at o))
      | None => None
      end
  | SList [SAtom "at"; SAtom z] :: r =>
      match parse_Z z with
      | Some z' =>
          (* a rank that no event has yet stands for a fresh bsonkit.Now(): above
             every event so far, below every later one *)
          parse_wopts w r (mkW (w_resume o) (w_after o) (Some (Z.min z' (r_count w))))
      | None => None
      end
  | _ => None
  end.

Definition show_len (w : rworld) : string := "L" ++ show_Z (Z.of_nat (List.length (r_log w))).

(* what the caller can see after TryNext returned: true + Decode, or false +
   Err() / Decode()'s error (mongo.ErrNilCursor iff closed and s.event == nil) *)
Definition show_result (s : sstate) (r : res outcome) : string :=
  match r with
  | Ok (Event e) => show_Z (eid e)
  | Ok Invalidate => "INVALIDATE"
  | Ok _ =>
      match serror s with
      | Some ELost => "LOST"
      | Some ECtx => "ERR"
      | None =>
          if sclosed s && negb (is_some (scur s)) then "CLOSED" else "NOTHING"
      end
  | OutOfFuel => "OUT-OF-FUEL"
  | _ => "UNMODELLED"
  end.

Definition set_streams (w : rworld) (l : list (option sstate)) : rworld :=
  mkR (r_log w) (r_trimmed w) (r_count w) (r_epoch w) l (r_min w) (r_max w) (r_always w).

Definition set_rlog (w : rworld) (l : list (event * Z)) (tr : Z) (n : Z) : rworld :=
  mkR l tr n (r_epoch w) (r_streams w) (r_min w) (r_max w) (r_always w).

Definition run_trynext (w : rworld) (ctxerr : bool) (i : nat) : rworld * string :=
  match nth_error (r_streams w) i with
  | Some (Some st) =>
      let (st', r) := next_fuel (S (List.length (r_log w))) ctxerr st (rlog w) (r_trimmed w) in
      (set_streams w (set_nth i (Some st') (r_streams w)), show_result st' r)
  | _ => (w, "NOSTREAM")
  end.

Definition run_step (w : rworld) (x : sexp) : option (rworld * string) :=
  match x with
  | SList (SAtom "commit" :: _ :: evs) =>
      match parse_events (r_count w) (r_epoch w) evs with
      | Some l =>
          (* engine.go:219-225: a transaction that changed nothing is not dirty:
             Commit returns before Clean *)
          let '(log', tr') := match l with
                      | [] => (r_log w, r_trimmed w)
                      | _ => clean (r_min w) (r_max w) (r_always w) (r_epoch w) (List.app (r_log w) l) (r_trimmed w)
                      end in
          let w' := set_rlog w log' tr' (r_count w + Z.of_nat (List.length l)) in
          Some (w', show_len w')
      | None => None
      end
  | SList [SAtom "tick"] =>
      Some (mkR (r_log w) (r_trimmed w) (r_count w) (r_epoch w + 1) (r_streams w) (r_min w) (r_max w) (r_always w), ".")
  | SList [SAtom "trim"; SAtom k] =>
      match nat_of_atom k with
      | Some k' => let w' := set_rlog w (skipn k' (r_log w)) (trimmed_after k' (rlog w) (r_trimmed w)) (r_count w) in
                   Some (w', show_len w')
      | None => None
      end
  | SList (SAtom "watch" :: sc :: opts) =>
      match parse_scope sc, parse_wopts w opts watch_now with
      | Some h, Some o =>
          match watch h o (rlog w) (r_trimmed w) with
          | Some st => Some (set_streams w (List.app (r_streams w) [Some st]), "W")
          | None => Some (set_streams w (List.app (r_streams w) [None]), "ERR")
          end
      | _, _ => None
      end
  | SList [SAtom "trynext"; SAtom s] =>
      option_map (run_trynext w false) (nat_of_atom s)
  | SList [SAtom "trynextc"; SAtom s] =>
      option_map (run_trynext w true) (nat_of_atom s)
  | SList [SAtom "close"; SAtom s] =>
      match nat_of_atom s with
      | Some i =>
          match nth_error (r_streams w) i with
          | Some (Some st) => Some (set_streams w (set_nth i (Some (close_stream st)) (r_streams w)), "-")
          | _ => Some (w, "-")
          end
      | None => None
      end
  | _ => None
  end.

Fixpoint run_steps (w : rworld) (l : list sexp) : option (list string) :=
  match l with
  | [] => Some []
  | x :: t =>
      match run_step w x with
      | Some (w', s) => option_map (cons s) (run_steps w' t)
      | None => None
      end
  end.

Fixpoint join_sp (l : list string) : string :=
  match l with
  | [] => ""
  | [s] => s
  | s :: t => (s ++ " " ++ join_sp t)%string
  end.

(* (stream (ret MIN MAX ALWAYS) step ...) *)
Definition run_stream (x : sexp) : option string :=
  match x with
  | SList (SAtom "stream" :: SList [SAtom "ret"; SAtom mn; SAtom mx; SAtom al] :: steps) =>
      match parse_Z mn, parse_Z mx, parse_Z al with
      | Some mn', Some mx', Some al' =>
          match run_steps (mkR [] ts_zero 0 0 [] mn' mx' (negb (al' =? 0))) steps with
          | Some out => Some (join_sp out)
          | None => Some "BAD-CASE"%string
          end
      | _, _, _ => Some "BAD-CASE"%string
      end
  | _ => None
  end.

(* ------------------------------------------------------------------ *)
(* Script runner of family `streamsched`: schedules of the concurrent  *)
(* model, executed on the real engine under the verif hook controller  *)
(* (consumer held between s.mutex.Unlock() and the select; committer   *)
(* held between `e.catalog = ...` and the broadcast).                  *)

Local Open Scope string_scope.

(* the consumer runs loop passes until it returns or parks *)
Fixpoint run_checks (fuel : nat) (s : cstate) : cstate :=
  match fuel with
  | O => s
  | S f =>
      match c_cons s with
      | CRunning _ => match cstep LCheck s with Some s' => run_checks f s' | None => s end
      | _ => s
      end
  end.

Definition show_cons (s : cstate) : string :=
  match c_cons s with
  | CParked => "PARKED"
  | CDone o => show_result (c_st s) (Ok o)
  | CRunning _ => "OUT-OF-FUEL"
  | CIdle => "IDLE"
  end.

Record qworld : Type := mkQ {
  q_pre : list event;            (* before the watch step: the oplog *)
  q_tr : Z;                      (* ... and Catalog.Trimmed *)
  q_count : Z;
  q_c : option cstate            (* after the watch step *)
}.

Definition steps_opt (ls : list label) (s : cstate) : cstate :=
  match crun ls s with Some s' => s' | None => s end.

Definition add_writer (s : cstate) (w : wpc) : cstate :=
  mkC (c_log s) (c_trimmed s) (c_st s) (c_sig s) (c_chclosed s) (c_ctx s) (c_reg s) (c_alive s) (c_cons s)
      (List.app (c_writers s) [w]) (c_closer s).

Definition call_next (block : bool) (s : cstate) : cstate :=
  let s1 := match c_cons s with CDone _ => steps_opt [LReturn] s | _ => s end in
  match cstep (LCall block) s1 with
  | Some s2 => run_checks (S (S (List.length (c_log s2)))) s2
  | None => s1
  end.

Definition qlen (s : cstate) : string := "L" ++ show_Z (Z.of_nat (List.length (c_log s))).

Definition run_qstep (w : qworld) (x : sexp) : option (qworld * string) :=
  match q_c w, x with
  | None, SList (SAtom "commit" :: _ :: evs) =>
      match parse_events (q_count w) 0 evs with
      | Some l =>
          let pre := List.app (q_pre w) (map fst l) in
          Some (mkQ pre (q_tr w) (q_count w + Z.of_nat (List.length l)) None, "L" ++ show_Z (Z.of_nat (List.length pre)))
      | None => None
      end
  | None, SList [SAtom "trim"; SAtom k] =>
      match nat_of_atom k with
      | Some k' => let pre := skipn k' (q_pre w) in
                   Some (mkQ pre (trimmed_after k' (q_pre w) (q_tr w)) (q_count w) None,
                         "L" ++ show_Z (Z.of_nat (List.length pre)))
      | None => None
      end
  | None, SList [SAtom "watch"; sc] =>
      match parse_scope sc with
      | Some h =>
          match watch h watch_now (q_pre w) (q_tr w) with
          | Some st => Some (mkQ (q_pre w) (q_tr w) (q_count w) (Some (cinit (q_pre w) (q_tr w) st [])), "W")
          | None => None
          end
      | None => None
      end
  | Some s, SList (SAtom "commit" :: _ :: evs) =>
      match parse_events (q_count w) 0 evs with
      | Some [] => Some (w, qlen s)                       (* not dirty: no publish, no broadcast *)
      | Some l =>
          let i := List.length (c_writers s) in
          let s' := steps_opt [LPublish i; LSignal i] (add_writer s (WPending (map fst l) 0)) in
          Some (mkQ (q_pre w) (q_tr w) (q_count w + Z.of_nat (List.length l)) (Some s'), qlen s')
      | None => None
      end
  | Some s, SList (SAtom "publish" :: _ :: evs) =>
      match parse_events (q_count w) 0 evs with
      | Some [] => Some (w, "P")                          (* not dirty: Commit returns before the broadcast *)
      | Some l =>
          let i := List.length (c_writers s) in
          let s' := steps_opt [LPublish i] (add_writer s (WPending (map fst l) 0)) in
          Some (mkQ (q_pre w) (q_tr w) (q_count w + Z.of_nat (List.length l)) (Some s'), "P")
      | None => None
      end
  | Some s, SList [SAtom "signal"] =>
      let s' := steps_opt [LSignal (pred (List.length (c_writers s)))] s in
      Some (mkQ (q_pre w) (q_tr w) (q_count w) (Some s'), qlen s')
  | Some s, SList [SAtom "trim"; SAtom k] =>
      match nat_of_atom k with
      | Some k' =>
          if Nat.eqb (Nat.min k' (List.length (c_log s))) 0 then Some (w, qlen s)   (* Clean removed nothing: not dirty *)
          else
            let i := List.length (c_writers s) in
            let s' := steps_opt [LPublish i; LSignal i] (add_writer s (WPending [] k')) in
            Some (mkQ (q_pre w) (q_tr w) (q_count w) (Some s'), qlen s')
      | None => None
      end
  | Some s, SList [SAtom "next"] =>
      let s' := call_next true s in Some (mkQ (q_pre w) (q_tr w) (q_count w) (Some s'), show_cons s')
  | Some s, SList [SAtom "trynext"] =>
      let s' := call_next false s in Some (mkQ (q_pre w) (q_tr w) (q_count w) (Some s'), show_cons s')
  | Some s, SList [SAtom "await"] =>
      match c_cons s with
      | CParked =>
          let by_sig := c_sig s || c_chclosed s in
          if by_sig && c_ctx s then Some (w, "RACE")       (* Go's select picks at random: not generated *)
          else if by_sig then
            let s' := run_checks (S (S (List.length (c_log s)))) (steps_opt [LWake] s) in
            Some (mkQ (q_pre w) (q_tr w) (q_count w) (Some s'), show_cons s')
          else if c_ctx s then
            let s' := steps_opt [LWakeCtx] s in
            Some (mkQ (q_pre w) (q_tr w) (q_count w) (Some s'), show_cons s')
          else Some (w, "BLOCKED")
      | _ => Some (w, "NOT-PARKED")
      end
  | Some s, SList [SAtom "close"] =>
      let s1 := mkC (c_log s) (c_trimmed s) (c_st s) (c_sig s) (c_chclosed s) (c_ctx s) (c_reg s) (c_alive s) (c_cons s)
                    (c_writers s) KIdle in       (* a new goroutine calls Close *)
      let s2 := steps_opt [LCloseMark] s1 in
      let s3 := steps_opt [LCloseSend] s2 in
      Some (mkQ (q_pre w) (q_tr w) (q_count w) (Some s3), "-")
  | Some s, SList [SAtom "cancel"] =>
      Some (mkQ (q_pre w) (q_tr w) (q_count w) (Some (steps_opt [LCancel] s)), "-")
  | Some s, SList [SAtom "engineclose"] =>
      Some (mkQ (q_pre w) (q_tr w) (q_count w) (Some (steps_opt [LEngineClose] s)), "-")
  | _, _ => None
  end.

Fixpoint run_qsteps (w : qworld) (l : list sexp) : option (list string) :=
  match l with
  | [] => Some []
  | x :: t =>
      match run_qstep w x with
      | Some (w', s) => option_map (cons s) (run_qsteps w' t)
      | None => None
      end
  end.

(* (sched step ...) *)
Definition run_sched (x : sexp) : option string :=
  match x with
  | SList (SAtom "sched" :: steps) =>
      match run_qsteps (mkQ [] ts_zero 0 None) steps with
      | Some out => Some (join_sp out)
      | None => Some "BAD-CASE"
      end
  | _ => None
  end.
