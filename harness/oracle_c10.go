package main

// oracle_c10.go — oracle C10: the logical laws of the query language evaluated
// on the REAL mongokit.Match (no model involved).  Results are three-valued
// (T | F | ERR); PANIC is always a failure.

import (
	"fmt"

	"go.mongodb.org/mongo-driver/bson"
	"go.mongodb.org/mongo-driver/bson/primitive"

	"github.com/256dpi/lungo/bsonkit"
)

func neg3(a string) string {
	switch a {
	case "T":
		return "F"
	case "F":
		return "T"
	}
	return a
}

// Go-side sequential conjunction / disjunction of single matches
func seqAnd(rs []string) string {
	for _, r := range rs {
		if r != "T" {
			return r
		}
	}
	return "T"
}

func seqOr(rs []string) string {
	for _, r := range rs {
		if r != "F" {
			return r
		}
	}
	return "F"
}

func one(k string, v interface{}) bson.D { return bson.D{{Key: k, Value: v}} }

// independent reading of one comparison on one candidate
func cmpHoldsGo(op string, c, v interface{}) bool {
	if classRank[kindOf(c)] != classRank[kindOf(v)] {
		return false
	}
	res := bsonkit.Compare(c, v)
	switch op {
	case "$eq":
		return res == 0
	case "$gt":
		return res > 0
	case "$gte":
		return res >= 0
	case "$lt":
		return res < 0
	case "$lte":
		return res <= 0
	}
	return false
}

// the candidates of a comparison: the value at the path and, when it is an
// array, its elements; under fan-out the same for every value found
func cmpCandidates(d bson.D, p string) []interface{} {
	dd := d
	v, multi := bsonkit.All(&dd, p, true, false)
	leaf := func(out []interface{}, x interface{}) []interface{} {
		if arr, ok := x.(bson.A); ok {
			out = append(out, arr...)
		}
		return append(out, x)
	}
	var out []interface{}
	if !multi {
		return leaf(out, v)
	}
	if leaves, ok := v.(bson.A); ok {
		for _, l := range leaves {
			out = leaf(out, l)
		}
	}
	return out
}

func oracleC10(r *rng, n int, st *oracleStats) []oracleFailure {
	st.Rule = "documents and sub-filters from the match family's grammar; laws checked on the real Match with three-valued results: $nor = not $or, $and/$or = sequential conjunction/disjunction of the single matches, implicit and, $ne/$nin/$not exact negations, $in = disjunction of $eq, $gte/$lte = $gt/$lt-or-$eq, literal = $eq, comparison = some candidate of the operand's class in the order relation (bracketing, array-or-element), $lt-date selects earlier dates only; an evaluation is non-trivial when the two sides are not both ERR"
	var fails []oracleFailure
	fail := func(sig, what string, d bson.D, detail map[string]interface{}) {
		if len(fails) >= 30 {
			return
		}
		detail["doc"] = enc(d)
		fails = append(fails, oracleFailure{Property: "C10", Signature: sig, What: what, Detail: detail})
	}
	check := func(law string, d bson.D, lhs, rhs string, detail map[string]interface{}) {
		st.Evaluations++
		st.Dist[law+":"+lhs]++
		if lhs != "ERR" || rhs != "ERR" {
			st.Nontrivial++
		}
		if lhs == "PANIC" || rhs == "PANIC" {
			detail["lhs"], detail["rhs"] = lhs, rhs
			fail("C10:panic", "Match panics on a filter of law "+law, d, detail)
			return
		}
		if lhs != rhs {
			detail["lhs"], detail["rhs"] = lhs, rhs
			fail("C10:"+law, "law "+law+" violated on the real Match", d, detail)
		}
		if len(st.Samples) < 3 {
			st.Samples = append(st.Samples, fmt.Sprintf("%s doc=%s %v => %s", law, enc(d), detail, lhs))
		}
	}
	for i := 0; i < n; i++ {
		d := genMatchDoc(r)
		g := &fgen{r: r, mal: r.chance(1, 8)}
		p := genPath(r, d)
		switch i % 12 {
		case 0: // $nor vs $or, any argument
			var arg interface{}
			if g.mal {
				arg = pick(r, []interface{}{nil, bson.A{}, int32(1), bson.A{int32(1)}, bson.A{bson.D{}, "a"}, bson.A{g.filter(d, 1), nil}})
			} else {
				a := bson.A{}
				for j := 0; j < 1+r.intn(3); j++ {
					a = append(a, g.filter(d, 2))
				}
				arg = a
			}
			check("nor-is-not-or", d, safeMatch(d, one("$nor", arg)), neg3(safeMatch(d, one("$or", arg))), map[string]interface{}{"arg": enc(arg)})
		case 1, 2: // $and / $or vs the single matches
			k := 1 + r.intn(3)
			a := bson.A{}
			var rs []string
			for j := 0; j < k; j++ {
				f := g.filter(d, 2)
				a = append(a, f)
				rs = append(rs, safeMatch(d, f))
			}
			if i%12 == 1 {
				check("and-is-conj", d, safeMatch(d, one("$and", a)), seqAnd(rs), map[string]interface{}{"arg": enc(a)})
			} else {
				check("or-is-disj", d, safeMatch(d, one("$or", a)), seqOr(rs), map[string]interface{}{"arg": enc(a)})
			}
		case 3: // implicit and
			f1, f2 := g.filter(d, 2), g.filter(d, 2)
			both := append(append(bson.D{}, f1...), f2...)
			check("implicit-and", d, safeMatch(d, both), seqAnd([]string{safeMatch(d, f1), safeMatch(d, f2)}), map[string]interface{}{"f1": enc(f1), "f2": enc(f2)})
		case 4: // $ne
			v := g.operand(d, p)
			check("ne-is-not-eq", d, safeMatch(d, one(p, one("$ne", v))), neg3(safeMatch(d, one(p, one("$eq", v)))), map[string]interface{}{"path": p, "v": enc(v)})
		case 5: // $nin
			arg := g.opArg("$in", d, p, 1)
			check("nin-is-not-in", d, safeMatch(d, one(p, one("$nin", arg))), neg3(safeMatch(d, one(p, one("$in", arg)))), map[string]interface{}{"path": p, "arg": enc(arg)})
		case 6: // $not
			exps := g.opDoc(d, p, 2, 1+r.intn(2))
			allOps := len(exps) > 0
			for _, e := range exps {
				if len(e.Key) == 0 || e.Key[0] != '$' {
					allOps = false
				}
			}
			if !allOps {
				continue
			}
			check("not-negates", d, safeMatch(d, one(p, one("$not", exps))), neg3(safeMatch(d, one(p, exps))), map[string]interface{}{"path": p, "exps": enc(exps)})
		case 7: // $in vs the equalities
			vs := bson.A{}
			for j := 0; j < r.intn(4); j++ {
				vs = append(vs, g.operand(d, p))
			}
			rhs := "F"
			for _, v := range vs {
				if safeMatch(d, one(p, one("$eq", v))) == "T" {
					rhs = "T"
				}
			}
			check("in-is-disj-eq", d, safeMatch(d, one(p, one("$in", vs))), rhs, map[string]interface{}{"path": p, "vs": enc(vs)})
		case 8: // $gte / $lte
			v := g.opArg("$gte", d, p, 1)
			strict, loose := "$gt", "$gte"
			if r.chance(1, 2) {
				strict, loose = "$lt", "$lte"
			}
			rhs := "F"
			if safeMatch(d, one(p, one(strict, v))) == "T" || safeMatch(d, one(p, one("$eq", v))) == "T" {
				rhs = "T"
			}
			check(loose[1:]+"-is-strict-or-eq", d, safeMatch(d, one(p, one(loose, v))), rhs, map[string]interface{}{"path": p, "v": enc(v)})
		case 9: // literal equality is $eq
			v := g.operand(d, p)
			if vd, ok := v.(bson.D); ok && len(vd) > 0 && len(vd[0].Key) > 0 && vd[0].Key[0] == '$' {
				continue
			}
			check("literal-is-eq", d, safeMatch(d, one(p, v)), safeMatch(d, one(p, one("$eq", v))), map[string]interface{}{"path": p, "v": enc(v)})
		case 10: // bracketing and array-or-element: some candidate of the operand's class
			op := pick(r, cmpOps)
			v := g.opArg(op, d, p, 1)
			rhs := "F"
			for _, c := range cmpCandidates(d, p) {
				if cmpHoldsGo(op, c, v) {
					rhs = "T"
				}
			}
			check("comparison-candidates", d, safeMatch(d, one(p, one(op, v))), rhs, map[string]interface{}{"path": p, "op": op, "v": enc(v)})
		case 11: // $lt against a date
			t := primitive.DateTime(pick(r, []int64{0, 1, 2, 1700000000000, 1700000000001, 1700000000002, -1, 9223372036854775807}))
			if r.chance(3, 4) {
				// a TTL-style field: a date, an array of dates, or dates inside sub-documents
				dt := func() interface{} {
					if r.chance(1, 5) {
						return genScalar(r)
					}
					return primitive.DateTime(pick(r, []int64{0, 1, 2, 1700000000000, 1700000000001, -1}))
				}
				switch r.intn(3) {
				case 0:
					d = append(d, bson.E{Key: "ttl", Value: dt()})
					p = "ttl"
				case 1:
					d = append(d, bson.E{Key: "ttl", Value: bson.A{dt(), dt()}})
					p = "ttl"
				default:
					d = append(d, bson.E{Key: "ttl", Value: bson.A{bson.D{{Key: "e", Value: dt()}}, bson.D{{Key: "e", Value: dt()}}, bson.D{}}})
					p = "ttl.e"
				}
			}
			for _, c := range cmpCandidates(d, p) {
				if u, ok := c.(primitive.DateTime); ok && r.chance(2, 3) {
					t = u + primitive.DateTime(r.intn(3)-1)
				}
			}
			rhs := "F"
			for _, c := range cmpCandidates(d, p) {
				if u, ok := c.(primitive.DateTime); ok && u < t {
					rhs = "T"
				}
			}
			check("lt-date-brackets", d, safeMatch(d, one(p, one("$lt", t))), rhs, map[string]interface{}{"path": p, "t": enc(t)})
		}
	}
	return fails
}

func init() {
	registerOracle(&oracle{prop: "C10", name: "logical-laws", run: oracleC10})
}
