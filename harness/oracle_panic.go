package main

// oracle_panic.go — C20: well-formed input never panics the library.  Every
// bsonkit / mongokit / driver entry point is called under recover() and a
// watchdog with oddly shaped documents, filters, updates, projections, sorts
// and array filters built from the supported BSON types: operator arguments of
// the wrong type, unknown operators, empty keys and paths, numeric and dotted
// path corner cases, huge and non-finite numbers, document- and binary-valued
// ids.  After a driver call a probe write must still succeed.

import (
	"context"
	"fmt"
	"strings"
	"time"

	"go.mongodb.org/mongo-driver/bson"
	"go.mongodb.org/mongo-driver/bson/primitive"
	"go.mongodb.org/mongo-driver/mongo"
	"go.mongodb.org/mongo-driver/mongo/options"

	"github.com/256dpi/lungo"
	"github.com/256dpi/lungo/bsonkit"
	"github.com/256dpi/lungo/mongokit"
)

var allOperators = []string{
	"$and", "$or", "$nor", "$not", "$eq", "$gt", "$gte", "$lt", "$lte", "$ne", "$in", "$nin", "$exists", "$type", "$all", "$size",
	"$elemMatch", "$mod", "$bitsAllSet", "$bitsAllClear", "$bitsAnySet", "$bitsAnyClear", "$jsonSchema", "$regex", "$options",
	"$set", "$setOnInsert", "$unset", "$rename", "$inc", "$mul", "$min", "$max", "$currentDate", "$push", "$pop", "$pull", "$pullAll",
	"$addToSet", "$bit", "$each", "$position", "$sort", "$slice", "$type", "$", "$$", "$foo", "$[]", "$[x]",
	"bsonType", "required", "properties", "items", "enum", "minimum", "maximum", "minItems", "maxItems", "uniqueItems", "type",
	"allOf", "anyOf", "oneOf", "not", "additionalProperties", "minLength", "maxLength", "multipleOf", "minProperties", "dependencies",
}

var weirdPaths = []string{"", "a", "a.b", "a.", ".a", "a..b", "0", "a.0", "a.0.b", "a.$[]", "a.$[x].b", "a.$", "$", "_id", "a.-1", "a.+1", "a.00",
	"a.999", "a.b.c.d", "a.1.2", "x\x00y", "a.$[]", "a.$[].b.$[y]"}

func genWeirdValue(r *rng, depth int) interface{} {
	if depth <= 0 {
		return genScalar(r)
	}
	switch r.intn(6) {
	case 0:
		return genWeirdDoc(r, depth-1)
	case 1:
		n := r.intn(4)
		a := bson.A{}
		for i := 0; i < n; i++ {
			a = append(a, genWeirdValue(r, depth-1))
		}
		return a
	case 2:
		return genValue(r, 2)
	default:
		return genScalar(r)
	}
}

func genWeirdDoc(r *rng, depth int) bson.D {
	n := r.intn(4)
	d := bson.D{}
	for i := 0; i < n; i++ {
		var k string
		switch r.intn(3) {
		case 0:
			k = pick(r, allOperators)
		case 1:
			k = pick(r, weirdPaths)
		default:
			k = pick(r, poolKeys)
		}
		d = append(d, bson.E{Key: k, Value: genWeirdValue(r, depth)})
	}
	return d
}

// guarded runs fn under recover and a watchdog; returns "" | "PANIC: ..." | "HANG"
func guarded(fn func()) string {
	done := make(chan string, 1)
	go func() {
		defer func() {
			if p := recover(); p != nil {
				done <- fmt.Sprintf("PANIC: %v", p)
			}
		}()
		fn()
		done <- ""
	}()
	select {
	case s := <-done:
		return s
	case <-time.After(10 * time.Second):
		return "HANG"
	}
}

func oraclePanic(r *rng, n int, st *oracleStats) []oracleFailure {
	st.Rule = "malformed stream: documents / filters / updates / projections / sorts / array filters whose keys are drawn from all operator names (query, update, projection, schema keywords, unknown), odd paths (empty, leading/trailing/double dots, numeric, positional) and plain keys, with arbitrary supported BSON values as arguments; each of ~25 entry points called under recover() and a 10 s watchdog; driver calls are followed by a probe write; non-trivial = the input contains at least one operator key"
	var fails []oracleFailure
	seenSig := map[string]bool{}
	report := func(fn, res string, inputs ...interface{}) {
		if res == "" {
			return
		}
		kind := "panic"
		if res == "HANG" {
			kind = "hang"
		}
		sig := "C20:" + kind + ":" + fn
		if strings.Contains(res, "slice bounds") || strings.Contains(res, "index out of range") {
			sig += ":bounds"
		} else if strings.Contains(res, "uncomparable") {
			sig += ":uncomparable"
		} else if strings.Contains(res, "interface conversion") {
			sig += ":type-assertion"
		} else if strings.Contains(res, "nil pointer") {
			sig += ":nil"
		} else if strings.Contains(res, "divide by zero") {
			sig += ":div0"
		}
		if seenSig[sig] || len(fails) >= 15 {
			return
		}
		seenSig[sig] = true
		var ins []string
		for _, in := range inputs {
			switch x := in.(type) {
			case string:
				ins = append(ins, "str:"+hx(x))
			default:
				ins = append(ins, enc(x))
			}
		}
		fails = append(fails, oracleFailure{Property: "C20", Signature: sig, What: fn + ": " + res, Detail: ins})
	}

	client, engine, err := lungo.Open(nil, lungo.Options{Store: lungo.NewMemoryStore(), ExpireInterval: time.Hour})
	if err != nil {
		return nil
	}
	defer engine.Close()
	coll := client.Database("db").Collection("c")
	ctx := context.Background()
	probe := 0

	for i := 0; i < n; i++ {
		st.Evaluations++
		doc := genDocD(r, 3, r.chance(1, 2))
		if r.chance(1, 4) {
			doc = genWeirdDoc(r, 2)
		}
		w1, w2, w3 := genWeirdDoc(r, 3), genWeirdDoc(r, 3), genWeirdDoc(r, 2)
		path := pick(r, weirdPaths)
		if r.chance(1, 2) {
			path = genPath(r, doc)
		}
		if strings.Contains(enc(w1), "x24") {
			st.Nontrivial++
		}
		if len(st.Samples) < 3 {
			st.Samples = append(st.Samples, "doc="+enc(doc)+" weird="+enc(w1))
		}
		cl := func() bsonkit.Doc { d := bsonkit.MustConvert(doc); return d }
		wd := func(d bson.D) bsonkit.Doc { x := bsonkit.MustConvert(d); return x }
		val := genWeirdValue(r, 2)

		st.Dist["entry-points"] += 24
		report("bsonkit.Compare", guarded(func() { bsonkit.Compare(val, genWeirdValue(r, 2)) }), val)
		report("bsonkit.Get", guarded(func() { bsonkit.Get(cl(), path) }), doc, path)
		report("bsonkit.All", guarded(func() { bsonkit.All(cl(), path, r.chance(1, 2), r.chance(1, 2)) }), doc, path)
		if !strings.Contains(path, "999") {
			report("bsonkit.Put", guarded(func() { bsonkit.Put(cl(), path, val, r.chance(1, 2)) }), doc, path, val)
			report("bsonkit.Increment", guarded(func() { bsonkit.Increment(cl(), path, val) }), doc, path, val)
			report("bsonkit.Multiply", guarded(func() { bsonkit.Multiply(cl(), path, val) }), doc, path, val)
			report("bsonkit.Push", guarded(func() { bsonkit.Push(cl(), path, val) }), doc, path, val)
		}
		report("bsonkit.Unset", guarded(func() { bsonkit.Unset(cl(), path) }), doc, path)
		report("bsonkit.Pop", guarded(func() { bsonkit.Pop(cl(), path, r.chance(1, 2)) }), doc, path)
		report("bsonkit.Add", guarded(func() { bsonkit.Add(val, genNumber(r)) }), val)
		report("bsonkit.Mul", guarded(func() { bsonkit.Mul(genNumber(r), val) }), val)
		report("bsonkit.Mod", guarded(func() { bsonkit.Mod(genNumber(r), val); bsonkit.Mod(val, genNumber(r)) }), val)
		list := bsonkit.List{cl(), wd(w3), cl()}
		report("bsonkit.Collect", guarded(func() { bsonkit.Collect(list, path, r.chance(1, 2), r.chance(1, 2), r.chance(1, 2), r.chance(1, 2)) }), doc, path)
		report("mongokit.Match", guarded(func() { mongokit.Match(cl(), wd(w1)) }), doc, w1)
		report("mongokit.Extract", guarded(func() { mongokit.Extract(wd(w1)) }), w1)
		if !strings.Contains(enc(w2), "393939") {
			report("mongokit.Apply", guarded(func() {
				mongokit.Apply(cl(), wd(w1), wd(w2), r.chance(1, 2), bsonkit.List{wd(w3)})
			}), doc, w1, w2, w3)
		}
		report("mongokit.Project", guarded(func() { mongokit.Project(cl(), wd(w1)) }), doc, w1)
		report("mongokit.Sort", guarded(func() { mongokit.Sort(list, wd(w1)) }), doc, w1)
		report("mongokit.Columns", guarded(func() { mongokit.Columns(wd(w1)) }), w1)
		report("mongokit.Distinct", guarded(func() { mongokit.Distinct(list, path) }), doc, path)
		report("mongokit.CreateIndex+Build", guarded(func() {
			ix, err := mongokit.CreateIndex(mongokit.IndexConfig{Key: wd(w3), Unique: r.chance(1, 2), Partial: wd(w1)})
			if err == nil {
				ix.Build(list)
			}
		}), w3, w1)
		report("bsonkit.schema", guarded(func() {
			mongokit.Match(cl(), bsonkit.MustConvert(bson.D{{Key: "$jsonSchema", Value: w1}}))
		}), doc, w1)

		// driver level (every few iterations; keeps the collection small)
		if i%4 == 0 {
			st.Dist["driver-calls"] += 7
			idDoc := bson.D{{Key: "_id", Value: pick(r, []interface{}{bson.D{{Key: "k", Value: int32(r.intn(2))}}, primitive.Binary{Data: []byte{byte(r.intn(2))}}, int32(r.intn(3)), bson.A{int32(1)}})}, {Key: "a", Value: val}}
			report("Collection.InsertOne", guarded(func() { coll.InsertOne(ctx, idDoc) }), idDoc)
			report("Collection.UpdateOne", guarded(func() { coll.UpdateOne(ctx, bson.D{{Key: "_id", Value: idDoc[0].Value}}, w2) }), idDoc, w2)
			report("Collection.UpdateMany(weird filter)", guarded(func() {
				coll.UpdateMany(ctx, w1, bson.D{{Key: "$set", Value: bson.D{{Key: "z", Value: val}}}}, options.Update().SetUpsert(r.chance(1, 2)))
			}), w1, val)
			report("Collection.ReplaceOne", guarded(func() {
				coll.ReplaceOne(ctx, bson.D{{Key: "_id", Value: idDoc[0].Value}}, bson.D{{Key: "b", Value: val}})
			}), idDoc)
			report("Collection.Find", guarded(func() {
				cur, err := coll.Find(ctx, w1, options.Find().SetSort(w3).SetProjection(w2).SetSkip(int64(r.intn(3))).SetLimit(int64(r.intn(3))))
				if err == nil {
					var out []bson.D
					cur.All(ctx, &out)
				}
			}), w1, w3, w2)
			report("Collection.FindOneAndUpdate", guarded(func() {
				coll.FindOneAndUpdate(ctx, w1, w2, options.FindOneAndUpdate().SetArrayFilters(options.ArrayFilters{Filters: []interface{}{w3}}).SetUpsert(r.chance(1, 3)))
			}), w1, w2, w3)
			report("Collection.Distinct", guarded(func() { coll.Distinct(ctx, pick(r, []string{"a", "a.b", "_id", "a.0"}), w1) }), w1)
			report("Indexes.CreateOne", guarded(func() {
				coll.Indexes().CreateOne(ctx, mongo.IndexModel{Keys: w3, Options: options.Index().SetPartialFilterExpression(w1)})
			}), w3, w1)
			// the engine must still serve the next call
			probe++
			res := guarded(func() {
				c2, cancel := context.WithTimeout(ctx, 2*time.Second)
				defer cancel()
				if _, err := client.Database("db").Collection("probe").InsertOne(c2, bson.D{{Key: "n", Value: int64(probe)}}); err != nil {
					panic("probe write failed: " + err.Error())
				}
			})
			if res != "" && !seenSig["C20:engine-unusable"] {
				seenSig["C20:engine-unusable"] = true
				fails = append(fails, oracleFailure{Property: "C20", Signature: "C20:engine-unusable", What: "after the preceding calls a probe write no longer succeeds: " + res})
			}
			if i%40 == 0 {
				coll.Drop(ctx)
			}
		}
	}
	return fails
}

func init() {
	registerOracle(&oracle{prop: "C20", name: "malformed-stream", run: oraclePanic})
}
